(* C13 lemmas about coq/Bind/PytdModel.v: the stub-function mapper against the same closed-form
   description (RefErr, ref_dict) the other two binders are characterised with in Proofs.v. *)
From Coq Require Import List Arith Bool Lia.
From PV Require Import Bind.Model Bind.Proofs Bind.PytdModel.
Import ListNotations.

Lemma dget_dupdate_notin k d o : ~ In k (keys o) -> dget k (dupdate d o) = dget k d.
Proof.
  revert d. induction o as [|[k0 v0] o IH]; intros d H; simpl; auto.
  unfold dupdate in *. simpl. rewrite IH.
  - rewrite dget_dset. destruct (k =? k0) eqn:E; auto. apply Nat.eqb_eq in E. exfalso. apply H. simpl. auto.
  - intros Hin. apply H. simpl. auto.
Qed.

Lemma dmem_dset k k' v d : dmem k (dset k' v d) = (k =? k') || dmem k d.
Proof. unfold dmem. rewrite dget_dset. destruct (k =? k'); reflexivity. Qed.

Lemma named_loop_spec P ks :
  forall d, NoDup ks ->
  (existsb (fun k => negb (mem k P) && dmem k d) ks = true -> exists k, named_loop P ks d = inr k) /\
  (existsb (fun k => negb (mem k P) && dmem k d) ks = false ->
   exists d', named_loop P ks d = inl d' /\
              forall p, dget p d' = if mem p ks && negb (mem p P) then Some (Kw p) else dget p d).
Proof.
  induction ks as [|k rest IH]; intros d NK.
  - simpl. split; [discriminate|]. intros _. exists d. split; auto.
  - inversion NK as [|? ? Hk Hr]; subst. simpl. destruct (mem k P) eqn:EP; simpl.
    + destruct (IH d Hr) as [IH1 IH2]. split; [exact IH1|]. intros Hf. destruct (IH2 Hf) as [d' [E Hd]].
      exists d'. split; auto. intros p. rewrite Hd. destruct (p =? k) eqn:Epk; simpl; auto.
      apply Nat.eqb_eq in Epk. subst p. rewrite EP. simpl. rewrite !andb_false_r. reflexivity.
    + destruct (dmem k d) eqn:Ed; simpl.
      { split; [eauto|discriminate]. }
      assert (Hext : existsb (fun k0 => negb (mem k0 P) && dmem k0 (dset k (Kw k) d)) rest
                     = existsb (fun k0 => negb (mem k0 P) && dmem k0 d) rest).
      { apply existsb_ext_in. intros k' Hk'. rewrite dmem_dset.
        assert (k' =? k = false) as -> by (apply Nat.eqb_neq; intros ->; auto). reflexivity. }
      destruct (IH (dset k (Kw k) d) Hr) as [IH1 IH2]. rewrite Hext in IH1, IH2.
      split; [exact IH1|]. intros Hf. destruct (IH2 Hf) as [d' [E Hd]].
      exists d'. split; auto. intros p. rewrite Hd, dget_dset. destruct (p =? k) eqn:Epk; simpl; auto.
      apply Nat.eqb_eq in Epk. subst p. rewrite EP. simpl.
      assert (mem k rest = false) as -> by (apply mem_nIn; exact Hk). reflexivity.
Qed.

(* arg_dict before the keyword loop *)
Definition arg_dict0 (b : bool) (an : nat -> name) (s : sig) (c : shape) : dict :=
  if is_some (varargs s) && b
  then dupdate (positional s c)
               (map (fun i => (an i, Pos i)) (skipn (length (param_names s)) (seq 0 (npos c))))
  else positional s c.

Lemma arg_dict0_get b an s c p :
  (forall i, p <> an i) -> dget p (arg_dict0 b an s c) = dget p (positional s c).
Proof.
  intros H. unfold arg_dict0. destruct (is_some (varargs s) && b); auto.
  apply dget_dupdate_notin. unfold keys. rewrite map_map. simpl. rewrite in_map_iff.
  intros [i [E _]]. apply (H i). auto.
Qed.

Lemma pos_dget_A s c j p :
  names_ok s -> In (j, p) (indexed 0 (param_names s)) ->
  dget p (positional s c) = if j <? npos c then Some (Pos j) else None.
Proof.
  intros W H. unfold positional. rewrite (dget_combine_pos _ 0 (npos c) j p); auto. apply W.
Qed.

Lemma negb_mem_posonly s j p :
  names_ok s -> In (j, p) (indexed 0 (param_names s)) ->
  negb (mem p (posonly s)) = (length (posonly s) <=? j).
Proof.
  intros W H. pose proof (pos_index_posonly s j p W H) as Hi.
  destruct (mem p (posonly s)) eqn:E; simpl; symmetry.
  - apply mem_In in E. apply Nat.leb_gt. tauto.
  - apply mem_nIn in E. apply Nat.leb_le.
    destruct (Nat.lt_ge_cases j (length (posonly s))) as [L|L]; [exfalso; apply E; apply Hi; exact L | exact L].
Qed.

Theorem pytd_ref b an s c :
  wf_sig s -> wf_shape c -> argname_fresh an s c ->
  match bind_pytd b an s c with
  | Err _ => RefErr s c
  | Ok d => ~ RefErr s c /\
            forall p, In p (all_names s) ->
              (kwargs s <> Some p -> dget p d = dget p (ref_dict s c)) /\
              (kwargs s = Some p ->
               dget p d = Some (KwArgs (filter (fun k => negb (mem k (param_names s ++ kwonly s))) (kws c))))
  end.
Proof.
  intros [WN WD] NK FR. unfold wf_shape in NK. pose proof (wf_names s WN) as W.
  unfold bind_pytd. cbv zeta. rewrite seq_length.
  change (dupdate [] (combine (param_names s) (map Pos (seq 0 (npos c)))))
    with (dict_of (combine (param_names s) (map Pos (seq 0 (npos c))))).
  rewrite (dict_of_id (combine (param_names s) (map Pos (seq 0 (npos c)))))
    by (rewrite keys_combine_pos; apply NoDup_firstn; apply W).
  fold (positional s c). fold (arg_dict0 b an s c). unfold RefErr.
  (* 1. too many positional arguments *)
  destruct ((length (param_names s) <? npos c) && negb (is_some (varargs s))) eqn:E3.
  { apply andb_prop in E3. destruct E3 as [E3 E3v]. apply Nat.ltb_lt in E3. right. right. left. split; auto.
    destruct (varargs s); simpl in E3v; [discriminate|reflexivity]. }
  assert (N3 : ~ (length (param_names s) < npos c /\ varargs s = None)).
  { intros [H1 H2]. rewrite H2 in E3. simpl in E3. rewrite andb_true_r in E3. apply Nat.ltb_ge in E3. lia. }
  (* facts about the placeholder names *)
  assert (FK : forall k, In k (kws c) -> forall i, k <> an i) by (intros k Hk i ->; apply (proj1 (FR i)); exact Hk).
  assert (FP : forall p, In p (param_names s ++ kwonly s) -> forall i, p <> an i)
    by (intros p Hp i ->; apply (proj2 (FR i)); exact Hp).
  (* 2. the keyword loop *)
  destruct (named_loop_spec (posonly s) (kws c) (arg_dict0 b an s c) NK) as [NL1 NL2].
  destruct (existsb (fun k => negb (mem k (posonly s)) && dmem k (arg_dict0 b an s c)) (kws c)) eqn:E1.
  { destruct (NL1 eq_refl) as [k0 Ek0]. rewrite Ek0.
    apply existsb_exists in E1. destruct E1 as [k [Hk Hc]]. apply andb_prop in Hc. destruct Hc as [Hc1 Hc2].
    unfold dmem in Hc2. rewrite (arg_dict0_get b an s c k (FK k Hk)) in Hc2.
    destruct (dget k (positional s c)) eqn:Eg; [|discriminate].
    assert (In k (param_names s)) as HA.
    { destruct (in_dec Nat.eq_dec k (param_names s)) as [Hin|Hn]; auto.
      unfold positional in Eg. rewrite dget_combine_notin in Eg; auto. discriminate. }
    destruct (In_A_indexed s k HA) as [j [Hjp Hj]]. rewrite (pos_dget_A s c j k W Hjp) in Eg.
    destruct (j <? npos c) eqn:Ej; [|discriminate]. apply Nat.ltb_lt in Ej.
    left. exists j, k. repeat split; auto.
    rewrite (negb_mem_posonly s j k W Hjp) in Hc1. apply Nat.leb_le. exact Hc1. }
  destruct (NL2 eq_refl) as [AD [EAD HAD]]. rewrite EAD.
  assert (N1 : ~ (exists j p, In (j, p) (indexed 0 (param_names s)) /\ j < npos c /\ length (posonly s) <= j /\ In p (kws c))).
  { intros [j [p [Hjp [Hj [Hnp Hk]]]]]. rewrite existsb_false in E1. specialize (E1 p Hk).
    rewrite (negb_mem_posonly s j p W Hjp) in E1.
    assert (length (posonly s) <=? j = true) as X by (apply Nat.leb_le; exact Hnp). rewrite X in E1. simpl in E1.
    unfold dmem in E1. rewrite (arg_dict0_get b an s c p (FK p Hk)), (pos_dget_A s c j p W Hjp) in E1.
    assert (j <? npos c = true) as X2 by (apply Nat.ltb_lt; exact Hj). rewrite X2 in E1. discriminate. }
  (* lookups in the final arg_dict *)
  assert (ADpos : forall j p, In (j, p) (indexed 0 (param_names s)) ->
            dget p AD = if mem p (kws c) && (length (posonly s) <=? j) then Some (Kw p)
                        else if j <? npos c then Some (Pos j) else None).
  { intros j p Hjp. rewrite HAD. rewrite (negb_mem_posonly s j p W Hjp).
    destruct (mem p (kws c) && (length (posonly s) <=? j)); auto.
    rewrite arg_dict0_get; [apply pos_dget_A; auto|].
    apply FP. apply in_or_app. left. apply indexed_range in Hjp. tauto. }
  assert (ADkwo : forall p, In p (kwonly s) -> dget p AD = if mem p (kws c) then Some (Kw p) else None).
  { intros p Hp. rewrite HAD.
    assert (~ In p (param_names s)) as HnA by (intros Hin; eapply nd_AK; eauto).
    assert (mem p (posonly s) = false) as -> by (apply mem_nIn; intros Hin; apply HnA; apply In_posonly_A; auto).
    simpl. rewrite andb_true_r. destruct (mem p (kws c)); auto.
    rewrite arg_dict0_get; [|apply FP; apply in_or_app; auto].
    unfold positional. apply dget_combine_notin; auto. }
  rewrite !nonempty_filter.
  (* 3. unknown keywords without **kwargs *)
  destruct (existsb (fun k => negb (mem k (param_names s ++ kwonly s))) (kws c) && negb (is_some (kwargs s))) eqn:E2.
  { apply andb_prop in E2. destruct E2 as [E2 E2k]. apply existsb_exists in E2. destruct E2 as [k [Hk Hc]].
    right. left. split.
    - destruct (kwargs s); simpl in E2k; [discriminate|reflexivity].
    - exists k. split; auto. apply negb_true_iff in Hc. apply mem_nIn in Hc. intros Hin. apply Hc.
      apply in_app_or in Hin. apply in_or_app. destruct Hin; [left; apply In_pkw_A; auto | right; auto]. }
  (* 4. positional-only names as keywords without **kwargs *)
  destruct (existsb (fun k => mem k (posonly s)) (kws c) && negb (is_some (kwargs s))) eqn:E2'.
  { apply andb_prop in E2'. destruct E2' as [E3' E3k]. apply existsb_exists in E3'. destruct E3' as [k [Hk Hc]].
    right. left. split.
    - destruct (kwargs s); simpl in E3k; [discriminate|reflexivity].
    - exists k. split; auto. apply mem_In in Hc. intros Hin. apply in_app_or in Hin. destruct Hin as [Hin|Hin].
      + eapply nd_PQ; eauto.
      + eapply nd_AK; eauto. apply In_posonly_A; auto. }
  assert (N2 : ~ (kwargs s = None /\ exists k, In k (kws c) /\ ~ In k (pos_or_kw s ++ kwonly s))).
  { intros [Hkw [k [Hk Hn]]]. rewrite Hkw in E2, E2'. simpl in E2, E2'. rewrite andb_true_r in E2, E2'.
    rewrite existsb_false in E2, E2'. specialize (E2 k Hk). specialize (E2' k Hk).
    apply negb_false_iff in E2. apply mem_In in E2. apply mem_nIn in E2'. apply Hn.
    apply in_app_or in E2. apply in_or_app. destruct E2 as [E2|E2]; auto.
    unfold param_names in E2. apply in_app_or in E2. destruct E2; [tauto|auto]. }
  (* 5. missing parameters *)
  destruct (find (fun p => negb (dmem p AD) && negb (mem p (defaults s))) (param_names s ++ kwonly s)) as [key|] eqn:E4.
  { apply find_some in E4. destruct E4 as [Hin Hm]. apply andb_prop in Hm. destruct Hm as [Hm HD].
    apply negb_true_iff in Hm, HD. apply mem_nIn in HD. unfold dmem in Hm.
    apply in_app_or in Hin. destruct Hin as [Hin|Hin].
    - destruct (In_A_indexed s key Hin) as [j [Hjp Hj]]. rewrite (ADpos j key Hjp) in Hm.
      right. right. right. left. exists j, key.
      destruct (mem key (kws c) && (length (posonly s) <=? j)) eqn:Ek; [discriminate|].
      destruct (j <? npos c) eqn:Ej; [discriminate|]. apply Nat.ltb_ge in Ej.
      repeat split; auto. intros [Hl Hk]. apply mem_In in Hk. apply Nat.leb_le in Hl. rewrite Hk, Hl in Ek. discriminate.
    - rewrite (ADkwo key Hin) in Hm. right. right. right. right. exists key.
      destruct (mem key (kws c)) eqn:Ek; [discriminate|]. apply mem_nIn in Ek. auto. }
  assert (N4 : ~ (exists j p, In (j, p) (indexed 0 (param_names s)) /\ npos c <= j
                  /\ ~ (length (posonly s) <= j /\ In p (kws c)) /\ ~ In p (defaults s))).
  { intros [j [p [Hjp [Hj [Hnk Hd]]]]].
    pose proof (find_none _ _ E4 p) as Hf.
    assert (In p (param_names s ++ kwonly s)) as Hin by (apply in_or_app; left; apply indexed_range in Hjp; tauto).
    specialize (Hf Hin). cbv beta in Hf. apply mem_nIn in Hd. rewrite Hd in Hf. simpl in Hf. rewrite andb_true_r in Hf.
    apply negb_false_iff in Hf. unfold dmem in Hf. rewrite (ADpos j p Hjp) in Hf.
    destruct (mem p (kws c) && (length (posonly s) <=? j)) eqn:Ek.
    { apply andb_prop in Ek. destruct Ek as [Ek1 Ek2]. apply mem_In in Ek1. apply Nat.leb_le in Ek2. tauto. }
    assert (j <? npos c = false) as Ej by (apply Nat.ltb_ge; lia). rewrite Ej in Hf. discriminate. }
  assert (N5 : ~ (exists p, In p (kwonly s) /\ ~ In p (kws c) /\ ~ In p (defaults s))).
  { intros [p [Hp [Hk Hd]]].
    pose proof (find_none _ _ E4 p) as Hf.
    assert (In p (param_names s ++ kwonly s)) as Hin by (apply in_or_app; auto).
    specialize (Hf Hin). cbv beta in Hf. apply mem_nIn in Hd. rewrite Hd in Hf. simpl in Hf. rewrite andb_true_r in Hf.
    apply negb_false_iff in Hf. unfold dmem in Hf. rewrite (ADkwo p Hp) in Hf.
    apply mem_nIn in Hk. rewrite Hk in Hf. discriminate. }
  split.
  { intros [H|[H|[H|[H|H]]]]; auto. }
  (* values *)
  set (val := fun p => match dget p AD with Some v => v | None => Default end).
  set (params := param_names s ++ kwonly s).
  assert (V1 : forall j p, In (j, p) (indexed 0 (param_names s)) -> val p = ref_val_pos s c j p).
  { intros j p Hjp. unfold val. rewrite (ADpos j p Hjp). unfold ref_val_pos.
    destruct (j <? npos c) eqn:Ej.
    - destruct (mem p (kws c) && (length (posonly s) <=? j)) eqn:Ek; auto.
      exfalso. apply N1. exists j, p. apply andb_prop in Ek. destruct Ek as [Ek1 Ek2].
      apply mem_In in Ek1. apply Nat.leb_le in Ek2. apply Nat.ltb_lt in Ej. auto.
    - rewrite (andb_comm (length (posonly s) <=? j)).
      destruct (mem p (kws c) && (length (posonly s) <=? j)); auto. }
  assert (V2 : forall p, In p (kwonly s) -> val p = ref_val_kwo c p).
  { intros p Hp. unfold val. rewrite (ADkwo p Hp). unfold ref_val_kwo. destruct (mem p (kws c)); auto. }
  intros p Hp. apply all_names_cases in Hp. rewrite dget_app, (dget_map_self val).
  destruct Hp as [Hp|[Hp|[Hp|Hp]]].
  - assert (mem p params = true) as -> by (apply mem_In; apply in_or_app; auto).
    destruct (In_A_indexed s p Hp) as [j [Hjp _]]. split.
    + intros _. rewrite (V1 j p Hjp). symmetry. apply ref_dict_pos; auto.
    + intros Hk. destruct (nd_kn s W p Hk) as [H1 _]. tauto.
  - assert (mem p params = true) as -> by (apply mem_In; apply in_or_app; auto). split.
    + intros _. rewrite (V2 p Hp). symmetry. apply ref_dict_kwo; auto.
    + intros Hk. destruct (nd_kn s W p Hk) as [_ [H1 _]]. tauto.
  - destruct (nd_va s W p Hp) as [H1 H2].
    assert (mem p params = false) as -> by (apply mem_nIn; intros Hin; apply in_app_or in Hin; tauto).
    rewrite dget_app, Hp. simpl. rewrite Nat.eqb_refl. split.
    + intros _. rewrite (ref_dict_va s c p W Hp). unfold ref_star. rewrite skipn_seq'. reflexivity.
    + intros Hk. destruct (nd_kn s W p Hk) as [_ [_ H3]]. tauto.
  - destruct (nd_kn s W p Hp) as [H1 [H2 H3]].
    assert (mem p params = false) as -> by (apply mem_nIn; intros Hin; apply in_app_or in Hin; tauto).
    rewrite dget_app, Hp. split; [intros Hne; exfalso; apply Hne; reflexivity|]. intros _.
    destruct (varargs s) as [va|] eqn:Ev; simpl.
    + assert (p =? va = false) as -> by (apply Nat.eqb_neq; intros ->; apply H3; reflexivity).
      rewrite Nat.eqb_refl. reflexivity.
    + rewrite Nat.eqb_refl. reflexivity.
Qed.

(* ---------------------------------------------------------------------------------- *)
(* the property for stub functions *)

Lemma bind_pytd_agree_except_kwargs_lemma :
  forall b an s c, wf_sig s -> wf_shape c -> argname_fresh an s c ->
  agree_except_kwargs s (bind_pytd b an s c) (bind_c s c).
Proof.
  intros b an s c WS WC FR. pose proof (pytd_ref b an s c WS WC FR) as HP. pose proof (c_ref s c WS WC) as HC.
  pose proof (wf_names s (proj1 WS)) as W.
  destruct (bind_pytd b an s c) as [d1|e1], (bind_c s c) as [d2|e2]; simpl; auto.
  - destruct HP as [_ HP], HC as [_ HC]. intros p Hp Hne. destruct (HP p Hp) as [H1 _].
    rewrite (H1 Hne), (HC p Hp). split; auto. apply ref_dict_total; auto.
  - destruct HP as [HP _]. auto.
  - destruct HC as [HC _]. auto.
Qed.

Lemma bind_pytd_err_agree_lemma :
  forall b an s c, wf_sig s -> wf_shape c -> argname_fresh an s c ->
  is_err (bind_pytd b an s c) = is_err (bind_c s c).
Proof.
  intros b an s c WS WC FR. pose proof (bind_pytd_agree_except_kwargs_lemma b an s c WS WC FR) as H.
  destruct (bind_pytd b an s c), (bind_c s c); simpl in *; auto; contradiction.
Qed.

Lemma bind_pytd_agree_partial_lemma :
  forall b an s c, wf_sig s -> wf_shape c -> argname_fresh an s c ->
  (kwargs s = None \/ forall k, In k (kws c) -> ~ In k (posonly s)) ->
  agree s (bind_pytd b an s c) (bind_c s c).
Proof.
  intros b an s c WS WC FR Hb. pose proof (pytd_ref b an s c WS WC FR) as HP. pose proof (c_ref s c WS WC) as HC.
  pose proof (wf_names s (proj1 WS)) as W.
  destruct (bind_pytd b an s c) as [d1|e1], (bind_c s c) as [d2|e2]; simpl; auto.
  - destruct HP as [_ HP], HC as [_ HC]. intros p Hp. destruct (HP p Hp) as [H1 H2].
    assert (E : dget p d1 = dget p (ref_dict s c)).
    { destruct (kwargs s) as [kn|] eqn:Ekn.
      + destruct (Nat.eq_dec kn p) as [->|Hne].
        * rewrite (H2 eq_refl). rewrite (ref_dict_kn s c p W Ekn). unfold ref_starstar. f_equal. f_equal.
          destruct Hb as [Hb|Hb]; [discriminate|].
          apply filter_ext_in. intros k Hk. unfold param_names. rewrite <- app_assoc, (mem_app k (posonly s)).
          assert (mem k (posonly s) = false) as -> by (apply mem_nIn; auto). reflexivity.
        * apply H1. intros E. inversion E. auto.
      + apply H1. discriminate. }
    rewrite E, (HC p Hp). split; auto. apply ref_dict_total; auto.
  - destruct HP as [HP _]. auto.
  - destruct HC as [HC _]. auto.
Qed.

Lemma bind_pytd_disagree_exact_lemma :
  forall b an s c d, wf_sig s -> wf_shape c -> argname_fresh an s c ->
  kwargs s <> None -> (exists k, In k (kws c) /\ In k (posonly s)) ->
  bind_pytd b an s c = Ok d -> ~ agree s (bind_pytd b an s c) (bind_c s c).
Proof.
  intros b an s c d WS WC FR Hkw [k [Hk HkP]] Hok Hag. pose proof (wf_names s (proj1 WS)) as W.
  destruct (kwargs s) as [kn|] eqn:Ekn; [|congruence].
  pose proof (pytd_ref b an s c WS WC FR) as HP. rewrite Hok in HP, Hag. destruct HP as [_ HP].
  pose proof (c_ref s c WS WC) as HC. destruct (bind_c s c) as [d2|e2]; simpl in Hag; [|exact Hag].
  destruct HC as [_ HC].
  assert (In kn (all_names s)) as Hin.
  { unfold all_names. rewrite Ekn. rewrite !in_app_iff. simpl. tauto. }
  destruct (Hag kn Hin) as [Heq _]. destruct (HP kn Hin) as [_ H2].
  rewrite (HC kn Hin), (ref_dict_kn s c kn W Ekn), (H2 Ekn) in Heq.
  unfold ref_starstar in Heq. inversion Heq as [Hf].
  assert (In k (filter (fun k0 => negb (mem k0 (pos_or_kw s ++ kwonly s))) (kws c))) as Hr.
  { apply filter_In. split; auto. apply negb_true_iff. apply mem_nIn. intros Hi. apply in_app_or in Hi.
    destruct Hi as [Hi|Hi]; [eapply nd_PQ; eauto | eapply nd_AK; eauto; apply In_posonly_A; auto]. }
  rewrite <- Hf in Hr. apply filter_In in Hr. destruct Hr as [_ Hr]. apply negb_true_iff in Hr. apply mem_nIn in Hr.
  apply Hr. apply in_or_app. left. apply In_posonly_A. exact HkP.
Qed.

Lemma bind_pytd_agree_boundary_lemma :
  forall b an s c, wf_sig s -> wf_shape c -> argname_fresh an s c ->
  (agree s (bind_pytd b an s c) (bind_c s c) <->
   (kwargs s = None \/ (forall k, In k (kws c) -> ~ In k (posonly s)) \/ is_err (bind_pytd b an s c) = true)).
Proof.
  intros b an s c WS WC FR. split.
  - intros Hag. destruct (kwargs s) as [kn|] eqn:Ekn; [|auto]. right.
    destruct (existsb (fun k => mem k (posonly s)) (kws c)) eqn:EP.
    + right. destruct (bind_pytd b an s c) as [d|e] eqn:Eb; [|reflexivity]. exfalso.
      apply existsb_exists in EP. destruct EP as [k [Hk Hm]]. apply mem_In in Hm.
      apply (bind_pytd_disagree_exact_lemma b an s c d WS WC FR); try congruence; eauto.
    + left. rewrite existsb_false in EP. intros k Hk. apply mem_nIn. auto.
  - intros [H|[H|H]].
    + apply bind_pytd_agree_partial_lemma; auto.
    + apply bind_pytd_agree_partial_lemma; auto.
    + pose proof (bind_pytd_err_agree_lemma b an s c WS WC FR) as HE. rewrite H in HE.
      destruct (bind_pytd b an s c); [discriminate|]. destruct (bind_c s c); [discriminate|]. exact I.
Qed.

(* witnesses *)
Definition argname14 (i : nat) : name := 14 + i.

(* stub: def f(x, /, **kw) ; call f(a0, x=..): x is dropped instead of landing in **kw *)
Lemma bind_pytd_agree_refuted_binding_lemma :
  exists s c, wf_sig s /\ wf_shape c /\ argname_fresh argname14 s c
              /\ lookup_all s (bind_pytd false argname14 s c) = Some [Some (Pos 0); Some (KwArgs [])]
              /\ lookup_all s (bind_c s c) = Some [Some (Pos 0); Some (KwArgs [0])]
              /\ ~ agree s (bind_pytd false argname14 s c) (bind_c s c).
Proof.
  exists sig_posonly_kwargs, (mkShape 1 [0]). split; [exact wf_sig_posonly_kwargs|]. split; [|split; [|repeat split]].
  - apply wf_shapeb_sound. reflexivity.
  - intros i. unfold argname14. simpl. split; intros H; repeat (destruct H as [H|H]; [discriminate H|]); exact H.
  - vm_compute. intros H. destruct (H 1 (or_intror (or_introl eq_refl))) as [H1 _]. discriminate H1.
Qed.

(* stub: def h( *va: int, **kw) ; call h(a0, _0=..): the keyword collides with the placeholder name of
   the overflowing positional argument and is reported as a duplicate; CPython accepts the call *)
Lemma bind_pytd_argname_refuted_lemma :
  exists s c, wf_sig s /\ wf_shape c /\ In (argname14 0) (kws c)
              /\ is_err (bind_pytd true argname14 s c) = true /\ is_err (bind_c s c) = false
              /\ is_err (bind_pytd false argname14 s c) = false.
Proof.
  exists (mkSig [] [] [] [] (Some 9) (Some 10)), (mkShape 1 [14]).
  split; [apply wf_sigb_sound; reflexivity|]. split; [apply wf_shapeb_sound; reflexivity|].
  split; [simpl; auto|]. vm_compute. repeat split; reflexivity.
Qed.
