(* C13, call sites with splats: the witnesses that refute "no false positives" for the unpacker as it stands,
   and the facts about the call-depth rule.  (The general lemmas are in Bind/SplatProofs.v.) *)
From Coq Require Import List Arith Bool Lia.
From PV Require Import Bind.Model Bind.Proofs Bind.SplatModel.
Import ListNotations.

(* def f(d): ...   f( *xs, *(a,))  -- Args.starargs = (Splat xs, a) *)
Definition sig_one : sig := mkSig [] [3] [] [] None None.
Definition call_star_then_arg : xcall := mkX 0 [IStar; IArg] [] false.

(* def f(a, /, d, **kw): ...   f( *xs, a=k) *)
Definition sig_posonly_kw : sig := mkSig [0] [3] [] [] None (Some 10).
Definition call_star_posonly_kw : xcall := mkX 0 [IStar] [0] false.

Lemma splat_fp_refuted_after_lemma :
  exists s c lens, wf_sig s /\ NoDup (x_kws c) /\ (forall k, In k (x_kws c) -> ~ In k (posonly s))
    /\ bind_px s c = Err EWrongArgCount /\ is_err (bind_c s (expand c lens [])) = false.
Proof.
  exists sig_one, call_star_then_arg, [0]. split; [apply wf_sigb_sound; reflexivity|].
  split; [constructor|]. split; [intros k []|]. split; vm_compute; reflexivity.
Qed.

Lemma splat_fp_refuted_posonly_lemma :
  exists s c lens, wf_sig s /\ NoDup (x_kws c) /\ star_last c
    /\ bind_px s c = Err (EMissingParameter 0) /\ is_err (bind_c s (expand c lens [])) = false
    /\ lookup_all s (bind_c s (expand c lens [])) = Some [Some (Pos 0); Some (Pos 1); Some (KwArgs [0])].
Proof.
  exists sig_posonly_kw, call_star_posonly_kw, [2]. split; [apply wf_sigb_sound; reflexivity|].
  split; [constructor; [intros []|constructor]|]. split; [reflexivity|]. repeat split; vm_compute; reflexivity.
Qed.

(* plain arguments written after a splat: the VM hands over ONE indefinite splat, whatever was written *)
Lemma site_items_collapse_lemma :
  forall l, plain_after_splat false l = true -> site_items l = [IStar].
Proof. intros l H. unfold site_items. rewrite H. reflexivity. Qed.

(* without splats the call site is handed over argument by argument *)
Lemma site_items_plain_lemma :
  forall n, site_items (repeat PA n) = repeat IArg n.
Proof.
  intros n. unfold site_items.
  assert (plain_after_splat false (repeat PA n) = false) as -> by (induction n; simpl; auto).
  induction n; simpl; auto. f_equal. exact IHn.
Qed.

(* the depth rule: a binding error is raised at every depth, for every kind of function *)
Lemma depth_raise_iff_lemma :
  forall max_depth frames is_init s c e,
  call_at_depth max_depth frames is_init s c = ORaise e <-> bind_px s c = Err e.
Proof.
  intros. unfold call_at_depth. destruct (bind_px s c) as [d|e'].
  - split; [|discriminate]. destruct ((max_depth <? frames) && negb is_init); discriminate.
  - split; intros H; inversion H; reflexivity.
Qed.

(* and the body is given up on exactly beyond the limit (never for __init__) *)
Lemma depth_unsolvable_iff_lemma :
  forall max_depth frames is_init s c,
  call_at_depth max_depth frames is_init s c = OUnsolvable <->
  (is_err (bind_px s c) = false /\ max_depth < frames /\ is_init = false).
Proof.
  intros. unfold call_at_depth. destruct (bind_px s c) as [d|e']; simpl.
  - destruct (max_depth <? frames) eqn:E; simpl.
    + apply Nat.ltb_lt in E. destruct is_init; simpl; split; try discriminate; intuition discriminate.
    + apply Nat.ltb_ge in E. split; [discriminate|]. intros [_ [H _]]. lia.
  - split; [discriminate|]. intros [H _]. discriminate.
Qed.

(* module-level code handing a function through n helpers calls it with 1 + n frames on the stack:
   with the limit 4 of the module-loading run, the callee's body is not analysed from 4 helpers on *)
Lemma depth_helpers_lemma :
  forall helpers s c, is_err (bind_px s c) = false ->
  (call_at_depth 4 (frames_at_call helpers) false s c = OUnsolvable <-> 4 <= helpers).
Proof.
  intros helpers s c H. rewrite depth_unsolvable_iff_lemma. unfold frames_at_call. split.
  - intros [_ [L _]]. lia.
  - intros L. repeat split; auto. lia.
Qed.
