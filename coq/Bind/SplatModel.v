(* C13 model, call sites with * / ** splats, and the call-depth state machine.

   site_items     : how the 3.12 compiler + pytype/vm.py (BUILD_LIST / LIST_EXTEND / LIST_APPEND /
                    LIST_TO_TUPLE, vm_utils.unpack_iterable, ensure_unpacked_starargs) turn the positional
                    part of a call with a splat into Args.starargs (a tuple of arguments and Splat objects)
   unpack_match   : pytype/abstract/function.py  Args._unpack_and_match_args  (called by Args.simplify when a
                    signature is known: InterpreterFunction.call)
   bind_py_star   : pytype/abstract/_function_base.py  SignedFunction._map_args, now including the branches
                    for args.starargs / args.starstarargs being present
   bind_px        : Args.simplify followed by _map_args, result expressed over the ORIGINAL argument indices
   expand         : the call CPython really performs for given lengths of the indefinite splats / given extra
                    keys of the opaque ** dict
   call_at_depth  : InterpreterFunction.call: match the signature first, then give up at maximum depth

   Every call with a splat is compiled to CALL_FUNCTION_EX: Args(posargs=(), namedargs={}, starargs=T,
   starstarargs=D); a bound method prepends self to posargs (BoundFunction.call), so posargs is kept general.
   Definitions only (no proofs). *)
From Coq Require Import List Arith Bool.
From PV Require Import Bind.Model.
Import ListNotations.

(* ================================================================================== *)
(* the call site as written *)

(* positional part: a plain argument, a splat of a concrete tuple / list of n elements, an indefinite splat *)
Inductive pitem := PA | PT (n : nat) | PX.

(* one entry of Args.starargs: an argument, or a Splat (indefinite iterable) *)
Inductive item := IArg | IStar.

Definition is_star (x : item) : bool := match x with IStar => true | IArg => false end.
Definition is_splat_p (x : pitem) : bool := match x with PA => false | _ => true end.

(* a plain argument written after a splat: the compiler emits LIST_APPEND, pytype calls list.append on the
   list under construction, the list is no longer concrete, LIST_TO_TUPLE yields an indefinite tuple and
   ensure_unpacked_starargs wraps it into ONE Splat *)
Fixpoint plain_after_splat (seen : bool) (l : list pitem) : bool :=
  match l with
  | [] => false
  | PA :: t => seen || plain_after_splat seen t
  | _ :: t => plain_after_splat true t
  end.

Definition site_items (l : list pitem) : list item :=
  if plain_after_splat false l then [IStar]
  else flat_map (fun x => match x with PA => [IArg] | PT n => repeat IArg n | PX => [IStar] end) l.

(* the call after the VM has built Args and starstarargs_as_dict has been merged into namedargs:
   x_npos  = len(args.posargs)                      (1 for a bound method, else 0)
   x_items = the entries of args.starargs           (argument index of entry i = x_npos + i)
   x_kws   = the names in namedargs                 (plain keywords and the constant keys of ** dict literals)
   x_opaque = a non-concrete ** dict is part of the call (args.starstarargs stays set) *)
Record xcall := mkX { x_npos : nat; x_items : list item; x_kws : list name; x_opaque : bool }.

(* ================================================================================== *)
(* Args._unpack_and_match_args *)

Inductive pval := PArg (k : nat) | PAny | PElem (k : nat).
Inductive sval := SStar (k : nat) | STuple (l : list nat).

Fixpoint take_args (l : list item) : nat :=          (* while stars and not is_var_splat(stars[0]) *)
  match l with IArg :: t => S (take_args t) | _ => 0 end.

(* required_posargs: for p in param_names: if p in namedargs or p in defaults: break; += 1 *)
Fixpoint required_posargs (kws D : list name) (ps : list name) : nat :=
  match ps with
  | [] => 0
  | p :: t => if mem p kws || mem p D then 0 else S (required_posargs kws D t)
  end.

(* _splats_to_any over all_args = posargs + starargs_tuple *)
Definition all_any (np : nat) (items : list item) : list pval :=
  map PArg (seq 0 np) ++
  map (fun ix => match snd ix with IArg => PArg (fst ix) | IStar => PAny end) (indexed np items).

Definition unpack_match (s : sig) (c : xcall) : list pval * option sval :=
  let np := x_npos c in
  let items := x_items c in
  let pre_n := take_args items in
  let rest := skipn pre_n items in
  let post_n := take_args (rev rest) in
  let stars := firstn (length rest - post_n) rest in
  let n_matched := np + pre_n + post_n in
  let required := required_posargs (x_kws c) (defaults s) (param_names s) in
  let base := map PArg (seq 0 (np + pre_n)) in
  let last_star := np + pre_n + length stars - 1 in
  if nonempty stars && (post_n =? 0) then
    match varargs s with
    | Some _ => (base, Some (SStar last_star))                                  (* f(<k args>, *ys) *)
    | None => (base ++ repeat (PElem last_star) (required - n_matched), None)   (* _expand_typed_star *)
    end
  else if required <=? n_matched + length stars then
    let all := all_any np items in
    match varargs s with
    | None => (all, None)
    | Some _ =>
      let n_params := length (param_names s) in
      let extra := skipn n_params (seq 0 (np + length items)) in
      (firstn n_params all, if nonempty extra then Some (STuple extra) else None)
    end
  else if nonempty stars then
    let delta := required - n_matched in
    let mid := if length stars =? 1 then repeat (PElem (np + pre_n)) delta else repeat PAny delta in
    (base ++ mid ++ map PArg (seq (np + pre_n + length stars) post_n), None)
  else (base, None).

(* ================================================================================== *)
(* SignedFunction._map_args with args.starargs / args.starstarargs *)

(* for key, kwonly in chain(get_nondefault_params(), ((key, True) for key in sig.kwonly_params)):
     if key not in callargs:
       if args.starstarargs or (args.starargs and not kwonly): callargs[key] = new_unsolvable
       else: raise MissingParameter(key) *)
Fixpoint missing_loop (forgive : bool -> bool) (chain : list (name * bool)) (callargs : dict) : dict + name :=
  match chain with
  | [] => inl callargs
  | (key, kwonly) :: rest =>
    if dmem key callargs then missing_loop forgive rest callargs
    else if forgive kwonly then missing_loop forgive rest (dset key AnyV callargs)
    else inr key
  end.

(* [star]: what args.starargs holds (None = absent); [sstar]: args.starstarargs is present.
   With star = None and sstar = false this is bind_py_gen (coq/Bind/Model.v), see SplatProofs.bind_py_star_plain. *)
Definition bind_py_star (fixed : bool) (star : option value) (sstar : bool) (s : sig) (c : shape) : result py_err :=
  let posargs := map Pos (seq 0 (npos c)) in
  let kwsd := dict_of (map (fun k => (k, Kw k)) (kws c)) in
  let callargs := dict_of (map (fun n => (n, Default)) (defaults s)) in
  let positional := dict_of (combine (param_names s) posargs) in
  let posonly_names := posonly s in
  let dup := filter (fun key => negb (mem key posonly_names) && dmem key kwsd) (keys positional) in
  if nonempty dup then Err (EDuplicateKeyword dup) else
  let kwnames := keys kwsd in
  let extra_kws := filter (fun k => negb (mem k (param_names s ++ kwonly s))) kwnames in
  if nonempty extra_kws && negb (is_some (kwargs s)) then Err (EWrongKeywordArgs extra_kws) else
  let posonly_kws := filter (fun k => mem k posonly_names) kwnames in
  if nonempty posonly_kws && negb (is_some (kwargs s)) then Err (EWrongKeywordArgs posonly_kws) else
  let callargs := dupdate callargs positional in
  let callargs :=
    dupdate callargs
      (if fixed then filter (fun kv => negb (mem (fst kv) posonly_names)) kwsd else kwsd) in
  let nondefault := filter (fun n => negb (mem n (defaults s))) (param_names s) in
  let chain := map (fun n => (n, false)) nondefault ++ map (fun n => (n, true)) (kwonly s) in
  match missing_loop (fun kwonly => sstar || (is_some star && negb kwonly)) chain callargs with
  | inr key => Err (EMissingParameter key)
  | inl callargs =>
    let argcount := length (param_names s) in
    (* if sig.varargs_name: if args.starargs: callargs[va] = args.starargs  (extraneous posargs are dropped)
                            else: callargs[va] = build_tuple(posargs[argcount:])
       elif len(posargs) > argcount: raise WrongArgCount *)
    let after_varargs :=
      match varargs s with
      | Some va =>
        Some (dset va (match star with
                       | Some v => v
                       | None => VarArgs (skipn argcount (seq 0 (npos c)))
                       end) callargs)
      | None => if argcount <? length posargs then None else Some callargs
      end in
    match after_varargs with
    | None => Err EWrongArgCount
    | Some callargs =>
      (* if sig.kwargs_name: if args.starstarargs: callargs[kw] = args.starstarargs else: Dict minus omit *)
      match kwargs s with
      | Some kn =>
        let omit := (if fixed then pos_or_kw s else param_names s) ++ kwonly s in
        Ok (dset kn (if sstar then KwOpaque
                     else KwArgs (filter (fun k => negb (mem k omit)) (kws c))) callargs)
      | None => Ok callargs
      end
    end
  end.

(* ================================================================================== *)
(* Args.simplify + _map_args, over the original argument indices *)

(* a value computed over the simplified posargs [ps], re-expressed over the original argument indices *)
Definition resolve_ix (ps : list pval) (j : nat) : value :=
  match nth_error ps j with
  | Some (PArg k) => Pos k
  | Some PAny => AnyV
  | Some (PElem k) => Elem k
  | None => Pos j
  end.
Definition ix_of (ps : list pval) (j : nat) : nat :=
  match nth_error ps j with Some (PArg k) => k | Some (PElem k) => k | _ => j end.
Definition resolve (ps : list pval) (v : value) : value :=
  match v with
  | Pos j => resolve_ix ps j
  | VarArgs l => VarArgs (map (ix_of ps) l)
  | _ => v
  end.

Definition star_value (sv : sval) : value :=
  match sv with SStar k => StarV k | STuple l => VarArgs l end.

Definition bind_px_gen (fixed : bool) (s : sig) (c : xcall) : result py_err :=
  let '(ps, st) := unpack_match s c in
  match bind_py_star fixed (option_map star_value st) (x_opaque c) s (mkShape (length ps) (x_kws c)) with
  | Err e => Err e
  | Ok d =>
    (* (the value of *args taken from args.starargs is already over the original indices: those are
       >= length ps, where resolve is the identity) *)
    Ok (map (fun kv => (fst kv, resolve ps (snd kv))) d)
  end.
Definition bind_px : sig -> xcall -> result py_err := bind_px_gen true.

(* ================================================================================== *)
(* CPython: the call that really happens *)

(* [lens]: the length of each indefinite splat, in order (missing entries count as 0);
   [extra]: the keys of the opaque ** dict (ignored when the call has none) *)
Fixpoint expanded_npos (items : list item) (lens : list nat) : nat :=
  match items with
  | [] => 0
  | IArg :: t => S (expanded_npos t lens)
  | IStar :: t => match lens with [] => expanded_npos t [] | n :: r => n + expanded_npos t r end
  end.

Definition expand (c : xcall) (lens : list nat) (extra : list name) : shape :=
  mkShape (x_npos c + expanded_npos (x_items c) lens)
          (x_kws c ++ (if x_opaque c then extra else [])).

Definition concrete (c : xcall) : Prop := (forall x, In x (x_items c) -> x = IArg) /\ x_opaque c = false.
Definition concreteb (c : xcall) : bool := forallb (fun x => negb (is_star x)) (x_items c) && negb (x_opaque c).

(* the call has no argument after its last indefinite splat (or has no indefinite splat) *)
Definition star_last (c : xcall) : Prop :=
  take_args (rev (skipn (take_args (x_items c)) (x_items c))) = 0.
Definition star_lastb (c : xcall) : bool :=
  take_args (rev (skipn (take_args (x_items c)) (x_items c))) =? 0.

(* ================================================================================== *)
(* InterpreterFunction.call at a given depth of the frame stack:
     args = args.simplify(...); sig, substs, callargs = self._find_matching_sig(...)   -> may raise
     if self.ctx.vm.is_at_maximum_depth() and not name.endswith(".__init__"): return unsolvable
     ... make_frame, run the body *)
Inductive outcome := ORaise (e : py_err) | OUnsolvable | ORun (d : dict).

Definition call_at_depth (max_depth frames : nat) (is_init : bool) (s : sig) (c : xcall) : outcome :=
  match bind_px s c with
  | Err e => ORaise e
  | Ok d => if (max_depth <? frames) && negb is_init then OUnsolvable else ORun d
  end.

(* a function object handed through [n] helper frames and called in the innermost one: the module frame, the
   helpers, then the callee *)
Definition frames_at_call (helpers : nat) : nat := 1 + helpers.
