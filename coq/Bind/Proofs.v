(* C13 lemmas about coq/Bind/Model.v.

   Both binders are characterised against one closed-form description ([RefErr], [ref_dict]):
     py_ref : bind_py_fixed s c  is  Err  iff RefErr, and on Ok agrees with ref_dict on every parameter
     c_ref  : bind_c s c         likewise
   from which bind_agree_fixed follows; bind_py (the code as it stands) equals bind_py_fixed whenever no
   keyword names a positional-only parameter of a **kwargs function, and disagrees with CPython on every
   other call it accepts. *)
From Coq Require Import List Arith Bool Lia.
From PV Require Import Bind.Model.
Import ListNotations.

(* ---------------------------------------------------------------------------------- *)
(* generic *)

Lemma mem_In k l : mem k l = true <-> In k l.
Proof.
  unfold mem. rewrite existsb_exists. split.
  - intros [x [H1 H2]]. apply Nat.eqb_eq in H2. subst. exact H1.
  - intros H. exists k. split; [exact H | apply Nat.eqb_refl].
Qed.

Lemma mem_nIn k l : mem k l = false <-> ~ In k l.
Proof.
  rewrite <- mem_In. destruct (mem k l); split; intros H; try reflexivity; try congruence.
Qed.

Lemma mem_app k l1 l2 : mem k (l1 ++ l2) = mem k l1 || mem k l2.
Proof. unfold mem. apply existsb_app. Qed.

Lemma nonempty_exists {A} (l : list A) : nonempty l = true <-> exists x, In x l.
Proof. destruct l; simpl; split; intros H; try discriminate; eauto. destruct H as [? []]. Qed.

Lemma nonempty_filter {A} (f : A -> bool) l : nonempty (filter f l) = existsb f l.
Proof. induction l; simpl; auto. destruct (f a); simpl; auto. Qed.

Lemma nonempty_map {A B} (f : A -> B) l : nonempty (map f l) = nonempty l.
Proof. destruct l; reflexivity. Qed.

Lemma existsb_false {A} (f : A -> bool) l : existsb f l = false <-> forall x, In x l -> f x = false.
Proof.
  split.
  - intros H x Hx. destruct (f x) eqn:E; auto.
    assert (existsb f l = true) by (apply existsb_exists; eauto). congruence.
  - intros H. destruct (existsb f l) eqn:E; auto.
    apply existsb_exists in E. destruct E as [x [H1 H2]]. rewrite H in H2; auto.
Qed.

Lemma NoDup_app_l {A} (l1 l2 : list A) : NoDup (l1 ++ l2) -> NoDup l1.
Proof.
  induction l1; simpl; intros H; [constructor|]. inversion H as [|? ? Hn Hd]; subst.
  constructor; auto. rewrite in_app_iff in Hn. tauto.
Qed.

Lemma NoDup_app_r {A} (l1 l2 : list A) : NoDup (l1 ++ l2) -> NoDup l2.
Proof. induction l1; simpl; intros H; auto. inversion H; auto. Qed.

Lemma NoDup_app_disj {A} (l1 l2 : list A) x : NoDup (l1 ++ l2) -> In x l1 -> In x l2 -> False.
Proof.
  induction l1; simpl; intros H H1 H2; [tauto|]. inversion H as [|? ? Hn Hd]; subst. destruct H1.
  - subst. apply Hn. apply in_or_app. auto.
  - auto.
Qed.

(* ---------------------------------------------------------------------------------- *)
(* indexed *)

Lemma indexed_app {A} i (l1 l2 : list A) :
  indexed i (l1 ++ l2) = indexed i l1 ++ indexed (i + length l1) l2.
Proof.
  revert i. induction l1; intros i; simpl.
  - rewrite Nat.add_0_r. reflexivity.
  - rewrite IHl1. replace (S i + length l1) with (i + S (length l1)) by lia. reflexivity.
Qed.

Lemma indexed_range {A} i (l : list A) j x : In (j, x) (indexed i l) -> i <= j < i + length l /\ In x l.
Proof.
  revert i. induction l; intros i; simpl; [tauto|]. intros [H|H].
  - inversion H; subst. split; [lia|auto].
  - apply IHl in H. split; [lia|tauto].
Qed.

Lemma indexed_In {A} i (l : list A) x : In x l -> exists j, In (j, x) (indexed i l).
Proof.
  revert i. induction l; intros i; simpl; [tauto|]. intros [H|H].
  - subst. eauto.
  - destruct (IHl (S i) H) as [j Hj]. eauto.
Qed.

Lemma indexed_fun {A} i (l : list A) j x y : In (j, x) (indexed i l) -> In (j, y) (indexed i l) -> x = y.
Proof.
  revert i. induction l; intros i; simpl; [tauto|]. intros [H1|H1] [H2|H2].
  - congruence.
  - inversion H1; subst. apply indexed_range in H2. lia.
  - inversion H2; subst. apply indexed_range in H1. lia.
  - eauto.
Qed.

Lemma indexed_inj i (l : list name) j1 j2 x :
  NoDup l -> In (j1, x) (indexed i l) -> In (j2, x) (indexed i l) -> j1 = j2.
Proof.
  revert i. induction l; intros i ND; simpl; [tauto|]. inversion ND as [|? ? Hn Hd]; subst. intros [H1|H1] [H2|H2].
  - congruence.
  - inversion H1; subst. apply indexed_range in H2. tauto.
  - inversion H2; subst. apply indexed_range in H1. tauto.
  - eauto.
Qed.

Lemma indexed_length {A} i (l : list A) : length (indexed i l) = length l.
Proof. revert i. induction l; intros; simpl; auto. Qed.

(* ---------------------------------------------------------------------------------- *)
(* dicts *)

Lemma dget_dset k k' v d : dget k (dset k' v d) = if k =? k' then Some v else dget k d.
Proof.
  induction d as [|[k0 v0] d IH]; simpl.
  - reflexivity.
  - destruct (k' =? k0) eqn:E; simpl.
    + apply Nat.eqb_eq in E. subst. destruct (k =? k0); reflexivity.
    + rewrite IH. destruct (k =? k0) eqn:E0; auto.
      destruct (k =? k') eqn:E1; auto. apply Nat.eqb_eq in E0, E1. subst. rewrite Nat.eqb_refl in E. discriminate.
Qed.

Lemma dget_app k d1 d2 : dget k (d1 ++ d2) = match dget k d1 with Some v => Some v | None => dget k d2 end.
Proof. induction d1 as [|[k0 v0] d1 IH]; simpl; auto. destruct (k =? k0); auto. Qed.

Lemma dget_None k d : dget k d = None <-> ~ In k (keys d).
Proof.
  induction d as [|[k0 v0] d IH]; simpl; [tauto|]. destruct (k =? k0) eqn:E.
  - apply Nat.eqb_eq in E. split; [discriminate|]. intros H. exfalso. apply H. auto.
  - apply Nat.eqb_neq in E. rewrite IH. split; intros H; [intros [H1|H1]; [congruence|tauto] | tauto].
Qed.

Lemma dset_fresh k v d : ~ In k (keys d) -> dset k v d = d ++ [(k, v)].
Proof.
  induction d as [|[k0 v0] d IH]; simpl; intros H; auto.
  destruct (k =? k0) eqn:E.
  - apply Nat.eqb_eq in E. exfalso. apply H. auto.
  - rewrite IH; auto.
Qed.

Lemma dupdate_fresh d o : NoDup (keys (d ++ o)) -> dupdate d o = d ++ o.
Proof.
  revert d. induction o as [|[k v] o IH]; intros d H; simpl.
  - rewrite app_nil_r. reflexivity.
  - unfold dupdate in *. simpl. rewrite dset_fresh.
    + rewrite IH; rewrite <- app_assoc; simpl; auto.
    + unfold keys in *. rewrite map_app in H. simpl in H. apply NoDup_remove_2 in H.
      intros Hin. apply H. apply in_or_app. auto.
Qed.

Lemma dict_of_id l : NoDup (keys l) -> dict_of l = l.
Proof. intros H. unfold dict_of. rewrite dupdate_fresh; auto. Qed.

Lemma dget_dupdate k d o :
  NoDup (keys o) -> dget k (dupdate d o) = match dget k o with Some v => Some v | None => dget k d end.
Proof.
  revert d. induction o as [|[k0 v0] o IH]; intros d H; simpl; auto.
  unfold dupdate in *. simpl. inversion H as [|? ? Hn Hd]; subst. rewrite IH; auto. rewrite dget_dset.
  destruct (k =? k0) eqn:E; auto.
  apply Nat.eqb_eq in E. subst. apply dget_None in Hn. rewrite Hn. reflexivity.
Qed.

(* dict(...) of constant-valued items, duplicates allowed *)
Lemma dget_dupdate_const k v d l :
  dget k (dupdate d (map (fun n => (n, v)) l)) = if mem k l then Some v else dget k d.
Proof.
  revert d. induction l as [|a l IH]; intros d; simpl; auto.
  unfold dupdate in *. simpl. rewrite IH. rewrite dget_dset.
  destruct (mem k l) eqn:E; simpl.
  - rewrite orb_true_r. reflexivity.
  - rewrite orb_false_r. reflexivity.
Qed.

Lemma keys_map_pair {A} (f : A -> name) (g : A -> value) l : keys (map (fun x => (f x, g x)) l) = map f l.
Proof. unfold keys. rewrite map_map. reflexivity. Qed.

Lemma dget_map_self (g : name -> value) k l :
  dget k (map (fun n => (n, g n)) l) = if mem k l then Some (g k) else None.
Proof.
  induction l as [|a l IH]; simpl; auto. destruct (k =? a) eqn:E; simpl; auto.
  apply Nat.eqb_eq in E. subst. reflexivity.
Qed.

Lemma dget_filter_map (f : name -> bool) (g : name -> value) k l :
  dget k (filter (fun kv => f (fst kv)) (map (fun n => (n, g n)) l))
  = if mem k l && f k then Some (g k) else None.
Proof.
  induction l as [|a l IH]; simpl; auto. destruct (f a) eqn:Ef; simpl.
  - destruct (k =? a) eqn:E; simpl; auto. apply Nat.eqb_eq in E. subst. rewrite Ef. reflexivity.
  - rewrite IH. destruct (k =? a) eqn:E; simpl; auto. apply Nat.eqb_eq in E. subst. rewrite Ef.
    rewrite andb_false_r. reflexivity.
Qed.

Lemma keys_filter_map (f : name -> bool) (g : name -> value) l :
  keys (filter (fun kv => f (fst kv)) (map (fun n => (n, g n)) l)) = filter f l.
Proof. induction l; simpl; auto. destruct (f a); simpl; rewrite ?IHl; auto. Qed.

Lemma NoDup_filter {A} (f : A -> bool) l : NoDup l -> NoDup (filter f l).
Proof.
  induction l; simpl; intros H; auto. inversion H as [|? ? Hn Hd]; subst. destruct (f a); auto.
  constructor; auto. rewrite filter_In. tauto.
Qed.

(* zip(param_names, posargs) *)
Lemma keys_combine_pos (A : list name) i n : keys (combine A (map Pos (seq i n))) = firstn n A.
Proof.
  revert i n. induction A; intros i n; simpl.
  - destruct n; reflexivity.
  - destruct n; simpl; auto. unfold keys in *. rewrite IHA. reflexivity.
Qed.

Lemma firstn_In {A} n (l : list A) x : In x (firstn n l) -> In x l.
Proof. revert n. induction l; intros n; destruct n; simpl; try tauto. intros [H|H]; eauto. Qed.

Lemma NoDup_firstn {A} n (l : list A) : NoDup l -> NoDup (firstn n l).
Proof.
  revert n. induction l; intros n H; destruct n; simpl; try constructor.
  - inversion H as [|? ? Hn Hd]; subst. intros Hin. apply Hn. eapply firstn_In; eauto.
  - inversion H; auto.
Qed.

Lemma dget_combine_pos (A : list name) i n j p :
  NoDup A -> In (j, p) (indexed i A) ->
  dget p (combine A (map Pos (seq i n))) = if j <? i + n then Some (Pos j) else None.
Proof.
  revert i n. induction A as [|a A IH]; intros i n ND H; simpl in H; [tauto|].
  inversion ND as [|? ? Hn Hd]; subst. destruct n; simpl.
  - destruct (j <? i + 0) eqn:E; auto. apply Nat.ltb_lt in E.
    assert (i <= j) by (destruct H as [H|H]; [inversion H; lia | apply indexed_range in H; lia]). lia.
  - destruct H as [H|H].
    + inversion H; subst. rewrite Nat.eqb_refl. assert (j <? j + S n = true) as -> by (apply Nat.ltb_lt; lia). reflexivity.
    + assert (p =? a = false) as ->.
      { apply Nat.eqb_neq. intros ->. apply indexed_range in H. tauto. }
      rewrite (IH (S i) n); auto. replace (S i + n) with (i + S n) by lia. reflexivity.
Qed.

Lemma dget_combine_notin (A : list name) i n p : ~ In p A -> dget p (combine A (map Pos (seq i n))) = None.
Proof. intros H. apply dget_None. rewrite keys_combine_pos. intros Hin. apply H. eapply firstn_In; eauto. Qed.

Lemma dget_indexed_map (f : nat -> name -> value) i l j p :
  NoDup l -> In (j, p) (indexed i l) ->
  dget p (map (fun jp => (snd jp, f (fst jp) (snd jp))) (indexed i l)) = Some (f j p).
Proof.
  revert i. induction l as [|a l IH]; intros i ND H; simpl in H; [tauto|].
  inversion ND as [|? ? Hn Hd]; subst. simpl. destruct H as [H|H].
  - inversion H; subst. rewrite Nat.eqb_refl. reflexivity.
  - assert (p =? a = false) as ->.
    { apply Nat.eqb_neq. intros ->. apply indexed_range in H. tauto. }
    apply IH; auto.
Qed.

Lemma keys_indexed_map (f : nat -> name -> value) i l :
  keys (map (fun jp => (snd jp, f (fst jp) (snd jp))) (indexed i l)) = l.
Proof. revert i. induction l; intros i; simpl; auto. unfold keys in *. rewrite IHl. reflexivity. Qed.

(* ---------------------------------------------------------------------------------- *)
(* the closed-form description both binders are compared with *)

Definition RefErr (s : sig) (c : shape) : Prop :=
  (exists j p, In (j, p) (indexed 0 (param_names s)) /\ j < npos c /\ length (posonly s) <= j /\ In p (kws c))
  \/ (kwargs s = None /\ exists k, In k (kws c) /\ ~ In k (pos_or_kw s ++ kwonly s))
  \/ (length (param_names s) < npos c /\ varargs s = None)
  \/ (exists j p, In (j, p) (indexed 0 (param_names s)) /\ npos c <= j
                  /\ ~ (length (posonly s) <= j /\ In p (kws c)) /\ ~ In p (defaults s))
  \/ (exists p, In p (kwonly s) /\ ~ In p (kws c) /\ ~ In p (defaults s)).

Definition ref_val_pos (s : sig) (c : shape) (j : nat) (p : name) : value :=
  if j <? npos c then Pos j
  else if (length (posonly s) <=? j) && mem p (kws c) then Kw p else Default.

Definition ref_val_kwo (c : shape) (p : name) : value := if mem p (kws c) then Kw p else Default.

Definition ref_star (s : sig) (c : shape) : value :=
  VarArgs (seq (length (param_names s)) (npos c - length (param_names s))).

Definition ref_starstar (s : sig) (c : shape) : value :=
  KwArgs (filter (fun k => negb (mem k (pos_or_kw s ++ kwonly s))) (kws c)).

Definition ref_dict (s : sig) (c : shape) : dict :=
  map (fun jp => (snd jp, ref_val_pos s c (fst jp) (snd jp))) (indexed 0 (param_names s))
  ++ map (fun p => (p, ref_val_kwo c p)) (kwonly s)
  ++ map (fun va => (va, ref_star s c)) (opt_list (varargs s))
  ++ map (fun kn => (kn, ref_starstar s c)) (opt_list (kwargs s)).

(* what wf_sig says about names *)
Record names_ok (s : sig) : Prop := {
  nd_A : NoDup (param_names s);
  nd_K : NoDup (kwonly s);
  nd_AK : forall p, In p (param_names s) -> In p (kwonly s) -> False;
  nd_PQ : forall p, In p (posonly s) -> In p (pos_or_kw s) -> False;
  nd_va : forall va, varargs s = Some va -> ~ In va (param_names s) /\ ~ In va (kwonly s);
  nd_kn : forall kn, kwargs s = Some kn -> ~ In kn (param_names s) /\ ~ In kn (kwonly s) /\ varargs s <> Some kn }.

Lemma wf_names s : NoDup (all_names s) -> names_ok s.
Proof.
  unfold all_names, param_names. intros H.
  assert (H1 : NoDup ((posonly s ++ pos_or_kw s) ++ kwonly s ++ opt_list (varargs s) ++ opt_list (kwargs s)))
    by (rewrite <- app_assoc; exact H).
  assert (H2 : NoDup (kwonly s ++ opt_list (varargs s) ++ opt_list (kwargs s))) by (eapply NoDup_app_r; eauto).
  assert (H3 : NoDup (opt_list (varargs s) ++ opt_list (kwargs s))) by (eapply NoDup_app_r; eauto).
  constructor.
  - eapply NoDup_app_l; eauto.
  - eapply NoDup_app_l; eauto.
  - intros p Ha Hk. eapply (NoDup_app_disj _ _ p H1); auto. apply in_or_app. auto.
  - intros p Ha Hk. apply NoDup_app_l in H1. eapply (NoDup_app_disj _ _ p H1); auto.
  - intros va E. rewrite E in *. simpl in *. split; intros Hin.
    + eapply (NoDup_app_disj _ _ va H1); auto. apply in_or_app. right. simpl. auto.
    + eapply (NoDup_app_disj _ _ va H2); auto. simpl. auto.
  - intros kn E. rewrite E in *. simpl in *. repeat split; try intros Hin.
    + eapply (NoDup_app_disj _ _ kn H1); auto. apply in_or_app. right. apply in_or_app. right. simpl. auto.
    + eapply (NoDup_app_disj _ _ kn H2); auto. apply in_or_app. right. simpl. auto.
    + rewrite Hin in H3. simpl in H3. inversion H3 as [|? ? Hn Hd]; subst. apply Hn. simpl. auto.
Qed.

Lemma pos_index_posonly s j p :
  names_ok s -> In (j, p) (indexed 0 (param_names s)) -> (j < length (posonly s) <-> In p (posonly s)).
Proof.
  intros W H. unfold param_names in H. rewrite indexed_app in H. apply in_app_or in H. destruct H as [H|H].
  - apply indexed_range in H. simpl in H. split; intros; [tauto|lia].
  - apply indexed_range in H. simpl in H. split; intros H1; [lia|]. exfalso. eapply nd_PQ; eauto. tauto.
Qed.

Lemma In_A_indexed s p : In p (param_names s) -> exists j, In (j, p) (indexed 0 (param_names s)) /\ j < length (param_names s).
Proof. intros H. destruct (indexed_In 0 _ _ H) as [j Hj]. exists j. split; auto. apply indexed_range in Hj. lia. Qed.

Lemma ref_dict_pos s c j p :
  names_ok s -> In (j, p) (indexed 0 (param_names s)) -> dget p (ref_dict s c) = Some (ref_val_pos s c j p).
Proof.
  intros W H. unfold ref_dict. rewrite dget_app.
  rewrite (dget_indexed_map (ref_val_pos s c) 0 _ j p); auto. apply W.
Qed.

Lemma ref_dict_kwo s c p :
  names_ok s -> In p (kwonly s) -> dget p (ref_dict s c) = Some (ref_val_kwo c p).
Proof.
  intros W H. unfold ref_dict. rewrite dget_app.
  assert (dget p (map (fun jp => (snd jp, ref_val_pos s c (fst jp) (snd jp))) (indexed 0 (param_names s))) = None) as ->.
  { apply dget_None. rewrite keys_indexed_map. intros Hin. eapply nd_AK; eauto. }
  rewrite dget_app. rewrite dget_map_self. apply mem_In in H. rewrite H. reflexivity.
Qed.

Lemma ref_dict_va s c va :
  names_ok s -> varargs s = Some va -> dget va (ref_dict s c) = Some (ref_star s c).
Proof.
  intros W E. destruct (nd_va s W va E) as [H1 H2]. unfold ref_dict. rewrite dget_app.
  assert (dget va (map (fun jp => (snd jp, ref_val_pos s c (fst jp) (snd jp))) (indexed 0 (param_names s))) = None) as ->.
  { apply dget_None. rewrite keys_indexed_map. auto. }
  rewrite dget_app. rewrite dget_map_self. apply mem_nIn in H2. rewrite H2.
  rewrite E. simpl. rewrite Nat.eqb_refl. reflexivity.
Qed.

Lemma ref_dict_kn s c kn :
  names_ok s -> kwargs s = Some kn -> dget kn (ref_dict s c) = Some (ref_starstar s c).
Proof.
  intros W E. destruct (nd_kn s W kn E) as [H1 [H2 H3]]. unfold ref_dict. rewrite dget_app.
  assert (dget kn (map (fun jp => (snd jp, ref_val_pos s c (fst jp) (snd jp))) (indexed 0 (param_names s))) = None) as ->.
  { apply dget_None. rewrite keys_indexed_map. auto. }
  rewrite dget_app. rewrite dget_map_self. apply mem_nIn in H2. rewrite H2.
  rewrite dget_app. rewrite E. simpl. destruct (varargs s) as [va|] eqn:Ev; simpl.
  - assert (kn =? va = false) as -> by (apply Nat.eqb_neq; intros ->; apply H3; reflexivity).
    rewrite Nat.eqb_refl. reflexivity.
  - rewrite Nat.eqb_refl. reflexivity.
Qed.

(* every parameter is described *)
Lemma all_names_cases s p :
  In p (all_names s) ->
  In p (param_names s) \/ In p (kwonly s) \/ varargs s = Some p \/ kwargs s = Some p.
Proof.
  unfold all_names, param_names. rewrite !in_app_iff. intros [H|[H|[H|[H|H]]]]; auto.
  - destruct (varargs s); simpl in H; [|tauto]. destruct H; [subst; auto|tauto].
  - destruct (kwargs s); simpl in H; [|tauto]. destruct H; [subst; auto|tauto].
Qed.

Lemma skipn_seq' k i n : skipn k (seq i n) = seq (i + k) (n - k).
Proof.
  revert i n. induction k; intros i n; simpl.
  - rewrite Nat.add_0_r, Nat.sub_0_r. reflexivity.
  - destruct n; simpl; auto. rewrite IHk. replace (i + S k) with (S i + k) by lia. reflexivity.
Qed.

Lemma firstn_indexed {A} n i (l : list A) x :
  In x (firstn n l) <-> exists j, j < i + n /\ In (j, x) (indexed i l).
Proof.
  revert n i. induction l as [|a l IH]; intros n i; simpl.
  - destruct n; simpl; split; try tauto; intros [j [_ []]].
  - destruct n; simpl.
    + split; [tauto|]. intros [j [H1 [H2|H2]]].
      * inversion H2; lia.
      * apply indexed_range in H2. lia.
    + rewrite (IH n (S i)). split.
      * intros [H|[j [H1 H2]]]; [subst; exists i; split; [lia|auto] | exists j; split; [lia|auto]].
      * intros [j [H1 [H2|H2]]]; [inversion H2; auto | right; exists j; split; [lia|auto]].
Qed.

(* ---------------------------------------------------------------------------------- *)
(* pytype side *)

Definition kwsd (c : shape) : dict := map (fun k => (k, Kw k)) (kws c).

Lemma keys_kwsd c : keys (kwsd c) = kws c.
Proof. unfold kwsd, keys. rewrite map_map. simpl. apply map_id. Qed.

Lemma dmem_kwsd c k : dmem k (kwsd c) = mem k (kws c).
Proof. unfold dmem, kwsd. rewrite dget_map_self. destruct (mem k (kws c)); reflexivity. Qed.

Definition positional (s : sig) (c : shape) : dict := combine (param_names s) (map Pos (seq 0 (npos c))).

Definition callargs2 (s : sig) (c : shape) : dict :=
  dupdate (dupdate (dict_of (map (fun n => (n, Default)) (defaults s))) (positional s c))
          (filter (fun kv => negb (mem (fst kv) (posonly s))) (kwsd c)).

Lemma callargs2_get s c p :
  NoDup (param_names s) -> NoDup (kws c) ->
  dget p (callargs2 s c) =
    if mem p (kws c) && negb (mem p (posonly s)) then Some (Kw p)
    else match dget p (positional s c) with
         | Some v => Some v
         | None => if mem p (defaults s) then Some Default else None
         end.
Proof.
  intros NA NK. unfold callargs2.
  rewrite dget_dupdate.
  2:{ unfold kwsd. rewrite (keys_filter_map (fun k => negb (mem k (posonly s))) Kw). apply NoDup_filter. exact NK. }
  unfold kwsd. rewrite (dget_filter_map (fun k => negb (mem k (posonly s))) Kw).
  destruct (mem p (kws c) && negb (mem p (posonly s))); auto.
  rewrite dget_dupdate.
  2:{ unfold positional. rewrite keys_combine_pos. apply NoDup_firstn. exact NA. }
  destruct (dget p (positional s c)); auto.
  unfold dict_of. rewrite dget_dupdate_const. simpl. reflexivity.
Qed.

Lemma callargs2_pos s c j p :
  names_ok s -> NoDup (kws c) -> In (j, p) (indexed 0 (param_names s)) ->
  dget p (callargs2 s c) =
    if mem p (kws c) && (length (posonly s) <=? j) then Some (Kw p)
    else if j <? npos c then Some (Pos j)
    else if mem p (defaults s) then Some Default else None.
Proof.
  intros W NK H. rewrite callargs2_get; auto; [|apply W].
  assert (negb (mem p (posonly s)) = (length (posonly s) <=? j)) as ->.
  { pose proof (pos_index_posonly s j p W H) as Hi.
    destruct (mem p (posonly s)) eqn:E; simpl; symmetry.
    - apply mem_In in E. apply Nat.leb_gt. tauto.
    - apply mem_nIn in E. apply Nat.leb_le.
      destruct (Nat.lt_ge_cases j (length (posonly s))) as [L|L]; [exfalso; apply E; apply Hi; exact L | exact L]. }
  destruct (mem p (kws c) && (length (posonly s) <=? j)); auto.
  unfold positional. rewrite (dget_combine_pos _ 0 (npos c) j p); auto; [|apply W]. simpl.
  destruct (j <? npos c); auto.
Qed.

Lemma callargs2_kwo s c p :
  names_ok s -> NoDup (kws c) -> In p (kwonly s) ->
  dget p (callargs2 s c) =
    if mem p (kws c) then Some (Kw p) else if mem p (defaults s) then Some Default else None.
Proof.
  intros W NK H. rewrite callargs2_get; auto; [|apply W].
  assert (~ In p (param_names s)) as HnA by (intros Hin; eapply nd_AK; eauto).
  assert (mem p (posonly s) = false) as ->.
  { apply mem_nIn. intros Hin. apply HnA. unfold param_names. apply in_or_app. auto. }
  simpl. rewrite andb_true_r. destruct (mem p (kws c)); auto.
  unfold positional. rewrite dget_combine_notin; auto.
Qed.

Lemma bind_py_fixed_unfold s c :
  NoDup (param_names s) -> NoDup (kws c) ->
  bind_py_fixed s c =
  let dup := filter (fun key => negb (mem key (posonly s)) && mem key (kws c)) (firstn (npos c) (param_names s)) in
  if nonempty dup then Err (EDuplicateKeyword dup) else
  let extra_kws := filter (fun k => negb (mem k (param_names s ++ kwonly s))) (kws c) in
  if nonempty extra_kws && negb (is_some (kwargs s)) then Err (EWrongKeywordArgs extra_kws) else
  let posonly_kws := filter (fun k => mem k (posonly s)) (kws c) in
  if nonempty posonly_kws && negb (is_some (kwargs s)) then Err (EWrongKeywordArgs posonly_kws) else
  match find (fun key => negb (dmem key (callargs2 s c)))
             (filter (fun n => negb (mem n (defaults s))) (param_names s) ++ kwonly s) with
  | Some key => Err (EMissingParameter key)
  | None =>
    match (match varargs s with
           | Some va => Some (dset va (VarArgs (skipn (length (param_names s)) (seq 0 (npos c)))) (callargs2 s c))
           | None => if length (param_names s) <? npos c then None else Some (callargs2 s c)
           end) with
    | None => Err EWrongArgCount
    | Some callargs =>
      match kwargs s with
      | Some kn => Ok (dset kn (KwArgs (filter (fun k => negb (mem k (pos_or_kw s ++ kwonly s))) (kws c))) callargs)
      | None => Ok callargs
      end
    end
  end.
Proof.
  intros NA NK. unfold bind_py_fixed, bind_py_gen.
  rewrite (dict_of_id (map (fun k => (k, Kw k)) (kws c))) by (apply (eq_ind_r (@NoDup name) NK (keys_kwsd c))).
  rewrite (dict_of_id (combine (param_names s) (map Pos (seq 0 (npos c)))))
    by (rewrite keys_combine_pos; apply NoDup_firstn; exact NA).
  rewrite keys_combine_pos. fold (kwsd c). rewrite keys_kwsd.
  rewrite map_length, seq_length.
  assert (filter (fun key => negb (mem key (posonly s)) && dmem key (kwsd c)) (firstn (npos c) (param_names s))
          = filter (fun key => negb (mem key (posonly s)) && mem key (kws c)) (firstn (npos c) (param_names s))) as ->.
  { apply filter_ext. intros a. rewrite dmem_kwsd. reflexivity. }
  reflexivity.
Qed.

Lemma In_posonly_A s p : In p (posonly s) -> In p (param_names s).
Proof. intros H. unfold param_names. apply in_or_app. auto. Qed.
Lemma In_pkw_A s p : In p (pos_or_kw s) -> In p (param_names s).
Proof. intros H. unfold param_names. apply in_or_app. auto. Qed.

Theorem py_ref s c :
  wf_sig s -> wf_shape c ->
  match bind_py_fixed s c with
  | Err _ => RefErr s c
  | Ok d => ~ RefErr s c /\ forall p, In p (all_names s) -> dget p d = dget p (ref_dict s c)
  end.
Proof.
  intros [WN WD] NK. unfold wf_shape in NK. pose proof (wf_names s WN) as W.
  rewrite bind_py_fixed_unfold; auto; [|apply W]. cbv zeta. unfold RefErr.
  rewrite !nonempty_filter.
  (* 1. duplicate keyword *)
  destruct (existsb (fun key => negb (mem key (posonly s)) && mem key (kws c)) (firstn (npos c) (param_names s))) eqn:E1.
  { apply existsb_exists in E1. destruct E1 as [p [Hp Hc]]. apply andb_prop in Hc. destruct Hc as [Hc1 Hc2].
    apply (firstn_indexed (npos c) 0) in Hp. destruct Hp as [j [Hj Hjp]].
    left. exists j, p. repeat split; auto.
    - apply negb_true_iff in Hc1. apply mem_nIn in Hc1.
      pose proof (pos_index_posonly s j p W Hjp) as Hi.
      destruct (Nat.lt_ge_cases j (length (posonly s))) as [L|L]; [exfalso; apply Hc1; apply Hi; exact L | exact L].
    - apply mem_In. exact Hc2. }
  assert (N1 : ~ (exists j p, In (j, p) (indexed 0 (param_names s)) /\ j < npos c /\ length (posonly s) <= j /\ In p (kws c))).
  { intros [j [p [Hjp [Hj [Hnp Hk]]]]].
    rewrite existsb_false in E1. specialize (E1 p).
    assert (In p (firstn (npos c) (param_names s))) as Hf by (apply (firstn_indexed (npos c) 0); exists j; split; [lia|auto]).
    specialize (E1 Hf). apply mem_In in Hk. rewrite Hk in E1. rewrite andb_true_r in E1.
    apply negb_false_iff in E1. apply mem_In in E1. apply (pos_index_posonly s j p W Hjp) in E1. lia. }
  (* 2. unknown keywords without **kwargs *)
  destruct (existsb (fun k => negb (mem k (param_names s ++ kwonly s))) (kws c) && negb (is_some (kwargs s))) eqn:E2.
  { apply andb_prop in E2. destruct E2 as [E2 E2k]. apply existsb_exists in E2. destruct E2 as [k [Hk Hc]].
    right. left. split.
    - destruct (kwargs s); simpl in E2k; [discriminate|reflexivity].
    - exists k. split; auto. apply negb_true_iff in Hc. apply mem_nIn in Hc. intros Hin. apply Hc.
      apply in_app_or in Hin. apply in_or_app. destruct Hin; [left; apply In_pkw_A; auto | right; auto]. }
  (* 3. positional-only names as keywords without **kwargs *)
  destruct (existsb (fun k => mem k (posonly s)) (kws c) && negb (is_some (kwargs s))) eqn:E3.
  { apply andb_prop in E3. destruct E3 as [E3 E3k]. apply existsb_exists in E3. destruct E3 as [k [Hk Hc]].
    right. left. split.
    - destruct (kwargs s); simpl in E3k; [discriminate|reflexivity].
    - exists k. split; auto. apply mem_In in Hc. intros Hin. apply in_app_or in Hin. destruct Hin as [Hin|Hin].
      + eapply nd_PQ; eauto.
      + eapply nd_AK; eauto. apply In_posonly_A; auto. }
  assert (N2 : ~ (kwargs s = None /\ exists k, In k (kws c) /\ ~ In k (pos_or_kw s ++ kwonly s))).
  { intros [Hkw [k [Hk Hn]]]. rewrite Hkw in E2, E3. simpl in E2, E3. rewrite andb_true_r in E2, E3.
    rewrite existsb_false in E2, E3. specialize (E2 k Hk). specialize (E3 k Hk).
    apply negb_false_iff in E2. apply mem_In in E2. apply mem_nIn in E3. apply Hn.
    apply in_app_or in E2. apply in_or_app. destruct E2 as [E2|E2]; auto.
    unfold param_names in E2. apply in_app_or in E2. destruct E2; [tauto|auto]. }
  (* 4. missing parameters *)
  destruct (find (fun key => negb (dmem key (callargs2 s c)))
                 (filter (fun n => negb (mem n (defaults s))) (param_names s) ++ kwonly s)) as [key|] eqn:E4.
  { apply find_some in E4. destruct E4 as [Hin Hm]. apply negb_true_iff in Hm. unfold dmem in Hm.
    apply in_app_or in Hin. destruct Hin as [Hin|Hin].
    - apply filter_In in Hin. destruct Hin as [HA HD]. apply negb_true_iff in HD. apply mem_nIn in HD.
      destruct (In_A_indexed s key HA) as [j [Hjp Hj]].
      rewrite (callargs2_pos s c j key W NK Hjp) in Hm.
      right. right. right. left. exists j, key.
      destruct (mem key (kws c) && (length (posonly s) <=? j)) eqn:Ek; [discriminate|].
      destruct (j <? npos c) eqn:Ej; [discriminate|]. apply Nat.ltb_ge in Ej.
      repeat split; auto. intros [Hl Hk]. apply mem_In in Hk. apply Nat.leb_le in Hl. rewrite Hk, Hl in Ek. discriminate.
    - rewrite (callargs2_kwo s c key W NK Hin) in Hm.
      right. right. right. right. exists key.
      destruct (mem key (kws c)) eqn:Ek; [discriminate|]. destruct (mem key (defaults s)) eqn:Ed; [discriminate|].
      apply mem_nIn in Ek, Ed. auto. }
  assert (N4 : ~ (exists j p, In (j, p) (indexed 0 (param_names s)) /\ npos c <= j
                  /\ ~ (length (posonly s) <= j /\ In p (kws c)) /\ ~ In p (defaults s))).
  { intros [j [p [Hjp [Hj [Hnk Hd]]]]].
    pose proof (find_none _ _ E4 p) as Hf.
    assert (In p (filter (fun n => negb (mem n (defaults s))) (param_names s) ++ kwonly s)) as Hin.
    { apply in_or_app. left. apply filter_In. split; [apply indexed_range in Hjp; tauto|].
      apply negb_true_iff. apply mem_nIn. auto. }
    specialize (Hf Hin). apply negb_false_iff in Hf. unfold dmem in Hf.
    rewrite (callargs2_pos s c j p W NK Hjp) in Hf.
    destruct (mem p (kws c) && (length (posonly s) <=? j)) eqn:Ek.
    { apply andb_prop in Ek. destruct Ek as [Ek1 Ek2]. apply mem_In in Ek1. apply Nat.leb_le in Ek2. tauto. }
    assert (j <? npos c = false) as Ej by (apply Nat.ltb_ge; lia). rewrite Ej in Hf.
    apply mem_nIn in Hd. rewrite Hd in Hf. discriminate. }
  assert (N5 : ~ (exists p, In p (kwonly s) /\ ~ In p (kws c) /\ ~ In p (defaults s))).
  { intros [p [Hp [Hk Hd]]].
    pose proof (find_none _ _ E4 p) as Hf.
    assert (In p (filter (fun n => negb (mem n (defaults s))) (param_names s) ++ kwonly s)) as Hin
      by (apply in_or_app; auto).
    specialize (Hf Hin). apply negb_false_iff in Hf. unfold dmem in Hf.
    rewrite (callargs2_kwo s c p W NK Hp) in Hf. apply mem_nIn in Hk, Hd. rewrite Hk, Hd in Hf. discriminate. }
  (* values of the named parameters in callargs2 *)
  assert (V1 : forall j p, In (j, p) (indexed 0 (param_names s)) ->
               dget p (callargs2 s c) = Some (ref_val_pos s c j p)).
  { intros j p Hjp. rewrite (callargs2_pos s c j p W NK Hjp). unfold ref_val_pos.
    destruct (j <? npos c) eqn:Ej.
    - destruct (mem p (kws c) && (length (posonly s) <=? j)) eqn:Ek; auto.
      exfalso. apply N1. exists j, p. apply andb_prop in Ek. destruct Ek as [Ek1 Ek2].
      apply mem_In in Ek1. apply Nat.leb_le in Ek2. apply Nat.ltb_lt in Ej. auto.
    - rewrite (andb_comm (length (posonly s) <=? j)).
      destruct (mem p (kws c) && (length (posonly s) <=? j)) eqn:Ek; auto.
      destruct (mem p (defaults s)) eqn:Ed; auto.
      exfalso. apply N4. exists j, p. apply Nat.ltb_ge in Ej. apply mem_nIn in Ed. repeat split; auto.
      intros [Hl Hk]. apply mem_In in Hk. apply Nat.leb_le in Hl. rewrite Hk, Hl in Ek. discriminate. }
  assert (V2 : forall p, In p (kwonly s) -> dget p (callargs2 s c) = Some (ref_val_kwo c p)).
  { intros p Hp. rewrite (callargs2_kwo s c p W NK Hp). unfold ref_val_kwo.
    destruct (mem p (kws c)) eqn:Ek; auto. destruct (mem p (defaults s)) eqn:Ed; auto.
    exfalso. apply N5. exists p. apply mem_nIn in Ek, Ed. auto. }
  (* 5. *args / too many positional arguments, 6. **kwargs *)
  destruct (varargs s) as [va|] eqn:Eva.
  - (* *args present *)
    destruct (nd_va s W va Eva) as [HvaA HvaK].
    destruct (kwargs s) as [kn|] eqn:Ekn.
    + destruct (nd_kn s W kn Ekn) as [HknA [HknK Hknva]].
      split.
      { intros [H|[H|[H|[H|H]]]]; auto. destruct H as [_ H]. discriminate. }
      intros p Hp. apply all_names_cases in Hp. rewrite Eva, Ekn in Hp.
      destruct Hp as [Hp|[Hp|[Hp|Hp]]].
      * destruct (In_A_indexed s p Hp) as [j [Hjp _]].
        rewrite !dget_dset.
        assert (p =? kn = false) as -> by (apply Nat.eqb_neq; intros ->; tauto).
        assert (p =? va = false) as -> by (apply Nat.eqb_neq; intros ->; tauto).
        rewrite (V1 j p Hjp). symmetry. apply ref_dict_pos; auto.
      * rewrite !dget_dset.
        assert (p =? kn = false) as -> by (apply Nat.eqb_neq; intros ->; tauto).
        assert (p =? va = false) as -> by (apply Nat.eqb_neq; intros ->; tauto).
        rewrite (V2 p Hp). symmetry. apply ref_dict_kwo; auto.
      * inversion Hp; subst p. rewrite !dget_dset.
        assert (va =? kn = false) as -> by (apply Nat.eqb_neq; intros ->; apply Hknva; rewrite Eva; reflexivity).
        rewrite Nat.eqb_refl. rewrite (ref_dict_va s c va W Eva). unfold ref_star. rewrite skipn_seq'. reflexivity.
      * inversion Hp; subst p. rewrite !dget_dset. rewrite Nat.eqb_refl.
        rewrite (ref_dict_kn s c kn W Ekn). reflexivity.
    + split.
      { intros [H|[H|[H|[H|H]]]]; auto. destruct H as [_ H]. discriminate. }
      intros p Hp. apply all_names_cases in Hp. rewrite Eva, Ekn in Hp.
      destruct Hp as [Hp|[Hp|[Hp|Hp]]]; [| | |discriminate].
      * destruct (In_A_indexed s p Hp) as [j [Hjp _]].
        rewrite !dget_dset.
        assert (p =? va = false) as -> by (apply Nat.eqb_neq; intros ->; tauto).
        rewrite (V1 j p Hjp). symmetry. apply ref_dict_pos; auto.
      * rewrite !dget_dset.
        assert (p =? va = false) as -> by (apply Nat.eqb_neq; intros ->; tauto).
        rewrite (V2 p Hp). symmetry. apply ref_dict_kwo; auto.
      * inversion Hp; subst p. rewrite !dget_dset. rewrite Nat.eqb_refl.
        rewrite (ref_dict_va s c va W Eva). unfold ref_star. rewrite skipn_seq'. reflexivity.
  - (* no *args *)
    destruct (length (param_names s) <? npos c) eqn:E5.
    { right. right. left. apply Nat.ltb_lt in E5. auto. }
    apply Nat.ltb_ge in E5.
    destruct (kwargs s) as [kn|] eqn:Ekn.
    + destruct (nd_kn s W kn Ekn) as [HknA [HknK Hknva]].
      split.
      { intros [H|[H|[H|[H|H]]]]; auto. destruct H as [H _]. lia. }
      intros p Hp. apply all_names_cases in Hp. rewrite Eva, Ekn in Hp.
      destruct Hp as [Hp|[Hp|[Hp|Hp]]]; [| |discriminate|].
      * destruct (In_A_indexed s p Hp) as [j [Hjp _]].
        rewrite !dget_dset.
        assert (p =? kn = false) as -> by (apply Nat.eqb_neq; intros ->; tauto).
        rewrite (V1 j p Hjp). symmetry. apply ref_dict_pos; auto.
      * rewrite !dget_dset.
        assert (p =? kn = false) as -> by (apply Nat.eqb_neq; intros ->; tauto).
        rewrite (V2 p Hp). symmetry. apply ref_dict_kwo; auto.
      * inversion Hp; subst p. rewrite !dget_dset. rewrite Nat.eqb_refl.
        rewrite (ref_dict_kn s c kn W Ekn). reflexivity.
    + split.
      { intros [H|[H|[H|[H|H]]]]; auto. destruct H as [H _]. lia. }
      intros p Hp. apply all_names_cases in Hp. rewrite Eva, Ekn in Hp.
      destruct Hp as [Hp|[Hp|[Hp|Hp]]]; [| |discriminate|discriminate].
      * destruct (In_A_indexed s p Hp) as [j [Hjp _]].
        rewrite (V1 j p Hjp). symmetry. apply ref_dict_pos; auto.
      * rewrite (V2 p Hp). symmetry. apply ref_dict_kwo; auto.
Qed.

(* ---------------------------------------------------------------------------------- *)
(* CPython side *)

Definition slots_of (i : nat) (f : nat -> name -> option value) (N : list name) : list slot :=
  map (fun jp => mkSlot (fst jp) (snd jp) (f (fst jp) (snd jp))) (indexed i N).

Lemma slot_eta x : mkSlot (idx x) (nm x) (cur x) = x.
Proof. destruct x; reflexivity. Qed.

Lemma map_slots_of (g : slot -> slot) i f N :
  (forall x, idx (g x) = idx x /\ nm (g x) = nm x) ->
  map g (slots_of i f N) = slots_of i (fun j p => cur (g (mkSlot j p (f j p)))) N.
Proof.
  intros Hg. unfold slots_of. rewrite map_map. apply map_ext. intros [j p]. simpl.
  destruct (Hg (mkSlot j p (f j p))) as [H1 H2]. simpl in H1, H2.
  rewrite <- (slot_eta (g _)). rewrite H1, H2. reflexivity.
Qed.

Lemma In_slots_of i f N x :
  In x (slots_of i f N) <-> exists j p, x = mkSlot j p (f j p) /\ In (j, p) (indexed i N).
Proof.
  unfold slots_of. rewrite in_map_iff. split.
  - intros [[j p] [H1 H2]]. exists j, p. simpl in H1. auto.
  - intros [j [p [H1 H2]]]. exists (j, p). simpl. auto.
Qed.

Lemma names_slots_of i f N : map nm (slots_of i f N) = N.
Proof.
  unfold slots_of. rewrite map_map. simpl. revert i. induction N; intros i; simpl; auto. rewrite IHN. reflexivity.
Qed.

Definition hit (np : nat) (k : name) (x : slot) : bool := (np <=? idx x) && (nm x =? k).
Definition upd1 (np : nat) (k : name) (v : value) (x : slot) : slot :=
  if hit np k x then mkSlot (idx x) (nm x) (Some v) else x.

Lemma assign_spec np k v sl :
  NoDup (map nm sl) ->
  assign np k v sl =
    if existsb (fun x => hit np k x && is_some (cur x)) sl then AlreadySet
    else if existsb (hit np k) sl then Assigned (map (upd1 np k v) sl)
    else NotFound.
Proof.
  induction sl as [|x t IH]; intros ND; simpl; auto.
  inversion ND as [|? ? Hn Hd]; subst.
  fold (hit np k x). destruct (hit np k x) eqn:Hx; simpl.
  - assert (Ht : forall y, In y t -> hit np k y = false).
    { intros y Hy. unfold hit in *. apply andb_prop in Hx. destruct Hx as [_ Hx]. apply Nat.eqb_eq in Hx.
      destruct (nm y =? k) eqn:E; [|apply andb_false_r]. apply Nat.eqb_eq in E. exfalso. apply Hn.
      rewrite Hx, <- E. apply in_map. exact Hy. }
    destruct (cur x) eqn:Ec; simpl; auto.
    assert (existsb (fun x0 => hit np k x0 && is_some (cur x0)) t = false) as ->.
    { apply existsb_false. intros y Hy. rewrite (Ht y Hy). reflexivity. }
    unfold upd1 at 1. rewrite Hx. f_equal. f_equal.
    rewrite <- (map_id t) at 1. apply map_ext_in. intros y Hy. unfold upd1. rewrite (Ht y Hy). reflexivity.
  - rewrite IH; auto.
    destruct (existsb (fun x0 => hit np k x0 && is_some (cur x0)) t); simpl; auto.
    destruct (existsb (hit np k) t); simpl; auto.
    unfold upd1 at 2. rewrite Hx. reflexivity.
Qed.

Lemma hit_upd1 np k k' v x : hit np k' (upd1 np k v x) = hit np k' x.
Proof. unfold upd1. destruct (hit np k x); reflexivity. Qed.

Lemma names_upd1 np k v sl : map nm (map (upd1 np k v) sl) = map nm sl.
Proof. rewrite map_map. apply map_ext. intros x. unfold upd1. destruct (hit np k x); reflexivity. Qed.

Definition upd (np : nat) (ks : list name) (x : slot) : slot :=
  if (np <=? idx x) && mem (nm x) ks then mkSlot (idx x) (nm x) (Some (Kw (nm x))) else x.

Definition loop_bad (s : sig) (sl : list slot) (k : name) : bool :=
  existsb (fun x => hit (length (posonly s)) k x && is_some (cur x)) sl
  || (negb (existsb (hit (length (posonly s)) k) sl) && negb (is_some (kwargs s))).

Lemma existsb_ext_in {A} (f g : A -> bool) l : (forall x, In x l -> f x = g x) -> existsb f l = existsb g l.
Proof. induction l; simpl; intros H; auto. rewrite H, IHl; auto. Qed.

Lemma existsb_map {A B} (f : B -> bool) (g : A -> B) l : existsb f (map g l) = existsb (fun x => f (g x)) l.
Proof. induction l; simpl; auto. rewrite IHl. reflexivity. Qed.

Lemma kw_loop_spec s all ks :
  forall sl kwd, NoDup (map nm sl) -> NoDup ks ->
  (existsb (loop_bad s sl) ks = true -> exists e, kw_loop s all ks sl kwd = inr e) /\
  (existsb (loop_bad s sl) ks = false ->
   kw_loop s all ks sl kwd =
   inl (map (upd (length (posonly s)) ks) sl,
        kwd ++ filter (fun k => negb (existsb (hit (length (posonly s)) k) sl)) ks)).
Proof.
  set (np := length (posonly s)).
  induction ks as [|k rest IH]; intros sl kwd NS NK.
  - simpl. split; [discriminate|]. intros _. rewrite app_nil_r. f_equal. f_equal.
    rewrite <- (map_id sl) at 1. apply map_ext. intros x. unfold upd. simpl. rewrite andb_false_r. reflexivity.
  - inversion NK as [|? ? Hk Hr]; subst. simpl. fold np.
    rewrite (assign_spec np k (Kw k) sl NS). unfold loop_bad at 1 3. fold np.
    destruct (existsb (fun x => hit np k x && is_some (cur x)) sl) eqn:Eb; simpl.
    { split; [eauto | discriminate]. }
    destruct (existsb (hit np k) sl) eqn:Ef; simpl.
    + (* assigned *)
      set (sl' := map (upd1 np k (Kw k)) sl).
      assert (NS' : NoDup (map nm sl')) by (unfold sl'; rewrite names_upd1; exact NS).
      assert (Hbad : existsb (loop_bad s sl') rest = existsb (loop_bad s sl) rest).
      { apply existsb_ext_in. intros k' Hk'. unfold loop_bad. fold np. unfold sl'. rewrite !existsb_map.
        f_equal.
        - apply existsb_ext_in. intros x Hx. rewrite hit_upd1. unfold upd1.
          destruct (hit np k x) eqn:Hh; auto. unfold hit in *. apply andb_prop in Hh. destruct Hh as [_ Hh].
          apply Nat.eqb_eq in Hh. assert (nm x =? k' = false) as ->.
          { apply Nat.eqb_neq. intros E. apply Hk. rewrite <- Hh, E. exact Hk'. }
          rewrite andb_false_r. reflexivity.
        - f_equal. f_equal. apply existsb_ext_in. intros x Hx. apply hit_upd1. }
      destruct (IH sl' kwd NS' Hr) as [IH1 IH2]. rewrite Hbad in IH1, IH2.
      split; [exact IH1|]. intros Hf. rewrite (IH2 Hf). f_equal. f_equal.
      * unfold sl'. rewrite map_map. apply map_ext. intros x. unfold upd1, upd. simpl.
        destruct (hit np k x) eqn:Hh; unfold hit in Hh.
        -- apply andb_prop in Hh. destruct Hh as [Hh1 Hh2]. apply Nat.eqb_eq in Hh2. simpl.
           rewrite Hh1. simpl. rewrite Hh2. rewrite Nat.eqb_refl. simpl.
           assert (mem k rest = false) as -> by (apply mem_nIn; exact Hk). reflexivity.
        -- destruct (np <=? idx x) eqn:El; simpl; auto. simpl in Hh. rewrite Hh. reflexivity.
      * f_equal. apply filter_ext_in. intros k' Hk'. unfold sl'. rewrite existsb_map.
        f_equal. apply existsb_ext_in. intros x Hx. apply hit_upd1.
    + (* not found *)
      destruct (kwargs s) eqn:Ekw; simpl.
      * destruct (IH sl (kwd ++ [k]) NS Hr) as [IH1 IH2].
        split; [exact IH1|]. intros Hf. rewrite (IH2 Hf). rewrite <- app_assoc. simpl.
        f_equal. f_equal. apply map_ext_in. intros x Hx. unfold upd. simpl.
        assert (hit np k x = false) as Hh by (rewrite existsb_false in Ef; apply Ef; auto).
        unfold hit in Hh. destruct (np <=? idx x); simpl in *; auto. rewrite Hh. reflexivity.
      * split; [|discriminate]. intros _.
        destruct ((0 <? np) && nonempty (filter (fun k' => mem k' (posonly s)) all)); eauto.
Qed.

(* defaults form a suffix of the positional parameters *)
Lemma defaults_suffix_split D l :
  defaults_suffix D l = true ->
  exists l1 l2, l = l1 ++ l2 /\ (forall p, In p l1 -> mem p D = false) /\ (forall p, In p l2 -> mem p D = true).
Proof.
  induction l as [|p t IH]; simpl; intros H.
  - exists [], []. simpl. repeat split; intros ? [].
  - destruct (mem p D) eqn:E.
    + exists [], (p :: t). simpl. repeat split; [intros ? []|]. intros q [Hq|Hq]; [subst; auto|].
      rewrite forallb_forall in H. auto.
    + destruct (IH H) as [l1 [l2 [H1 [H2 H3]]]]. exists (p :: l1), l2. subst t. simpl. repeat split; auto.
      intros q [Hq|Hq]; [subst; auto|auto].
Qed.

Lemma filter_none {A} (f : A -> bool) l : (forall x, In x l -> f x = false) -> filter f l = [].
Proof. induction l; simpl; intros H; auto. rewrite H; auto. Qed.
Lemma filter_all {A} (f : A -> bool) l : (forall x, In x l -> f x = true) -> filter f l = l.
Proof. induction l; simpl; intros H; auto. rewrite H; auto. rewrite IHl; auto. Qed.

Lemma defaults_suffix_index D l j p :
  defaults_suffix D l = true -> In (j, p) (indexed 0 l) ->
  let defcount := length (filter (fun q => mem q D) l) in
  defcount <= length l /\ (j < length l - defcount <-> mem p D = false).
Proof.
  intros H Hjp. destruct (defaults_suffix_split D l H) as [l1 [l2 [E [H1 H2]]]]. subst l. cbv zeta.
  rewrite filter_app, (filter_none _ l1 H1), (filter_all _ l2 H2). simpl. rewrite app_length.
  split; [lia|]. replace (length l1 + length l2 - length l2) with (length l1) by lia.
  rewrite indexed_app in Hjp. apply in_app_or in Hjp. destruct Hjp as [Hjp|Hjp]; apply indexed_range in Hjp; simpl in Hjp.
  - split; intros _; [apply H1; tauto|lia].
  - split; intros Hc; [lia|]. rewrite H2 in Hc; [discriminate|tauto].
Qed.

Definition varnames (s : sig) : list name := posonly s ++ pos_or_kw s ++ kwonly s.

Lemma varnames_AK s : varnames s = param_names s ++ kwonly s.
Proof. unfold varnames, param_names. rewrite app_assoc. reflexivity. Qed.

Lemma found_spec s i f k :
  i = 0 -> existsb (hit (length (posonly s)) k) (slots_of i f (varnames s)) = mem k (pos_or_kw s ++ kwonly s).
Proof.
  intros ->. apply eq_true_iff_eq. rewrite existsb_exists, mem_In. split.
  - intros [x [Hx Hh]]. apply In_slots_of in Hx. destruct Hx as [j [p [-> Hjp]]].
    unfold hit in Hh. simpl in Hh. apply andb_prop in Hh. destruct Hh as [H1 H2].
    apply Nat.leb_le in H1. apply Nat.eqb_eq in H2. subst p.
    unfold varnames in Hjp. rewrite indexed_app in Hjp. apply in_app_or in Hjp. destruct Hjp as [Hjp|Hjp].
    + apply indexed_range in Hjp. simpl in Hjp. lia.
    + apply indexed_range in Hjp. tauto.
  - intros Hin. destruct (indexed_In (0 + length (posonly s)) _ _ Hin) as [j Hj].
    exists (mkSlot j k (f j k)). split.
    + apply In_slots_of. exists j, k. split; auto. unfold varnames. rewrite indexed_app. apply in_or_app. auto.
    + unfold hit. simpl. apply indexed_range in Hj. rewrite Nat.eqb_refl.
      assert (length (posonly s) <=? j = true) as -> by (apply Nat.leb_le; lia). reflexivity.
Qed.

Definition item (x : slot) : dict := match cur x with Some v => [(nm x, v)] | None => [] end.

Lemma dget_flat_slots i f N j p :
  NoDup N -> In (j, p) (indexed i N) -> dget p (flat_map item (slots_of i f N)) = f j p.
Proof.
  unfold slots_of. revert i. induction N as [|a N IH]; intros i ND H; simpl in H; [tauto|].
  inversion ND as [|? ? Hn Hd]; subst. simpl. rewrite dget_app. destruct H as [H|H].
  - inversion H; subst. unfold item at 1. simpl. destruct (f j p); simpl.
    + rewrite Nat.eqb_refl. reflexivity.
    + apply dget_None. intros Hin. apply Hn. unfold keys in Hin. rewrite in_map_iff in Hin.
      destruct Hin as [[k v] [Hk Hin]]. simpl in Hk. subst k. rewrite in_flat_map in Hin.
      destruct Hin as [x [Hx Hi]]. rewrite in_map_iff in Hx. destruct Hx as [[j' p'] [Hx Hjp]]. subst x.
      unfold item in Hi. simpl in Hi. destruct (f j' p'); simpl in Hi; [|tauto]. destruct Hi as [Hi|[]].
      inversion Hi; subst. apply indexed_range in Hjp. tauto.
  - assert (dget p (item (mkSlot i a (f i a))) = None) as ->.
    { unfold item. simpl. destruct (f i a); simpl; auto.
      assert (p =? a = false) as ->; auto. apply Nat.eqb_neq. intros ->. apply indexed_range in H. tauto. }
    apply IH; auto.
Qed.

Lemma dget_flat_slots_notin i f N p : ~ In p N -> dget p (flat_map item (slots_of i f N)) = None.
Proof.
  intros H. apply dget_None. intros Hin. apply H. unfold keys in Hin. rewrite in_map_iff in Hin.
  destruct Hin as [[k v] [Hk Hin]]. simpl in Hk. subst k. rewrite in_flat_map in Hin.
  destruct Hin as [x [Hx Hi]]. apply In_slots_of in Hx. destruct Hx as [j [q [-> Hjq]]].
  unfold item in Hi. simpl in Hi. destruct (f j q); simpl in Hi; [|tauto]. destruct Hi as [Hi|[]].
  inversion Hi; subst. apply indexed_range in Hjq. tauto.
Qed.

Definition f0 (s : sig) (c : shape) (j : nat) (p : name) : option value :=
  if j <? min (npos c) (length (posonly s) + length (pos_or_kw s)) then Some (Pos j) else None.

Definition sl0 (s : sig) (c : shape) : list slot := slots_of 0 (f0 s c) (varnames s).

Lemma len_A s : length (param_names s) = length (posonly s) + length (pos_or_kw s).
Proof. unfold param_names. apply app_length. Qed.

Lemma indexed_varnames s j p :
  In (j, p) (indexed 0 (varnames s)) <->
  In (j, p) (indexed 0 (param_names s)) \/ In (j, p) (indexed (length (param_names s)) (kwonly s)).
Proof. rewrite varnames_AK, indexed_app, in_app_iff. simpl. tauto. Qed.

Lemma loop_bad_true s c :
  names_ok s -> existsb (loop_bad s (sl0 s c)) (kws c) = true -> RefErr s c.
Proof.
  intros W H. apply existsb_exists in H. destruct H as [k [Hk Hb]]. unfold loop_bad in Hb.
  apply orb_prop in Hb. destruct Hb as [Hb|Hb].
  - apply existsb_exists in Hb. destruct Hb as [x [Hx Hh]]. apply In_slots_of in Hx.
    destruct Hx as [j [p [-> Hjp]]]. apply andb_prop in Hh. destruct Hh as [Hh Hs]. unfold hit in Hh. simpl in Hh, Hs.
    apply andb_prop in Hh. destruct Hh as [H1 H2]. apply Nat.leb_le in H1. apply Nat.eqb_eq in H2. subst p.
    unfold f0 in Hs. destruct (j <? min (npos c) (length (posonly s) + length (pos_or_kw s))) eqn:Ej; [|discriminate].
    apply Nat.ltb_lt in Ej. rewrite <- len_A in Ej.
    left. exists j, k. repeat split; auto; try lia.
    apply indexed_varnames in Hjp. destruct Hjp as [Hjp|Hjp]; auto. apply indexed_range in Hjp. lia.
  - apply andb_prop in Hb. destruct Hb as [Hf Hkw]. right. left. split.
    + destruct (kwargs s); simpl in Hkw; [discriminate|reflexivity].
    + exists k. split; auto. apply negb_true_iff in Hf. unfold sl0 in Hf. rewrite found_spec in Hf; auto.
      apply mem_nIn. exact Hf.
Qed.

Lemma loop_bad_false s c :
  names_ok s -> existsb (loop_bad s (sl0 s c)) (kws c) = false ->
  ~ (exists j p, In (j, p) (indexed 0 (param_names s)) /\ j < npos c /\ length (posonly s) <= j /\ In p (kws c))
  /\ ~ (kwargs s = None /\ exists k, In k (kws c) /\ ~ In k (pos_or_kw s ++ kwonly s)).
Proof.
  intros W H. rewrite existsb_false in H. split.
  - intros [j [p [Hjp [Hj [Hnp Hk]]]]]. specialize (H p Hk). unfold loop_bad in H. apply orb_false_elim in H.
    destruct H as [H _]. rewrite existsb_false in H. specialize (H (mkSlot j p (f0 s c j p))).
    assert (In (mkSlot j p (f0 s c j p)) (sl0 s c)) as Hin.
    { apply In_slots_of. exists j, p. split; auto. apply indexed_varnames. auto. }
    specialize (H Hin). unfold hit in H. simpl in H. rewrite Nat.eqb_refl in H.
    assert (length (posonly s) <=? j = true) as E by (apply Nat.leb_le; exact Hnp). rewrite E in H. simpl in H.
    unfold f0 in H. apply indexed_range in Hjp. rewrite len_A in Hjp.
    assert (j <? min (npos c) (length (posonly s) + length (pos_or_kw s)) = true) as E2 by (apply Nat.ltb_lt; lia).
    rewrite E2 in H. discriminate.
  - intros [Hkw [k [Hk Hn]]]. specialize (H k Hk). unfold loop_bad in H. apply orb_false_elim in H.
    destruct H as [_ H]. rewrite Hkw in H. simpl in H. rewrite andb_true_r in H. apply negb_false_iff in H.
    unfold sl0 in H. rewrite found_spec in H; auto. apply mem_In in H. tauto.
Qed.

Lemma upd_keeps np ks x : idx (upd np ks x) = idx x /\ nm (upd np ks x) = nm x.
Proof. unfold upd. destruct ((np <=? idx x) && mem (nm x) ks); simpl; auto. Qed.

Definition fill_pos (n m d : nat) (x : slot) : slot :=
  if (max n m <=? idx x) && (idx x <? m + d) && negb (is_some (cur x))
  then mkSlot (idx x) (nm x) (Some Default) else x.
Definition fill_kw (ca : nat) (x : slot) : slot :=
  if (ca <=? idx x) && negb (is_some (cur x)) then mkSlot (idx x) (nm x) (Some Default) else x.

Lemma fill_pos_keeps n m d x : idx (fill_pos n m d x) = idx x /\ nm (fill_pos n m d x) = nm x.
Proof. unfold fill_pos. destruct ((max n m <=? idx x) && (idx x <? m + d) && negb (is_some (cur x))); simpl; auto. Qed.
Lemma fill_kw_keeps ca x : idx (fill_kw ca x) = idx x /\ nm (fill_kw ca x) = nm x.
Proof. unfold fill_kw. destruct ((ca <=? idx x) && negb (is_some (cur x))); simpl; auto. Qed.

Lemma id_keeps (x : slot) : idx x = idx x /\ nm x = nm x.
Proof. auto. Qed.

Definition f1 (s : sig) (c : shape) (j : nat) (p : name) : option value :=
  cur (upd (length (posonly s)) (kws c) (mkSlot j p (f0 s c j p))).

Lemma f1_eq s c j p :
  f1 s c j p = if (length (posonly s) <=? j) && mem p (kws c) then Some (Kw p) else f0 s c j p.
Proof. unfold f1, upd. simpl. destruct ((length (posonly s) <=? j) && mem p (kws c)); reflexivity. Qed.

Lemma nd_varnames s : names_ok s -> NoDup (varnames s).
Proof.
  intros W. rewrite varnames_AK.
  pose proof (nd_A s W). pose proof (nd_K s W). pose proof (nd_AK s W).
  clear - H H0 H1. induction (param_names s) as [|a l IH]; simpl; auto.
  inversion H as [|? ? Hn Hd]; subst. constructor.
  - rewrite in_app_iff. intros [Hi|Hi]; [tauto|]. apply (H1 a); simpl; auto.
  - apply IH; auto. intros p Hp. apply H1. simpl. auto.
Qed.

Lemma kw_loop_result s c :
  names_ok s -> NoDup (kws c) ->
  match kw_loop s (kws c) (kws c) (sl0 s c) [] with
  | inr _ => RefErr s c
  | inl (sl1, kwdict) =>
      sl1 = slots_of 0 (f1 s c) (varnames s)
      /\ kwdict = filter (fun k => negb (mem k (pos_or_kw s ++ kwonly s))) (kws c)
      /\ ~ (exists j p, In (j, p) (indexed 0 (param_names s)) /\ j < npos c /\ length (posonly s) <= j /\ In p (kws c))
      /\ ~ (kwargs s = None /\ exists k, In k (kws c) /\ ~ In k (pos_or_kw s ++ kwonly s))
  end.
Proof.
  intros W NK.
  assert (NS : NoDup (map nm (sl0 s c))) by (unfold sl0; rewrite names_slots_of; apply nd_varnames; exact W).
  destruct (kw_loop_spec s (kws c) (kws c) (sl0 s c) [] NS NK) as [KL1 KL2].
  destruct (existsb (loop_bad s (sl0 s c)) (kws c)) eqn:EL.
  - destruct (KL1 eq_refl) as [e He]. rewrite He. apply loop_bad_true; auto.
  - rewrite (KL2 eq_refl). destruct (loop_bad_false s c W EL) as [N1 N2]. repeat split; auto.
    + unfold sl0. rewrite (map_slots_of _ 0 (f0 s c) (varnames s) (upd_keeps _ _)). reflexivity.
    + simpl. apply filter_ext. intros k. unfold sl0. rewrite found_spec; auto.
Qed.

Lemma bind_c_unfold s c :
  bind_c s c =
  match kw_loop s (kws c) (kws c) (sl0 s c) [] with
  | inr e => Err e
  | inl (sl1, kwdict) =>
    let ca := length (posonly s) + length (pos_or_kw s) in
    let n := min (npos c) ca in
    if (ca <? npos c) && negb (is_some (varargs s)) then Err CTooManyPositional else
    let defcount := length (filter (fun p => mem p (defaults s)) (posonly s ++ pos_or_kw s)) in
    let m := ca - defcount in
    let missing :=
      if npos c <? ca
      then map nm (filter (fun x => (npos c <=? idx x) && (idx x <? m) && negb (is_some (cur x))) sl1)
      else [] in
    if nonempty missing then Err (CMissingPositional missing) else
    let sl2 := if npos c <? ca then map (fill_pos n m defcount) sl1 else sl1 in
    let missing_kw :=
      map nm (filter (fun x => (ca <=? idx x) && negb (is_some (cur x)) && negb (mem (nm x) (defaults s))) sl2) in
    if nonempty missing_kw then Err (CMissingKwonly missing_kw) else
    Ok (flat_map item (map (fill_kw ca) sl2)
        ++ map (fun va => (va, VarArgs (seq n (npos c - n)))) (opt_list (varargs s))
        ++ map (fun kn => (kn, KwArgs kwdict)) (opt_list (kwargs s)))
  end.
Proof. reflexivity. Qed.

Lemma seq_min n ca : seq (min n ca) (n - min n ca) = seq ca (n - ca).
Proof.
  destruct (Nat.le_gt_cases n ca) as [H|H].
  - rewrite Nat.min_l by lia. replace (n - n) with 0 by lia. replace (n - ca) with 0 by lia. reflexivity.
  - rewrite Nat.min_r by lia. reflexivity.
Qed.

Theorem c_ref s c :
  wf_sig s -> wf_shape c ->
  match bind_c s c with
  | Err _ => RefErr s c
  | Ok d => ~ RefErr s c /\ forall p, In p (all_names s) -> dget p d = dget p (ref_dict s c)
  end.
Proof.
  intros [WN WD] NK. unfold wf_shape in NK. pose proof (wf_names s WN) as W.
  rewrite bind_c_unfold. pose proof (kw_loop_result s c W NK) as KL.
  destruct (kw_loop s (kws c) (kws c) (sl0 s c) []) as [[sl1 kwdict]|e]; [|exact KL].
  destruct KL as [-> [-> [N1 N2]]]. cbv zeta.
  fold (param_names s). rewrite <- (len_A s).
  set (ca := length (param_names s)).
  set (dc := length (filter (fun p => mem p (defaults s)) (param_names s))).
  set (m := ca - dc). set (n := min (npos c) ca). set (np := length (posonly s)).
  assert (Hnp : np <= ca) by (unfold np, ca; rewrite len_A; lia).
  assert (SUF : forall j p, In (j, p) (indexed 0 (param_names s)) ->
                dc <= ca /\ (j < m <-> mem p (defaults s) = false) /\ j < ca).
  { intros j p Hjp. destruct (defaults_suffix_index _ _ j p WD Hjp) as [H1 H2]. fold dc ca m in H1, H2.
    apply indexed_range in Hjp. fold ca in Hjp. repeat split; try tauto; lia. }
  assert (KIDX : forall j p, In (j, p) (indexed ca (kwonly s)) -> ca <= j /\ In p (kwonly s))
    by (intros j p H; apply indexed_range in H; split; [lia|tauto]).
  assert (F0hi : forall j p, ca <= j -> f0 s c j p = None).
  { intros j p Hj. unfold f0. rewrite <- len_A. fold ca.
    assert (j <? min (npos c) ca = false) as -> by (apply Nat.ltb_ge; lia). reflexivity. }
  (* 3. too many positional arguments *)
  destruct ((ca <? npos c) && negb (is_some (varargs s))) eqn:E3.
  { apply andb_prop in E3. destruct E3 as [E3 E3v]. apply Nat.ltb_lt in E3. right. right. left. split; auto.
    destruct (varargs s); simpl in E3v; [discriminate|reflexivity]. }
  assert (N3 : ~ (ca < npos c /\ varargs s = None)).
  { intros [H1 H2]. rewrite H2 in E3. simpl in E3. rewrite andb_true_r in E3. apply Nat.ltb_ge in E3. lia. }
  (* 4. missing positional arguments *)
  destruct (nonempty (if npos c <? ca
                      then map nm (filter (fun x => (npos c <=? idx x) && (idx x <? m) && negb (is_some (cur x)))
                                          (slots_of 0 (f1 s c) (varnames s)))
                      else [])) eqn:E4.
  { destruct (npos c <? ca) eqn:G; [|discriminate]. rewrite nonempty_map, nonempty_filter in E4.
    apply existsb_exists in E4. destruct E4 as [x [Hx Hp]]. apply In_slots_of in Hx. destruct Hx as [j [p [-> Hjp]]].
    simpl in Hp. apply andb_prop in Hp. destruct Hp as [Hp Hc]. apply andb_prop in Hp. destruct Hp as [Hp1 Hp2].
    apply Nat.leb_le in Hp1. apply Nat.ltb_lt in Hp2. apply negb_true_iff in Hc.
    apply indexed_varnames in Hjp. destruct Hjp as [Hjp|Hjp]; [|apply KIDX in Hjp; unfold m in Hp2; lia].
    destruct (SUF j p Hjp) as [S1 [S2 S3]].
    right. right. right. left. exists j, p. repeat split; auto.
    - intros [Hl Hk]. rewrite f1_eq in Hc. apply Nat.leb_le in Hl. apply mem_In in Hk. fold np in Hl.
      unfold np in Hl. rewrite Hl, Hk in Hc. discriminate.
    - apply mem_nIn. apply S2. exact Hp2. }
  assert (N4 : ~ (exists j p, In (j, p) (indexed 0 (param_names s)) /\ npos c <= j
                  /\ ~ (length (posonly s) <= j /\ In p (kws c)) /\ ~ In p (defaults s))).
  { intros [j [p [Hjp [Hj [Hnk Hd]]]]]. destruct (SUF j p Hjp) as [S1 [S2 S3]].
    assert (npos c <? ca = true) as G by (apply Nat.ltb_lt; lia). rewrite G in E4.
    rewrite nonempty_map, nonempty_filter in E4. rewrite existsb_false in E4.
    specialize (E4 (mkSlot j p (f1 s c j p))).
    assert (In (mkSlot j p (f1 s c j p)) (slots_of 0 (f1 s c) (varnames s))) as Hin.
    { apply In_slots_of. exists j, p. split; auto. apply indexed_varnames. auto. }
    specialize (E4 Hin). simpl in E4.
    assert (npos c <=? j = true) as X1 by (apply Nat.leb_le; lia).
    assert (j <? m = true) as X2 by (apply Nat.ltb_lt; apply S2; apply mem_nIn; exact Hd).
    rewrite X1, X2 in E4. simpl in E4.
    rewrite f1_eq in E4.
    destruct ((length (posonly s) <=? j) && mem p (kws c)) eqn:Ek.
    { apply andb_prop in Ek. destruct Ek as [Ek1 Ek2]. apply Nat.leb_le in Ek1. apply mem_In in Ek2. tauto. }
    unfold f0 in E4. rewrite <- len_A in E4. fold ca in E4.
    assert (j <? min (npos c) ca = false) as Ej by (apply Nat.ltb_ge; lia). rewrite Ej in E4. discriminate. }
  (* the slots after the positional defaults *)
  set (f2 := fun j p => if npos c <? ca then cur (fill_pos n m dc (mkSlot j p (f1 s c j p))) else f1 s c j p).
  assert (SL2 : (if npos c <? ca then map (fill_pos n m dc) (slots_of 0 (f1 s c) (varnames s))
                 else slots_of 0 (f1 s c) (varnames s)) = slots_of 0 f2 (varnames s)).
  { unfold f2. destruct (npos c <? ca).
    - apply map_slots_of. intros x. apply fill_pos_keeps.
    - reflexivity. }
  rewrite SL2.
  assert (F2hi : forall j p, ca <= j -> f2 j p = if mem p (kws c) then Some (Kw p) else None).
  { intros j p Hj. unfold f2.
    assert (f1 s c j p = if mem p (kws c) then Some (Kw p) else None) as E.
    { rewrite f1_eq. fold np. assert (np <=? j = true) as -> by (apply Nat.leb_le; lia). simpl.
      rewrite F0hi; auto. }
    destruct (npos c <? ca); auto. unfold fill_pos. simpl.
    assert (j <? m + dc = false) as ->.
    { apply Nat.ltb_ge. unfold m. assert (dc <= ca); [|lia]. unfold dc, ca. clear.
      induction (param_names s); simpl; auto. destruct (mem a (defaults s)); simpl; lia. }
    rewrite andb_false_r. simpl. exact E. }
  assert (F2lo : forall j p, In (j, p) (indexed 0 (param_names s)) -> f2 j p = Some (ref_val_pos s c j p)).
  { intros j p Hjp. destruct (SUF j p Hjp) as [S1 [S2 S3]]. unfold f2, ref_val_pos. fold np.
    destruct (j <? npos c) eqn:Ej.
    - apply Nat.ltb_lt in Ej.
      assert (f1 s c j p = Some (Pos j)) as E.
      { rewrite f1_eq. fold np. destruct ((np <=? j) && mem p (kws c)) eqn:Ek.
        - exfalso. apply N1. exists j, p. apply andb_prop in Ek. destruct Ek as [Ek1 Ek2].
          apply Nat.leb_le in Ek1. apply mem_In in Ek2. auto.
        - unfold f0. rewrite <- len_A. fold ca.
          assert (j <? min (npos c) ca = true) as -> by (apply Nat.ltb_lt; lia). reflexivity. }
      rewrite E. destruct (npos c <? ca); auto. unfold fill_pos. simpl. rewrite andb_false_r. reflexivity.
    - apply Nat.ltb_ge in Ej. assert (npos c <? ca = true) as -> by (apply Nat.ltb_lt; lia).
      rewrite f1_eq. fold np. destruct ((np <=? j) && mem p (kws c)) eqn:Ek.
      + unfold fill_pos. simpl. rewrite andb_false_r. reflexivity.
      + unfold f0. rewrite <- len_A. fold ca.
        assert (j <? min (npos c) ca = false) as -> by (apply Nat.ltb_ge; lia).
        unfold fill_pos. simpl.
        assert (mem p (defaults s) = true) as Hd.
        { destruct (mem p (defaults s)) eqn:Ed; auto. exfalso. apply N4. exists j, p. repeat split; auto.
          - intros [Hl Hk]. apply Nat.leb_le in Hl. apply mem_In in Hk. fold np in Hl. rewrite Hl, Hk in Ek. discriminate.
          - apply mem_nIn. exact Ed. }
        assert (~ j < m) as Hm by (intros Hlt; apply S2 in Hlt; congruence).
        assert (max n m <=? j = true) as -> by (apply Nat.leb_le; unfold n; lia).
        assert (j <? m + dc = true) as -> by (apply Nat.ltb_lt; unfold m; lia).
        reflexivity. }
  (* 5. missing keyword-only arguments *)
  rewrite nonempty_map, nonempty_filter.
  destruct (existsb (fun x => (ca <=? idx x) && negb (is_some (cur x)) && negb (mem (nm x) (defaults s)))
                    (slots_of 0 f2 (varnames s))) eqn:E5.
  { apply existsb_exists in E5. destruct E5 as [x [Hx Hp]]. apply In_slots_of in Hx. destruct Hx as [j [p [-> Hjp]]].
    simpl in Hp. apply andb_prop in Hp. destruct Hp as [Hp Hd]. apply andb_prop in Hp. destruct Hp as [Hp1 Hp2].
    apply Nat.leb_le in Hp1. apply negb_true_iff in Hp2, Hd.
    apply indexed_varnames in Hjp. destruct Hjp as [Hjp|Hjp]; [destruct (SUF j p Hjp); lia|].
    apply KIDX in Hjp. destruct Hjp as [_ HpK]. rewrite F2hi in Hp2; auto.
    right. right. right. right. exists p. destruct (mem p (kws c)) eqn:Ek; [discriminate|].
    apply mem_nIn in Ek, Hd. auto. }
  assert (N5 : ~ (exists p, In p (kwonly s) /\ ~ In p (kws c) /\ ~ In p (defaults s))).
  { intros [p [HpK [Hk Hd]]]. destruct (indexed_In ca _ _ HpK) as [j Hjp].
    rewrite existsb_false in E5. specialize (E5 (mkSlot j p (f2 j p))).
    assert (In (mkSlot j p (f2 j p)) (slots_of 0 f2 (varnames s))) as Hin.
    { apply In_slots_of. exists j, p. split; auto. apply indexed_varnames. auto. }
    specialize (E5 Hin). simpl in E5. destruct (KIDX j p Hjp) as [Hj _].
    assert (ca <=? j = true) as X1 by (apply Nat.leb_le; lia). rewrite X1 in E5. rewrite F2hi in E5; auto.
    apply mem_nIn in Hk, Hd. rewrite Hk, Hd in E5. discriminate. }
  (* Ok *)
  split.
  { unfold RefErr. fold ca. intros [H|[H|[H|[H|H]]]]; auto. }
  rewrite (map_slots_of (fill_kw ca) 0 f2 (varnames s) (fill_kw_keeps ca)).
  set (f3 := fun j p => cur (fill_kw ca (mkSlot j p (f2 j p)))).
  pose proof (nd_varnames s W) as NV.
  intros p Hp. apply all_names_cases in Hp. destruct Hp as [Hp|[Hp|[Hp|Hp]]].
  - destruct (In_A_indexed s p Hp) as [j [Hjp Hj]]. fold ca in Hj.
    rewrite dget_app. rewrite (dget_flat_slots 0 f3 _ j p NV) by (apply indexed_varnames; auto).
    rewrite (ref_dict_pos s c j p W Hjp). unfold f3, fill_kw. simpl.
    assert (ca <=? j = false) as -> by (apply Nat.leb_gt; lia). simpl. rewrite (F2lo j p Hjp). reflexivity.
  - destruct (indexed_In ca _ _ Hp) as [j Hjp]. destruct (KIDX j p Hjp) as [Hj _].
    rewrite dget_app. rewrite (dget_flat_slots 0 f3 _ j p NV) by (apply indexed_varnames; auto).
    rewrite (ref_dict_kwo s c p W Hp). unfold f3, fill_kw, ref_val_kwo. simpl.
    assert (ca <=? j = true) as -> by (apply Nat.leb_le; lia). rewrite F2hi; auto.
    destruct (mem p (kws c)); reflexivity.
  - destruct (nd_va s W p Hp) as [H1 H2].
    rewrite dget_app. rewrite dget_flat_slots_notin.
    2:{ rewrite varnames_AK, in_app_iff. tauto. }
    rewrite Hp. simpl. rewrite Nat.eqb_refl. rewrite (ref_dict_va s c p W Hp). unfold ref_star. fold ca.
    unfold n. rewrite seq_min. reflexivity.
  - destruct (nd_kn s W p Hp) as [H1 [H2 H3]].
    rewrite dget_app. rewrite dget_flat_slots_notin.
    2:{ rewrite varnames_AK, in_app_iff. tauto. }
    rewrite dget_app. rewrite Hp. rewrite (ref_dict_kn s c p W Hp). unfold ref_starstar.
    destruct (varargs s) as [va|] eqn:Ev; simpl.
    + assert (p =? va = false) as -> by (apply Nat.eqb_neq; intros ->; apply H3; reflexivity).
      rewrite Nat.eqb_refl. reflexivity.
    + rewrite Nat.eqb_refl. reflexivity.
Qed.

(* ---------------------------------------------------------------------------------- *)
(* the property *)

Lemma ref_dict_total s c p : names_ok s -> In p (all_names s) -> dget p (ref_dict s c) <> None.
Proof.
  intros W Hp. apply all_names_cases in Hp. destruct Hp as [Hp|[Hp|[Hp|Hp]]].
  - destruct (In_A_indexed s p Hp) as [j [Hjp _]]. rewrite (ref_dict_pos s c j p W Hjp). discriminate.
  - rewrite (ref_dict_kwo s c p W Hp). discriminate.
  - rewrite (ref_dict_va s c p W Hp). discriminate.
  - rewrite (ref_dict_kn s c p W Hp). discriminate.
Qed.

Lemma bind_agree_fixed_lemma :
  forall s c, wf_sig s -> wf_shape c -> agree s (bind_py_fixed s c) (bind_c s c).
Proof.
  intros s c WS WC. pose proof (py_ref s c WS WC) as HP. pose proof (c_ref s c WS WC) as HC.
  pose proof (wf_names s (proj1 WS)) as W.
  destruct (bind_py_fixed s c) as [d1|e1], (bind_c s c) as [d2|e2]; simpl; auto.
  - destruct HP as [_ HP], HC as [_ HC]. intros p Hp. rewrite (HP p Hp), (HC p Hp). split; auto.
    apply ref_dict_total; auto.
  - destruct HP as [HP _]. auto.
  - destruct HC as [HC _]. auto.
Qed.

(* where the code as it stands coincides with the repaired one *)
Lemma bind_py_eq_fixed s c :
  wf_shape c ->
  (kwargs s = None \/ forall k, In k (kws c) -> ~ In k (posonly s)) ->
  bind_py s c = bind_py_fixed s c.
Proof.
  intros NK H. unfold wf_shape in NK. unfold bind_py, bind_py_fixed, bind_py_gen.
  rewrite (dict_of_id (map (fun k => (k, Kw k)) (kws c))) by (apply (eq_ind_r (@NoDup name) NK (keys_kwsd c))).
  fold (kwsd c). rewrite keys_kwsd.
  destruct (existsb (fun k => mem k (posonly s)) (kws c)) eqn:EP.
  - (* some keyword names a positional-only parameter: then there is no **kwargs, and both raise *)
    destruct H as [H|H].
    2:{ apply existsb_exists in EP. destruct EP as [k [Hk Hm]]. apply mem_In in Hm. exfalso. eapply H; eauto. }
    rewrite H. simpl. rewrite !nonempty_filter, EP. simpl.
    reflexivity.
  - rewrite existsb_false in EP.
    assert (filter (fun kv => negb (mem (fst kv) (posonly s))) (kwsd c) = kwsd c) as ->.
    { apply filter_all. intros [k v] Hin. simpl. unfold kwsd in Hin. apply in_map_iff in Hin.
      destruct Hin as [k' [E Hk']]. inversion E; subst. rewrite (EP k Hk'). reflexivity. }
    assert (filter (fun k => negb (mem k (param_names s ++ kwonly s))) (kws c)
            = filter (fun k => negb (mem k (pos_or_kw s ++ kwonly s))) (kws c)) as E.
    { apply filter_ext_in. intros k Hk. unfold param_names. rewrite <- app_assoc, (mem_app k (posonly s)).
      rewrite (EP k Hk). reflexivity. }
    destruct (kwargs s); rewrite ?E; reflexivity.
Qed.

Lemma bind_agree_partial_lemma :
  forall s c, wf_sig s -> wf_shape c ->
  (kwargs s = None \/ forall k, In k (kws c) -> ~ In k (posonly s)) ->
  agree s (bind_py s c) (bind_c s c).
Proof. intros s c WS WC H. rewrite (bind_py_eq_fixed s c WC H). apply bind_agree_fixed_lemma; auto. Qed.

(* outside that boundary the code as it stands disagrees with CPython on every call it accepts *)
Lemma bind_py_ok_kwargs s c kn d :
  kwargs s = Some kn -> bind_py s c = Ok d ->
  dget kn d = Some (KwArgs (filter (fun k => negb (mem k (param_names s ++ kwonly s))) (kws c))).
Proof.
  intros Hkn. unfold bind_py, bind_py_gen. rewrite Hkn.
  destruct (nonempty _); [discriminate|]. destruct (nonempty _ && _); [discriminate|].
  destruct (nonempty _ && _); [discriminate|]. destruct (find _ _); [discriminate|].
  destruct (varargs s).
  - intros E. inversion E; subst. rewrite dget_dset, Nat.eqb_refl. reflexivity.
  - destruct (_ <? _); [discriminate|]. intros E. inversion E; subst. rewrite dget_dset, Nat.eqb_refl. reflexivity.
Qed.

Lemma bind_disagree_exact_lemma :
  forall s c d, wf_sig s -> wf_shape c ->
  kwargs s <> None -> (exists k, In k (kws c) /\ In k (posonly s)) ->
  bind_py s c = Ok d -> ~ agree s (bind_py s c) (bind_c s c).
Proof.
  intros s c d WS WC Hkw [k [Hk HkP]] Hok Hag. pose proof (wf_names s (proj1 WS)) as W.
  destruct (kwargs s) as [kn|] eqn:Ekn; [|congruence].
  pose proof (bind_py_ok_kwargs s c kn d Ekn Hok) as Hd. rewrite Hok in Hag.
  pose proof (c_ref s c WS WC) as HC. destruct (bind_c s c) as [d2|e2]; simpl in Hag; [|exact Hag].
  destruct HC as [_ HC].
  assert (In kn (all_names s)) as Hin.
  { unfold all_names. rewrite Ekn. rewrite !in_app_iff. simpl. tauto. }
  destruct (Hag kn Hin) as [Heq _]. rewrite (HC kn Hin), (ref_dict_kn s c kn W Ekn), Hd in Heq.
  unfold ref_starstar in Heq. inversion Heq as [Hf].
  assert (In k (filter (fun k0 => negb (mem k0 (pos_or_kw s ++ kwonly s))) (kws c))) as Hr.
  { apply filter_In. split; auto. apply negb_true_iff. apply mem_nIn. intros Hi. apply in_app_or in Hi.
    destruct Hi as [Hi|Hi]; [eapply nd_PQ; eauto | eapply nd_AK; eauto; apply In_posonly_A; auto]. }
  rewrite <- Hf in Hr. apply filter_In in Hr. destruct Hr as [_ Hr]. apply negb_true_iff in Hr. apply mem_nIn in Hr.
  apply Hr. apply in_or_app. left. apply In_posonly_A. exact HkP.
Qed.

(* witnesses: def f(x, /, **kw)  with  f(x=..)  and  f(a0, x=..) *)
Definition sig_posonly_kwargs : sig := mkSig [0] [] [] [] None (Some 1).

Lemma wf_sig_posonly_kwargs : wf_sig sig_posonly_kwargs.
Proof. split; [|reflexivity]. repeat constructor; simpl; intuition discriminate. Qed.

Lemma bind_agree_refuted_lemma :
  exists s c, wf_sig s /\ wf_shape c /\ is_err (bind_py s c) = false /\ is_err (bind_c s c) = true
              /\ ~ agree s (bind_py s c) (bind_c s c).
Proof.
  exists sig_posonly_kwargs, (mkShape 0 [0]). split; [exact wf_sig_posonly_kwargs|]. split; [|split; [|split]].
  - repeat constructor; simpl; intuition.
  - reflexivity.
  - reflexivity.
  - vm_compute. exact (fun H => H).
Qed.

Lemma bind_agree_refuted_binding_lemma :
  exists s c, wf_sig s /\ wf_shape c /\ is_err (bind_py s c) = false /\ is_err (bind_c s c) = false
              /\ lookup_all s (bind_py s c) = Some [Some (Kw 0); Some (KwArgs [])]
              /\ lookup_all s (bind_c s c) = Some [Some (Pos 0); Some (KwArgs [0])]
              /\ ~ agree s (bind_py s c) (bind_c s c).
Proof.
  exists sig_posonly_kwargs, (mkShape 1 [0]). split; [exact wf_sig_posonly_kwargs|]. split; [|repeat split].
  - repeat constructor; simpl; intuition.
  - vm_compute. intros H. destruct (H 0 (or_introl eq_refl)) as [H1 _]. discriminate H1.
Qed.

(* the code as it stands is the more lenient of the two: whenever it raises, so does the repaired one *)
Lemma bind_py_err_fixed_err s c :
  wf_shape c -> is_err (bind_py s c) = true -> is_err (bind_py_fixed s c) = true.
Proof.
  intros NK. unfold wf_shape in NK. unfold bind_py, bind_py_fixed, bind_py_gen.
  rewrite (dict_of_id (map (fun k => (k, Kw k)) (kws c))) by (apply (eq_ind_r (@NoDup name) NK (keys_kwsd c))).
  fold (kwsd c).
  destruct (nonempty _); [reflexivity|]. destruct (nonempty _ && _); [reflexivity|].
  destruct (nonempty _ && _); [reflexivity|].
  set (X := dupdate (dict_of (map (fun n => (n, Default)) (defaults s)))
                    (dict_of (combine (param_names s) (map Pos (seq 0 (npos c)))))).
  set (L := filter (fun n => negb (mem n (defaults s))) (param_names s) ++ kwonly s).
  assert (MONO : forall key, dmem key (dupdate X (filter (fun kv => negb (mem (fst kv) (posonly s))) (kwsd c))) = true ->
                             dmem key (dupdate X (kwsd c)) = true).
  { intros key. unfold dmem. rewrite !dget_dupdate.
    2:{ rewrite keys_kwsd. exact NK. }
    2:{ unfold kwsd. rewrite (keys_filter_map (fun k => negb (mem k (posonly s))) Kw). apply NoDup_filter. exact NK. }
    unfold kwsd. rewrite (dget_filter_map (fun k => negb (mem k (posonly s))) Kw), dget_map_self.
    destruct (mem key (kws c)); simpl; auto. }
  destruct (find (fun key => negb (dmem key (dupdate X (kwsd c)))) L) as [key|] eqn:EU.
  - intros _. apply find_some in EU. destruct EU as [Hin Hm]. apply negb_true_iff in Hm.
    destruct (find (fun key => negb (dmem key (dupdate X (filter (fun kv => negb (mem (fst kv) (posonly s))) (kwsd c))))) L)
      as [key'|] eqn:EF; [reflexivity|].
    pose proof (find_none _ _ EF key Hin) as Hf. apply negb_false_iff in Hf. apply MONO in Hf. congruence.
  - destruct (find (fun key => negb (dmem key (dupdate X (filter (fun kv => negb (mem (fst kv) (posonly s))) (kwsd c))))) L);
      [reflexivity|].
    destruct (varargs s).
    + destruct (kwargs s); simpl; discriminate.
    + destruct (_ <? _); [reflexivity|]. destruct (kwargs s); simpl; discriminate.
Qed.

Lemma bind_agree_boundary_lemma :
  forall s c, wf_sig s -> wf_shape c ->
  (agree s (bind_py s c) (bind_c s c) <->
   (kwargs s = None \/ (forall k, In k (kws c) -> ~ In k (posonly s)) \/ is_err (bind_py s c) = true)).
Proof.
  intros s c WS WC. split.
  - intros Hag. destruct (kwargs s) as [kn|] eqn:Ekn; [|auto]. right.
    destruct (existsb (fun k => mem k (posonly s)) (kws c)) eqn:EP.
    + right. destruct (bind_py s c) as [d|e] eqn:Eb; [|reflexivity]. exfalso.
      apply existsb_exists in EP. destruct EP as [k [Hk Hm]]. apply mem_In in Hm.
      apply (bind_disagree_exact_lemma s c d WS WC); try congruence; eauto.
    + left. rewrite existsb_false in EP. intros k Hk. apply mem_nIn. auto.
  - intros [H|[H|H]].
    + apply bind_agree_partial_lemma; auto.
    + apply bind_agree_partial_lemma; auto.
    + pose proof (bind_py_err_fixed_err s c WC H) as HF.
      pose proof (bind_agree_fixed_lemma s c WS WC) as Hag.
      destruct (bind_py s c); [discriminate|]. destruct (bind_py_fixed s c); [discriminate|].
      destruct (bind_c s c); simpl in *; auto.
Qed.

(* every error the code as it stands reports is a CPython TypeError *)
Lemma bind_err_sound_lemma :
  forall s c, wf_sig s -> wf_shape c -> is_err (bind_py s c) = true -> is_err (bind_c s c) = true.
Proof.
  intros s c WS WC H. pose proof (bind_py_err_fixed_err s c WC H) as HF.
  pose proof (bind_agree_fixed_lemma s c WS WC) as Hag.
  destruct (bind_py_fixed s c); [discriminate|]. destruct (bind_c s c); simpl in *; [contradiction|reflexivity].
Qed.

(* the boolean checks the harness monitors imply the hypotheses of the theorems *)
Lemma nodupb_NoDup l : nodupb l = true -> NoDup l.
Proof.
  induction l; simpl; intros H; [constructor|]. apply andb_prop in H. destruct H as [H1 H2].
  constructor; auto. apply negb_true_iff in H1. apply mem_nIn. exact H1.
Qed.

Lemma wf_sigb_sound s : wf_sigb s = true -> wf_sig s.
Proof. unfold wf_sigb, wf_sig. intros H. apply andb_prop in H. destruct H. split; auto. apply nodupb_NoDup; auto. Qed.

Lemma wf_shapeb_sound c : nodupb (kws c) = true -> wf_shape c.
Proof. apply nodupb_NoDup. Qed.
