(* C13 lemmas about coq/Bind/Model.v.

   Both binders are characterised against one closed-form description ([RefErr], [ref_dict]):
     py_ref : bind_py_fixed s c  is  Err  iff RefErr, and on Ok agrees with ref_dict on every parameter
     c_ref  : bind_c s c         likewise
   from which bind_agree_fixed follows; bind_py (the code as it stands) equals bind_py_fixed whenever no
   keyword names a positional-only parameter of a **kwargs function, and disagrees with CPython on every
   other call it accepts. *)
From Coq Require Import List Arith Bool Lia.
From PV Require Import Bind.Model.
Import ListNotations.

(* ---------------------------------------------------------------------------------- *)
(* generic *)

Lemma mem_In k l : mem k l = true <-> In k l.
Proof.
  unfold mem. rewrite existsb_exists. split.
  - intros [x [H1 H2]]. apply Nat.eqb_eq in H2. subst. exact H1.
  - intros H. exists k. split; [exact H | apply Nat.eqb_refl].
Qed.

Lemma mem_nIn k l : mem k l = false <-> ~ In k l.
Proof.
  rewrite <- mem_In. destruct (mem k l); split; intros H; try reflexivity; try congruence.
Qed.

Lemma mem_app k l1 l2 : mem k (l1 ++ l2) = mem k l1 || mem k l2.
Proof. unfold mem. apply existsb_app. Qed.

Lemma nonempty_exists {A} (l : list A) : nonempty l = true <-> exists x, In x l.
Proof. destruct l; simpl; split; intros H; try discriminate; eauto. destruct H as [? []]. Qed.

Lemma nonempty_filter {A} (f : A -> bool) l : nonempty (filter f l) = existsb f l.
Proof. induction l; simpl; auto. destruct (f a); simpl; auto. Qed.

Lemma nonempty_map {A B} (f : A -> B) l : nonempty (map f l) = nonempty l.
Proof. destruct l; reflexivity. Qed.

Lemma existsb_false {A} (f : A -> bool) l : existsb f l = false <-> forall x, In x l -> f x = false.
Proof.
  split.
  - intros H x Hx. destruct (f x) eqn:E; auto.
    assert (existsb f l = true) by (apply existsb_exists; eauto). congruence.
  - intros H. destruct (existsb f l) eqn:E; auto.
    apply existsb_exists in E. destruct E as [x [H1 H2]]. rewrite H in H2; auto.
Qed.

Lemma NoDup_app_l {A} (l1 l2 : list A) : NoDup (l1 ++ l2) -> NoDup l1.
Proof. induction l1; simpl; intros H; [constructor|]. inversion H; subst. constructor; auto. rewrite in_app_iff in *. tauto. Qed.

Lemma NoDup_app_r {A} (l1 l2 : list A) : NoDup (l1 ++ l2) -> NoDup l2.
Proof. induction l1; simpl; intros H; auto. inversion H; auto. Qed.

Lemma NoDup_app_disj {A} (l1 l2 : list A) x : NoDup (l1 ++ l2) -> In x l1 -> In x l2 -> False.
Proof.
  induction l1; simpl; intros H H1 H2; [tauto|]. inversion H; subst. destruct H1.
  - subst. apply H3. apply in_or_app. auto.
  - auto.
Qed.

(* ---------------------------------------------------------------------------------- *)
(* indexed *)

Lemma indexed_app {A} i (l1 l2 : list A) :
  indexed i (l1 ++ l2) = indexed i l1 ++ indexed (i + length l1) l2.
Proof.
  revert i. induction l1; intros i; simpl.
  - rewrite Nat.add_0_r. reflexivity.
  - rewrite IHl1. repeat f_equal. lia.
Qed.

Lemma indexed_range {A} i (l : list A) j x : In (j, x) (indexed i l) -> i <= j < i + length l /\ In x l.
Proof.
  revert i. induction l; intros i; simpl; [tauto|]. intros [H|H].
  - inversion H; subst. split; [lia|auto].
  - apply IHl in H. split; [lia|tauto].
Qed.

Lemma indexed_In {A} i (l : list A) x : In x l -> exists j, In (j, x) (indexed i l).
Proof.
  revert i. induction l; intros i; simpl; [tauto|]. intros [H|H].
  - subst. eauto.
  - destruct (IHl (S i) H) as [j Hj]. eauto.
Qed.

Lemma indexed_fun {A} i (l : list A) j x y : In (j, x) (indexed i l) -> In (j, y) (indexed i l) -> x = y.
Proof.
  revert i. induction l; intros i; simpl; [tauto|]. intros [H1|H1] [H2|H2].
  - congruence.
  - inversion H1; subst. apply indexed_range in H2. lia.
  - inversion H2; subst. apply indexed_range in H1. lia.
  - eauto.
Qed.

Lemma indexed_inj i (l : list name) j1 j2 x :
  NoDup l -> In (j1, x) (indexed i l) -> In (j2, x) (indexed i l) -> j1 = j2.
Proof.
  revert i. induction l; intros i ND; simpl; [tauto|]. inversion ND; subst. intros [H1|H1] [H2|H2].
  - congruence.
  - inversion H1; subst. apply indexed_range in H2. tauto.
  - inversion H2; subst. apply indexed_range in H1. tauto.
  - eauto.
Qed.

Lemma indexed_length {A} i (l : list A) : length (indexed i l) = length l.
Proof. revert i. induction l; intros; simpl; auto. Qed.

(* ---------------------------------------------------------------------------------- *)
(* dicts *)

Lemma dget_dset k k' v d : dget k (dset k' v d) = if k =? k' then Some v else dget k d.
Proof.
  induction d as [|[k0 v0] d IH]; simpl.
  - reflexivity.
  - destruct (k' =? k0) eqn:E; simpl.
    + apply Nat.eqb_eq in E. subst. destruct (k =? k0); reflexivity.
    + rewrite IH. destruct (k =? k0) eqn:E0; auto.
      destruct (k =? k') eqn:E1; auto. apply Nat.eqb_eq in E0, E1. subst. rewrite Nat.eqb_refl in E. discriminate.
Qed.

Lemma dget_app k d1 d2 : dget k (d1 ++ d2) = match dget k d1 with Some v => Some v | None => dget k d2 end.
Proof. induction d1 as [|[k0 v0] d1 IH]; simpl; auto. destruct (k =? k0); auto. Qed.

Lemma dget_None k d : dget k d = None <-> ~ In k (keys d).
Proof.
  induction d as [|[k0 v0] d IH]; simpl; [tauto|]. destruct (k =? k0) eqn:E.
  - apply Nat.eqb_eq in E. split; [discriminate|]. intros H. exfalso. apply H. auto.
  - apply Nat.eqb_neq in E. rewrite IH. split; intros H; [intros [H1|H1]; [congruence|tauto] | tauto].
Qed.

Lemma dset_fresh k v d : ~ In k (keys d) -> dset k v d = d ++ [(k, v)].
Proof.
  induction d as [|[k0 v0] d IH]; simpl; intros H; auto.
  destruct (k =? k0) eqn:E.
  - apply Nat.eqb_eq in E. exfalso. apply H. auto.
  - rewrite IH; auto.
Qed.

Lemma dupdate_fresh d o : NoDup (keys (d ++ o)) -> dupdate d o = d ++ o.
Proof.
  revert d. induction o as [|[k v] o IH]; intros d H; simpl.
  - rewrite app_nil_r. reflexivity.
  - unfold dupdate in *. simpl. rewrite dset_fresh.
    + rewrite IH; rewrite <- app_assoc; simpl; auto.
    + unfold keys in *. rewrite map_app in H. simpl in H. apply NoDup_remove_2 in H.
      intros Hin. apply H. apply in_or_app. auto.
Qed.

Lemma dict_of_id l : NoDup (keys l) -> dict_of l = l.
Proof. intros H. unfold dict_of. rewrite dupdate_fresh; auto. Qed.

Lemma dget_dupdate k d o :
  NoDup (keys o) -> dget k (dupdate d o) = match dget k o with Some v => Some v | None => dget k d end.
Proof.
  revert d. induction o as [|[k0 v0] o IH]; intros d H; simpl; auto.
  unfold dupdate in *. simpl. inversion H; subst. rewrite IH; auto. rewrite dget_dset.
  destruct (k =? k0) eqn:E; auto.
  apply Nat.eqb_eq in E. subst. apply dget_None in H2. rewrite H2. reflexivity.
Qed.

(* dict(...) of constant-valued items, duplicates allowed *)
Lemma dget_dupdate_const k v d l :
  dget k (dupdate d (map (fun n => (n, v)) l)) = if mem k l then Some v else dget k d.
Proof.
  revert d. induction l as [|a l IH]; intros d; simpl; auto.
  unfold dupdate in *. simpl. rewrite IH. rewrite dget_dset.
  destruct (mem k l) eqn:E; simpl.
  - rewrite orb_true_r. reflexivity.
  - rewrite orb_false_r. reflexivity.
Qed.

Lemma keys_map_pair {A} (f : A -> name) (g : A -> value) l : keys (map (fun x => (f x, g x)) l) = map f l.
Proof. unfold keys. rewrite map_map. reflexivity. Qed.

Lemma dget_map_self (g : name -> value) k l :
  dget k (map (fun n => (n, g n)) l) = if mem k l then Some (g k) else None.
Proof.
  induction l as [|a l IH]; simpl; auto. destruct (k =? a) eqn:E; simpl; auto.
  apply Nat.eqb_eq in E. subst. reflexivity.
Qed.

Lemma dget_filter_map (f : name -> bool) (g : name -> value) k l :
  dget k (filter (fun kv => f (fst kv)) (map (fun n => (n, g n)) l))
  = if mem k l && f k then Some (g k) else None.
Proof.
  induction l as [|a l IH]; simpl; auto. destruct (f a) eqn:Ef; simpl.
  - destruct (k =? a) eqn:E; simpl; auto. apply Nat.eqb_eq in E. subst. rewrite Ef. reflexivity.
  - rewrite IH. destruct (k =? a) eqn:E; simpl; auto. apply Nat.eqb_eq in E. subst. rewrite Ef.
    rewrite andb_false_r. reflexivity.
Qed.

Lemma keys_filter_map (f : name -> bool) (g : name -> value) l :
  keys (filter (fun kv => f (fst kv)) (map (fun n => (n, g n)) l)) = filter f l.
Proof. induction l; simpl; auto. destruct (f a); simpl; rewrite ?IHl; auto. Qed.

Lemma NoDup_filter {A} (f : A -> bool) l : NoDup l -> NoDup (filter f l).
Proof.
  induction l; simpl; intros H; auto. inversion H; subst. destruct (f a); auto.
  constructor; auto. rewrite filter_In. tauto.
Qed.

(* zip(param_names, posargs) *)
Lemma keys_combine_pos (A : list name) i n : keys (combine A (map Pos (seq i n))) = firstn n A.
Proof.
  revert i n. induction A; intros i n; simpl.
  - destruct n; reflexivity.
  - destruct n; simpl; auto. unfold keys in *. rewrite IHA. reflexivity.
Qed.
