(* C13 lemmas about coq/Bind/Model.v.

   Both binders are characterised against one closed-form description ([RefErr], [ref_dict]):
     py_ref : bind_py_fixed s c  is  Err  iff RefErr, and on Ok agrees with ref_dict on every parameter
     c_ref  : bind_c s c         likewise
   from which bind_agree_fixed follows; bind_py (the code as it stands) equals bind_py_fixed whenever no
   keyword names a positional-only parameter of a **kwargs function, and disagrees with CPython on every
   other call it accepts. *)
From Coq Require Import List Arith Bool Lia.
From PV Require Import Bind.Model.
Import ListNotations.

(* ---------------------------------------------------------------------------------- *)
(* generic *)

Lemma mem_In k l : mem k l = true <-> In k l.
Proof.
  unfold mem. rewrite existsb_exists. split.
  - intros [x [H1 H2]]. apply Nat.eqb_eq in H2. subst. exact H1.
  - intros H. exists k. split; [exact H | apply Nat.eqb_refl].
Qed.

Lemma mem_nIn k l : mem k l = false <-> ~ In k l.
Proof.
  rewrite <- mem_In. destruct (mem k l); split; intros H; try reflexivity; try congruence.
Qed.

Lemma mem_app k l1 l2 : mem k (l1 ++ l2) = mem k l1 || mem k l2.
Proof. unfold mem. apply existsb_app. Qed.

Lemma nonempty_exists {A} (l : list A) : nonempty l = true <-> exists x, In x l.
Proof. destruct l; simpl; split; intros H; try discriminate; eauto. destruct H as [? []]. Qed.

Lemma nonempty_filter {A} (f : A -> bool) l : nonempty (filter f l) = existsb f l.
Proof. induction l; simpl; auto. destruct (f a); simpl; auto. Qed.

Lemma nonempty_map {A B} (f : A -> B) l : nonempty (map f l) = nonempty l.
Proof. destruct l; reflexivity. Qed.

Lemma existsb_false {A} (f : A -> bool) l : existsb f l = false <-> forall x, In x l -> f x = false.
Proof.
  split.
  - intros H x Hx. destruct (f x) eqn:E; auto.
    assert (existsb f l = true) by (apply existsb_exists; eauto). congruence.
  - intros H. destruct (existsb f l) eqn:E; auto.
    apply existsb_exists in E. destruct E as [x [H1 H2]]. rewrite H in H2; auto.
Qed.

Lemma NoDup_app_l {A} (l1 l2 : list A) : NoDup (l1 ++ l2) -> NoDup l1.
Proof.
  induction l1; simpl; intros H; [constructor|]. inversion H as [|? ? Hn Hd]; subst.
  constructor; auto. rewrite in_app_iff in Hn. tauto.
Qed.

Lemma NoDup_app_r {A} (l1 l2 : list A) : NoDup (l1 ++ l2) -> NoDup l2.
Proof. induction l1; simpl; intros H; auto. inversion H; auto. Qed.

Lemma NoDup_app_disj {A} (l1 l2 : list A) x : NoDup (l1 ++ l2) -> In x l1 -> In x l2 -> False.
Proof.
  induction l1; simpl; intros H H1 H2; [tauto|]. inversion H as [|? ? Hn Hd]; subst. destruct H1.
  - subst. apply Hn. apply in_or_app. auto.
  - auto.
Qed.

(* ---------------------------------------------------------------------------------- *)
(* indexed *)

Lemma indexed_app {A} i (l1 l2 : list A) :
  indexed i (l1 ++ l2) = indexed i l1 ++ indexed (i + length l1) l2.
Proof.
  revert i. induction l1; intros i; simpl.
  - rewrite Nat.add_0_r. reflexivity.
  - rewrite IHl1. replace (S i + length l1) with (i + S (length l1)) by lia. reflexivity.
Qed.

Lemma indexed_range {A} i (l : list A) j x : In (j, x) (indexed i l) -> i <= j < i + length l /\ In x l.
Proof.
  revert i. induction l; intros i; simpl; [tauto|]. intros [H|H].
  - inversion H; subst. split; [lia|auto].
  - apply IHl in H. split; [lia|tauto].
Qed.

Lemma indexed_In {A} i (l : list A) x : In x l -> exists j, In (j, x) (indexed i l).
Proof.
  revert i. induction l; intros i; simpl; [tauto|]. intros [H|H].
  - subst. eauto.
  - destruct (IHl (S i) H) as [j Hj]. eauto.
Qed.

Lemma indexed_fun {A} i (l : list A) j x y : In (j, x) (indexed i l) -> In (j, y) (indexed i l) -> x = y.
Proof.
  revert i. induction l; intros i; simpl; [tauto|]. intros [H1|H1] [H2|H2].
  - congruence.
  - inversion H1; subst. apply indexed_range in H2. lia.
  - inversion H2; subst. apply indexed_range in H1. lia.
  - eauto.
Qed.

Lemma indexed_inj i (l : list name) j1 j2 x :
  NoDup l -> In (j1, x) (indexed i l) -> In (j2, x) (indexed i l) -> j1 = j2.
Proof.
  revert i. induction l; intros i ND; simpl; [tauto|]. inversion ND as [|? ? Hn Hd]; subst. intros [H1|H1] [H2|H2].
  - congruence.
  - inversion H1; subst. apply indexed_range in H2. tauto.
  - inversion H2; subst. apply indexed_range in H1. tauto.
  - eauto.
Qed.

Lemma indexed_length {A} i (l : list A) : length (indexed i l) = length l.
Proof. revert i. induction l; intros; simpl; auto. Qed.

(* ---------------------------------------------------------------------------------- *)
(* dicts *)

Lemma dget_dset k k' v d : dget k (dset k' v d) = if k =? k' then Some v else dget k d.
Proof.
  induction d as [|[k0 v0] d IH]; simpl.
  - reflexivity.
  - destruct (k' =? k0) eqn:E; simpl.
    + apply Nat.eqb_eq in E. subst. destruct (k =? k0); reflexivity.
    + rewrite IH. destruct (k =? k0) eqn:E0; auto.
      destruct (k =? k') eqn:E1; auto. apply Nat.eqb_eq in E0, E1. subst. rewrite Nat.eqb_refl in E. discriminate.
Qed.

Lemma dget_app k d1 d2 : dget k (d1 ++ d2) = match dget k d1 with Some v => Some v | None => dget k d2 end.
Proof. induction d1 as [|[k0 v0] d1 IH]; simpl; auto. destruct (k =? k0); auto. Qed.

Lemma dget_None k d : dget k d = None <-> ~ In k (keys d).
Proof.
  induction d as [|[k0 v0] d IH]; simpl; [tauto|]. destruct (k =? k0) eqn:E.
  - apply Nat.eqb_eq in E. split; [discriminate|]. intros H. exfalso. apply H. auto.
  - apply Nat.eqb_neq in E. rewrite IH. split; intros H; [intros [H1|H1]; [congruence|tauto] | tauto].
Qed.

Lemma dset_fresh k v d : ~ In k (keys d) -> dset k v d = d ++ [(k, v)].
Proof.
  induction d as [|[k0 v0] d IH]; simpl; intros H; auto.
  destruct (k =? k0) eqn:E.
  - apply Nat.eqb_eq in E. exfalso. apply H. auto.
  - rewrite IH; auto.
Qed.

Lemma dupdate_fresh d o : NoDup (keys (d ++ o)) -> dupdate d o = d ++ o.
Proof.
  revert d. induction o as [|[k v] o IH]; intros d H; simpl.
  - rewrite app_nil_r. reflexivity.
  - unfold dupdate in *. simpl. rewrite dset_fresh.
    + rewrite IH; rewrite <- app_assoc; simpl; auto.
    + unfold keys in *. rewrite map_app in H. simpl in H. apply NoDup_remove_2 in H.
      intros Hin. apply H. apply in_or_app. auto.
Qed.

Lemma dict_of_id l : NoDup (keys l) -> dict_of l = l.
Proof. intros H. unfold dict_of. rewrite dupdate_fresh; auto. Qed.

Lemma dget_dupdate k d o :
  NoDup (keys o) -> dget k (dupdate d o) = match dget k o with Some v => Some v | None => dget k d end.
Proof.
  revert d. induction o as [|[k0 v0] o IH]; intros d H; simpl; auto.
  unfold dupdate in *. simpl. inversion H as [|? ? Hn Hd]; subst. rewrite IH; auto. rewrite dget_dset.
  destruct (k =? k0) eqn:E; auto.
  apply Nat.eqb_eq in E. subst. apply dget_None in Hn. rewrite Hn. reflexivity.
Qed.

(* dict(...) of constant-valued items, duplicates allowed *)
Lemma dget_dupdate_const k v d l :
  dget k (dupdate d (map (fun n => (n, v)) l)) = if mem k l then Some v else dget k d.
Proof.
  revert d. induction l as [|a l IH]; intros d; simpl; auto.
  unfold dupdate in *. simpl. rewrite IH. rewrite dget_dset.
  destruct (mem k l) eqn:E; simpl.
  - rewrite orb_true_r. reflexivity.
  - rewrite orb_false_r. reflexivity.
Qed.

Lemma keys_map_pair {A} (f : A -> name) (g : A -> value) l : keys (map (fun x => (f x, g x)) l) = map f l.
Proof. unfold keys. rewrite map_map. reflexivity. Qed.

Lemma dget_map_self (g : name -> value) k l :
  dget k (map (fun n => (n, g n)) l) = if mem k l then Some (g k) else None.
Proof.
  induction l as [|a l IH]; simpl; auto. destruct (k =? a) eqn:E; simpl; auto.
  apply Nat.eqb_eq in E. subst. reflexivity.
Qed.

Lemma dget_filter_map (f : name -> bool) (g : name -> value) k l :
  dget k (filter (fun kv => f (fst kv)) (map (fun n => (n, g n)) l))
  = if mem k l && f k then Some (g k) else None.
Proof.
  induction l as [|a l IH]; simpl; auto. destruct (f a) eqn:Ef; simpl.
  - destruct (k =? a) eqn:E; simpl; auto. apply Nat.eqb_eq in E. subst. rewrite Ef. reflexivity.
  - rewrite IH. destruct (k =? a) eqn:E; simpl; auto. apply Nat.eqb_eq in E. subst. rewrite Ef.
    rewrite andb_false_r. reflexivity.
Qed.

Lemma keys_filter_map (f : name -> bool) (g : name -> value) l :
  keys (filter (fun kv => f (fst kv)) (map (fun n => (n, g n)) l)) = filter f l.
Proof. induction l; simpl; auto. destruct (f a); simpl; rewrite ?IHl; auto. Qed.

Lemma NoDup_filter {A} (f : A -> bool) l : NoDup l -> NoDup (filter f l).
Proof.
  induction l; simpl; intros H; auto. inversion H as [|? ? Hn Hd]; subst. destruct (f a); auto.
  constructor; auto. rewrite filter_In. tauto.
Qed.

(* zip(param_names, posargs) *)
Lemma keys_combine_pos (A : list name) i n : keys (combine A (map Pos (seq i n))) = firstn n A.
Proof.
  revert i n. induction A; intros i n; simpl.
  - destruct n; reflexivity.
  - destruct n; simpl; auto. unfold keys in *. rewrite IHA. reflexivity.
Qed.

Lemma firstn_In {A} n (l : list A) x : In x (firstn n l) -> In x l.
Proof. revert n. induction l; intros n; destruct n; simpl; try tauto. intros [H|H]; eauto. Qed.

Lemma NoDup_firstn {A} n (l : list A) : NoDup l -> NoDup (firstn n l).
Proof.
  revert n. induction l; intros n H; destruct n; simpl; try constructor.
  - inversion H as [|? ? Hn Hd]; subst. intros Hin. apply Hn. eapply firstn_In; eauto.
  - inversion H; auto.
Qed.

Lemma dget_combine_pos (A : list name) i n j p :
  NoDup A -> In (j, p) (indexed i A) ->
  dget p (combine A (map Pos (seq i n))) = if j <? i + n then Some (Pos j) else None.
Proof.
  revert i n. induction A as [|a A IH]; intros i n ND H; simpl in H; [tauto|].
  inversion ND as [|? ? Hn Hd]; subst. destruct n; simpl.
  - destruct (j <? i + 0) eqn:E; auto. apply Nat.ltb_lt in E.
    assert (i <= j) by (destruct H as [H|H]; [inversion H; lia | apply indexed_range in H; lia]). lia.
  - destruct H as [H|H].
    + inversion H; subst. rewrite Nat.eqb_refl. assert (j <? j + S n = true) as -> by (apply Nat.ltb_lt; lia). reflexivity.
    + assert (p =? a = false) as ->.
      { apply Nat.eqb_neq. intros ->. apply indexed_range in H. tauto. }
      rewrite (IH (S i) n); auto. replace (S i + n) with (i + S n) by lia. reflexivity.
Qed.

Lemma dget_combine_notin (A : list name) i n p : ~ In p A -> dget p (combine A (map Pos (seq i n))) = None.
Proof. intros H. apply dget_None. rewrite keys_combine_pos. intros Hin. apply H. eapply firstn_In; eauto. Qed.

Lemma dget_indexed_map (f : nat -> name -> value) i l j p :
  NoDup l -> In (j, p) (indexed i l) ->
  dget p (map (fun jp => (snd jp, f (fst jp) (snd jp))) (indexed i l)) = Some (f j p).
Proof.
  revert i. induction l as [|a l IH]; intros i ND H; simpl in H; [tauto|].
  inversion ND as [|? ? Hn Hd]; subst. simpl. destruct H as [H|H].
  - inversion H; subst. rewrite Nat.eqb_refl. reflexivity.
  - assert (p =? a = false) as ->.
    { apply Nat.eqb_neq. intros ->. apply indexed_range in H. tauto. }
    apply IH; auto.
Qed.

Lemma keys_indexed_map (f : nat -> name -> value) i l :
  keys (map (fun jp => (snd jp, f (fst jp) (snd jp))) (indexed i l)) = l.
Proof. revert i. induction l; intros i; simpl; auto. unfold keys in *. rewrite IHl. reflexivity. Qed.

(* ---------------------------------------------------------------------------------- *)
(* the closed-form description both binders are compared with *)

Definition RefErr (s : sig) (c : shape) : Prop :=
  (exists j p, In (j, p) (indexed 0 (param_names s)) /\ j < npos c /\ length (posonly s) <= j /\ In p (kws c))
  \/ (kwargs s = None /\ exists k, In k (kws c) /\ ~ In k (pos_or_kw s ++ kwonly s))
  \/ (length (param_names s) < npos c /\ varargs s = None)
  \/ (exists j p, In (j, p) (indexed 0 (param_names s)) /\ npos c <= j
                  /\ ~ (length (posonly s) <= j /\ In p (kws c)) /\ ~ In p (defaults s))
  \/ (exists p, In p (kwonly s) /\ ~ In p (kws c) /\ ~ In p (defaults s)).

Definition ref_val_pos (s : sig) (c : shape) (j : nat) (p : name) : value :=
  if j <? npos c then Pos j
  else if (length (posonly s) <=? j) && mem p (kws c) then Kw p else Default.

Definition ref_val_kwo (c : shape) (p : name) : value := if mem p (kws c) then Kw p else Default.

Definition ref_star (s : sig) (c : shape) : value :=
  VarArgs (seq (length (param_names s)) (npos c - length (param_names s))).

Definition ref_starstar (s : sig) (c : shape) : value :=
  KwArgs (filter (fun k => negb (mem k (pos_or_kw s ++ kwonly s))) (kws c)).

Definition ref_dict (s : sig) (c : shape) : dict :=
  map (fun jp => (snd jp, ref_val_pos s c (fst jp) (snd jp))) (indexed 0 (param_names s))
  ++ map (fun p => (p, ref_val_kwo c p)) (kwonly s)
  ++ map (fun va => (va, ref_star s c)) (opt_list (varargs s))
  ++ map (fun kn => (kn, ref_starstar s c)) (opt_list (kwargs s)).

(* what wf_sig says about names *)
Record names_ok (s : sig) : Prop := {
  nd_A : NoDup (param_names s);
  nd_K : NoDup (kwonly s);
  nd_AK : forall p, In p (param_names s) -> In p (kwonly s) -> False;
  nd_PQ : forall p, In p (posonly s) -> In p (pos_or_kw s) -> False;
  nd_va : forall va, varargs s = Some va -> ~ In va (param_names s) /\ ~ In va (kwonly s);
  nd_kn : forall kn, kwargs s = Some kn -> ~ In kn (param_names s) /\ ~ In kn (kwonly s) /\ varargs s <> Some kn }.

Lemma wf_names s : NoDup (all_names s) -> names_ok s.
Proof.
  unfold all_names, param_names. intros H.
  assert (H1 : NoDup ((posonly s ++ pos_or_kw s) ++ kwonly s ++ opt_list (varargs s) ++ opt_list (kwargs s)))
    by (rewrite <- app_assoc; exact H).
  assert (H2 : NoDup (kwonly s ++ opt_list (varargs s) ++ opt_list (kwargs s))) by (eapply NoDup_app_r; eauto).
  assert (H3 : NoDup (opt_list (varargs s) ++ opt_list (kwargs s))) by (eapply NoDup_app_r; eauto).
  constructor.
  - eapply NoDup_app_l; eauto.
  - eapply NoDup_app_l; eauto.
  - intros p Ha Hk. eapply (NoDup_app_disj _ _ p H1); auto. apply in_or_app. auto.
  - intros p Ha Hk. apply NoDup_app_l in H1. eapply (NoDup_app_disj _ _ p H1); auto.
  - intros va E. rewrite E in *. simpl in *. split; intros Hin.
    + eapply (NoDup_app_disj _ _ va H1); auto. apply in_or_app. right. simpl. auto.
    + eapply (NoDup_app_disj _ _ va H2); auto. simpl. auto.
  - intros kn E. rewrite E in *. simpl in *. repeat split; try intros Hin.
    + eapply (NoDup_app_disj _ _ kn H1); auto. apply in_or_app. right. apply in_or_app. right. simpl. auto.
    + eapply (NoDup_app_disj _ _ kn H2); auto. apply in_or_app. right. simpl. auto.
    + rewrite Hin in H3. simpl in H3. inversion H3 as [|? ? Hn Hd]; subst. apply Hn. simpl. auto.
Qed.

Lemma pos_index_posonly s j p :
  names_ok s -> In (j, p) (indexed 0 (param_names s)) -> (j < length (posonly s) <-> In p (posonly s)).
Proof.
  intros W H. unfold param_names in H. rewrite indexed_app in H. apply in_app_or in H. destruct H as [H|H].
  - apply indexed_range in H. simpl in H. split; intros; [tauto|lia].
  - apply indexed_range in H. simpl in H. split; intros H1; [lia|]. exfalso. eapply nd_PQ; eauto. tauto.
Qed.

Lemma In_A_indexed s p : In p (param_names s) -> exists j, In (j, p) (indexed 0 (param_names s)) /\ j < length (param_names s).
Proof. intros H. destruct (indexed_In 0 _ _ H) as [j Hj]. exists j. split; auto. apply indexed_range in Hj. lia. Qed.

Lemma ref_dict_pos s c j p :
  names_ok s -> In (j, p) (indexed 0 (param_names s)) -> dget p (ref_dict s c) = Some (ref_val_pos s c j p).
Proof.
  intros W H. unfold ref_dict. rewrite dget_app.
  rewrite (dget_indexed_map (ref_val_pos s c) 0 _ j p); auto. apply W.
Qed.

Lemma ref_dict_kwo s c p :
  names_ok s -> In p (kwonly s) -> dget p (ref_dict s c) = Some (ref_val_kwo c p).
Proof.
  intros W H. unfold ref_dict. rewrite dget_app.
  assert (dget p (map (fun jp => (snd jp, ref_val_pos s c (fst jp) (snd jp))) (indexed 0 (param_names s))) = None) as ->.
  { apply dget_None. rewrite keys_indexed_map. intros Hin. eapply nd_AK; eauto. }
  rewrite dget_app. rewrite dget_map_self. apply mem_In in H. rewrite H. reflexivity.
Qed.

Lemma ref_dict_va s c va :
  names_ok s -> varargs s = Some va -> dget va (ref_dict s c) = Some (ref_star s c).
Proof.
  intros W E. destruct (nd_va s W va E) as [H1 H2]. unfold ref_dict. rewrite dget_app.
  assert (dget va (map (fun jp => (snd jp, ref_val_pos s c (fst jp) (snd jp))) (indexed 0 (param_names s))) = None) as ->.
  { apply dget_None. rewrite keys_indexed_map. auto. }
  rewrite dget_app. rewrite dget_map_self. apply mem_nIn in H2. rewrite H2.
  rewrite E. simpl. rewrite Nat.eqb_refl. reflexivity.
Qed.

Lemma ref_dict_kn s c kn :
  names_ok s -> kwargs s = Some kn -> dget kn (ref_dict s c) = Some (ref_starstar s c).
Proof.
  intros W E. destruct (nd_kn s W kn E) as [H1 [H2 H3]]. unfold ref_dict. rewrite dget_app.
  assert (dget kn (map (fun jp => (snd jp, ref_val_pos s c (fst jp) (snd jp))) (indexed 0 (param_names s))) = None) as ->.
  { apply dget_None. rewrite keys_indexed_map. auto. }
  rewrite dget_app. rewrite dget_map_self. apply mem_nIn in H2. rewrite H2.
  rewrite dget_app. rewrite E. simpl. destruct (varargs s) as [va|] eqn:Ev; simpl.
  - assert (kn =? va = false) as -> by (apply Nat.eqb_neq; intros ->; apply H3; reflexivity).
    rewrite Nat.eqb_refl. reflexivity.
  - rewrite Nat.eqb_refl. reflexivity.
Qed.

(* every parameter is described *)
Lemma all_names_cases s p :
  In p (all_names s) ->
  In p (param_names s) \/ In p (kwonly s) \/ varargs s = Some p \/ kwargs s = Some p.
Proof.
  unfold all_names, param_names. rewrite !in_app_iff. intros [H|[H|[H|[H|H]]]]; auto.
  - destruct (varargs s); simpl in H; [|tauto]. destruct H; [subst; auto|tauto].
  - destruct (kwargs s); simpl in H; [|tauto]. destruct H; [subst; auto|tauto].
Qed.

Lemma skipn_seq' k i n : skipn k (seq i n) = seq (i + k) (n - k).
Proof.
  revert i n. induction k; intros i n; simpl.
  - rewrite Nat.add_0_r, Nat.sub_0_r. reflexivity.
  - destruct n; simpl; auto. rewrite IHk. replace (i + S k) with (S i + k) by lia. reflexivity.
Qed.

Lemma firstn_indexed {A} n i (l : list A) x :
  In x (firstn n l) <-> exists j, j < i + n /\ In (j, x) (indexed i l).
Proof.
  revert n i. induction l as [|a l IH]; intros n i; simpl.
  - destruct n; simpl; split; try tauto; intros [j [_ []]].
  - destruct n; simpl.
    + split; [tauto|]. intros [j [H1 [H2|H2]]].
      * inversion H2; lia.
      * apply indexed_range in H2. lia.
    + rewrite (IH n (S i)). split.
      * intros [H|[j [H1 H2]]]; [subst; exists i; split; [lia|auto] | exists j; split; [lia|auto]].
      * intros [j [H1 [H2|H2]]]; [inversion H2; auto | right; exists j; split; [lia|auto]].
Qed.

(* ---------------------------------------------------------------------------------- *)
(* pytype side *)

Definition kwsd (c : shape) : dict := map (fun k => (k, Kw k)) (kws c).

Lemma keys_kwsd c : keys (kwsd c) = kws c.
Proof. unfold kwsd, keys. rewrite map_map. simpl. apply map_id. Qed.

Lemma dmem_kwsd c k : dmem k (kwsd c) = mem k (kws c).
Proof. unfold dmem, kwsd. rewrite dget_map_self. destruct (mem k (kws c)); reflexivity. Qed.

Definition positional (s : sig) (c : shape) : dict := combine (param_names s) (map Pos (seq 0 (npos c))).

Definition callargs2 (s : sig) (c : shape) : dict :=
  dupdate (dupdate (dict_of (map (fun n => (n, Default)) (defaults s))) (positional s c))
          (filter (fun kv => negb (mem (fst kv) (posonly s))) (kwsd c)).

Lemma callargs2_get s c p :
  NoDup (param_names s) -> NoDup (kws c) ->
  dget p (callargs2 s c) =
    if mem p (kws c) && negb (mem p (posonly s)) then Some (Kw p)
    else match dget p (positional s c) with
         | Some v => Some v
         | None => if mem p (defaults s) then Some Default else None
         end.
Proof.
  intros NA NK. unfold callargs2.
  rewrite dget_dupdate.
  2:{ unfold kwsd. rewrite (keys_filter_map (fun k => negb (mem k (posonly s))) Kw). apply NoDup_filter. exact NK. }
  unfold kwsd. rewrite (dget_filter_map (fun k => negb (mem k (posonly s))) Kw).
  destruct (mem p (kws c) && negb (mem p (posonly s))); auto.
  rewrite dget_dupdate.
  2:{ unfold positional. rewrite keys_combine_pos. apply NoDup_firstn. exact NA. }
  destruct (dget p (positional s c)); auto.
  unfold dict_of. rewrite dget_dupdate_const. simpl. reflexivity.
Qed.

Lemma callargs2_pos s c j p :
  names_ok s -> NoDup (kws c) -> In (j, p) (indexed 0 (param_names s)) ->
  dget p (callargs2 s c) =
    if mem p (kws c) && (length (posonly s) <=? j) then Some (Kw p)
    else if j <? npos c then Some (Pos j)
    else if mem p (defaults s) then Some Default else None.
Proof.
  intros W NK H. rewrite callargs2_get; auto; [|apply W].
  assert (negb (mem p (posonly s)) = (length (posonly s) <=? j)) as ->.
  { pose proof (pos_index_posonly s j p W H) as Hi.
    destruct (mem p (posonly s)) eqn:E; simpl; symmetry.
    - apply mem_In in E. apply Nat.leb_gt. tauto.
    - apply mem_nIn in E. apply Nat.leb_le.
      destruct (Nat.lt_ge_cases j (length (posonly s))) as [L|L]; [exfalso; apply E; apply Hi; exact L | exact L]. }
  destruct (mem p (kws c) && (length (posonly s) <=? j)); auto.
  unfold positional. rewrite (dget_combine_pos _ 0 (npos c) j p); auto; [|apply W]. simpl.
  destruct (j <? npos c); auto.
Qed.

Lemma callargs2_kwo s c p :
  names_ok s -> NoDup (kws c) -> In p (kwonly s) ->
  dget p (callargs2 s c) =
    if mem p (kws c) then Some (Kw p) else if mem p (defaults s) then Some Default else None.
Proof.
  intros W NK H. rewrite callargs2_get; auto; [|apply W].
  assert (~ In p (param_names s)) as HnA by (intros Hin; eapply nd_AK; eauto).
  assert (mem p (posonly s) = false) as ->.
  { apply mem_nIn. intros Hin. apply HnA. unfold param_names. apply in_or_app. auto. }
  simpl. rewrite andb_true_r. destruct (mem p (kws c)); auto.
  unfold positional. rewrite dget_combine_notin; auto.
Qed.

Lemma bind_py_fixed_unfold s c :
  NoDup (param_names s) -> NoDup (kws c) ->
  bind_py_fixed s c =
  let dup := filter (fun key => negb (mem key (posonly s)) && mem key (kws c)) (firstn (npos c) (param_names s)) in
  if nonempty dup then Err (EDuplicateKeyword dup) else
  let extra_kws := filter (fun k => negb (mem k (param_names s ++ kwonly s))) (kws c) in
  if nonempty extra_kws && negb (is_some (kwargs s)) then Err (EWrongKeywordArgs extra_kws) else
  let posonly_kws := filter (fun k => mem k (posonly s)) (kws c) in
  if nonempty posonly_kws && negb (is_some (kwargs s)) then Err (EWrongKeywordArgs posonly_kws) else
  match find (fun key => negb (dmem key (callargs2 s c)))
             (filter (fun n => negb (mem n (defaults s))) (param_names s) ++ kwonly s) with
  | Some key => Err (EMissingParameter key)
  | None =>
    match (match varargs s with
           | Some va => Some (dset va (VarArgs (skipn (length (param_names s)) (seq 0 (npos c)))) (callargs2 s c))
           | None => if length (param_names s) <? npos c then None else Some (callargs2 s c)
           end) with
    | None => Err EWrongArgCount
    | Some callargs =>
      match kwargs s with
      | Some kn => Ok (dset kn (KwArgs (filter (fun k => negb (mem k (pos_or_kw s ++ kwonly s))) (kws c))) callargs)
      | None => Ok callargs
      end
    end
  end.
Proof.
  intros NA NK. unfold bind_py_fixed, bind_py_gen.
  rewrite (dict_of_id (map (fun k => (k, Kw k)) (kws c))) by (apply (eq_ind_r (@NoDup name) NK (keys_kwsd c))).
  rewrite (dict_of_id (combine (param_names s) (map Pos (seq 0 (npos c)))))
    by (rewrite keys_combine_pos; apply NoDup_firstn; exact NA).
  rewrite keys_combine_pos. fold (kwsd c). rewrite keys_kwsd.
  rewrite map_length, seq_length.
  assert (filter (fun key => negb (mem key (posonly s)) && dmem key (kwsd c)) (firstn (npos c) (param_names s))
          = filter (fun key => negb (mem key (posonly s)) && mem key (kws c)) (firstn (npos c) (param_names s))) as ->.
  { apply filter_ext. intros a. rewrite dmem_kwsd. reflexivity. }
  reflexivity.
Qed.

Lemma In_posonly_A s p : In p (posonly s) -> In p (param_names s).
Proof. intros H. unfold param_names. apply in_or_app. auto. Qed.
Lemma In_pkw_A s p : In p (pos_or_kw s) -> In p (param_names s).
Proof. intros H. unfold param_names. apply in_or_app. auto. Qed.

Theorem py_ref s c :
  wf_sig s -> wf_shape c ->
  match bind_py_fixed s c with
  | Err _ => RefErr s c
  | Ok d => ~ RefErr s c /\ forall p, In p (all_names s) -> dget p d = dget p (ref_dict s c)
  end.
Proof.
  intros [WN WD] NK. unfold wf_shape in NK. pose proof (wf_names s WN) as W.
  rewrite bind_py_fixed_unfold; auto; [|apply W]. cbv zeta. unfold RefErr.
  rewrite !nonempty_filter.
  (* 1. duplicate keyword *)
  destruct (existsb (fun key => negb (mem key (posonly s)) && mem key (kws c)) (firstn (npos c) (param_names s))) eqn:E1.
  { apply existsb_exists in E1. destruct E1 as [p [Hp Hc]]. apply andb_prop in Hc. destruct Hc as [Hc1 Hc2].
    apply (firstn_indexed (npos c) 0) in Hp. destruct Hp as [j [Hj Hjp]].
    left. exists j, p. repeat split; auto.
    - apply negb_true_iff in Hc1. apply mem_nIn in Hc1.
      pose proof (pos_index_posonly s j p W Hjp) as Hi.
      destruct (Nat.lt_ge_cases j (length (posonly s))) as [L|L]; [exfalso; apply Hc1; apply Hi; exact L | exact L].
    - apply mem_In. exact Hc2. }
  assert (N1 : ~ (exists j p, In (j, p) (indexed 0 (param_names s)) /\ j < npos c /\ length (posonly s) <= j /\ In p (kws c))).
  { intros [j [p [Hjp [Hj [Hnp Hk]]]]].
    rewrite existsb_false in E1. specialize (E1 p).
    assert (In p (firstn (npos c) (param_names s))) as Hf by (apply (firstn_indexed (npos c) 0); exists j; split; [lia|auto]).
    specialize (E1 Hf). apply mem_In in Hk. rewrite Hk in E1. rewrite andb_true_r in E1.
    apply negb_false_iff in E1. apply mem_In in E1. apply (pos_index_posonly s j p W Hjp) in E1. lia. }
  (* 2. unknown keywords without **kwargs *)
  destruct (existsb (fun k => negb (mem k (param_names s ++ kwonly s))) (kws c) && negb (is_some (kwargs s))) eqn:E2.
  { apply andb_prop in E2. destruct E2 as [E2 E2k]. apply existsb_exists in E2. destruct E2 as [k [Hk Hc]].
    right. left. split.
    - destruct (kwargs s); simpl in E2k; [discriminate|reflexivity].
    - exists k. split; auto. apply negb_true_iff in Hc. apply mem_nIn in Hc. intros Hin. apply Hc.
      apply in_app_or in Hin. apply in_or_app. destruct Hin; [left; apply In_pkw_A; auto | right; auto]. }
  (* 3. positional-only names as keywords without **kwargs *)
  destruct (existsb (fun k => mem k (posonly s)) (kws c) && negb (is_some (kwargs s))) eqn:E3.
  { apply andb_prop in E3. destruct E3 as [E3 E3k]. apply existsb_exists in E3. destruct E3 as [k [Hk Hc]].
    right. left. split.
    - destruct (kwargs s); simpl in E3k; [discriminate|reflexivity].
    - exists k. split; auto. apply mem_In in Hc. intros Hin. apply in_app_or in Hin. destruct Hin as [Hin|Hin].
      + eapply nd_PQ; eauto.
      + eapply nd_AK; eauto. apply In_posonly_A; auto. }
  assert (N2 : ~ (kwargs s = None /\ exists k, In k (kws c) /\ ~ In k (pos_or_kw s ++ kwonly s))).
  { intros [Hkw [k [Hk Hn]]]. rewrite Hkw in E2, E3. simpl in E2, E3. rewrite andb_true_r in E2, E3.
    rewrite existsb_false in E2, E3. specialize (E2 k Hk). specialize (E3 k Hk).
    apply negb_false_iff in E2. apply mem_In in E2. apply mem_nIn in E3. apply Hn.
    apply in_app_or in E2. apply in_or_app. destruct E2 as [E2|E2]; auto.
    unfold param_names in E2. apply in_app_or in E2. destruct E2; [tauto|auto]. }
  (* 4. missing parameters *)
  destruct (find (fun key => negb (dmem key (callargs2 s c)))
                 (filter (fun n => negb (mem n (defaults s))) (param_names s) ++ kwonly s)) as [key|] eqn:E4.
  { apply find_some in E4. destruct E4 as [Hin Hm]. apply negb_true_iff in Hm. unfold dmem in Hm.
    apply in_app_or in Hin. destruct Hin as [Hin|Hin].
    - apply filter_In in Hin. destruct Hin as [HA HD]. apply negb_true_iff in HD. apply mem_nIn in HD.
      destruct (In_A_indexed s key HA) as [j [Hjp Hj]].
      rewrite (callargs2_pos s c j key W NK Hjp) in Hm.
      right. right. right. left. exists j, key.
      destruct (mem key (kws c) && (length (posonly s) <=? j)) eqn:Ek; [discriminate|].
      destruct (j <? npos c) eqn:Ej; [discriminate|]. apply Nat.ltb_ge in Ej.
      repeat split; auto. intros [Hl Hk]. apply mem_In in Hk. apply Nat.leb_le in Hl. rewrite Hk, Hl in Ek. discriminate.
    - rewrite (callargs2_kwo s c key W NK Hin) in Hm.
      right. right. right. right. exists key.
      destruct (mem key (kws c)) eqn:Ek; [discriminate|]. destruct (mem key (defaults s)) eqn:Ed; [discriminate|].
      apply mem_nIn in Ek, Ed. auto. }
  assert (N4 : ~ (exists j p, In (j, p) (indexed 0 (param_names s)) /\ npos c <= j
                  /\ ~ (length (posonly s) <= j /\ In p (kws c)) /\ ~ In p (defaults s))).
  { intros [j [p [Hjp [Hj [Hnk Hd]]]]].
    pose proof (find_none _ _ E4 p) as Hf.
    assert (In p (filter (fun n => negb (mem n (defaults s))) (param_names s) ++ kwonly s)) as Hin.
    { apply in_or_app. left. apply filter_In. split; [apply indexed_range in Hjp; tauto|].
      apply negb_true_iff. apply mem_nIn. auto. }
    specialize (Hf Hin). apply negb_false_iff in Hf. unfold dmem in Hf.
    rewrite (callargs2_pos s c j p W NK Hjp) in Hf.
    destruct (mem p (kws c) && (length (posonly s) <=? j)) eqn:Ek.
    { apply andb_prop in Ek. destruct Ek as [Ek1 Ek2]. apply mem_In in Ek1. apply Nat.leb_le in Ek2. tauto. }
    assert (j <? npos c = false) as Ej by (apply Nat.ltb_ge; lia). rewrite Ej in Hf.
    apply mem_nIn in Hd. rewrite Hd in Hf. discriminate. }
  assert (N5 : ~ (exists p, In p (kwonly s) /\ ~ In p (kws c) /\ ~ In p (defaults s))).
  { intros [p [Hp [Hk Hd]]].
    pose proof (find_none _ _ E4 p) as Hf.
    assert (In p (filter (fun n => negb (mem n (defaults s))) (param_names s) ++ kwonly s)) as Hin
      by (apply in_or_app; auto).
    specialize (Hf Hin). apply negb_false_iff in Hf. unfold dmem in Hf.
    rewrite (callargs2_kwo s c p W NK Hp) in Hf. apply mem_nIn in Hk, Hd. rewrite Hk, Hd in Hf. discriminate. }
  (* values of the named parameters in callargs2 *)
  assert (V1 : forall j p, In (j, p) (indexed 0 (param_names s)) ->
               dget p (callargs2 s c) = Some (ref_val_pos s c j p)).
  { intros j p Hjp. rewrite (callargs2_pos s c j p W NK Hjp). unfold ref_val_pos.
    destruct (j <? npos c) eqn:Ej.
    - destruct (mem p (kws c) && (length (posonly s) <=? j)) eqn:Ek; auto.
      exfalso. apply N1. exists j, p. apply andb_prop in Ek. destruct Ek as [Ek1 Ek2].
      apply mem_In in Ek1. apply Nat.leb_le in Ek2. apply Nat.ltb_lt in Ej. auto.
    - rewrite (andb_comm (length (posonly s) <=? j)).
      destruct (mem p (kws c) && (length (posonly s) <=? j)) eqn:Ek; auto.
      destruct (mem p (defaults s)) eqn:Ed; auto.
      exfalso. apply N4. exists j, p. apply Nat.ltb_ge in Ej. apply mem_nIn in Ed. repeat split; auto.
      intros [Hl Hk]. apply mem_In in Hk. apply Nat.leb_le in Hl. rewrite Hk, Hl in Ek. discriminate. }
  assert (V2 : forall p, In p (kwonly s) -> dget p (callargs2 s c) = Some (ref_val_kwo c p)).
  { intros p Hp. rewrite (callargs2_kwo s c p W NK Hp). unfold ref_val_kwo.
    destruct (mem p (kws c)) eqn:Ek; auto. destruct (mem p (defaults s)) eqn:Ed; auto.
    exfalso. apply N5. exists p. apply mem_nIn in Ek, Ed. auto. }
  (* 5. *args / too many positional arguments, 6. **kwargs *)
  destruct (varargs s) as [va|] eqn:Eva.
  - (* *args present *)
    destruct (nd_va s W va Eva) as [HvaA HvaK].
    destruct (kwargs s) as [kn|] eqn:Ekn.
    + destruct (nd_kn s W kn Ekn) as [HknA [HknK Hknva]].
      split.
      { intros [H|[H|[H|[H|H]]]]; auto. destruct H as [_ H]. discriminate. }
      intros p Hp. apply all_names_cases in Hp. rewrite Eva, Ekn in Hp.
      destruct Hp as [Hp|[Hp|[Hp|Hp]]].
      * destruct (In_A_indexed s p Hp) as [j [Hjp _]].
        rewrite !dget_dset.
        assert (p =? kn = false) as -> by (apply Nat.eqb_neq; intros ->; tauto).
        assert (p =? va = false) as -> by (apply Nat.eqb_neq; intros ->; tauto).
        rewrite (V1 j p Hjp). symmetry. apply ref_dict_pos; auto.
      * rewrite !dget_dset.
        assert (p =? kn = false) as -> by (apply Nat.eqb_neq; intros ->; tauto).
        assert (p =? va = false) as -> by (apply Nat.eqb_neq; intros ->; tauto).
        rewrite (V2 p Hp). symmetry. apply ref_dict_kwo; auto.
      * inversion Hp; subst p. rewrite !dget_dset.
        assert (va =? kn = false) as -> by (apply Nat.eqb_neq; intros ->; apply Hknva; rewrite Eva; reflexivity).
        rewrite Nat.eqb_refl. rewrite (ref_dict_va s c va W Eva). unfold ref_star. rewrite skipn_seq'. reflexivity.
      * inversion Hp; subst p. rewrite !dget_dset. rewrite Nat.eqb_refl.
        rewrite (ref_dict_kn s c kn W Ekn). reflexivity.
    + split.
      { intros [H|[H|[H|[H|H]]]]; auto. destruct H as [_ H]. discriminate. }
      intros p Hp. apply all_names_cases in Hp. rewrite Eva, Ekn in Hp.
      destruct Hp as [Hp|[Hp|[Hp|Hp]]]; [| | |discriminate].
      * destruct (In_A_indexed s p Hp) as [j [Hjp _]].
        rewrite !dget_dset.
        assert (p =? va = false) as -> by (apply Nat.eqb_neq; intros ->; tauto).
        rewrite (V1 j p Hjp). symmetry. apply ref_dict_pos; auto.
      * rewrite !dget_dset.
        assert (p =? va = false) as -> by (apply Nat.eqb_neq; intros ->; tauto).
        rewrite (V2 p Hp). symmetry. apply ref_dict_kwo; auto.
      * inversion Hp; subst p. rewrite !dget_dset. rewrite Nat.eqb_refl.
        rewrite (ref_dict_va s c va W Eva). unfold ref_star. rewrite skipn_seq'. reflexivity.
  - (* no *args *)
    destruct (length (param_names s) <? npos c) eqn:E5.
    { right. right. left. apply Nat.ltb_lt in E5. auto. }
    apply Nat.ltb_ge in E5.
    destruct (kwargs s) as [kn|] eqn:Ekn.
    + destruct (nd_kn s W kn Ekn) as [HknA [HknK Hknva]].
      split.
      { intros [H|[H|[H|[H|H]]]]; auto. destruct H as [H _]. lia. }
      intros p Hp. apply all_names_cases in Hp. rewrite Eva, Ekn in Hp.
      destruct Hp as [Hp|[Hp|[Hp|Hp]]]; [| |discriminate|].
      * destruct (In_A_indexed s p Hp) as [j [Hjp _]].
        rewrite !dget_dset.
        assert (p =? kn = false) as -> by (apply Nat.eqb_neq; intros ->; tauto).
        rewrite (V1 j p Hjp). symmetry. apply ref_dict_pos; auto.
      * rewrite !dget_dset.
        assert (p =? kn = false) as -> by (apply Nat.eqb_neq; intros ->; tauto).
        rewrite (V2 p Hp). symmetry. apply ref_dict_kwo; auto.
      * inversion Hp; subst p. rewrite !dget_dset. rewrite Nat.eqb_refl.
        rewrite (ref_dict_kn s c kn W Ekn). reflexivity.
    + split.
      { intros [H|[H|[H|[H|H]]]]; auto. destruct H as [H _]. lia. }
      intros p Hp. apply all_names_cases in Hp. rewrite Eva, Ekn in Hp.
      destruct Hp as [Hp|[Hp|[Hp|Hp]]]; [| |discriminate|discriminate].
      * destruct (In_A_indexed s p Hp) as [j [Hjp _]].
        rewrite (V1 j p Hjp). symmetry. apply ref_dict_pos; auto.
      * rewrite (V2 p Hp). symmetry. apply ref_dict_kwo; auto.
Qed.
