(* C13 model, stub functions: how pytype binds a call's arguments to a function whose signature
   comes from a stub (PyTDFunction, single signature).

   bind_pytd : pytype/abstract/_pytd_function.py  PyTDSignature._map_args followed by
               PyTDSignature._fill_in_missing_parameters (both run by substitute_formal_args,
               which PyTDFunction.call reaches through match_args/_match_args_sequentially)

   Same signature / call-shape / result types as bind_py (coq/Bind/Model.v); call sites without
   * / ** splats (args.starargs / args.starstarargs are None).  Definitions only (no proofs). *)
From Coq Require Import List Arith Bool.
From PV Require Import Bind.Model.
Import ListNotations.

(* # named args
   for name, arg in args.namedargs.items():
     if name in posonly_names: continue
     elif name in arg_dict: raise DuplicateKeyword(name)
     else: arg_dict[name] = arg *)
Fixpoint named_loop (posonly_names : list name) (namedargs : list name) (arg_dict : dict) : dict + name :=
  match namedargs with
  | [] => inl arg_dict
  | name :: rest =>
    if mem name posonly_names then named_loop posonly_names rest arg_dict
    else if dmem name arg_dict then inr name
    else named_loop posonly_names rest (dset name (Kw name) arg_dict)
  end.

(* [va_annotated]: the stub annotates *args (then signature.annotations[varargs_name] is a
   ParameterizedClass tuple[...] and the overflowing positional arguments are entered into arg_dict
   under the placeholder names function.argname(i) = "_<i>"); [argname] is that naming function. *)
Definition bind_pytd (va_annotated : bool) (argname : nat -> name) (s : sig) (c : shape)
  : result py_err :=
  let posargs := seq 0 (npos c) in
  (* arg_dict = {}; for name, arg in zip(self.signature.param_names, args.posargs): arg_dict[name] = arg *)
  let arg_dict := dupdate [] (combine (param_names s) (map Pos posargs)) in
  (* num_expected_posargs = len(self.signature.param_names)
     if len(args.posargs) > num_expected_posargs and not self.pytd_sig.starargs: raise WrongArgCount *)
  let num_expected_posargs := length (param_names s) in
  if (num_expected_posargs <? length posargs) && negb (is_some (varargs s)) then Err EWrongArgCount else
  (* varargs_type = self.signature.annotations.get(self.signature.varargs_name)
     if isinstance(varargs_type, ParameterizedClass):
       for i, vararg in enumerate(args.posargs[num_expected_posargs:]):
         arg_dict[function.argname(num_expected_posargs + i)] = vararg *)
  let arg_dict :=
    if is_some (varargs s) && va_annotated
    then dupdate arg_dict (map (fun i => (argname i, Pos i)) (skipn num_expected_posargs posargs))
    else arg_dict in
  (* posonly_names = set(self.signature.posonly_params); the loop over args.namedargs *)
  match named_loop (posonly s) (kws c) arg_dict with
  | inr name => Err (EDuplicateKeyword [name])
  | inl arg_dict =>
    (* kws = set(args.namedargs); extra_kwargs = kws - {p.name for p in self.pytd_sig.params}
       (pytd_sig.params: positional-only, positional-or-keyword and keyword-only parameters)
       if extra_kwargs and not self.pytd_sig.starstarargs:
         if has_visible_namedarg(...): raise WrongKeywordArgs(extra_kwargs)        (modelled as True) *)
    let params := param_names s ++ kwonly s in
    let extra_kwargs := filter (fun k => negb (mem k params)) (kws c) in
    if nonempty extra_kwargs && negb (is_some (kwargs s)) then Err (EWrongKeywordArgs extra_kwargs) else
    (* posonly_kwargs = kws & posonly_names
       if posonly_kwargs and not self.signature.kwargs_name: raise WrongKeywordArgs(posonly_kwargs) *)
    let posonly_kwargs := filter (fun k => mem k (posonly s)) (kws c) in
    if nonempty posonly_kwargs && negb (is_some (kwargs s)) then Err (EWrongKeywordArgs posonly_kwargs) else
    (* _fill_in_missing_parameters: for p in self.pytd_sig.params: if p.name not in arg_dict:
         if not p.optional: raise MissingParameter(p.name)
         arg_dict[p.name] = unsolvable      (an optional parameter that got nothing keeps its default) *)
    match find (fun p => negb (dmem p arg_dict) && negb (mem p (defaults s))) params with
    | Some p => Err (EMissingParameter p)
    | None =>
      (* what the matcher is then given (formal_args): every parameter with arg_dict[name]; the
         overflowing positional arguments against the element type of *args; the extra keywords
         (sorted) against the value type of **kwargs.  Presented in bind_py's result format. *)
      Ok (map (fun p => (p, match dget p arg_dict with Some v => v | None => Default end)) params
          ++ map (fun va => (va, VarArgs (skipn num_expected_posargs posargs))) (opt_list (varargs s))
          ++ map (fun kn => (kn, KwArgs extra_kwargs)) (opt_list (kwargs s)))
    end
  end.

(* the placeholder names do not clash with anything the call or the signature uses *)
Definition argname_fresh (argname : nat -> name) (s : sig) (c : shape) : Prop :=
  forall i, ~ In (argname i) (kws c) /\ ~ In (argname i) (param_names s ++ kwonly s).

(* error iff error, and every parameter except **kwargs holds the same thing *)
Definition agree_except_kwargs {E1 E2} (s : sig) (r1 : result E1) (r2 : result E2) : Prop :=
  match r1, r2 with
  | Err _, Err _ => True
  | Ok d1, Ok d2 => forall p, In p (all_names s) -> kwargs s <> Some p ->
                               dget p d1 = dget p d2 /\ dget p d1 <> None
  | _, _ => False
  end.
