(* C13 model: how a call's arguments are bound to a function's parameters.

   bind_py / bind_py_fixed : pytype/abstract/_function_base.py  SignedFunction._map_args
                             (the mapper used for every function defined in the analysed source:
                             InterpreterFunction, incl. bound methods, classmethods, __init__, lambdas)
   bind_c                  : CPython 3.12 Python/ceval.c  initialize_locals
                             (the algorithm inspect.Signature.bind re-implements)

   Call shapes in THIS file have no * / ** splats at the call site (args.starargs / args.starstarargs are
   None in every branch below); call sites with splats are modelled in coq/Bind/SplatModel.v (bind_py_star
   is the mapper with those branches, SplatProofs.bind_py_star_plain: it coincides with bind_py_gen here).
   Names are numbers (the harness keeps the table).  This file contains definitions only (no
   proofs), so that it still evaluates when a proof breaks. *)
From Coq Require Import List Arith Bool.
Import ListNotations.

Definition name := nat.

(* def f(posonly..., /, pos_or_kw..., *varargs, kwonly..., **kwargs) ; [defaults] lists the
   names of the parameters that have a default value (positional and keyword-only). *)
Record sig := mkSig {
  posonly : list name;
  pos_or_kw : list name;
  kwonly : list name;
  defaults : list name;
  varargs : option name;
  kwargs : option name }.

(* f(a_0, ..., a_{npos-1}, k_1=..., k_2=...) *)
Record shape := mkShape { npos : nat; kws : list name }.

(* what a parameter ends up holding: the i-th positional argument, the keyword argument k, its
   default, the tuple of the listed positional arguments, the dict of the listed keywords *)
Inductive value :=
| Pos (i : nat)
| Kw (k : name)
| Default
| VarArgs (l : list nat)
| KwArgs (l : list name)
(* only produced for call sites with * / ** splats (coq/Bind/SplatModel.v) *)
| AnyV                 (* ctx.new_unsolvable: the parameter was given up on *)
| Elem (j : nat)       (* the element type of the indefinite splat at argument index j *)
| StarV (j : nat)      (* *args receives the whole indefinite splat at argument index j *)
| KwOpaque.            (* **kwargs receives the non-concrete ** dict of the call *)

Inductive result (E : Type) :=
| Ok (d : list (name * value))
| Err (e : E).
Arguments Ok {E} d.
Arguments Err {E} e.

Definition is_err {E} (r : result E) : bool := match r with Err _ => true | Ok _ => false end.

(* ---- generic helpers ---- *)
Definition mem (k : name) (l : list name) : bool := existsb (Nat.eqb k) l.
Definition nonempty {A} (l : list A) : bool := match l with [] => false | _ :: _ => true end.
Definition is_some {A} (o : option A) : bool := match o with Some _ => true | None => false end.
Definition opt_list {A} (o : option A) : list A := match o with Some x => [x] | None => [] end.

(* ---- a Python dict with str keys (insertion ordered) ---- *)
Definition dict := list (name * value).
Definition keys (d : dict) : list name := map fst d.
Fixpoint dget (k : name) (d : dict) : option value :=
  match d with
  | [] => None
  | (k', v) :: t => if k =? k' then Some v else dget k t
  end.
Definition dmem (k : name) (d : dict) : bool := is_some (dget k d).        (* k in d *)
Fixpoint dset (k : name) (v : value) (d : dict) : dict :=                  (* d[k] = v *)
  match d with
  | [] => [(k, v)]
  | (k', v') :: t => if k =? k' then (k', v) :: t else (k', v') :: dset k v t
  end.
Definition dupdate (d other : dict) : dict :=                              (* d.update(other) *)
  fold_left (fun acc kv => dset (fst kv) (snd kv) acc) other d.
Definition dict_of (items : dict) : dict := dupdate [] items.              (* dict(items) *)

(* ================================================================================== *)
(* pytype: SignedFunction._map_args                                                    *)

Inductive py_err :=
| EDuplicateKeyword (candidates : list name)   (* duplicate-keyword-argument: the code raises for the
                                                  first key of a *set* iteration; all candidates kept *)
| EWrongKeywordArgs (ks : list name)           (* wrong-keyword-args, with the offending set *)
| EMissingParameter (k : name)                 (* missing-parameter *)
| EWrongArgCount.                              (* wrong-arg-count *)

(* Signature.param_names: positional-only + positional-or-keyword (NOT keyword-only) *)
Definition param_names (s : sig) : list name := posonly s ++ pos_or_kw s.

(* [fixed = false] is the code as it stands; [fixed = true] is the code with
   /verif/fixes/C13-posonly-kwargs.patch applied (the two marked lines). *)
Definition bind_py_gen (fixed : bool) (s : sig) (c : shape) : result py_err :=
  (* posargs = [u.AssignToNewVariable(node) for u in args.posargs] *)
  let posargs := map Pos (seq 0 (npos c)) in
  (* kws = {k: u.AssignToNewVariable(node) for k, u in args.namedargs.items()} *)
  let kwsd := dict_of (map (fun k => (k, Kw k)) (kws c)) in
  (* callargs = {name: ... for name, default in sig.defaults.items()} *)
  let callargs := dict_of (map (fun n => (n, Default)) (defaults s)) in
  (* positional = dict(zip(sig.param_names, posargs)) *)
  let positional := dict_of (combine (param_names s) posargs) in
  (* posonly_names = set(sig.posonly_params) *)
  let posonly_names := posonly s in
  (* for key in set(positional) - posonly_names: if key in kws: raise DuplicateKeyword *)
  let dup := filter (fun key => negb (mem key posonly_names) && dmem key kwsd) (keys positional) in
  if nonempty dup then Err (EDuplicateKeyword dup) else
  (* kwnames = set(kws); extra_kws = kwnames.difference(sig.param_names + sig.kwonly_params) *)
  let kwnames := keys kwsd in
  let extra_kws := filter (fun k => negb (mem k (param_names s ++ kwonly s))) kwnames in
  (* if extra_kws and not sig.kwargs_name: if has_visible_namedarg(...): raise WrongKeywordArgs
     (has_visible_namedarg is True for arguments that are visible at the call: modelled as True) *)
  if nonempty extra_kws && negb (is_some (kwargs s)) then Err (EWrongKeywordArgs extra_kws) else
  (* posonly_kws = kwnames & posonly_names; if posonly_kws and not sig.kwargs_name: raise *)
  let posonly_kws := filter (fun k => mem k posonly_names) kwnames in
  if nonempty posonly_kws && negb (is_some (kwargs s)) then Err (EWrongKeywordArgs posonly_kws) else
  (* callargs.update(positional) *)
  let callargs := dupdate callargs positional in
  (* callargs.update(kws)
     fixed: callargs.update({k: v for k, v in kws.items() if k not in posonly_names}) *)
  let callargs :=
    dupdate callargs
      (if fixed then filter (fun kv => negb (mem (fst kv) posonly_names)) kwsd else kwsd) in
  (* for key, kwonly in chain(self.get_nondefault_params(), ((key, True) for key in sig.kwonly_params)):
       if key not in callargs: (no starargs/starstarargs) raise MissingParameter(key)
     get_nondefault_params: n for n in sig.param_names if n not in sig.defaults *)
  let nondefault := filter (fun n => negb (mem n (defaults s))) (param_names s) in
  match find (fun key => negb (dmem key callargs)) (nondefault ++ kwonly s) with
  | Some key => Err (EMissingParameter key)
  | None =>
    (* argcount(node) = code.argcount = len(param_names) *)
    let argcount := length (param_names s) in
    (* if sig.varargs_name: callargs[varargs_name] = build_tuple(posargs[argcount:])
       elif len(posargs) > argcount: raise WrongArgCount *)
    let after_varargs :=
      match varargs s with
      | Some va => Some (dset va (VarArgs (skipn argcount (seq 0 (npos c)))) callargs)
      | None => if argcount <? length posargs then None else Some callargs
      end in
    match after_varargs with
    | None => Err EWrongArgCount
    | Some callargs =>
      (* if sig.kwargs_name: omit = sig.param_names + sig.kwonly_params
                             fixed: omit = sig.param_names[sig.posonly_count:] + sig.kwonly_params
           k = Dict(); k.update(node, args.namedargs, omit=omit); callargs[kwargs_name] = k *)
      match kwargs s with
      | Some kn =>
        let omit := (if fixed then pos_or_kw s else param_names s) ++ kwonly s in
        Ok (dset kn (KwArgs (filter (fun k => negb (mem k omit)) (kws c))) callargs)
      | None => Ok callargs
      end
    end
  end.

Definition bind_py : sig -> shape -> result py_err := bind_py_gen false.
Definition bind_py_fixed : sig -> shape -> result py_err := bind_py_gen true.

(* ================================================================================== *)
(* CPython 3.12: Python/ceval.c initialize_locals                                      *)

Inductive c_err :=
| CMultipleValues (k : name)           (* got multiple values for argument 'k' *)
| CUnexpectedKeyword (k : name)        (* got an unexpected keyword argument 'k' *)
| CPosonlyAsKeyword (ks : list name)   (* got some positional-only arguments passed as keyword arguments *)
| CTooManyPositional                   (* takes N positional arguments but M were given *)
| CMissingPositional (ks : list name)  (* missing N required positional arguments *)
| CMissingKwonly (ks : list name).     (* missing N required keyword-only arguments *)

(* localsplus[idx], with co_varnames[idx] = nm kept alongside *)
Record slot := mkSlot { idx : nat; nm : name; cur : option value }.

Fixpoint indexed {A} (i : nat) (l : list A) : list (nat * A) :=
  match l with
  | [] => []
  | x :: t => (i, x) :: indexed (S i) t
  end.

Inductive assign_res :=
| NotFound
| AlreadySet
| Assigned (sl : list slot).
Definition lift (x : slot) (r : assign_res) : assign_res :=
  match r with Assigned t => Assigned (x :: t) | _ => r end.

(* for (j = co->co_posonlyargcount; j < total_args; j++) if (varnames[j] == keyword) goto kw_found;
   kw_found: if (localsplus[j] != NULL) -> multiple values; localsplus[j] = value *)
Fixpoint assign (np : nat) (k : name) (v : value) (sl : list slot) : assign_res :=
  match sl with
  | [] => NotFound
  | x :: t =>
    if (np <=? idx x) && (nm x =? k) then
      match cur x with
      | Some _ => AlreadySet
      | None => Assigned (mkSlot (idx x) (nm x) (Some v) :: t)
      end
    else lift x (assign np k v t)
  end.

(* the loop over kwnames *)
Fixpoint kw_loop (s : sig) (all ks : list name) (sl : list slot) (kwdict : list name)
  : (list slot * list name) + c_err :=
  match ks with
  | [] => inl (sl, kwdict)
  | k :: rest =>
    match assign (length (posonly s)) k (Kw k) sl with
    | Assigned sl' => kw_loop s all rest sl' kwdict
    | AlreadySet => inr (CMultipleValues k)
    | NotFound =>
      match kwargs s with
      | Some _ => kw_loop s all rest sl (kwdict ++ [k])          (* PyDict_SetItem(kwdict, keyword, value) *)
      | None =>
        (* if (co->co_posonlyargcount && positional_only_passed_as_keyword(...)) goto fail *)
        let bad := filter (fun k' => mem k' (posonly s)) all in
        if (0 <? length (posonly s)) && nonempty bad then inr (CPosonlyAsKeyword bad)
        else inr (CUnexpectedKeyword k)
      end
    end
  end.

Definition bind_c (s : sig) (c : shape) : result c_err :=
  let co_argcount := length (posonly s) + length (pos_or_kw s) in
  let varnames := posonly s ++ pos_or_kw s ++ kwonly s in
  let argcount := npos c in
  (* n = min(argcount, co_argcount); localsplus[j] = args[j] for j < n *)
  let n := min argcount co_argcount in
  let sl0 := map (fun jp => mkSlot (fst jp) (snd jp)
                              (if fst jp <? n then Some (Pos (fst jp)) else None))
                 (indexed 0 varnames) in
  (* if (co->co_flags & CO_VARARGS) localsplus[total_args] = tuple(args[n:]) *)
  let star := seq n (argcount - n) in
  match kw_loop s (kws c) (kws c) sl0 [] with
  | inr e => Err e
  | inl (sl1, kwdict) =>
    (* if ((argcount > co->co_argcount) && !(co->co_flags & CO_VARARGS)) too_many_positional *)
    if (co_argcount <? argcount) && negb (is_some (varargs s)) then Err CTooManyPositional else
    (* defcount = len(func.__defaults__): the positional parameters that have a default *)
    let defcount := length (filter (fun p => mem p (defaults s)) (posonly s ++ pos_or_kw s)) in
    let m := co_argcount - defcount in
    (* if (argcount < co->co_argcount) {
         for (i = argcount; i < m; i++) if (localsplus[i] == NULL) missing++;
         if (missing) missing_arguments(...)
         for (i = n > m ? n - m : 0; i < defcount; i++) if (localsplus[m+i] == NULL) localsplus[m+i] = defs[i] } *)
    let missing :=
      if argcount <? co_argcount
      then map nm (filter (fun x => (argcount <=? idx x) && (idx x <? m) && negb (is_some (cur x))) sl1)
      else [] in
    if nonempty missing then Err (CMissingPositional missing) else
    let sl2 :=
      if argcount <? co_argcount
      then map (fun x =>
                  if (max n m <=? idx x) && (idx x <? m + defcount) && negb (is_some (cur x))
                  then mkSlot (idx x) (nm x) (Some Default) else x) sl1
      else sl1 in
    (* for (i = co->co_argcount; i < total_args; i++) { if (localsplus[i] != NULL) continue;
         def = kwdefs[varname]; if (def) { localsplus[i] = def; continue; } missing++; } *)
    let missing_kw :=
      map nm (filter (fun x => (co_argcount <=? idx x) && negb (is_some (cur x))
                               && negb (mem (nm x) (defaults s))) sl2) in
    if nonempty missing_kw then Err (CMissingKwonly missing_kw) else
    let sl3 := map (fun x =>
                      if (co_argcount <=? idx x) && negb (is_some (cur x))
                      then mkSlot (idx x) (nm x) (Some Default) else x) sl2 in
    (* the frame's locals, by name *)
    Ok (flat_map (fun x => match cur x with Some v => [(nm x, v)] | None => [] end) sl3
        ++ map (fun va => (va, VarArgs star)) (opt_list (varargs s))
        ++ map (fun kn => (kn, KwArgs kwdict)) (opt_list (kwargs s)))
  end.

(* ================================================================================== *)
(* the property: error iff error, and on success every parameter holds the same thing  *)

Definition all_names (s : sig) : list name :=
  posonly s ++ pos_or_kw s ++ kwonly s ++ opt_list (varargs s) ++ opt_list (kwargs s).

Definition agree {E1 E2} (s : sig) (r1 : result E1) (r2 : result E2) : Prop :=
  match r1, r2 with
  | Err _, Err _ => True
  | Ok d1, Ok d2 => forall p, In p (all_names s) -> dget p d1 = dget p d2 /\ dget p d1 <> None
  | _, _ => False
  end.

(* Python accepts a def only if no default-less positional parameter follows one with a default *)
Fixpoint defaults_suffix (D : list name) (l : list name) : bool :=
  match l with
  | [] => true
  | p :: t => if mem p D then forallb (fun q => mem q D) t else defaults_suffix D t
  end.

(* a def statement Python accepts: distinct parameter names, defaults form a suffix of the
   positional parameters *)
Definition wf_sig (s : sig) : Prop :=
  NoDup (all_names s) /\ defaults_suffix (defaults s) (param_names s) = true.

(* a call Python accepts: no repeated keyword *)
Definition wf_shape (c : shape) : Prop := NoDup (kws c).

(* boolean versions, for the extracted runner *)
Fixpoint nodupb (l : list name) : bool :=
  match l with [] => true | x :: t => negb (mem x t) && nodupb t end.
Definition wf_sigb (s : sig) : bool :=
  nodupb (all_names s) && defaults_suffix (defaults s) (param_names s).

(* the value of every parameter, in all_names order (None = unbound) *)
Definition lookup_all {E} (s : sig) (r : result E) : option (list (option value)) :=
  match r with
  | Ok d => Some (map (fun p => dget p d) (all_names s))
  | Err _ => None
  end.
