(* C17 lemmas over Booleq/Solver.v: extract_pivots / extract_equalities specifications, Solver.solve. *)
From Coq Require Import List Bool String Ascii Arith Lia.
From PV Require Import Booleq.Model Booleq.Proofs Booleq.Solver.
Import ListNotations.
Open Scope string_scope.
Open Scope list_scope.

(* ---------- names and sets ---------- *)
Lemma mem_name_true : forall x vs, mem_name x vs = true <-> In x vs.
Proof.
  intros x vs. unfold mem_name. rewrite existsb_exists. split.
  - intros [y [Hy E]]. apply String.eqb_eq in E. subst y. exact Hy.
  - intro H. exists x. split; [exact H | apply String.eqb_refl].
Qed.

Lemma in_ninter : forall x a b, In x (ninter a b) <-> In x a /\ In x b.
Proof. intros. unfold ninter. rewrite filter_In, mem_name_true. tauto. Qed.

Lemma in_nadd : forall x a y, In x (nadd a y) <-> In x a \/ x = y.
Proof.
  intros x a y. unfold nadd. destruct (mem_name y a) eqn:M.
  - apply mem_name_true in M. split; [tauto | intros [H|H]; [exact H | subst; exact M]].
  - rewrite in_app_iff. simpl. intuition.
Qed.

Lemma in_nunion : forall b a x, In x (nunion a b) <-> In x a \/ In x b.
Proof.
  unfold nunion. induction b as [|y b IH]; intros a x; simpl.
  - tauto.
  - rewrite IH, in_nadd. intuition.
Qed.

Lemma in_nremove : forall x a y, In x (nremove a y) <-> In x a /\ x <> y.
Proof.
  intros. unfold nremove. rewrite filter_In, negb_true_iff. split; intros [H1 H2]; split; auto.
  - intro E. subst. rewrite String.eqb_refl in H2. discriminate.
  - apply String.eqb_neq. auto.
Qed.

(* ---------- dict str -> set ---------- *)
Lemma lookup_tset_same : forall tbl k v, lookup (tset tbl k v) k = Some v.
Proof.
  induction tbl as [|[k' v'] r IH]; intros k v; simpl.
  - rewrite String.eqb_refl. reflexivity.
  - destruct (String.eqb k k') eqn:E; simpl; rewrite E; [reflexivity | apply IH].
Qed.

Lemma lookup_tset_other : forall tbl k v k', k' <> k -> lookup (tset tbl k v) k' = lookup tbl k'.
Proof.
  induction tbl as [|[k0 v0] r IH]; intros k v k' N; simpl.
  - apply String.eqb_neq in N. rewrite N. reflexivity.
  - destruct (String.eqb k k0) eqn:E; simpl.
    + apply String.eqb_eq in E. subst k0. apply String.eqb_neq in N. rewrite N. reflexivity.
    + destruct (String.eqb k' k0); [reflexivity | apply IH; exact N].
Qed.

Lemma lookup_tset : forall tbl k v k',
  lookup (tset tbl k v) k' = if String.eqb k' k then Some v else lookup tbl k'.
Proof.
  intros. destruct (String.eqb k' k) eqn:E.
  - apply String.eqb_eq in E. subst. apply lookup_tset_same.
  - apply String.eqb_neq in E. apply lookup_tset_other. exact E.
Qed.

Lemma has_key_tset : forall tbl k v k', has_key (tset tbl k v) k' = String.eqb k' k || has_key tbl k'.
Proof. intros. unfold has_key. rewrite lookup_tset. destruct (String.eqb k' k); reflexivity. Qed.

Lemma in_tset : forall tbl k v p pv, In (p, pv) (tset tbl k v) -> (p = k /\ pv = v) \/ In (p, pv) tbl.
Proof.
  induction tbl as [|[k0 v0] r IH]; intros k v p pv H; simpl in H.
  - destruct H as [H|[]]. inversion H. auto.
  - destruct (String.eqb k k0) eqn:E.
    + apply String.eqb_eq in E. subst k0. destruct H as [H|H]; [inversion H; auto | right; right; exact H].
    + destruct H as [H|H]; [right; left; exact H|].
      apply IH in H. destruct H; [auto | right; right; assumption].
Qed.

Lemma keys_tset : forall tbl k v x, In x (map fst (tset tbl k v)) -> x = k \/ In x (map fst tbl).
Proof.
  intros tbl k v x H. apply in_map_iff in H. destruct H as [[p pv] [E H]]. simpl in E. subst p.
  apply in_tset in H. destruct H as [[H _]|H]; [auto|]. right. apply in_map_iff. exists (x, pv). auto.
Qed.

Lemma nodup_tset : forall tbl k v, NoDup (map fst tbl) -> NoDup (map fst (tset tbl k v)).
Proof.
  induction tbl as [|[k0 v0] r IH]; intros k v H; simpl.
  - constructor; [simpl; tauto | constructor].
  - inversion H as [|? ? Hn Hr]. subst. destruct (String.eqb k k0) eqn:E; simpl.
    + constructor; assumption.
    + constructor; [|apply IH; exact Hr].
      intro Hin. apply keys_tset in Hin. destruct Hin as [Hin|Hin]; [|exact (Hn Hin)].
      subst. rewrite String.eqb_refl in E. discriminate.
Qed.

Lemma lookup_in : forall tbl p pv, lookup tbl p = Some pv -> In (p, pv) tbl.
Proof.
  induction tbl as [|[k0 v0] r IH]; intros p pv H; simpl in H; [discriminate|].
  destruct (String.eqb p k0) eqn:E.
  - apply String.eqb_eq in E. inversion H. subst. left. reflexivity.
  - right. apply IH. exact H.
Qed.

Lemma nodup_in_lookup : forall tbl p pv, NoDup (map fst tbl) -> In (p, pv) tbl -> lookup tbl p = Some pv.
Proof.
  induction tbl as [|[k0 v0] r IH]; intros p pv N H; [destruct H|].
  simpl in N. inversion N as [|? ? Hn Hr]. subst. simpl. destruct H as [H|H].
  - inversion H. subst. rewrite String.eqb_refl. reflexivity.
  - destruct (String.eqb p k0) eqn:E.
    + apply String.eqb_eq in E. subst. exfalso. apply Hn. apply in_map_iff. exists (k0, pv). auto.
    + apply IH; assumption.
Qed.

Lemma has_key_true : forall tbl k, has_key tbl k = true <-> exists v, lookup tbl k = Some v.
Proof.
  intros. unfold has_key. destruct (lookup tbl k).
  - split; [eauto | reflexivity].
  - split; [discriminate | intros [v H]; discriminate].
Qed.

(* ---------- extract_pivots ---------- *)
Definition pstep (k : kind) (piv : table) (nv : name * nset) : table :=
  match lookup piv (fst nv) with
  | Some old => tset piv (fst nv) (pcomb k old (snd nv))
  | None => tset piv (fst nv) (snd nv)
  end.

Lemma pmerge_fold : forall k piv ep, pmerge k piv ep = fold_left (pstep k) ep piv.
Proof. reflexivity. Qed.

Definition pfold (tbl : table) (k : kind) (es : list term) (acc : table) : table :=
  fold_left (fun piv e => pmerge k piv (extract_pivots tbl e)) es acc.

Lemma extract_pivots_op : forall tbl k es,
  extract_pivots tbl (Op k es) =
  match k with
  | KAnd => filter (fun nv => negb (is_nil (snd nv))) (pfold tbl k es [])
  | KOr => pfold tbl k es []
  end.
Proof. reflexivity. Qed.

Lemma nodup_pstep : forall k piv nv, NoDup (map fst piv) -> NoDup (map fst (pstep k piv nv)).
Proof. intros. unfold pstep. destruct (lookup piv (fst nv)); apply nodup_tset; assumption. Qed.

Lemma nodup_pmerge : forall k ep piv, NoDup (map fst piv) -> NoDup (map fst (pmerge k piv ep)).
Proof.
  intros k ep.
  induction ep as [|nv ep IH]; intros piv H; rewrite pmerge_fold; simpl; [exact H|].
  rewrite <- pmerge_fold. apply IH. apply nodup_pstep. exact H.
Qed.

Lemma nodup_filter_keys : forall (f : name * nset -> bool) l, NoDup (map fst l) -> NoDup (map fst (filter f l)).
Proof.
  induction l as [|a l IH]; intro H; simpl; [constructor|].
  simpl in H. inversion H as [|? ? Hn Hr]. subst.
  destruct (f a); simpl; [|apply IH; exact Hr].
  constructor; [|apply IH; exact Hr].
  intro Hin. apply Hn. apply in_map_iff in Hin. destruct Hin as [x [E Hx]].
  apply filter_In in Hx. apply in_map_iff. exists x. tauto.
Qed.

Lemma nodup_pfold : forall tbl k es acc,
  (forall e, In e es -> True) -> NoDup (map fst acc) -> NoDup (map fst (pfold tbl k es acc)).
Proof.
  intros tbl k es. unfold pfold. induction es as [|e es IH]; intros acc _ H; simpl; [exact H|].
  apply IH; [auto|]. apply nodup_pmerge. exact H.
Qed.

Lemma nodup_extract_pivots : forall tbl t, NoDup (map fst (extract_pivots tbl t)).
Proof.
  intros tbl t. destruct t as [| |l r|k es].
  - constructor.
  - constructor.
  - cbn [extract_pivots]. destruct (lookup tbl l), (lookup tbl r); repeat apply nodup_tset; constructor.
  - rewrite extract_pivots_op.
    assert (N : NoDup (map fst (pfold tbl k es []))) by (apply nodup_pfold; [auto | constructor]).
    destruct k; [apply nodup_filter_keys; exact N | exact N].
Qed.

(* conjunction: intersections of sound pivot sets are sound *)
Lemma pstep_and_sound : forall sigma tbl piv nv,
  psound sigma tbl piv -> (has_key tbl (fst nv) = true -> In (sigma (fst nv)) (snd nv)) ->
  psound sigma tbl (pstep KAnd piv nv).
Proof.
  intros sigma tbl piv [n vals] Hp Hn p pv Hin Hk. simpl in *. unfold pstep in Hin. simpl in Hin.
  destruct (lookup piv n) as [old|] eqn:L; apply in_tset in Hin; destruct Hin as [[E1 E2]|Hin]; subst;
    try (eapply Hp; eassumption).
  - simpl. apply in_ninter. split; [|apply Hn; exact Hk].
    apply (Hp n old); [apply lookup_in; exact L | exact Hk].
  - apply Hn. exact Hk.
Qed.

Lemma pmerge_and_sound : forall sigma tbl ep piv,
  psound sigma tbl piv -> psound sigma tbl ep -> psound sigma tbl (pmerge KAnd piv ep).
Proof.
  intros sigma tbl ep. induction ep as [|nv ep IH]; intros piv Hp He; rewrite pmerge_fold; simpl; [exact Hp|].
  rewrite <- pmerge_fold. apply IH.
  - apply pstep_and_sound; [exact Hp|]. intro Hk. destruct nv as [n vals]. apply (He n vals); [left; reflexivity | exact Hk].
  - intros p pv Hin. apply He. right. exact Hin.
Qed.

(* disjunction: the entry of a name only grows, and contains what every disjunct that mentions it offers *)
Lemma incl_nunion_l : forall a b, incl a (nunion a b).
Proof. intros a b x H. apply in_nunion. auto. Qed.
Lemma incl_nunion_r : forall a b, incl b (nunion a b).
Proof. intros a b x H. apply in_nunion. auto. Qed.

Lemma pstep_or_mono : forall piv nv p s,
  lookup piv p = Some s -> exists s', lookup (pstep KOr piv nv) p = Some s' /\ incl s s'.
Proof.
  intros piv [n vals] p s L. unfold pstep. simpl.
  destruct (String.eqb p n) eqn:E.
  - apply String.eqb_eq in E. subst n. rewrite L. rewrite lookup_tset_same.
    eexists. split; [reflexivity | apply incl_nunion_l].
  - destruct (lookup piv n); rewrite lookup_tset, E; exists s; (split; [exact L | apply incl_refl]).
Qed.

Lemma pmerge_or_mono : forall ep piv p s,
  lookup piv p = Some s -> exists s', lookup (pmerge KOr piv ep) p = Some s' /\ incl s s'.
Proof.
  induction ep as [|nv ep IH]; intros piv p s L; rewrite pmerge_fold; simpl.
  - exists s. split; [exact L | apply incl_refl].
  - destruct (pstep_or_mono piv nv p s L) as [s1 [L1 I1]].
    rewrite <- pmerge_fold. destruct (IH _ _ _ L1) as [s2 [L2 I2]].
    exists s2. split; [exact L2 | eapply incl_tran; eassumption].
Qed.

Lemma pmerge_or_includes : forall ep piv p pv,
  lookup ep p = Some pv -> exists s', lookup (pmerge KOr piv ep) p = Some s' /\ incl pv s'.
Proof.
  induction ep as [|[n vals] ep IH]; intros piv p pv L; simpl in L; [discriminate|].
  rewrite pmerge_fold. simpl. rewrite <- pmerge_fold.
  destruct (String.eqb p n) eqn:E.
  - apply String.eqb_eq in E. subst n. inversion L. subst vals.
    assert (exists s1, lookup (pstep KOr piv (p, pv)) p = Some s1 /\ incl pv s1) as [s1 [L1 I1]].
    { unfold pstep. simpl. destruct (lookup piv p); rewrite lookup_tset_same; eexists; split;
        try reflexivity; [apply incl_nunion_r | apply incl_refl]. }
    destruct (pmerge_or_mono ep _ _ _ L1) as [s2 [L2 I2]].
    exists s2. split; [exact L2 | eapply incl_tran; eassumption].
  - apply IH. exact L.
Qed.

Lemma pfold_or_mono : forall tbl es acc p s,
  lookup acc p = Some s -> exists s', lookup (pfold tbl KOr es acc) p = Some s' /\ incl s s'.
Proof.
  intros tbl es. unfold pfold. induction es as [|e es IH]; intros acc p s L; simpl.
  - exists s. split; [exact L | apply incl_refl].
  - destruct (pmerge_or_mono (extract_pivots tbl e) acc p s L) as [s1 [L1 I1]].
    destruct (IH _ _ _ L1) as [s2 [L2 I2]]. exists s2. split; [exact L2 | eapply incl_tran; eassumption].
Qed.

Lemma pfold_or_includes : forall tbl es acc e p pv,
  In e es -> lookup (extract_pivots tbl e) p = Some pv ->
  exists s', lookup (pfold tbl KOr es acc) p = Some s' /\ incl pv s'.
Proof.
  intros tbl es. induction es as [|e0 es IH]; intros acc e p pv Hin L; [destruct Hin|].
  destruct Hin as [E|Hin].
  - subst e0. unfold pfold. simpl.
    destruct (pmerge_or_includes (extract_pivots tbl e) acc p pv L) as [s1 [L1 I1]].
    destruct (pfold_or_mono tbl es _ p s1 L1) as [s2 [L2 I2]].
    exists s2. split; [exact L2 | eapply incl_tran; eassumption].
  - unfold pfold. simpl. apply (IH _ e); assumption.
Qed.

Lemma pfold_and_sound : forall sigma tbl es acc,
  psound sigma tbl acc -> (forall e, In e es -> psound sigma tbl (extract_pivots tbl e)) ->
  psound sigma tbl (pfold tbl KAnd es acc).
Proof.
  intros sigma tbl es. unfold pfold. induction es as [|e es IH]; intros acc Ha He; simpl; [exact Ha|].
  apply IH.
  - apply pmerge_and_sound; [exact Ha | apply He; left; reflexivity].
  - intros x Hx. apply He. right. exact Hx.
Qed.

(* (a) the contract of extract_pivots: an assignment drawn from the table that satisfies the term gives every
   pivot that is a table key one of its pivot values -- for terms whose disjunctions are [guarded] *)
Lemma pivots_sound_lemma : forall sigma tbl t,
  keys_vars tbl -> consistent sigma tbl -> covers tbl t = true -> guarded tbl t = true ->
  eval sigma t = true -> psound sigma tbl (extract_pivots tbl t).
Proof.
  intros sigma tbl t Hkv Hs. induction t as [| |l r|k es IH] using term_ind'; intros Hc Hg He.
  - intros p pv [].
  - intros p pv [].
  - simpl in He. apply String.eqb_eq in He. simpl in Hc. apply andb_true_iff in Hc. destruct Hc as [Cl Cr].
    intros p pv Hin Hk. cbn [extract_pivots] in Hin.
    destruct (lookup tbl l) as [a|] eqn:Ll; [destruct (lookup tbl r) as [b|] eqn:Lr|].
    + assert (Vl : is_var l = true) by (apply Hkv; apply has_key_true; eauto).
      assert (Vr : is_var r = true) by (apply Hkv; apply has_key_true; eauto).
      unfold val in He. rewrite Vl, Vr in He.
      assert (Hl : In (sigma l) a) by (apply (Hs l a Ll Vl)).
      assert (Hr : In (sigma r) b) by (apply (Hs r b Lr Vr)).
      apply in_tset in Hin. destruct Hin as [[E1 E2]|Hin].
      * subst. apply in_ninter. split; [rewrite <- He; exact Hl | exact Hr].
      * apply in_tset in Hin. destruct Hin as [[E1 E2]|[]]. subst.
        apply in_ninter. split; [exact Hl | rewrite He; exact Hr].
    + (* l is a key, r is not *)
      assert (Vl : is_var l = true) by (apply Hkv; apply has_key_true; eauto).
      assert (Nr : is_var r = false).
      { destruct (is_var r); [|reflexivity]. simpl in Cr. unfold has_key in Cr. rewrite Lr in Cr. discriminate. }
      unfold val in He. rewrite Vl, Nr in He.
      apply in_tset in Hin. destruct Hin as [[E1 E2]|Hin].
      * subst p pv. unfold has_key in Hk. rewrite Lr in Hk. discriminate.
      * apply in_tset in Hin. destruct Hin as [[E1 E2]|[]]. subst p pv. left. symmetry. exact He.
    + (* l is not a key *)
      assert (Nl : is_var l = false).
      { destruct (is_var l); [|reflexivity]. simpl in Cl. unfold has_key in Cl. rewrite Ll in Cl. discriminate. }
      apply in_tset in Hin. destruct Hin as [[E1 E2]|Hin].
      * subst p pv. assert (Vr : is_var r = true) by (apply Hkv; exact Hk).
        unfold val in He. rewrite Nl, Vr in He. left. exact He.
      * apply in_tset in Hin. destruct Hin as [[E1 E2]|[]]. subst p pv.
        unfold has_key in Hk. rewrite Ll in Hk. discriminate.
  - rewrite Forall_forall in IH. simpl in Hc. rewrite forallb_forall in Hc.
    cbn [guarded] in Hg. apply andb_true_iff in Hg. destruct Hg as [Hg1 Hg2]. rewrite forallb_forall in Hg1.
    rewrite extract_pivots_op. destruct k.
    + simpl in He. rewrite forallb_forall in He.
      assert (S : psound sigma tbl (pfold tbl KAnd es [])).
      { apply pfold_and_sound; [intros p pv [] |]. intros e Hin. apply IH; auto. }
      intros p pv Hin Hk. apply filter_In in Hin. apply (S p pv); tauto.
    + simpl in He. apply existsb_exists in He. destruct He as [e0 [Hin0 He0]].
      intros p pv Hin Hk.
      rewrite forallb_forall in Hg2. specialize (Hg2 (p, pv)). rewrite extract_pivots_op in Hg2.
      specialize (Hg2 Hin). simpl in Hg2. rewrite Hk in Hg2. simpl in Hg2.
      rewrite forallb_forall in Hg2. specialize (Hg2 e0 Hin0).
      apply has_key_true in Hg2. destruct Hg2 as [pv0 L0].
      assert (S0 : In (sigma p) pv0).
      { apply (IH e0 Hin0 (Hc e0 Hin0) (Hg1 e0 Hin0) He0 p pv0); [apply lookup_in; exact L0 | exact Hk]. }
      destruct (pfold_or_includes tbl es [] e0 p pv0 Hin0 L0) as [s' [L' I']].
      assert (N : NoDup (map fst (pfold tbl KOr es []))) by (apply nodup_pfold; [auto | constructor]).
      rewrite (nodup_in_lookup _ _ _ N Hin) in L'. inversion L'. subst s'. apply I'. exact S0.
Qed.

(* ---------- extract_equalities ---------- *)
Lemma occurs_eq_op : forall l r k es, occurs_eq l r (Op k es) <-> exists x, In x es /\ occurs_eq l r x.
Proof.
  intros l r k es. simpl. induction es as [|e es IH].
  - split; [intros [] | intros [x [[] _]]].
  - rewrite IH. split.
    + intros [H|[x [Hx H]]]; [exists e; simpl; auto | exists x; simpl; auto].
    + intros [x [[E|Hx] H]]; [subst; auto | right; exists x; auto].
Qed.

Lemma equalities_spec_lemma : forall t l r, In (l, r) (extract_equalities t) <-> occurs_eq l r t.
Proof.
  intro t. induction t as [| |l0 r0|k es IH] using term_ind'; intros l r.
  - simpl. tauto.
  - simpl. tauto.
  - simpl. split; [intros [H|[]]; inversion H; auto | intros [A B]; subst; auto].
  - rewrite occurs_eq_op. cbn [extract_equalities]. rewrite in_flat_map. rewrite Forall_forall in IH.
    split; intros [x [Hx H]]; exists x; (split; [exact Hx|]); apply (IH x Hx); exact H.
Qed.

(* ---------- predicates preserved by simplify ---------- *)
Lemma simplify_preserves : forall (P : term -> bool),
  (forall k ys, P (Op k ys) = forallb P ys) -> P T = true -> P F = true ->
  forall tbl t r, P t = true -> simplify tbl t = Some r -> P r = true.
Proof.
  intros P HP PT PF tbl t. induction t as [| |l r0|k es IH] using term_ind'; intros r Hn H; simpl in H.
  - inversion H. exact PT.
  - inversion H. exact PF.
  - destruct (has_key tbl r0); [inversion H; subst; exact Hn|].
    destruct (lookup tbl l) as [vs|]; [|discriminate].
    destruct (mem_name r0 vs); inversion H; subst; [exact Hn | exact PF].
  - destruct (gen_take (stop_of k) (map (simplify tbl) es)) as [pre|] eqn:G; [|discriminate].
    inversion H. subst r.
    change (simplify_exprs k (stop_of k) (skip_of k) pre) with (OpC k pre).
    apply opc_forallb_lemma; try assumption.
    eapply gen_take_forallb; [|exact G].
    rewrite HP in Hn. rewrite forallb_forall in Hn. rewrite Forall_forall in IH.
    intros x Hx r Hr. apply (IH x Hx); [apply Hn; exact Hx | exact Hr].
Qed.

Lemma forallb_ext_in : forall (A : Type) (f g : A -> bool) l,
  (forall x, In x l -> f x = g x) -> forallb f l = forallb g l.
Proof.
  intros A f g l. induction l as [|a l IH]; intro H; simpl; [reflexivity|].
  rewrite (H a (or_introl eq_refl)). f_equal. apply IH. intros x Hx. apply H. right. exact Hx.
Qed.

Lemma covers_ext : forall a b t, (forall k, has_key a k = has_key b k) -> covers a t = covers b t.
Proof.
  intros a b t E. induction t as [| |l r|k es IH] using term_ind'; simpl; try reflexivity.
  - rewrite !E. reflexivity.
  - rewrite Forall_forall in IH. apply forallb_ext_in. exact IH.
Qed.

Lemma simplify_covers : forall tbl0 tbl t r,
  covers tbl0 t = true -> simplify tbl t = Some r -> covers tbl0 r = true.
Proof. intros tbl0. apply (simplify_preserves (covers tbl0)); reflexivity. Qed.

Lemma opc_covers : forall tbl k es, forallb (covers tbl) es = true -> covers tbl (OpC k es) = true.
Proof. intros. apply opc_forallb_lemma; auto. Qed.

(* ---------- table size, apply_pivots ---------- *)
Lemma tsize_tset : forall tbl k old v,
  lookup tbl k = Some old -> tsize (tset tbl k v) + List.length old = tsize tbl + List.length v.
Proof.
  induction tbl as [|[k0 v0] r IH]; intros k old v L; simpl in L; [discriminate|].
  simpl. destruct (String.eqb k k0) eqn:E.
  - inversion L. subst. simpl. lia.
  - simpl. specialize (IH k old v L). lia.
Qed.

Lemma tset_same_id : forall tbl k v, lookup tbl k = Some v -> tset tbl k v = tbl.
Proof.
  induction tbl as [|[k0 v0] r IH]; intros k v L; simpl in L; [discriminate|].
  simpl. destruct (String.eqb k k0) eqn:E.
  - inversion L. reflexivity.
  - f_equal. apply IH. exact L.
Qed.

Lemma filter_length_le : forall (A : Type) (f : A -> bool) l, List.length (filter f l) <= List.length l.
Proof. intros A f l. induction l as [|a l IH]; simpl; [lia|]. destruct (f a); simpl; lia. Qed.

Lemma filter_length_eq : forall (A : Type) (f : A -> bool) l, List.length (filter f l) = List.length l -> filter f l = l.
Proof.
  intros A f l. induction l as [|a l IH]; intro H; simpl in *; [reflexivity|].
  destruct (f a); simpl in H.
  - f_equal. apply IH. lia.
  - pose proof (filter_length_le A f l). lia.
Qed.

Definition ap_step (tc : table * bool) (nv : name * nset) : table * bool :=
  match lookup (fst tc) (fst nv) with
  | None => tc
  | Some before =>
      let after := ninter before (snd nv) in
      (tset (fst tc) (fst nv) after, snd tc || negb (Nat.eqb (List.length before) (List.length after)))
  end.

Lemma apply_pivots_fold : forall tbl piv, apply_pivots tbl piv = fold_left ap_step piv (tbl, false).
Proof. reflexivity. Qed.

(* what one application of pivots does to a table, whatever the pivots are *)
Definition ap_rel (t0 : table) (c0 : bool) (t1 : table) (c1 : bool) : Prop :=
  tsize t1 <= tsize t0 /\
  (c1 = true -> c0 = true \/ tsize t1 < tsize t0) /\
  (c1 = false -> t1 = t0 /\ c0 = false) /\
  tbl_le t1 t0 /\
  (forall k, has_key t1 k = has_key t0 k).

Lemma tbl_le_refl : forall t, tbl_le t t.
Proof. intros t k vs H. exists vs. split; [exact H | apply incl_refl]. Qed.

Lemma tbl_le_trans : forall a b c, tbl_le a b -> tbl_le b c -> tbl_le a c.
Proof.
  intros a b c H1 H2 k vs L. destruct (H1 k vs L) as [ws [L1 I1]]. destruct (H2 k ws L1) as [us [L2 I2]].
  exists us. split; [exact L2 | eapply incl_tran; eassumption].
Qed.

Lemma tbl_le_tset : forall t k old v, lookup t k = Some old -> incl v old -> tbl_le (tset t k v) t.
Proof.
  intros t k old v L I k' vs H. rewrite lookup_tset in H. destruct (String.eqb k' k) eqn:E.
  - apply String.eqb_eq in E. subst. inversion H. subst. exists old. auto.
  - exists vs. split; [exact H | apply incl_refl].
Qed.

Lemma has_key_tset_present : forall t k old v k', lookup t k = Some old -> has_key (tset t k v) k' = has_key t k'.
Proof.
  intros. rewrite has_key_tset. destruct (String.eqb k' k) eqn:E; [|reflexivity].
  apply String.eqb_eq in E. subst. simpl. symmetry. apply has_key_true. eauto.
Qed.

Lemma ap_step_rel : forall t c nv, ap_rel t c (fst (ap_step (t, c) nv)) (snd (ap_step (t, c) nv)).
Proof.
  intros t c [n pv]. unfold ap_step. simpl. destruct (lookup t n) as [before|] eqn:L; simpl.
  - pose proof (tsize_tset t n before (ninter before pv) L) as S.
    pose proof (filter_length_le _ (fun x => mem_name x pv) before) as Fl. fold (ninter before pv) in Fl.
    repeat split.
    + lia.
    + intro H. apply orb_true_iff in H. destruct H as [H|H]; [auto|]. right.
      apply negb_true_iff in H. apply Nat.eqb_neq in H. lia.
    + apply orb_false_iff in H. destruct H as [_ H]. apply negb_false_iff in H. apply Nat.eqb_eq in H.
      symmetry in H. apply filter_length_eq in H. unfold ninter. rewrite H. apply tset_same_id. exact L.
    + apply orb_false_iff in H. tauto.
    + apply (tbl_le_tset t n before); [exact L|]. intros x Hx. apply in_ninter in Hx. tauto.
    + intro k. apply (has_key_tset_present t n before). exact L.
  - unfold ap_rel. repeat split; auto. apply tbl_le_refl.
Qed.

Lemma ap_rel_trans : forall t0 c0 t1 c1 t2 c2, ap_rel t0 c0 t1 c1 -> ap_rel t1 c1 t2 c2 -> ap_rel t0 c0 t2 c2.
Proof.
  intros t0 c0 t1 c1 t2 c2 [A1 [A2 [A3 [A4 A5]]]] [B1 [B2 [B3 [B4 B5]]]]. repeat split.
  - lia.
  - intro H. destruct (B2 H) as [H1|H1]; [destruct (A2 H1); [auto | right; lia] | right; lia].
  - destruct (B3 H) as [E1 E2]. destruct (A3 E2) as [E3 E4]. congruence.
  - destruct (B3 H) as [E1 E2]. destruct (A3 E2) as [E3 E4]. exact E4.
  - eapply tbl_le_trans; eassumption.
  - intro k. rewrite B5. apply A5.
Qed.

Lemma ap_rel_refl : forall t c, ap_rel t c t c.
Proof. intros. unfold ap_rel. repeat split; auto. apply tbl_le_refl. Qed.

Lemma ap_fold_rel : forall piv t c,
  ap_rel t c (fst (fold_left ap_step piv (t, c))) (snd (fold_left ap_step piv (t, c))).
Proof.
  induction piv as [|nv piv IH]; intros t c; simpl; [apply ap_rel_refl|].
  destruct (ap_step (t, c) nv) as [t1 c1] eqn:E.
  eapply ap_rel_trans; [|apply IH].
  pose proof (ap_step_rel t c nv) as R. rewrite E in R. exact R.
Qed.

(* soundness of applying sound pivots *)
Lemma ap_fold_consistent : forall sigma tbl0 piv t c,
  (forall k, has_key t k = has_key tbl0 k) -> psound sigma tbl0 piv -> consistent sigma t ->
  consistent sigma (fst (fold_left ap_step piv (t, c))).
Proof.
  intros sigma tbl0 piv. induction piv as [|[n pv] piv IH]; intros t c Hk Hp Hc; simpl; [exact Hc|].
  destruct (ap_step (t, c) (n, pv)) as [t1 c1] eqn:E.
  assert (Hp' : psound sigma tbl0 piv) by (intros p q Hin; apply Hp; right; exact Hin).
  unfold ap_step in E. simpl in E. destruct (lookup t n) as [before|] eqn:L.
  - inversion E. subst t1 c1. apply IH; [|exact Hp'|].
    + intro k. rewrite (has_key_tset_present t n before); [apply Hk | exact L].
    + intros v vs Lv Vv. rewrite lookup_tset in Lv. destruct (String.eqb v n) eqn:Evn.
      * apply String.eqb_eq in Evn. subst v. inversion Lv. apply in_ninter. split.
        -- apply (Hc n before L Vv).
        -- apply (Hp n pv); [left; reflexivity|]. rewrite <- Hk. apply has_key_true. eauto.
      * apply (Hc v vs Lv Vv).
  - inversion E. subst. apply IH; assumption.
Qed.

(* ---------- one round: the table only shrinks ---------- *)
Lemma fold_value_none : forall var vs, fold_left (value_step var) vs None = None.
Proof. induction vs; simpl; auto. Qed.
Lemma fold_var_none : forall ord vs, fold_left (var_step ord) vs None = None.
Proof. induction vs; simpl; auto. Qed.

Lemma nremove_length : forall l x, In x l -> List.length (nremove l x) < List.length l.
Proof.
  induction l as [|a l IH]; intros x H; [destruct H|]. unfold nremove in *. simpl.
  destruct (String.eqb x a) eqn:E; simpl.
  - apply Nat.lt_succ_r. apply filter_length_le.
  - destruct H as [H|H]; [subst; rewrite String.eqb_refl in E; discriminate|].
    specialize (IH x H). lia.
Qed.

Lemma value_step_rel : forall var st value st',
  value_step var (Some st) value = Some st' ->
  ap_rel (r_tbl st) (r_changed st) (r_tbl st') (r_changed st').
Proof.
  intros var st value st' H. unfold value_step in H.
  destruct (alookup (adict (r_im st) var) value) as [imp|]; [|discriminate].
  destruct (simplify (r_tbl st) imp) as [imp'|]; [|discriminate].
  destruct (is_ident imp' F).
  - destruct (mem_name value (hget (r_tbl st) var)) eqn:M; [|discriminate].
    inversion H. subst st'. simpl. apply mem_name_true in M.
    unfold hget in *. destruct (lookup (r_tbl st) var) as [old|] eqn:L; [|exfalso; exact M].
    pose proof (tsize_tset (r_tbl st) var old (nremove old value) L) as S.
    pose proof (nremove_length old value M) as Nl.
    unfold ap_rel. repeat split; try lia; try discriminate.
    + apply (tbl_le_tset _ var old); [exact L|]. intros x Hx. apply in_nremove in Hx. tauto.
    + intro k. apply (has_key_tset_present _ var old). exact L.
  - inversion H. subst st'. simpl. apply ap_rel_refl.
Qed.

Lemma fold_value_rel : forall var vs st st',
  fold_left (value_step var) vs (Some st) = Some st' ->
  ap_rel (r_tbl st) (r_changed st) (r_tbl st') (r_changed st').
Proof.
  intros var vs. induction vs as [|v vs IH]; intros st st' H; cbn [fold_left] in H.
  - inversion H. apply ap_rel_refl.
  - destruct (value_step var (Some st) v) as [st1|] eqn:E; [|rewrite fold_value_none in H; discriminate].
    eapply ap_rel_trans; [eapply value_step_rel; exact E | apply IH; exact H].
Qed.

Lemma var_step_rel : forall ord st var st',
  var_step ord (Some st) var = Some st' ->
  ap_rel (l_tbl st) (l_changed st) (l_tbl st') (l_changed st').
Proof.
  intros ord st var st' H. unfold var_step in H.
  destruct (lookup (l_tbl st) var) as [values|]; [|discriminate].
  match type of H with context [fold_left ?f ?l ?a] => destruct (fold_left f l a) as [r|] eqn:E end; [|discriminate].
  inversion H. subst st'. simpl. apply fold_value_rel in E. exact E.
Qed.

Lemma fold_var_rel : forall ord vs st st',
  fold_left (var_step ord) vs (Some st) = Some st' ->
  ap_rel (l_tbl st) (l_changed st) (l_tbl st') (l_changed st').
Proof.
  intros ord vs. induction vs as [|v vs IH]; intros st st' H; cbn [fold_left] in H.
  - inversion H. apply ap_rel_refl.
  - destruct (var_step ord (Some st) v) as [st1|] eqn:E; [|rewrite fold_var_none in H; discriminate].
    eapply ap_rel_trans; [eapply var_step_rel; exact E | apply IH; exact H].
Qed.

Lemma round_rel : forall ord variables tbl im tbl' im' ch site,
  round ord variables tbl im = Some (tbl', im', ch, site) -> ap_rel tbl false tbl' ch.
Proof.
  intros ord variables tbl im tbl' im' ch site H. unfold round in H.
  match type of H with context [fold_left ?f ?l ?a] => destruct (fold_left f l a) as [st|] eqn:E end; [|discriminate].
  apply fold_var_rel in E. simpl in E.
  inversion H. subst. clear H.
  rewrite apply_pivots_fold.
  pose proof (ap_fold_rel (extract_pivots (l_tbl st) (AndC (l_ands st))) (l_tbl st) false) as R.
  destruct (fold_left ap_step (extract_pivots (l_tbl st) (AndC (l_ands st))) (l_tbl st, false)) as [t2 c2].
  simpl in *. destruct E as [A1 [A2 [A3 [A4 A5]]]]. destruct R as [B1 [B2 [B3 [B4 B5]]]].
  unfold ap_rel. repeat split.
  - lia.
  - intro H. right. apply orb_true_iff in H. destruct H as [H|H].
    + destruct (A2 H); [discriminate | lia].
    + destruct (B2 H); [discriminate | lia].
  - apply orb_false_iff in H. destruct H as [H1 H2]. destruct (A3 H1). destruct (B3 H2). congruence.
  - eapply tbl_le_trans; eassumption.
  - intro k. rewrite B5. apply A5.
Qed.

(* ---------- the loop: fuel, shrinking, fixed point ---------- *)
Lemma solve_loop_fuel : forall fuel ord variables tbl im tr,
  tsize tbl < fuel -> solve_loop fuel ord variables tbl im tr <> OutOfFuel.
Proof.
  induction fuel as [|f IH]; intros ord variables tbl im tr Hf; [lia|].
  simpl. destruct (round ord variables tbl im) as [[[[tbl' im'] ch] site]|] eqn:R; [|discriminate].
  destruct ch; [|discriminate].
  apply round_rel in R. destruct R as [_ [R _]]. destruct (R eq_refl); [discriminate|].
  apply IH. lia.
Qed.

Lemma solve_loop_done : forall fuel ord variables tbl im tr tbl' im' tr',
  solve_loop fuel ord variables tbl im tr = Done (tbl', im', tr') ->
  tbl_le tbl' tbl /\ (forall k, has_key tbl' k = has_key tbl k) /\
  exists im0 site, round ord variables tbl' im0 = Some (tbl', im', false, site).
Proof.
  induction fuel as [|f IH]; intros ord variables tbl im tr tbl' im' tr' H; [discriminate|].
  simpl in H. destruct (round ord variables tbl im) as [[[[tbl1 im1] ch] site]|] eqn:R; [|discriminate].
  pose proof (round_rel _ _ _ _ _ _ _ _ R) as [_ [_ [R3 [R4 R5]]]].
  destruct ch.
  - apply IH in H. destruct H as [H1 [H2 H3]]. split; [eapply tbl_le_trans; eassumption|].
    split; [intro k; rewrite H2; apply R5 | exact H3].
  - inversion H. subst. destruct (R3 eq_refl) as [E _]. subst tbl'.
    split; [apply tbl_le_refl|]. split; [reflexivity|]. exists im, site. exact R.
Qed.

(* ---------- soundness of one round ---------- *)
Lemma alookup_aset : forall (A : Type) (l : list (name * A)) k v k',
  alookup (aset l k v) k' = if String.eqb k' k then Some v else alookup l k'.
Proof.
  intros A l. induction l as [|[k0 v0] r IH]; intros k v k'; simpl.
  - destruct (String.eqb k' k); reflexivity.
  - destruct (String.eqb k k0) eqn:E; simpl.
    + apply String.eqb_eq in E. subst k0. destruct (String.eqb k' k); reflexivity.
    + rewrite IH. destruct (String.eqb k' k0) eqn:E0; [|reflexivity].
      apply String.eqb_eq in E0. subst k0. destruct (String.eqb k' k) eqn:E1; [|reflexivity].
      apply String.eqb_eq in E1. subst. rewrite String.eqb_refl in E. discriminate.
Qed.

Lemma adict_iset2 : forall im var value t v x,
  alookup (adict (iset2 im var value t) v) x =
  if String.eqb v var && String.eqb x value then Some t else alookup (adict im v) x.
Proof.
  intros. unfold iset2, adict at 1. rewrite alookup_aset. destruct (String.eqb v var) eqn:E; simpl.
  - apply String.eqb_eq in E. subst v. rewrite alookup_aset. reflexivity.
  - reflexivity.
Qed.

Lemma is_ident_F : forall e, is_ident e F = true -> e = F.
Proof. intros e H. destruct e; simpl in H; try discriminate. reflexivity. Qed.

Definition sinv (sigma : name -> name) (variables : nset) (tbl0 tbl : table) (im : imap) : Prop :=
  consistent sigma tbl /\
  (forall k, has_key tbl k = has_key tbl0 k) /\
  (forall v, In v variables -> exists imp, alookup (adict im v) (sigma v) = Some imp /\ eval sigma imp = true) /\
  (forall var value imp, alookup (adict im var) value = Some imp -> covers tbl0 imp = true).

Definition hit (sigma : name -> name) (ors : list term) : Prop := existsb (eval sigma) ors = true.

Lemma value_step_sound : forall sigma variables tbl0 var st value st',
  is_var var = true -> In var variables ->
  sinv sigma variables tbl0 (r_tbl st) (r_im st) -> forallb (covers tbl0) (r_ors st) = true ->
  value_step var (Some st) value = Some st' ->
  sinv sigma variables tbl0 (r_tbl st') (r_im st') /\ forallb (covers tbl0) (r_ors st') = true /\
  (hit sigma (r_ors st) \/ sigma var = value -> hit sigma (r_ors st')).
Proof.
  intros sigma variables tbl0 var st value st' Vv Hin [I1 [I2 [I3 I4]]] Co H. unfold value_step in H.
  destruct (alookup (adict (r_im st) var) value) as [imp|] eqn:Li; [|discriminate].
  destruct (simplify (r_tbl st) imp) as [imp'|] eqn:Si; [|discriminate].
  assert (C0 : covers tbl0 imp = true) by (eapply I4; exact Li).
  assert (C1 : covers (r_tbl st) imp = true) by (rewrite (covers_ext _ tbl0); [exact C0 | exact I2]).
  assert (Ev : eval sigma imp' = eval sigma imp) by (eapply simplify_equiv_lemma; eassumption).
  assert (C2 : covers tbl0 imp' = true) by (eapply simplify_covers; eassumption).
  destruct (I3 var Hin) as [imp0 [L0 E0]].
  destruct (is_ident imp' F) eqn:Id.
  - destruct (mem_name value (hget (r_tbl st) var)) eqn:M; [|discriminate].
    inversion H. subst st'. clear H. simpl.
    apply is_ident_F in Id. subst imp'. simpl in Ev.
    assert (Ne : sigma var <> value).
    { intro E. subst value. rewrite L0 in Li. inversion Li. subst imp0. congruence. }
    apply mem_name_true in M. unfold hget in *.
    destruct (lookup (r_tbl st) var) as [old|] eqn:L; [|exfalso; exact M].
    split; [|split; [exact Co | intros [Hh|E]; [exact Hh | exfalso; exact (Ne E)]]].
    split; [|split; [|split]].
    + intros v vs Lv Vr. rewrite lookup_tset in Lv. destruct (String.eqb v var) eqn:Ev'.
      * apply String.eqb_eq in Ev'. subst v. inversion Lv. apply in_nremove. split; [|exact Ne].
        apply (I1 var old L Vv).
      * apply (I1 v vs Lv Vr).
    + intro k. rewrite (has_key_tset_present _ var old); [apply I2 | exact L].
    + intros v Hv. destruct (I3 v Hv) as [impv [Lv Evv]]. exists impv. split; [|exact Evv].
      rewrite adict_iset2. destruct (String.eqb v var && String.eqb (sigma v) value) eqn:B; [|exact Lv].
      apply andb_true_iff in B. destruct B as [B1 B2]. apply String.eqb_eq in B1, B2. subst v. contradiction.
    + intros v x i Lx. rewrite adict_iset2 in Lx.
      destruct (String.eqb v var && String.eqb x value); [inversion Lx; reflexivity | eapply I4; exact Lx].
  - inversion H. subst st'. clear H. simpl.
    split; [|split].
    + split; [exact I1|]. split; [exact I2|]. split.
      * intros v Hv. destruct (I3 v Hv) as [impv [Lv Evv]]. rewrite adict_iset2.
        destruct (String.eqb v var && String.eqb (sigma v) value) eqn:B; [|exists impv; auto].
        apply andb_true_iff in B. destruct B as [B1 B2]. apply String.eqb_eq in B1, B2. subst v. subst value.
        exists imp'. split; [reflexivity|]. rewrite Ev. rewrite Lv in Li. inversion Li. subst. exact Evv.
      * intros v x i Lx. rewrite adict_iset2 in Lx.
        destruct (String.eqb v var && String.eqb x value); [inversion Lx; subst; exact C2 | eapply I4; exact Lx].
    + rewrite forallb_app. rewrite Co. simpl. rewrite C2. reflexivity.
    + unfold hit. rewrite existsb_app. intros [Hh|E]; [rewrite Hh; reflexivity|].
      subst value. rewrite L0 in Li. inversion Li. subst imp0. simpl. rewrite Ev, E0. apply orb_true_r.
Qed.

Lemma fold_value_sound : forall sigma variables tbl0 var vs st st',
  is_var var = true -> In var variables ->
  sinv sigma variables tbl0 (r_tbl st) (r_im st) -> forallb (covers tbl0) (r_ors st) = true ->
  fold_left (value_step var) vs (Some st) = Some st' ->
  sinv sigma variables tbl0 (r_tbl st') (r_im st') /\ forallb (covers tbl0) (r_ors st') = true /\
  (hit sigma (r_ors st) \/ In (sigma var) vs -> hit sigma (r_ors st')).
Proof.
  intros sigma variables tbl0 var vs. induction vs as [|v vs IH]; intros st st' Vv Hin Hs Co H; cbn [fold_left] in H.
  - inversion H. subst. split; [exact Hs|]. split; [exact Co|]. intros [Hh|[]]. exact Hh.
  - destruct (value_step var (Some st) v) as [st1|] eqn:E; [|rewrite fold_value_none in H; discriminate].
    destruct (value_step_sound _ _ _ _ _ _ _ Vv Hin Hs Co E) as [S1 [C1 H1]].
    destruct (IH st1 st' Vv Hin S1 C1 H) as [S2 [C2 H2]].
    split; [exact S2|]. split; [exact C2|].
    intros [Hh|[Ev|Hi]]; apply H2; [left; apply H1; left; exact Hh | left; apply H1; right; symmetry; exact Ev | right; exact Hi].
Qed.

Definition linv (sigma : name -> name) (variables : nset) (tbl0 : table) (st : lstate) : Prop :=
  sinv sigma variables tbl0 (l_tbl st) (l_im st) /\ forallb (covers tbl0) (l_ands st) = true /\
  forallb (eval sigma) (l_ands st) = true.

Lemma var_step_sound : forall sigma ord variables tbl0 st var st',
  ord_ok ord -> is_var var = true -> In var variables ->
  linv sigma variables tbl0 st -> var_step ord (Some st) var = Some st' -> linv sigma variables tbl0 st'.
Proof.
  intros sigma ord variables tbl0 st var st' Ho Vv Hin [Hs [Ca Ea]] H. unfold var_step in H.
  destruct (lookup (l_tbl st) var) as [values|] eqn:L; [|discriminate].
  match type of H with context [fold_left ?f ?l ?a] => destruct (fold_left f l a) as [r|] eqn:E end; [|discriminate].
  inversion H. subst st'. clear H. simpl.
  apply (fold_value_sound sigma variables tbl0) in E; simpl; auto.
  simpl in E. destruct E as [S1 [C1 H1]].
  assert (Hh : hit sigma (r_ors r)).
  { apply H1. right. apply Ho. destruct Hs as [I1 _]. apply (I1 var values L Vv). }
  split; [exact S1|]. simpl. rewrite !forallb_app. rewrite Ca, Ea. simpl.
  change (OrC (r_ors r)) with (OpC KOr (r_ors r)).
  rewrite opc_covers by exact C1. fold (OrC (r_ors r)). rewrite or_equiv_lemma. rewrite Hh. auto.
Qed.

Lemma fold_var_sound : forall sigma ord variables tbl0 vs st st',
  ord_ok ord -> (forall v, In v vs -> is_var v = true /\ In v variables) ->
  linv sigma variables tbl0 st -> fold_left (var_step ord) vs (Some st) = Some st' -> linv sigma variables tbl0 st'.
Proof.
  intros sigma ord variables tbl0 vs. induction vs as [|v vs IH]; intros st st' Ho Hv Hl H; cbn [fold_left] in H.
  - inversion H. subst. exact Hl.
  - destruct (var_step ord (Some st) v) as [st1|] eqn:E; [|rewrite fold_var_none in H; discriminate].
    apply (IH st1 st' Ho); [intros x Hx; apply Hv; right; exact Hx | | exact H].
    destruct (Hv v (or_introl eq_refl)). eapply var_step_sound; eassumption.
Qed.

Lemma round_sound : forall sigma ord variables tbl0 tbl im tbl' im' ch site,
  ord_ok ord -> (forall v, In v variables -> is_var v = true) ->
  (forall k, has_key tbl0 k = true -> In k variables) ->
  sinv sigma variables tbl0 tbl im ->
  round ord variables tbl im = Some (tbl', im', ch, site) ->
  guarded (fst site) (snd site) = true ->
  sinv sigma variables tbl0 tbl' im'.
Proof.
  intros sigma ord variables tbl0 tbl im tbl' im' ch site Ho Hv Hk Hs H G. unfold round in H.
  match type of H with context [fold_left ?f ?l ?a] => destruct (fold_left f l a) as [st|] eqn:E end; [|discriminate].
  assert (E' : linv sigma variables tbl0 st).
  { eapply (fold_var_sound sigma ord variables tbl0); [exact Ho | | | exact E].
    - intros v Hin. apply (proj1 (Ho _ _)) in Hin. split; [apply Hv; exact Hin | exact Hin].
    - split; [exact Hs|]. simpl. auto. }
  clear E. rename E' into E.
  inversion H. subst. clear H. simpl in G.
  destruct E as [[I1 [I2 [I3 I4]]] [Ca Ea]].
  set (d := AndC (l_ands st)) in *.
  assert (Ed : eval sigma d = true) by (unfold d; rewrite and_equiv_lemma; exact Ea).
  assert (Cd : covers (l_tbl st) d = true).
  { rewrite (covers_ext _ tbl0); [|exact I2]. unfold d. change (AndC (l_ands st)) with (OpC KAnd (l_ands st)).
    apply opc_covers. exact Ca. }
  assert (Kv : keys_vars (l_tbl st)).
  { intros k Hkk. apply Hv. apply Hk. rewrite <- I2. exact Hkk. }
  pose proof (pivots_sound_lemma sigma (l_tbl st) d Kv I1 Cd G Ed) as Ps.
  rewrite apply_pivots_fold.
  pose proof (ap_fold_rel (extract_pivots (l_tbl st) d) (l_tbl st) false) as [_ [_ [_ [_ R5]]]].
  split; [|split; [|split]].
  - apply (ap_fold_consistent sigma (l_tbl st)); auto.
  - intro k. rewrite R5. apply I2.
  - exact I3.
  - exact I4.
Qed.

Lemma solve_loop_trace_prefix : forall fuel ord variables tbl im tr0 tbl' im' tr',
  solve_loop fuel ord variables tbl im tr0 = Done (tbl', im', tr') ->
  trace_guarded tr' = true -> trace_guarded tr0 = true.
Proof.
  induction fuel as [|f IH]; intros ord variables tbl im tr0 tbl' im' tr' H G; [discriminate|].
  simpl in H. destruct (round ord variables tbl im) as [[[[t2 i2] c2] s2]|]; [|discriminate].
  destruct c2.
  - apply IH in H; [|exact G]. unfold trace_guarded in *. rewrite forallb_app in H.
    apply andb_true_iff in H. tauto.
  - inversion H. subst. unfold trace_guarded in *. rewrite forallb_app in G. apply andb_true_iff in G. tauto.
Qed.

Lemma solve_loop_sound : forall sigma fuel ord variables tbl0 tbl im tr tbl' im' tr',
  ord_ok ord -> (forall v, In v variables -> is_var v = true) ->
  (forall k, has_key tbl0 k = true -> In k variables) ->
  sinv sigma variables tbl0 tbl im ->
  solve_loop fuel ord variables tbl im tr = Done (tbl', im', tr') ->
  trace_guarded tr' = true ->
  sinv sigma variables tbl0 tbl' im'.
Proof.
  intros sigma fuel. induction fuel as [|f IH]; intros ord variables tbl0 tbl im tr tbl' im' tr' Ho Hv Hk Hs H G;
    [discriminate|].
  simpl in H. destruct (round ord variables tbl im) as [[[[tbl1 im1] ch] site]|] eqn:R; [|discriminate].
  assert (Gs : trace_guarded (tr ++ [site]) = true -> guarded (fst site) (snd site) = true).
  { unfold trace_guarded. rewrite forallb_app. simpl. intro X. apply andb_true_iff in X. destruct X as [_ X].
    rewrite andb_true_r in X. exact X. }
  destruct ch.
  - assert (Gt : trace_guarded (tr ++ [site]) = true) by (eapply solve_loop_trace_prefix; eassumption).
    apply (IH ord variables tbl0 tbl1 im1 (tr ++ [site]) tbl' im' tr' Ho Hv Hk); [|exact H|exact G].
    apply (round_sound sigma ord variables tbl0 tbl im tbl1 im1 true site); auto.
  - inversion H. subst.
    apply (round_sound sigma ord variables tbl0 tbl im tbl' im' false site); auto.
Qed.

(* ---------- solve ---------- *)
Lemma lookup_map_keys : forall (f : name -> nset) l k,
  lookup (map (fun v => (v, f v)) l) k = if mem_name k l then Some (f k) else None.
Proof.
  intros f l k. induction l as [|a l IH]; simpl; [reflexivity|].
  destruct (String.eqb k a) eqn:E; simpl.
  - apply String.eqb_eq in E. subst. reflexivity.
  - exact IH.
Qed.

Lemma has_key_map_keys : forall (f : name -> nset) l k, has_key (map (fun v => (v, f v)) l) k = mem_name k l.
Proof. intros. unfold has_key. rewrite lookup_map_keys. destruct (mem_name k l); reflexivity. Qed.

Lemma mem_name_ord : forall ord l k, ord_ok ord -> mem_name k (ord l) = mem_name k l.
Proof.
  intros ord l k Ho. destruct (mem_name k l) eqn:M.
  - apply mem_name_true. apply (proj2 (Ho _ _)). apply mem_name_true. exact M.
  - destruct (mem_name k (ord l)) eqn:M'; [|reflexivity].
    apply mem_name_true in M'. apply (proj1 (Ho _ _)) in M'. apply mem_name_true in M'. congruence.
Qed.

Lemma alookup_in : forall (A : Type) (l : list (name * A)) k v, alookup l k = Some v -> In (k, v) l.
Proof.
  intros A l. induction l as [|[k0 v0] r IH]; intros k v H; simpl in H; [discriminate|].
  destruct (String.eqb k k0) eqn:E.
  - apply String.eqb_eq in E. inversion H. subst. left. reflexivity.
  - right. apply IH. exact H.
Qed.

Lemma in_nonfalse : forall im v x imp,
  alookup (adict im v) x = Some imp -> is_ident imp F = false -> In x (nonfalse_values im v).
Proof.
  intros im v x imp L N. unfold nonfalse_values. apply in_map_iff. exists (x, imp). split; [reflexivity|].
  apply filter_In. split; [apply alookup_in; exact L | simpl; rewrite N; reflexivity].
Qed.

Definition start_table (ord : nset -> nset) (variables : nset) (im : imap) : table :=
  map (fun v => (v, nonfalse_values im v)) (ord variables).

Definition wf_im (variables : nset) (im : imap) : Prop :=
  forall var value imp, alookup (adict im var) value = Some imp -> covers (vars_tbl variables) imp = true.

Lemma solve_unfold : forall ord eord s im,
  complete ord eord s = Some im ->
  solve ord eord s =
  match simplify (start_table ord (vars s) im) (ground s) with
  | None => Raised
  | Some g =>
      let tbl1 := fst (apply_pivots (start_table ord (vars s) im) (extract_pivots (start_table ord (vars s) im) g)) in
      solve_loop (S (tsize tbl1)) ord (vars s) tbl1 im [(start_table ord (vars s) im, g)]
  end.
Proof. intros ord eord s im H. unfold solve. rewrite H. reflexivity. Qed.

Lemma solve_sound_lemma : forall sigma ord eord s im tbl im' tr,
  ord_ok ord -> (forall v, In v (vars s) -> is_var v = true) ->
  covers (vars_tbl (vars s)) (ground s) = true -> wf_im (vars s) im ->
  complete ord eord s = Some im ->
  solution sigma (vars s) (ground s) im ->
  solve ord eord s = Done (tbl, im', tr) -> trace_guarded tr = true ->
  forall v, In v (vars s) -> exists vs, lookup tbl v = Some vs /\ In (sigma v) vs.
Proof.
  intros sigma ord eord s im tbl im' tr Ho Hv Cg Wi Hc [Sg Si] H G.
  rewrite (solve_unfold _ _ _ _ Hc) in H.
  set (T0 := start_table ord (vars s) im) in *.
  set (R0 := vars_tbl (vars s)) in *.
  assert (K0 : forall k, has_key T0 k = has_key R0 k).
  { intro k. unfold T0, R0, start_table, vars_tbl. rewrite !has_key_map_keys. apply mem_name_ord. exact Ho. }
  assert (KR : forall k, has_key R0 k = true -> In k (vars s)).
  { intros k Hk. unfold R0, vars_tbl in Hk. rewrite has_key_map_keys in Hk. apply mem_name_true. exact Hk. }
  assert (C0 : consistent sigma T0).
  { intros v vs L Vv. unfold T0, start_table in L. rewrite lookup_map_keys in L.
    destruct (mem_name v (ord (vars s))) eqn:M; [|discriminate]. inversion L. subst vs.
    apply mem_name_true in M. apply (proj1 (Ho _ _)) in M. destruct (Si v M) as [imp [Li Ei]].
    apply (in_nonfalse im v _ imp Li). destruct imp; try reflexivity. simpl in Ei. discriminate. }
  destruct (simplify T0 (ground s)) as [g|] eqn:Sg'; [|discriminate].
  cbv zeta in H.
  assert (Gg : guarded T0 g = true).
  { apply solve_loop_trace_prefix in H; [|exact G]. unfold trace_guarded in H. simpl in H.
    rewrite andb_true_r in H. exact H. }
  assert (CT : covers T0 (ground s) = true) by (rewrite (covers_ext _ R0); [exact Cg | exact K0]).
  assert (Eg : eval sigma g = true) by (rewrite (simplify_equiv_lemma sigma T0 (ground s) g CT C0 Sg'); exact Sg).
  assert (Cg' : covers T0 g = true) by (eapply simplify_covers; eassumption).
  assert (Kv : keys_vars T0) by (intros k Hk; apply Hv; apply KR; rewrite <- K0; exact Hk).
  pose proof (pivots_sound_lemma sigma T0 g Kv C0 Cg' Gg Eg) as Ps.
  rewrite apply_pivots_fold in H.
  pose proof (ap_fold_rel (extract_pivots T0 g) T0 false) as [_ [_ [_ [_ R5]]]].
  pose proof (ap_fold_consistent sigma T0 (extract_pivots T0 g) T0 false (fun k => eq_refl) Ps C0) as C1.
  set (T1 := fst (fold_left ap_step (extract_pivots T0 g) (T0, false))) in *.
  assert (S1 : sinv sigma (vars s) R0 T1 im).
  { split; [exact C1|]. split; [intro k; rewrite R5; apply K0|]. split; [exact Si | exact Wi]. }
  pose proof (solve_loop_sound sigma _ ord (vars s) R0 T1 im _ tbl im' tr Ho Hv KR S1 H G) as [F1 [F2 _]].
  intros v Hin.
  assert (Hk : has_key tbl v = true).
  { rewrite F2. unfold R0, vars_tbl. rewrite has_key_map_keys. apply mem_name_true. exact Hin. }
  apply has_key_true in Hk. destruct Hk as [vs L]. exists vs. split; [exact L|].
  apply (F1 v vs L). apply Hv. exact Hin.
Qed.

Lemma solve_fuel_lemma : forall ord eord s, solve ord eord s <> OutOfFuel.
Proof.
  intros ord eord s. unfold solve. destruct (complete ord eord s) as [im|]; [|discriminate].
  match goal with |- context [simplify ?a ?b] => destruct (simplify a b) end; [|discriminate].
  cbv zeta. apply solve_loop_fuel. lia.
Qed.

Lemma solve_shape_lemma : forall ord eord s im tbl im' tr,
  complete ord eord s = Some im -> solve ord eord s = Done (tbl, im', tr) ->
  (forall v vs, lookup tbl v = Some vs -> incl vs (nonfalse_values im v)) /\
  (forall k, has_key tbl k = mem_name k (ord (vars s))) /\
  exists im0 site, round ord (vars s) tbl im0 = Some (tbl, im', false, site).
Proof.
  intros ord eord s im tbl im' tr Hc H. rewrite (solve_unfold _ _ _ _ Hc) in H.
  set (T0 := start_table ord (vars s) im) in *.
  destruct (simplify T0 (ground s)) as [g|]; [|discriminate]. cbv zeta in H.
  rewrite apply_pivots_fold in H.
  pose proof (ap_fold_rel (extract_pivots T0 g) T0 false) as [_ [_ [_ [R4 R5]]]].
  apply solve_loop_done in H. destruct H as [H1 [H2 H3]].
  split; [|split; [|exact H3]].
  - intros v vs L. destruct (H1 v vs L) as [ws [L1 I1]]. destruct (R4 v ws L1) as [us [L2 I2]].
    unfold T0, start_table in L2. rewrite lookup_map_keys in L2.
    destruct (mem_name v (ord (vars s))); [|discriminate]. inversion L2. subst us.
    eapply incl_tran; eassumption.
  - intro k. rewrite H2, R5. unfold T0, start_table. apply has_key_map_keys.
Qed.

(* ---------- _complete keeps the registered implications and only adds TRUE ---------- *)
Definition im_ext (im0 im : imap) : Prop :=
  (forall var value imp, alookup (adict im0 var) value = Some imp -> alookup (adict im var) value = Some imp) /\
  (forall var value imp, alookup (adict im var) value = Some imp ->
     alookup (adict im0 var) value = Some imp \/ imp = T).

Lemma im_ext_refl : forall im, im_ext im im.
Proof. intro im. split; auto. Qed.

Lemma im_ext_add : forall im0 im var value,
  im_ext im0 im -> alookup (adict im var) value = None -> im_ext im0 (iset2 im var value T).
Proof.
  intros im0 im var value [A B] N. split.
  - intros v x i L. rewrite adict_iset2. destruct (String.eqb v var && String.eqb x value) eqn:E; [|apply A; exact L].
    apply andb_true_iff in E. destruct E as [E1 E2]. apply String.eqb_eq in E1, E2. subst.
    apply A in L. congruence.
  - intros v x i L. rewrite adict_iset2 in L. destruct (String.eqb v var && String.eqb x value).
    + inversion L. auto.
    + apply B. exact L.
Qed.

Lemma complete_var_ext : forall im0 vv im, im_ext im0 im -> im_ext im0 (complete_var im vv).
Proof.
  intros im0 [var values] im H. unfold complete_var. simpl.
  assert (X : forall vs im1, im_ext im0 im1 ->
            im_ext im0 (fold_left (fun im value => match alookup (adict im var) value with
                                                   | Some _ => im | None => iset2 im var value T end) vs im1)).
  { induction vs as [|x vs IH]; intros im1 H1; simpl; [exact H1|]. apply IH.
    destruct (alookup (adict im1 var) x) eqn:L; [exact H1 | apply im_ext_add; assumption]. }
  specialize (X values im H).
  match goal with |- context [is_nil (adict ?m var)] => set (im1 := m) in * end.
  destruct (adict im1 var) as [|p d] eqn:D; simpl; [|exact X].
  apply im_ext_add; [exact X|]. rewrite D. reflexivity.
Qed.

Lemma complete_ext_lemma : forall ord eord s im, complete ord eord s = Some im -> im_ext (imps s) im.
Proof.
  intros ord eord s im H. unfold complete in H. destruct (first_approximation ord eord s) as [fa|]; [|discriminate].
  inversion H as [Hx]. clear H Hx.
  generalize (map (fun vv : name * nset => (fst vv, ord (snd vv))) fa) as l.
  assert (X : forall l im1, im_ext (imps s) im1 -> im_ext (imps s) (fold_left complete_var l im1)).
  { induction l as [|vv l IH]; intros im1 H1; simpl; [exact H1|]. apply IH. apply complete_var_ext. exact H1. }
  intro l. apply X. apply im_ext_refl.
Qed.

Lemma wf_complete_lemma : forall ord eord s im,
  wf_solver s -> complete ord eord s = Some im -> wf_im (vars s) im.
Proof.
  intros ord eord s im [_ [_ W]] H var value imp L.
  destruct (complete_ext_lemma _ _ _ _ H) as [_ B]. destruct (B _ _ _ L) as [L0|E]; [|subst; reflexivity].
  apply (W var value imp). unfold iter_implications. apply in_flat_map.
  unfold adict in L0. destruct (alookup (imps s) var) as [d|] eqn:Ld; [|discriminate].
  exists (var, d). split; [apply alookup_in; exact Ld|]. simpl. apply in_map_iff.
  exists (value, imp). split; [reflexivity | apply alookup_in; exact L0].
Qed.

(* ---------- boolean checkers used for the witnesses ---------- *)
Definition wf_solverb (s : solver) : bool :=
  forallb is_var (vars s) && covers (vars_tbl (vars s)) (ground s)
  && forallb (fun x => covers (vars_tbl (vars s)) (snd x)) (iter_implications (imps s)).

Lemma wf_solverb_ok : forall s, wf_solverb s = true -> wf_solver s.
Proof.
  intros s H. unfold wf_solverb in H. apply andb_true_iff in H. destruct H as [H H3].
  apply andb_true_iff in H. destruct H as [H1 H2]. rewrite forallb_forall in H1, H3.
  split; [exact H1|]. split; [exact H2|]. intros var value imp Hin. apply (H3 (var, value, imp) Hin).
Qed.

Definition solutionb (sigma : name -> name) (variables : nset) (gr : term) (im : imap) : bool :=
  eval sigma gr &&
  forallb (fun v => match alookup (adict im v) (sigma v) with Some imp => eval sigma imp | None => false end) variables.

Lemma solutionb_ok : forall sigma variables gr im, solutionb sigma variables gr im = true -> solution sigma variables gr im.
Proof.
  intros sigma variables gr im H. unfold solutionb in H. apply andb_true_iff in H. destruct H as [H1 H2].
  split; [exact H1|]. rewrite forallb_forall in H2. intros v Hv. specialize (H2 v Hv).
  destruct (alookup (adict im v) (sigma v)) as [imp|]; [|discriminate]. exists imp. auto.
Qed.

Definition oid (l : nset) : nset := l.
Definition eid (l : list (name * name)) : list (name * name) := l.
Lemma oid_ok : ord_ok oid. Proof. intros l x. reflexivity. Qed.

(* the pivots of a disjunction are unsound for a variable that only some disjuncts mention *)
Definition w_tbl : table := [("~a", ["x"; "z"]); ("~b", ["y"])].
Definition w_sigma (n : name) : name := if String.eqb n "~a" then "z" else "y".
Definition w_term : term := OrC [EqC "~a" "x"; EqC "~b" "y"].

Lemma pivots_refuted_lemma :
  keys_vars w_tbl /\ consistent w_sigma w_tbl /\ covers w_tbl w_term = true /\ eval w_sigma w_term = true /\
  extract_pivots w_tbl w_term = [("~a", ["x"]); ("x", ["~a"]); ("~b", ["y"]); ("y", ["~b"])] /\
  ~ psound w_sigma w_tbl (extract_pivots w_tbl w_term).
Proof.
  split; [|split; [|split; [|split; [|split]]]]; try (vm_compute; reflexivity).
  - intros k H. unfold has_key, w_tbl in H. simpl in H.
    destruct (String.eqb k "~a") eqn:E1; [apply String.eqb_eq in E1; subst; reflexivity|].
    destruct (String.eqb k "~b") eqn:E2; [apply String.eqb_eq in E2; subst; reflexivity|]. discriminate.
  - intros v vs H _. unfold w_tbl in H. simpl in H. unfold w_sigma.
    destruct (String.eqb v "~a") eqn:E1; [inversion H; simpl; auto|].
    destruct (String.eqb v "~b") eqn:E2; [inversion H; simpl; auto | discriminate].
  - intro P. assert (X : In (w_sigma "~a") ["x"]).
    { apply (P "~a" ["x"]); [vm_compute; auto | reflexivity]. }
    vm_compute in X. destruct X as [X|[]]. discriminate.
Qed.

(* ---------- witnesses: soundness fails without [guarded]; completeness fails even with it ---------- *)
Definition u_script : list call := [CReg "~a"; CReg "~b"; CReg "~c";
  CImp (EqC "~a" "x") (EqC "~b" "p"); CImp (EqC "~a" "y") (EqC "~c" "q");
  CImp (EqC "~b" "p") T; CImp (EqC "~b" "r") T; CImp (EqC "~c" "q") T; CImp (EqC "~c" "s") T].
Definition u_solver : solver := match run_script u_script with Some s => s | None => new_solver end.
Definition u_sigma (n : name) : name :=
  if String.eqb n "~a" then "y" else if String.eqb n "~b" then "r" else "q".

Lemma solve_refuted_lemma :
  exists im tbl im' tr,
    run_script u_script = Some u_solver /\ wf_solver u_solver /\
    complete oid eid u_solver = Some im /\ solution u_sigma (vars u_solver) (ground u_solver) im /\
    solve oid eid u_solver = Done (tbl, im', tr) /\
    lookup tbl "~b" = Some ["p"] /\ u_sigma "~b" = "r" /\ trace_guarded tr = false.
Proof.
  eexists. eexists. eexists. eexists.
  split; [vm_compute; reflexivity|].
  split; [apply wf_solverb_ok; vm_compute; reflexivity|].
  split; [vm_compute; reflexivity|].
  split; [apply solutionb_ok; vm_compute; reflexivity|].
  split; [vm_compute; reflexivity|].
  split; [vm_compute; reflexivity|].
  split; vm_compute; reflexivity.
Qed.

Definition i_script : list call := [CReg "~a"; CReg "~b";
  CImp (EqC "~a" "x") (EqC "~b" "x"); CImp (EqC "~a" "y") (EqC "~b" "y");
  CImp (EqC "~b" "x") (EqC "~a" "y"); CImp (EqC "~b" "y") (EqC "~a" "x")].
Definition i_solver : solver := match run_script i_script with Some s => s | None => new_solver end.

Lemma solve_incomplete_lemma :
  exists im tbl im' tr,
    run_script i_script = Some i_solver /\ wf_solver i_solver /\
    complete oid eid i_solver = Some im /\
    solve oid eid i_solver = Done (tbl, im', tr) /\ trace_guarded tr = true /\
    tbl = [("~a", ["x"; "y"]); ("~b", ["x"; "y"])] /\
    forall sigma, ~ solution sigma (vars i_solver) (ground i_solver) im.
Proof.
  eexists. eexists. eexists. eexists.
  split; [vm_compute; reflexivity|].
  split; [apply wf_solverb_ok; vm_compute; reflexivity|].
  split; [vm_compute; reflexivity|].
  split; [vm_compute; reflexivity|].
  split; [vm_compute; reflexivity|].
  split; [reflexivity|].
  intros sigma [_ H].
  destruct (H "~a") as [ia [La Ea]]; [vm_compute; auto|].
  destruct (H "~b") as [ib [Lb Eb]]; [vm_compute; auto|].
  cbn in La, Lb.
  destruct (String.eqb (sigma "~a") "x") eqn:A1.
  - inversion La. subst ia. cbn in Ea. 
    destruct (String.eqb (sigma "~b") "x") eqn:B1.
    + inversion Lb. subst ib. cbn in Eb. apply String.eqb_eq in A1, Eb. rewrite A1 in Eb. discriminate.
    + rewrite Ea in B1. discriminate.
  - destruct (String.eqb (sigma "~a") "y") eqn:A2; [|discriminate].
    inversion La. subst ia. cbn in Ea.
    destruct (String.eqb (sigma "~b") "x") eqn:B1.
    + apply String.eqb_eq in B1, Ea. rewrite B1 in Ea. discriminate.
    + destruct (String.eqb (sigma "~b") "y") eqn:B2; [|discriminate].
      inversion Lb. subst ib. cbn in Eb. apply String.eqb_eq in A2, Eb. rewrite A2 in Eb. discriminate.
Qed.
