(* C17 model: pytype/pytd/booleq.py -- the term classes TRUE/FALSE/_Eq/_And/_Or, simplify_exprs, the
   public constructors Eq/And/Or and the three .simplify(assignments) methods.
   Definitions only (no proofs), so the model still evaluates when a proof breaks.

   Conventions.
   * Names (variable names and value names) are Python [str]; here Coq [string] (bytes of the UTF-8
     encoding).  Python compares [str] by code point, lexicographically, a proper prefix being smaller;
     UTF-8 preserves that order bytewise, and [String.compare] is bytewise lexicographic with the same
     prefix rule, so [String.ltb]/[String.eqb] are Python's [<]/[==] on names.
   * A Python [set] of terms is a list without duplicates under the model of [__eq__] ([teq]); insertion
     appends.  The real iteration order depends on hashes and is not modelled: the correspondence hands
     the model every set in the order the real object iterates it, and compares results as sets.
   * TRUE and FALSE are module-level singletons compared with [is]; here the constructors [T] and [F]. *)
From Coq Require Import List Bool String Ascii Arith.
Import ListNotations.
Open Scope string_scope.

Definition name := string.

Inductive kind := KAnd | KOr.                       (* the two classes _And and _Or *)

Inductive term :=
| T                                                 (* TRUE  *)
| F                                                 (* FALSE *)
| TEq (l r : name)                                  (* _Eq(left, right) *)
| Op (k : kind) (es : list term).                   (* _And(exprs) / _Or(exprs); exprs is a set *)

Definition TAnd := Op KAnd.
Definition TOr := Op KOr.

Definition kind_eqb (a b : kind) : bool :=
  match a, b with KAnd, KAnd => true | KOr, KOr => true | _, _ => false end.

(* __eq__ (and the hash/eq protocol used by set membership):
     TRUE/FALSE: object identity;  _Eq: same class and same left/right;
     _And/_Or: same class and self.exprs == other.exprs (set equality).
   Python's set.__eq__ is "same len and subset"; on sets, which never hold two equal elements, that is
   mutual inclusion, which is what is written here (it is also meaningful on lists with repeats). *)
Fixpoint teq (a b : term) {struct a} : bool :=
  match a, b with
  | T, T => true
  | F, F => true
  | TEq l r, TEq l' r' => String.eqb l l' && String.eqb r r'
  | Op k xs, Op k' ys =>
      kind_eqb k k'
      && forallb (fun x => existsb (fun y => teq x y) ys) xs
      && forallb (fun y => existsb (fun x => teq x y) xs) ys
  | _, _ => false
  end.

(* e in s  (the stored element is the receiver of __eq__) *)
Definition set_mem (e : term) (s : list term) : bool := existsb (fun a => teq a e) s.
(* s.add(e) *)
Definition set_add (s : list term) (e : term) : list term := if set_mem e s then s else s ++ [e].
(* s.union(es) *)
Definition set_union (s es : list term) : list term := fold_left set_add es s.

(* `e is stop_term` / `e is skip_term`: identity against one of the two singletons.  simplify_exprs is only
   ever called with TRUE/FALSE in these positions. *)
Definition is_ident (e c : term) : bool :=
  match e, c with T, T => true | F, F => true | _, _ => false end.

(* isinstance(e, result_type) *)
Definition is_op (k : kind) (e : term) : bool :=
  match e with Op k' _ => kind_eqb k' k | _ => false end.

(* The for loop of simplify_exprs.  None = `return stop_term` was executed inside the loop. *)
Fixpoint se_loop (k : kind) (stop skip : term) (acc : list term) (xs : list term) : option (list term) :=
  match xs with
  | [] => Some acc
  | e :: rest =>
      if is_ident e stop then None
      else if is_ident e skip then se_loop k stop skip acc rest
      else match e with
           | Op k' ys => if kind_eqb k' k then se_loop k stop skip (set_union acc ys) rest
                         else se_loop k stop skip (set_add acc e) rest
           | _ => se_loop k stop skip (set_add acc e) rest
           end
  end.

(* the tail of simplify_exprs: len > 1 -> result_type(expr_set); one element -> pop(); else skip_term *)
Definition se_finish (k : kind) (skip : term) (acc : list term) : term :=
  match acc with
  | [] => skip
  | [e] => e
  | _ => Op k acc
  end.

(* def simplify_exprs(exprs, result_type, stop_term, skip_term) *)
Definition simplify_exprs (k : kind) (stop skip : term) (exprs : list term) : term :=
  match se_loop k stop skip [] exprs with
  | None => stop
  | Some acc => se_finish k skip acc
  end.

Definition stop_of (k : kind) : term := match k with KAnd => F | KOr => T end.
Definition skip_of (k : kind) : term := match k with KAnd => T | KOr => F end.

(* def And(exprs): return simplify_exprs(exprs, _And, FALSE, TRUE)
   def Or(exprs):  return simplify_exprs(exprs, _Or, TRUE, FALSE) *)
Definition OpC (k : kind) (exprs : list term) : term := simplify_exprs k (stop_of k) (skip_of k) exprs.
Definition AndC := OpC KAnd.
Definition OrC := OpC KOr.

(* def Eq(left, right): TRUE if equal; _Eq(left, right) if left > right; else _Eq(right, left) *)
Definition EqC (l r : name) : term :=
  if String.eqb l r then T
  else if String.ltb r l then TEq l r
  else TEq r l.

(* assignments: dict str -> set of str; an association list, first binding wins *)
Definition table := list (name * list name).

Fixpoint lookup (tbl : table) (k : name) : option (list name) :=
  match tbl with
  | [] => None
  | (k', v) :: rest => if String.eqb k k' then Some v else lookup rest k
  end.

Definition has_key (tbl : table) (k : name) : bool :=
  match lookup tbl k with Some _ => true | None => false end.

Definition mem_name (x : name) (vs : list name) : bool := existsb (String.eqb x) vs.

(* _And.simplify/_Or.simplify hand simplify_exprs a *generator* (e.simplify(assignments) for e in
   self.exprs).  The loop stops pulling from it when it returns stop_term, so a KeyError raised by a later
   child is never seen.  gen_take is the prefix of the generator that is consumed: up to and including the
   first stop_term; None = an exception (KeyError) escaped before that. *)
Fixpoint gen_take (stop : term) (rs : list (option term)) : option (list term) :=
  match rs with
  | [] => Some []
  | None :: _ => None
  | Some e :: rest =>
      if is_ident e stop then Some [e]
      else match gen_take stop rest with
           | None => None
           | Some l => Some (e :: l)
           end
  end.

(* .simplify(assignments);  None = KeyError from assignments[self.left] *)
Fixpoint simplify (tbl : table) (t : term) : option term :=
  match t with
  | T => Some T
  | F => Some F
  | TEq l r =>
      if has_key tbl r then Some t                          (* if self.right in assignments: return self *)
      else match lookup tbl l with
           | None => None                                    (* assignments[self.left] raises KeyError *)
           | Some vs => Some (if mem_name r vs then t else F)
           end
  | Op k es =>
      match gen_take (stop_of k) (map (simplify tbl) es) with
      | None => None
      | Some pre => Some (simplify_exprs k (stop_of k) (skip_of k) pre)
      end
  end.

(* ---------------- semantics ---------------- *)

(* Variables are the names that start with "~" (booleq.py: "strings starting with "~" (ascii 0x7e) should
   be on the left", "variables start with "~" (ASCII value 126)"); every other name is a value and
   denotes itself. *)
Definition is_var (n : name) : bool :=
  match n with
  | String c _ => Ascii.eqb c "~"%char
  | EmptyString => false
  end.

Definition val (sigma : name -> name) (n : name) : name := if is_var n then sigma n else n.

Fixpoint eval (sigma : name -> name) (t : term) : bool :=
  match t with
  | T => true
  | F => false
  | TEq l r => String.eqb (val sigma l) (val sigma r)
  | Op KAnd es => forallb (eval sigma) es
  | Op KOr es => existsb (eval sigma) es
  end.

(* the plain connective of a kind, over a list of truth values *)
Definition evl (k : kind) (sigma : name -> name) (es : list term) : bool :=
  match k with KAnd => forallb (eval sigma) es | KOr => existsb (eval sigma) es end.

(* ---------------- predicates used by the theorems ---------------- *)

Definition is_const (t : term) : bool := match t with T | F => true | _ => false end.

(* no two elements equal under __eq__ *)
Fixpoint dupfree (l : list term) : bool :=
  match l with
  | [] => true
  | x :: r => negb (existsb (fun y => teq x y) r) && dupfree r
  end.

(* what an immediate child of a normal _And/_Or of kind k looks like *)
Definition child_ok (k : kind) (e : term) : bool := negb (is_const e) && negb (is_op k e).

(* normal form, hereditarily: every _And/_Or node has >= 2 children, pairwise different, none of them
   TRUE, FALSE or a node of the same class *)
Fixpoint normal (t : term) : bool :=
  match t with
  | Op k es => Nat.leb 2 (List.length es) && dupfree es && forallb (fun e => child_ok k e && normal e) es
  | _ => true
  end.

(* the _Eq class invariant established by Eq(): right < left as strings *)
Fixpoint oriented (t : term) : bool :=
  match t with
  | TEq l r => String.ltb r l
  | Op _ es => forallb oriented es
  | _ => true
  end.

(* every variable mentioned by the term is a key of the table *)
Fixpoint covers (tbl : table) (t : term) : bool :=
  match t with
  | TEq l r => (negb (is_var l) || has_key tbl l) && (negb (is_var r) || has_key tbl r)
  | Op _ es => forallb (covers tbl) es
  | _ => true
  end.

(* every equality has a side that is a key: exactly the inputs on which no KeyError is possible,
   whatever the iteration order *)
Fixpoint keyed (tbl : table) (t : term) : bool :=
  match t with
  | TEq l r => has_key tbl r || has_key tbl l
  | Op _ es => forallb (keyed tbl) es
  | _ => true
  end.

(* sigma is drawn from the table: every variable that is a key takes one of its still-possible values *)
Definition consistent (sigma : name -> name) (tbl : table) : Prop :=
  forall v vs, lookup tbl v = Some vs -> is_var v = true -> In (sigma v) vs.

(* where an element of the set built by simplify_exprs comes from: an input that is not
   TRUE/FALSE/same class, or an immediate child of a same-class input (one level of flattening, no more) *)
Definition origin (k : kind) (es : list term) (x : term) : Prop :=
  (In x es /\ child_ok k x = true) \/ (exists ys, In (Op k ys) es /\ In x ys).

(* every equality that is still offered names a still-possible value of its variable (or another key) *)
Fixpoint pruned (tbl : table) (t : term) : bool :=
  match t with
  | TEq l r => has_key tbl r
               || match lookup tbl l with Some vs => mem_name r vs | None => false end
  | Op _ es => forallb (pruned tbl) es
  | _ => true
  end.

(* every equality mentions at least one variable *)
Fixpoint mentions_var (t : term) : bool :=
  match t with
  | TEq l r => is_var l || is_var r
  | Op _ es => forallb mentions_var es
  | _ => true
  end.

(* terms obtainable from the public API only *)
Inductive built : term -> Prop :=
| built_T : built T
| built_F : built F
| built_Eq : forall l r, built (EqC l r)
| built_Op : forall k es, Forall built es -> built (OpC k es).

(* ---------------- support for the correspondence check ---------------- *)

(* strict "same term up to the order of set elements": same shape, same number of children, mutual
   inclusion; used by the harness to compare the model's result with the real one *)
Fixpoint tsame (a b : term) {struct a} : bool :=
  match a, b with
  | T, T => true
  | F, F => true
  | TEq l r, TEq l' r' => String.eqb l l' && String.eqb r r'
  | Op k xs, Op k' ys =>
      kind_eqb k k' && Nat.eqb (List.length xs) (List.length ys)
      && forallb (fun x => existsb (fun y => tsame x y) ys) xs
      && forallb (fun y => existsb (fun x => tsame x y) xs) ys
  | _, _ => false
  end.

Fixpoint all_dupfree (t : term) : bool :=
  match t with
  | Op _ es => dupfree es && forallb all_dupfree es
  | _ => true
  end.

Definition res_same (m e : option term) : bool :=
  match m, e with
  | None, None => true
  | Some a, Some b => tsame a b && all_dupfree a
  | _, _ => false
  end.
