(* C17 lemmas over the model Booleq/Model.v. *)
From Coq Require Import List Bool String Ascii Arith Lia.
From PV Require Import Booleq.Model.
Import ListNotations.
Open Scope string_scope.

(* ---------- induction principle for the nested type ---------- *)
Section TermInd.
  Variable P : term -> Prop.
  Hypothesis hT : P T.
  Hypothesis hF : P F.
  Hypothesis hEq : forall l r, P (TEq l r).
  Hypothesis hOp : forall k es, Forall P es -> P (Op k es).
  Fixpoint term_ind' (t : term) : P t :=
    match t with
    | T => hT
    | F => hF
    | TEq l r => hEq l r
    | Op k es =>
        hOp k es ((fix go (l : list term) : Forall P l :=
                     match l with
                     | [] => Forall_nil P
                     | x :: r => Forall_cons x (term_ind' x) (go r)
                     end) es)
    end.
End TermInd.

(* ---------- small facts ---------- *)
Lemma kind_eqb_eq : forall a b, kind_eqb a b = true <-> a = b.
Proof. destruct a, b; simpl; split; congruence. Qed.

Lemma kind_eqb_refl : forall a, kind_eqb a a = true.
Proof. destruct a; reflexivity. Qed.

Lemma ltb_irrefl : forall s, String.ltb s s = false.
Proof.
  intro s. unfold String.ltb.
  pose proof (String.compare_antisym s s) as A.
  destruct (String.compare s s); simpl in A; try discriminate; reflexivity.
Qed.

Lemma ltb_neq : forall a b, String.ltb a b = true -> a <> b.
Proof. intros a b H E. subst. rewrite ltb_irrefl in H. discriminate. Qed.

Lemma ltb_total : forall a b, a <> b -> String.ltb a b = false -> String.ltb b a = true.
Proof.
  intros a b Hne H. unfold String.ltb in *.
  rewrite (String.compare_antisym b a).
  destruct (String.compare a b) eqn:E; simpl; try reflexivity; try discriminate.
  apply String.compare_eq_iff in E. contradiction.
Qed.

Lemma ltb_asym : forall a b, String.ltb a b = true -> String.ltb b a = false.
Proof.
  intros a b H. unfold String.ltb in *.
  rewrite (String.compare_antisym b a).
  destruct (String.compare a b); simpl; try reflexivity; discriminate.
Qed.

Lemma forallb_iff_eq : forall (A B : Type) (f : A -> bool) (g : B -> bool) xs ys,
  (forallb f xs = true <-> forallb g ys = true) -> forallb f xs = forallb g ys.
Proof.
  intros. destruct (forallb f xs), (forallb g ys); try reflexivity; destruct H as [H1 H2].
  - symmetry. apply H1. reflexivity.
  - apply H2. reflexivity.
Qed.

Lemma existsb_iff_eq : forall (A B : Type) (f : A -> bool) (g : B -> bool) xs ys,
  (existsb f xs = true <-> existsb g ys = true) -> existsb f xs = existsb g ys.
Proof.
  intros. destruct (existsb f xs), (existsb g ys); try reflexivity; destruct H as [H1 H2].
  - symmetry. apply H1. reflexivity.
  - apply H2. reflexivity.
Qed.

(* ---------- __eq__ is sound for the semantics ---------- *)
Lemma teq_sound : forall sigma a b, teq a b = true -> eval sigma a = eval sigma b.
Proof.
  intros sigma a. induction a as [| |l r|k xs IH] using term_ind'; intros b H; destruct b; simpl in H;
    try discriminate; try reflexivity.
  - apply andb_true_iff in H. destruct H as [H1 H2].
    apply String.eqb_eq in H1. apply String.eqb_eq in H2. subst. reflexivity.
  - rename es into ys.
    apply andb_true_iff in H. destruct H as [H H2].
    apply andb_true_iff in H. destruct H as [Hk H1].
    apply kind_eqb_eq in Hk. subst k0.
    rewrite forallb_forall in H1, H2. rewrite Forall_forall in IH.
    assert (F1 : forall x, In x xs -> exists y, In y ys /\ eval sigma x = eval sigma y).
    { intros x Hx. specialize (H1 x Hx). apply existsb_exists in H1. destruct H1 as [y [Hy E]].
      exists y. split; [exact Hy|]. apply IH; assumption. }
    assert (F2 : forall y, In y ys -> exists x, In x xs /\ eval sigma x = eval sigma y).
    { intros y Hy. specialize (H2 y Hy). apply existsb_exists in H2. destruct H2 as [x [Hx E]].
      exists x. split; [exact Hx|]. apply IH; assumption. }
    destruct k; simpl.
    + apply forallb_iff_eq. rewrite !forallb_forall. split; intros G z Hz.
      * destruct (F2 z Hz) as [x [Hx E]]. rewrite <- E. apply G. exact Hx.
      * destruct (F1 z Hz) as [y [Hy E]]. rewrite E. apply G. exact Hy.
    + apply existsb_iff_eq. rewrite !existsb_exists. split; intros [z [Hz E]].
      * destruct (F1 z Hz) as [y [Hy E']]. exists y. split; [exact Hy|]. rewrite <- E'. exact E.
      * destruct (F2 z Hz) as [x [Hx E']]. exists x. split; [exact Hx|]. rewrite E'. exact E.
Qed.

Lemma teq_refl : forall a, teq a a = true.
Proof.
  induction a as [| |l r|k xs IH] using term_ind'; simpl; try reflexivity.
  - rewrite !String.eqb_refl. reflexivity.
  - rewrite kind_eqb_refl. simpl. rewrite Forall_forall in IH.
    apply andb_true_iff. split; apply forallb_forall; intros x Hx; apply existsb_exists; exists x;
      (split; [exact Hx | apply IH; exact Hx]).
Qed.

(* ---------- the set operations, semantically ---------- *)
Definition comb (k : kind) (a b : bool) : bool := match k with KAnd => a && b | KOr => a || b end.

Lemma evl_nil : forall k sigma, evl k sigma [] = eval sigma (skip_of k).
Proof. destruct k; reflexivity. Qed.

Lemma evl_cons : forall k sigma e es, evl k sigma (e :: es) = comb k (eval sigma e) (evl k sigma es).
Proof. destruct k; reflexivity. Qed.

Lemma evl_app : forall k sigma xs ys, evl k sigma (xs ++ ys) = comb k (evl k sigma xs) (evl k sigma ys).
Proof. destruct k; simpl; intros; [apply forallb_app | apply existsb_app]. Qed.

Lemma eval_Op : forall k sigma es, eval sigma (Op k es) = evl k sigma es.
Proof. destruct k; reflexivity. Qed.

Lemma comb_assoc : forall k a b c, comb k (comb k a b) c = comb k a (comb k b c).
Proof. destruct k, a, b, c; reflexivity. Qed.

Lemma comb_skip_r : forall k sigma a, comb k a (eval sigma (skip_of k)) = a.
Proof. destruct k, a; reflexivity. Qed.

Lemma comb_skip_l : forall k sigma a, comb k (eval sigma (skip_of k)) a = a.
Proof. destruct k, a; reflexivity. Qed.

Lemma comb_stop_l : forall k sigma a, comb k (eval sigma (stop_of k)) a = eval sigma (stop_of k).
Proof. destruct k, a; reflexivity. Qed.

Lemma comb_stop_r : forall k sigma a, comb k a (eval sigma (stop_of k)) = eval sigma (stop_of k).
Proof. destruct k, a; reflexivity. Qed.

Lemma evl_mem_absorb : forall k sigma s a b,
  In a s -> eval sigma a = b -> comb k (evl k sigma s) b = evl k sigma s.
Proof.
  intros k sigma s a b Hin E. subst b. induction s as [|x s IH]; [destruct Hin|].
  rewrite evl_cons. destruct Hin as [->|Hin].
  - destruct k, (eval sigma a), (evl KAnd sigma s), (evl KOr sigma s); reflexivity.
  - rewrite comb_assoc, IH by assumption. reflexivity.
Qed.

Lemma set_add_evl : forall k sigma s e,
  evl k sigma (set_add s e) = comb k (evl k sigma s) (eval sigma e).
Proof.
  intros. unfold set_add, set_mem. destruct (existsb (fun a => teq a e) s) eqn:M.
  - apply existsb_exists in M. destruct M as [a [Ha E]].
    symmetry. eapply evl_mem_absorb; [exact Ha|]. apply teq_sound. exact E.
  - rewrite evl_app. rewrite evl_cons, evl_nil, comb_skip_r. reflexivity.
Qed.

Lemma set_union_evl : forall k sigma es s,
  evl k sigma (set_union s es) = comb k (evl k sigma s) (evl k sigma es).
Proof.
  intros k sigma es. unfold set_union. induction es as [|e es IH]; intro s; simpl fold_left.
  - rewrite evl_nil, comb_skip_r. reflexivity.
  - rewrite IH, set_add_evl, evl_cons, comb_assoc. reflexivity.
Qed.

Lemma se_finish_evl : forall k sigma acc, eval sigma (se_finish k (skip_of k) acc) = evl k sigma acc.
Proof.
  intros. destruct acc as [|a [|b acc]]; simpl se_finish.
  - symmetry. apply evl_nil.
  - rewrite evl_cons, evl_nil, comb_skip_r. reflexivity.
  - apply eval_Op.
Qed.

Lemma is_ident_stop : forall k e, is_ident e (stop_of k) = true -> e = stop_of k.
Proof. destruct k, e; simpl; intro; try discriminate; reflexivity. Qed.

Lemma is_ident_skip : forall k e, is_ident e (skip_of k) = true -> e = skip_of k.
Proof. destruct k, e; simpl; intro; try discriminate; reflexivity. Qed.

Lemma se_loop_evl : forall k sigma xs acc,
  eval sigma (match se_loop k (stop_of k) (skip_of k) acc xs with
              | None => stop_of k
              | Some acc' => se_finish k (skip_of k) acc'
              end)
  = comb k (evl k sigma acc) (evl k sigma xs).
Proof.
  intros k sigma xs. induction xs as [|e xs IH]; intro acc; simpl se_loop.
  - cbv beta iota. rewrite se_finish_evl, evl_nil, comb_skip_r. reflexivity.
  - rewrite evl_cons.
    destruct (is_ident e (stop_of k)) eqn:Es.
    { apply is_ident_stop in Es. subst e. rewrite comb_stop_l, comb_stop_r. reflexivity. }
    destruct (is_ident e (skip_of k)) eqn:Ek.
    { apply is_ident_skip in Ek. subst e. rewrite comb_skip_l. apply IH. }
    assert (Hadd : eval sigma (match se_loop k (stop_of k) (skip_of k) (set_add acc e) xs with
                               | None => stop_of k
                               | Some acc' => se_finish k (skip_of k) acc' end)
                   = comb k (evl k sigma acc) (comb k (eval sigma e) (evl k sigma xs))).
    { rewrite IH, set_add_evl, comb_assoc. reflexivity. }
    destruct e as [| |l r|k' ys]; try exact Hadd.
    destruct (kind_eqb k' k) eqn:Kk; [|exact Hadd].
    apply kind_eqb_eq in Kk. subst k'.
    rewrite IH, set_union_evl, eval_Op, comb_assoc. reflexivity.
Qed.

(* And(es)/Or(es) mean the plain connective over es *)
Lemma opc_equiv_lemma : forall k sigma es, eval sigma (OpC k es) = evl k sigma es.
Proof.
  intros. unfold OpC, simplify_exprs.
  rewrite (se_loop_evl k sigma es []). rewrite evl_nil, comb_skip_l. reflexivity.
Qed.

Lemma and_equiv_lemma : forall sigma es, eval sigma (AndC es) = forallb (eval sigma) es.
Proof. intros. exact (opc_equiv_lemma KAnd sigma es). Qed.

Lemma or_equiv_lemma : forall sigma es, eval sigma (OrC es) = existsb (eval sigma) es.
Proof. intros. exact (opc_equiv_lemma KOr sigma es). Qed.

Lemma eq_equiv_lemma : forall sigma l r, eval sigma (EqC l r) = String.eqb (val sigma l) (val sigma r).
Proof.
  intros. unfold EqC. destruct (String.eqb l r) eqn:E.
  - apply String.eqb_eq in E. subst. simpl. symmetry. apply String.eqb_refl.
  - destruct (String.ltb r l); simpl; [reflexivity | apply String.eqb_sym].
Qed.

(* Eq(l, r) is TRUE or an _Eq over the same two names with right < left *)
Lemma eq_shape_lemma : forall l r,
  (l = r /\ EqC l r = T) \/
  (l <> r /\ exists a b, EqC l r = TEq a b /\ String.ltb b a = true /\
                         ((a = l /\ b = r) \/ (a = r /\ b = l))).
Proof.
  intros. unfold EqC. destruct (String.eqb l r) eqn:E.
  - left. apply String.eqb_eq in E. auto.
  - right. apply String.eqb_neq in E. split; [exact E|].
    destruct (String.ltb r l) eqn:L.
    + exists l, r. auto.
    + exists r, l. split; [reflexivity|]. split; [|auto].
      apply ltb_total; [congruence | exact L].
Qed.

(* ---------- absorption of TRUE/FALSE ---------- *)
Lemma se_loop_stop : forall k xs acc, In (stop_of k) xs -> se_loop k (stop_of k) (skip_of k) acc xs = None.
Proof.
  intros k xs. induction xs as [|e xs IH]; intros acc Hin; [destruct Hin|].
  simpl se_loop. destruct (is_ident e (stop_of k)) eqn:Es; [reflexivity|].
  assert (Hin' : In (stop_of k) xs).
  { destruct Hin as [->|H]; [|exact H]. destruct k; discriminate. }
  destruct (is_ident e (skip_of k)); [apply IH; exact Hin'|].
  destruct e as [| |l r|k' ys]; try (apply IH; exact Hin').
  destruct (kind_eqb k' k); apply IH; exact Hin'.
Qed.

Lemma opc_stop_lemma : forall k es, In (stop_of k) es -> OpC k es = stop_of k.
Proof. intros. unfold OpC, simplify_exprs. rewrite se_loop_stop by assumption. reflexivity. Qed.

Lemma se_loop_skip : forall k xs acc,
  se_loop k (stop_of k) (skip_of k) acc xs
  = se_loop k (stop_of k) (skip_of k) acc (filter (fun e => negb (is_ident e (skip_of k))) xs).
Proof.
  intros k xs. induction xs as [|e xs IH]; intro acc; [reflexivity|].
  simpl filter. destruct (is_ident e (skip_of k)) eqn:Ek; simpl negb; cbv iota.
  - simpl se_loop. rewrite Ek.
    destruct (is_ident e (stop_of k)) eqn:Es.
    + apply is_ident_skip in Ek. subst e. destruct k; discriminate.
    + apply IH.
  - simpl se_loop. rewrite Ek.
    destruct (is_ident e (stop_of k)); [reflexivity|].
    destruct e as [| |l r|k' ys]; try apply IH.
    destruct (kind_eqb k' k); apply IH.
Qed.

Lemma opc_skip_lemma : forall k es,
  OpC k es = OpC k (filter (fun e => negb (is_ident e (skip_of k))) es).
Proof. intros. unfold OpC, simplify_exprs. rewrite <- se_loop_skip. reflexivity. Qed.

(* ---------- what every element of the accumulated set is ---------- *)
Lemma dupfree_snoc : forall s e,
  dupfree (s ++ [e]) = dupfree s && negb (existsb (fun a => teq a e) s).
Proof.
  induction s as [|x s IH]; intro e; simpl.
  - reflexivity.
  - rewrite existsb_app, IH. simpl. rewrite orb_false_r.
    destruct (existsb (fun y => teq x y) s), (teq x e), (dupfree s), (existsb (fun a => teq a e) s);
      reflexivity.
Qed.

Lemma set_add_dupfree : forall s e, dupfree s = true -> dupfree (set_add s e) = true.
Proof.
  intros. unfold set_add, set_mem. destruct (existsb (fun a => teq a e) s) eqn:M; [assumption|].
  rewrite dupfree_snoc, M, H. reflexivity.
Qed.

Lemma set_union_dupfree : forall es s, dupfree s = true -> dupfree (set_union s es) = true.
Proof.
  unfold set_union. induction es as [|e es IH]; intros s H; simpl; [assumption|].
  apply IH. apply set_add_dupfree. assumption.
Qed.

Lemma set_add_in : forall s e x, In x (set_add s e) -> In x s \/ x = e.
Proof.
  intros s e x. unfold set_add. destruct (set_mem e s); [auto|].
  intro H. apply in_app_or in H. destruct H as [H|[H|[]]]; auto.
Qed.

Lemma set_union_in : forall es s x, In x (set_union s es) -> In x s \/ In x es.
Proof.
  unfold set_union. induction es as [|e es IH]; intros s x H; simpl in *; [auto|].
  apply IH in H. destruct H as [H|H]; [|auto].
  apply set_add_in in H. destruct H as [H|H]; auto.
Qed.

Lemma set_add_length : forall s e, List.length s <= List.length (set_add s e).
Proof.
  intros. unfold set_add. destruct (set_mem e s); [lia|]. rewrite app_length. lia.
Qed.

Lemma child_ok_not_ident : forall k e,
  is_ident e (stop_of k) = false -> is_ident e (skip_of k) = false -> is_op k e = false ->
  child_ok k e = true.
Proof.
  intros k e H1 H2 H3. unfold child_ok. rewrite H3.
  destruct k, e; simpl in *; try discriminate; reflexivity.
Qed.

Lemma se_loop_inv : forall k all xs acc acc',
  (forall x, In x xs -> In x all) ->
  dupfree acc = true -> (forall x, In x acc -> origin k all x) ->
  se_loop k (stop_of k) (skip_of k) acc xs = Some acc' ->
  dupfree acc' = true /\ (forall x, In x acc' -> origin k all x).
Proof.
  intros k all xs. induction xs as [|e xs IH]; intros acc acc' Hsub Hd Ho H; simpl se_loop in H.
  - inversion H. subst. auto.
  - assert (Hsub' : forall x, In x xs -> In x all) by (intros; apply Hsub; right; assumption).
    assert (He : In e all) by (apply Hsub; left; reflexivity).
    destruct (is_ident e (stop_of k)) eqn:Es; [discriminate|].
    destruct (is_ident e (skip_of k)) eqn:Ek; [eapply IH; eassumption|].
    assert (Hadd : is_op k e = false ->
                   se_loop k (stop_of k) (skip_of k) (set_add acc e) xs = Some acc' ->
                   dupfree acc' = true /\ (forall x, In x acc' -> origin k all x)).
    { intros Hop H'. eapply IH; [exact Hsub' | apply set_add_dupfree; exact Hd | | exact H'].
      intros x Hx. apply set_add_in in Hx. destruct Hx as [Hx| ->]; [apply Ho; exact Hx|].
      left. split; [exact He|]. apply child_ok_not_ident; assumption. }
    destruct e as [| |l r|k' ys]; try (apply Hadd; [reflexivity | exact H]).
    destruct (kind_eqb k' k) eqn:Kk.
    + apply kind_eqb_eq in Kk. subst k'.
      eapply IH; [exact Hsub' | apply set_union_dupfree; exact Hd | | exact H].
      intros x Hx. apply set_union_in in Hx. destruct Hx as [Hx|Hx]; [apply Ho; exact Hx|].
      right. exists ys. auto.
    + apply Hadd; [simpl; exact Kk | exact H].
Qed.

(* The exact guarantee of simplify_exprs on arbitrary input lists: the result is stop, skip, one element,
   or an Op k node with >= 2 pairwise different children, each of which is an input that is not
   TRUE/FALSE/same-class or an immediate child of a same-class input. *)
Lemma opc_shape_lemma : forall k es,
  match OpC k es with
  | Op k' xs => (k' = k /\ 2 <= List.length xs /\ dupfree xs = true /\ forall x, In x xs -> origin k es x)
                \/ origin k es (Op k' xs)
  | T | F => True
  | TEq l r => origin k es (TEq l r)
  end.
Proof.
  intros. unfold OpC, simplify_exprs.
  destruct (se_loop k (stop_of k) (skip_of k) [] es) as [acc|] eqn:H.
  - destruct (se_loop_inv k es es [] acc (fun x h => h) eq_refl (fun x h => match h with end) H)
      as [Hd Ho].
    destruct acc as [|a [|b acc]]; simpl se_finish.
    + destruct k; exact I.
    + assert (Ha : origin k es a) by (apply Ho; left; reflexivity).
      destruct a; auto.
    + left. repeat split; auto. simpl. lia.
  - destruct k; exact I.
Qed.

(* ---------- normal form ---------- *)
Definition nchild (k : kind) (e : term) : bool := child_ok k e && normal e.

Lemma set_add_forallb : forall (P : term -> bool) s e,
  forallb P s = true -> P e = true -> forallb P (set_add s e) = true.
Proof.
  intros. unfold set_add. destruct (set_mem e s); [assumption|].
  rewrite forallb_app, H. simpl. rewrite H0. reflexivity.
Qed.

Lemma set_union_forallb : forall (P : term -> bool) es s,
  forallb P s = true -> forallb P es = true -> forallb P (set_union s es) = true.
Proof.
  unfold set_union. intros P es. induction es as [|e es IH]; intros s Hs He; simpl in *; [assumption|].
  apply andb_true_iff in He. destruct He as [He Hes].
  apply IH; [apply set_add_forallb; assumption | assumption].
Qed.

Lemma se_loop_normal : forall k xs acc acc',
  forallb normal xs = true ->
  dupfree acc = true -> forallb (nchild k) acc = true ->
  se_loop k (stop_of k) (skip_of k) acc xs = Some acc' ->
  dupfree acc' = true /\ forallb (nchild k) acc' = true.
Proof.
  intros k xs. induction xs as [|e xs IH]; intros acc acc' Hn Hd Hc H; simpl se_loop in H.
  - inversion H. subst. auto.
  - simpl in Hn. apply andb_true_iff in Hn. destruct Hn as [Hne Hn].
    destruct (is_ident e (stop_of k)) eqn:Es; [discriminate|].
    destruct (is_ident e (skip_of k)) eqn:Ek; [eapply IH; eassumption|].
    assert (Hadd : is_op k e = false ->
                   se_loop k (stop_of k) (skip_of k) (set_add acc e) xs = Some acc' ->
                   dupfree acc' = true /\ forallb (nchild k) acc' = true).
    { intros Hop H'. eapply IH; [exact Hn | apply set_add_dupfree; exact Hd | | exact H'].
      apply set_add_forallb; [exact Hc|]. unfold nchild. rewrite Hne.
      rewrite child_ok_not_ident by assumption. reflexivity. }
    destruct e as [| |l r|k' ys]; try (apply Hadd; [reflexivity | exact H]).
    destruct (kind_eqb k' k) eqn:Kk.
    + apply kind_eqb_eq in Kk. subst k'.
      eapply IH; [exact Hn | apply set_union_dupfree; exact Hd | | exact H].
      apply set_union_forallb; [exact Hc|].
      simpl in Hne. apply andb_true_iff in Hne. destruct Hne as [_ Hne]. exact Hne.
    + apply Hadd; [simpl; exact Kk | exact H].
Qed.

Lemma opc_normal_lemma : forall k es, forallb normal es = true -> normal (OpC k es) = true.
Proof.
  intros k es Hn. unfold OpC, simplify_exprs.
  destruct (se_loop k (stop_of k) (skip_of k) [] es) as [acc|] eqn:H.
  - destruct (se_loop_normal k es [] acc Hn eq_refl eq_refl H) as [Hd Hc].
    destruct acc as [|a [|b acc]]; simpl se_finish.
    + destruct k; reflexivity.
    + simpl in Hc. unfold nchild in Hc. rewrite andb_true_r in Hc.
      apply andb_true_iff in Hc. apply Hc.
    + assert (L : Nat.leb 2 (List.length (a :: b :: acc)) = true) by reflexivity.
      remember (a :: b :: acc) as l.
      change (normal (Op k l))
        with (Nat.leb 2 (List.length l) && dupfree l && forallb (fun e => child_ok k e && normal e) l).
      rewrite L, Hd. exact Hc.
  - destruct k; reflexivity.
Qed.

(* ---------- orientation ---------- *)
Lemma eqc_oriented : forall l r, oriented (EqC l r) = true.
Proof.
  intros. destruct (eq_shape_lemma l r) as [[_ ->]|[_ [a [b [-> [L _]]]]]]; [reflexivity | exact L].
Qed.

Lemma eqc_normal : forall l r, normal (EqC l r) = true.
Proof. intros. unfold EqC. destruct (String.eqb l r); [reflexivity|]. destruct (String.ltb r l); reflexivity. Qed.

Lemma opc_oriented_lemma : forall k es, forallb oriented es = true -> oriented (OpC k es) = true.
Proof.
  intros k es H. rewrite forallb_forall in H.
  assert (O : forall x, origin k es x -> oriented x = true).
  { intros x [[Hx _]|[ys [Hy Hx]]]; [apply H; exact Hx|].
    specialize (H _ Hy). simpl in H. rewrite forallb_forall in H. apply H. exact Hx. }
  pose proof (opc_shape_lemma k es) as S.
  destruct (OpC k es) as [| |l r|k' xs]; try reflexivity.
  - apply O. exact S.
  - destruct S as [[_ [_ [_ S]]]|S]; [|apply O; exact S].
    simpl. apply forallb_forall. intros x Hx. apply O. apply S. exact Hx.
Qed.

Lemma built_wf_lemma : forall t, built t -> normal t = true /\ oriented t = true.
Proof.
  fix IH 2. intros t B. destruct B as [| |l r|k es HB].
  - auto.
  - auto.
  - split; [apply eqc_normal | apply eqc_oriented].
  - assert (HH : forallb normal es = true /\ forallb oriented es = true).
    { induction HB as [|x xs Hx Hxs IHxs]; [auto|].
      destruct (IH x Hx) as [A B]. destruct IHxs as [C D]. simpl. rewrite A, B, C, D. auto. }
    destruct HH as [A B]. split; [apply opc_normal_lemma | apply opc_oriented_lemma]; assumption.
Qed.

(* ---------- simplify ---------- *)
Lemma has_key_lookup : forall tbl k, has_key tbl k = true -> exists vs, lookup tbl k = Some vs.
Proof. intros tbl k. unfold has_key. destruct (lookup tbl k); [eauto | discriminate]. Qed.

Lemma mem_name_in : forall x vs, mem_name x vs = false -> ~ In x vs.
Proof.
  intros x vs H Hin. unfold mem_name in H.
  assert (existsb (String.eqb x) vs = true).
  { apply existsb_exists. exists x. split; [exact Hin | apply String.eqb_refl]. }
  congruence.
Qed.

Lemma gen_take_evl : forall k sigma (f : term -> option term) es pre,
  (forall x, In x es -> forall r, f x = Some r -> eval sigma r = eval sigma x) ->
  gen_take (stop_of k) (map f es) = Some pre ->
  evl k sigma pre = evl k sigma es.
Proof.
  intros k sigma f es. induction es as [|a es IH]; intros pre Hf H; simpl in H.
  - inversion H. reflexivity.
  - destruct (f a) as [e|] eqn:Fa; [|discriminate].
    assert (Ea : eval sigma e = eval sigma a) by (apply Hf; [left; reflexivity | exact Fa]).
    destruct (is_ident e (stop_of k)) eqn:Es.
    + inversion H. subst pre. apply is_ident_stop in Es. subst e.
      rewrite !evl_cons, evl_nil, comb_skip_r, <- Ea, comb_stop_l. reflexivity.
    + destruct (gen_take (stop_of k) (map f es)) as [l|] eqn:G; [|discriminate].
      inversion H. subst pre. rewrite !evl_cons, Ea. f_equal.
      apply IH; [|reflexivity]. intros x Hx. apply Hf. right. exact Hx.
Qed.

Lemma simplify_equiv_lemma : forall sigma tbl t r,
  covers tbl t = true -> consistent sigma tbl ->
  simplify tbl t = Some r -> eval sigma r = eval sigma t.
Proof.
  intros sigma tbl t. induction t as [| |l r0|k es IH] using term_ind'; intros r Hc Hs H.
  - inversion H. reflexivity.
  - inversion H. reflexivity.
  - simpl in H. destruct (has_key tbl r0) eqn:Kr; [inversion H; reflexivity|].
    destruct (lookup tbl l) as [vs|] eqn:Ll; [|discriminate].
    destruct (mem_name r0 vs) eqn:M; inversion H; subst r; [reflexivity|].
    simpl. symmetry. apply String.eqb_neq.
    simpl in Hc. rewrite Kr in Hc. rewrite orb_false_r in Hc.
    apply andb_true_iff in Hc. destruct Hc as [Hcl Hcr].
    apply negb_true_iff in Hcr. unfold val. rewrite Hcr.
    destruct (is_var l) eqn:Vl.
    + intro E. apply (mem_name_in _ _ M). rewrite <- E. apply (Hs l vs Ll Vl).
    + intro E. subst r0. unfold has_key in Kr. rewrite Ll in Kr. discriminate.
  - simpl in H.
    destruct (gen_take (stop_of k) (map (simplify tbl) es)) as [pre|] eqn:G; [|discriminate].
    inversion H. subst r.
    change (simplify_exprs k (stop_of k) (skip_of k) pre) with (OpC k pre).
    rewrite opc_equiv_lemma, eval_Op.
    simpl in Hc. rewrite forallb_forall in Hc. rewrite Forall_forall in IH.
    eapply gen_take_evl; [|exact G].
    intros x Hx r Hr. apply IH; auto.
Qed.

(* no KeyError when every equality has a side that is a key *)
Lemma gen_take_some : forall stop (f : term -> option term) es,
  (forall x, In x es -> exists r, f x = Some r) -> exists pre, gen_take stop (map f es) = Some pre.
Proof.
  intros stop f es. induction es as [|a es IH]; intro Hf; simpl.
  - eauto.
  - destruct (Hf a (or_introl eq_refl)) as [e ->].
    destruct (is_ident e stop); [eauto|].
    destruct IH as [l ->]; [intros; apply Hf; right; assumption|]. eauto.
Qed.

Lemma simplify_total_lemma : forall tbl t, keyed tbl t = true -> exists r, simplify tbl t = Some r.
Proof.
  intros tbl t. induction t as [| |l r0|k es IH] using term_ind'; intro Hk; simpl.
  - eauto.
  - eauto.
  - simpl in Hk. destruct (has_key tbl r0) eqn:Kr; [eauto|]. simpl in Hk.
    apply has_key_lookup in Hk. destruct Hk as [vs ->]. eauto.
  - simpl in Hk. rewrite forallb_forall in Hk. rewrite Forall_forall in IH.
    destruct (gen_take_some (stop_of k) (simplify tbl) es) as [pre ->]; [|eauto].
    intros x Hx. apply IH; auto.
Qed.

(* covers + "both sides values never happens" is what callers have; covers alone gives keyed when every
   equality mentions a variable *)
Lemma covers_keyed : forall tbl t, covers tbl t = true -> mentions_var t = true -> keyed tbl t = true.
Proof.
  intros tbl t. induction t as [| |l r0|k es IH] using term_ind'; intros Hc Hm; simpl in *; try reflexivity.
  - destruct (is_var l), (is_var r0), (has_key tbl l), (has_key tbl r0); simpl in *; congruence.
  - rewrite forallb_forall in *. rewrite Forall_forall in IH. intros x Hx. apply IH; auto.
Qed.

(* a KeyError means some equality had neither side as a key *)
Lemma simplify_none_lemma : forall tbl t, simplify tbl t = None -> keyed tbl t = false.
Proof.
  intros tbl t H. destruct (keyed tbl t) eqn:K; [|reflexivity].
  destruct (simplify_total_lemma tbl t K) as [r Hr]. congruence.
Qed.

Lemma gen_take_forallb : forall (P : term -> bool) stop (f : term -> option term) es pre,
  (forall x, In x es -> forall r, f x = Some r -> P r = true) ->
  gen_take stop (map f es) = Some pre -> forallb P pre = true.
Proof.
  intros P stop f es. induction es as [|a es IH]; intros pre Hf H; simpl in H.
  - inversion H. reflexivity.
  - destruct (f a) as [e|] eqn:Fa; [|discriminate].
    assert (Pe : P e = true) by (apply (Hf a); [left; reflexivity | exact Fa]).
    destruct (is_ident e stop).
    + inversion H. simpl. rewrite Pe. reflexivity.
    + destruct (gen_take stop (map f es)) as [l|] eqn:G; [|discriminate].
      inversion H. simpl. rewrite Pe. simpl. apply IH; [|reflexivity].
      intros x Hx. apply Hf. right. exact Hx.
Qed.

Lemma simplify_normal_lemma : forall tbl t r,
  normal t = true -> simplify tbl t = Some r -> normal r = true.
Proof.
  intros tbl t. induction t as [| |l r0|k es IH] using term_ind'; intros r Hn H; simpl in H.
  - inversion H. reflexivity.
  - inversion H. reflexivity.
  - destruct (has_key tbl r0); [inversion H; reflexivity|].
    destruct (lookup tbl l) as [vs|]; [|discriminate].
    destruct (mem_name r0 vs); inversion H; reflexivity.
  - destruct (gen_take (stop_of k) (map (simplify tbl) es)) as [pre|] eqn:G; [|discriminate].
    inversion H. subst r.
    change (simplify_exprs k (stop_of k) (skip_of k) pre) with (OpC k pre).
    apply opc_normal_lemma. eapply gen_take_forallb; [|exact G].
    simpl in Hn. apply andb_true_iff in Hn. destruct Hn as [_ Hn].
    rewrite forallb_forall in Hn. rewrite Forall_forall in IH.
    intros x Hx r Hr. apply (IH x Hx); [|exact Hr].
    specialize (Hn x Hx). apply andb_true_iff in Hn. apply Hn.
Qed.

Lemma simplify_oriented_lemma : forall tbl t r,
  oriented t = true -> simplify tbl t = Some r -> oriented r = true.
Proof.
  intros tbl t. induction t as [| |l r0|k es IH] using term_ind'; intros r Hn H; simpl in H.
  - inversion H. reflexivity.
  - inversion H. reflexivity.
  - destruct (has_key tbl r0); [inversion H; subst; exact Hn|].
    destruct (lookup tbl l) as [vs|]; [|discriminate].
    destruct (mem_name r0 vs); inversion H; subst; [exact Hn | reflexivity].
  - destruct (gen_take (stop_of k) (map (simplify tbl) es)) as [pre|] eqn:G; [|discriminate].
    inversion H. subst r.
    change (simplify_exprs k (stop_of k) (skip_of k) pre) with (OpC k pre).
    apply opc_oriented_lemma. eapply gen_take_forallb; [|exact G].
    simpl in Hn. rewrite forallb_forall in Hn. rewrite Forall_forall in IH.
    intros x Hx r Hr. apply (IH x Hx); [|exact Hr]. apply Hn. exact Hx.
Qed.

Lemma opc_forallb_lemma : forall (P : term -> bool) k es,
  (forall k' ys, P (Op k' ys) = forallb P ys) -> P T = true -> P F = true ->
  forallb P es = true -> P (OpC k es) = true.
Proof.
  intros P k es HP PT PF H. rewrite forallb_forall in H.
  assert (O : forall x, origin k es x -> P x = true).
  { intros x [[Hx _]|[ys [Hy Hx]]]; [apply H; exact Hx|].
    specialize (H _ Hy). rewrite HP in H. rewrite forallb_forall in H. apply H. exact Hx. }
  pose proof (opc_shape_lemma k es) as S.
  destruct (OpC k es) as [| |l r|k' xs]; try assumption.
  - apply O. exact S.
  - destruct S as [[_ [_ [_ S]]]|S]; [|apply O; exact S].
    rewrite HP. apply forallb_forall. intros x Hx. apply O. apply S. exact Hx.
Qed.

Lemma simplify_pruned_lemma : forall tbl t r, simplify tbl t = Some r -> pruned tbl r = true.
Proof.
  intros tbl t. induction t as [| |l r0|k es IH] using term_ind'; intros r H; simpl in H.
  - inversion H. reflexivity.
  - inversion H. reflexivity.
  - destruct (has_key tbl r0) eqn:Kr; [inversion H; subst; simpl; rewrite Kr; reflexivity|].
    destruct (lookup tbl l) as [vs|] eqn:Ll; [|discriminate].
    destruct (mem_name r0 vs) eqn:M; inversion H; subst; [|reflexivity].
    simpl. rewrite Ll, M. apply orb_true_r.
  - destruct (gen_take (stop_of k) (map (simplify tbl) es)) as [pre|] eqn:G; [|discriminate].
    inversion H. subst r.
    change (simplify_exprs k (stop_of k) (skip_of k) pre) with (OpC k pre).
    apply opc_forallb_lemma; try reflexivity.
    eapply gen_take_forallb; [|exact G].
    rewrite Forall_forall in IH. intros x Hx r Hr. apply (IH x Hx). exact Hr.
Qed.

(* everything together for terms that come from the public API *)
Lemma api_simplify_lemma : forall sigma tbl t r,
  built t -> covers tbl t = true -> consistent sigma tbl -> simplify tbl t = Some r ->
  eval sigma r = eval sigma t /\ normal r = true /\ oriented r = true /\ pruned tbl r = true.
Proof.
  intros sigma tbl t r B C S H. destruct (built_wf_lemma t B) as [N O].
  split; [eapply simplify_equiv_lemma; eassumption|].
  split; [eapply simplify_normal_lemma; eassumption|].
  split; [eapply simplify_oriented_lemma; eassumption|].
  eapply simplify_pruned_lemma; eassumption.
Qed.
