(* C17 model, second part: the consumer of the terms -- pytype/pytd/booleq.py
     _Eq/_And/_Or/TrueValue/FalseValue .extract_pivots(assignments) and .extract_equalities(),
     Solver.register_variable / always_true / implies / _iter_implications / _get_nonfalse_values /
     _get_first_approximation / _complete / solve.
   Definitions only (no proofs).

   Conventions (in addition to Model.v).
   * A Python set/frozenset of names is a list ([nset]); a dict is an association list in insertion order whose
     keys are unique because every write goes through [tset]/[aset] (dict.__setitem__).
   * Python iterates sets of strings in hash order, which the model cannot know.  Every `for x in <set>` of the
     Solver goes through the parameter [ord : nset -> nset]; the theorems hold for EVERY [ord] that returns the
     same elements ([ord_ok]), hence for the order the real interpreter happens to use.  The correspondence runs
     the model with two different [ord] and compares final results as sets.
   * The sets that _get_first_approximation shares between variables ("point to the same memory location") are
     modelled with explicit object identities: a pointer map (variable -> owner) and a heap (owner -> set).
   * Exceptions (KeyError, AssertionError) are [None] / [Raised].
   * self.implications is a defaultdict: reading a missing key creates an empty dict.  That is unobservable in
     every modelled result (an empty dict contributes nothing to _iter_implications), so reading is [adict]
     (default: empty) and no key is created. *)
From Coq Require Import List Bool String Ascii Arith.
From PV Require Import Booleq.Model.
Import ListNotations.
Open Scope string_scope.
Open Scope list_scope.

(* ---------------- sets of names ---------------- *)
Definition nset := list name.
Definition ninter (a b : nset) : nset := filter (fun x => mem_name x b) a.          (* a & b *)
Definition nadd (a : nset) (x : name) : nset := if mem_name x a then a else a ++ [x].   (* a.add(x) *)
Definition nunion (a b : nset) : nset := fold_left nadd b a.                          (* a | b *)
Definition nremove (a : nset) (x : name) : nset := filter (fun y => negb (String.eqb x y)) a.  (* a.remove(x) *)
Definition is_nil {A} (l : list A) : bool := match l with [] => true | _ => false end.

(* ---------------- dicts ---------------- *)
(* d[k] = v on a dict str -> set (same type as Model.table, read with Model.lookup) *)
Fixpoint tset (tbl : table) (k : name) (v : nset) : table :=
  match tbl with
  | [] => [(k, v)]
  | (k', v') :: rest => if String.eqb k k' then (k', v) :: rest else (k', v') :: tset rest k v
  end.
Definition hget (tbl : table) (k : name) : nset := match lookup tbl k with Some v => v | None => [] end.

(* generic str-keyed dict *)
Fixpoint alookup {A} (l : list (name * A)) (k : name) : option A :=
  match l with
  | [] => None
  | (k', v) :: rest => if String.eqb k k' then Some v else alookup rest k
  end.
Fixpoint aset {A} (l : list (name * A)) (k : name) (v : A) : list (name * A) :=
  match l with
  | [] => [(k, v)]
  | (k', v') :: rest => if String.eqb k k' then (k', v) :: rest else (k', v') :: aset rest k v
  end.

(* ---------------- extract_pivots ---------------- *)
(* the inner loop of _And/_Or.extract_pivots:
     for name, values in expr_pivots.items():
       if name in pivots: pivots[name] = pivots[name] & values   (| for _Or)
       else: pivots[name] = values *)
Definition pcomb (k : kind) (old values : nset) : nset :=
  match k with KAnd => ninter old values | KOr => nunion old values end.
Definition pmerge (k : kind) (piv ep : table) : table :=
  fold_left (fun piv (nv : name * nset) =>
               match lookup piv (fst nv) with
               | Some old => tset piv (fst nv) (pcomb k old (snd nv))
               | None => tset piv (fst nv) (snd nv)
               end) ep piv.

Fixpoint extract_pivots (tbl : table) (t : term) : table :=
  match t with
  | T | F => []
  | TEq l r =>
      (* if self.left in assignments and self.right in assignments: both get the intersection;
         else {left: {right}, right: {left}}  (a dict display: a repeated key keeps the last value) *)
      match lookup tbl l, lookup tbl r with
      | Some a, Some b => let i := ninter a b in tset (tset [] l i) r i
      | _, _ => tset (tset [] l [r]) r [l]
      end
  | Op k es =>
      let piv := fold_left (fun piv e => pmerge k piv (extract_pivots tbl e)) es [] in
      match k with
      | KAnd => filter (fun nv => negb (is_nil (snd nv))) piv    (* {var: values ... if values} *)
      | KOr => piv
      end
  end.

(* ---------------- extract_equalities ---------------- *)
Fixpoint extract_equalities (t : term) : list (name * name) :=
  match t with
  | TEq l r => [(l, r)]
  | Op _ es => flat_map extract_equalities es
  | _ => []
  end.

(* ---------------- Solver ---------------- *)
Definition vdict := list (name * term).            (* value -> implication *)
Definition imap := list (name * vdict).            (* self.implications *)
Record solver := { vars : nset; imps : imap; ground : term }.

Definition new_solver : solver := {| vars := []; imps := []; ground := T |}.
Definition adict (im : imap) (var : name) : vdict := match alookup im var with Some d => d | None => [] end.
Definition iset2 (im : imap) (var value : name) (t : term) : imap := aset im var (aset (adict im var) value t).

Definition register_variable (s : solver) (v : name) : solver :=
  {| vars := nadd (vars s) v; imps := imps s; ground := ground s |}.

(* assert formula is not FALSE; self.ground_truth = And([self.ground_truth, formula]) *)
Definition always_true (s : solver) (f : term) : option solver :=
  if is_ident f F then None
  else Some {| vars := vars s; imps := imps s; ground := AndC [ground s; f] |}.

(* e is FALSE/TRUE -> AssertionError; assert isinstance(e, _Eq); assert e.right not in implications[e.left] *)
Definition implies (s : solver) (e imp : term) : option solver :=
  match e with
  | TEq l r =>
      match alookup (adict (imps s) l) r with
      | Some _ => None
      | None => Some {| vars := vars s; imps := iset2 (imps s) l r imp; ground := ground s |}
      end
  | _ => None
  end.

Definition iter_implications (im : imap) : list (name * name * term) :=
  flat_map (fun vd => map (fun vi => (fst vd, fst vi, snd vi)) (snd vd)) im.

Definition nonfalse_values (im : imap) (var : name) : nset :=
  map fst (filter (fun vi => negb (is_ident (snd vi) F)) (adict im var)).

(* _get_first_approximation.  Objects: the set created for variable v in the first loop is "owned" by v;
   cptr/sptr say which object var_assignments[v] / value_assignments[v] currently point to; cheap/sheap
   hold the contents. *)
Record fa_state := { cptr : list (name * name); cheap : table; sptr : list (name * name); sheap : table }.

Definition fa_init (ord : nset -> nset) (s : solver) : fa_state :=
  let vs := ord (vars s) in
  {| cptr := map (fun v => (v, v)) vs; cheap := map (fun v => (v, [v])) vs;
     sptr := map (fun v => (v, v)) vs; sheap := map (fun v => (v, nonfalse_values (imps s) v)) vs |}.

Definition pget (p : list (name * name)) (k : name) : name := match alookup p k with Some o => o | None => k end.

(* body of `for var_assignment in var_assignments[other_var]` *)
Definition fa_repoint (var : name) (st : fa_state) (m : name) : fa_state :=
  let cv := pget (cptr st) var in
  {| cptr := aset (cptr st) m cv;
     cheap := tset (cheap st) cv (nadd (hget (cheap st) cv) m);
     sptr := aset (sptr st) m (pget (sptr st) var);
     sheap := sheap st |}.

Definition fa_step (variables : nset) (acc : option fa_state) (eq : name * name) : option fa_state :=
  match acc with
  | None => None
  | Some st =>
      let var := fst eq in
      let value := snd eq in
      match alookup (sptr st) var with
      | None => None                                    (* value_assignments[var]: KeyError *)
      | Some sv =>
          if mem_name value variables then
            let so := pget (sptr st) value in
            let st1 := {| cptr := cptr st; cheap := cheap st; sptr := sptr st;
                          sheap := tset (sheap st) sv (nunion (hget (sheap st) sv) (hget (sheap st) so)) |} in
            Some (fold_left (fa_repoint var) (hget (cheap st1) (pget (cptr st1) value)) st1)
          else
            Some {| cptr := cptr st; cheap := cheap st; sptr := sptr st;
                    sheap := tset (sheap st) sv (nadd (hget (sheap st) sv) value) |}
      end
  end.

(* equalities = set(chain(implication.extract_equalities() ...)).union(ground_truth.extract_equalities()) *)
Definition all_equalities (s : solver) : list (name * name) :=
  flat_map (fun vvi => extract_equalities (snd vvi)) (iter_implications (imps s))
  ++ extract_equalities (ground s).

Definition first_approximation (ord : nset -> nset) (eord : list (name * name) -> list (name * name))
    (s : solver) : option table :=
  match fold_left (fa_step (vars s)) (eord (all_equalities s)) (Some (fa_init ord s)) with
  | None => None
  | Some st => Some (map (fun v => (v, hget (sheap st) (pget (sptr st) v))) (ord (vars s)))
  end.

Definition ANY_VALUE : name := "?".

(* _complete *)
Definition complete_var (im : imap) (vv : name * nset) : imap :=
  let var := fst vv in
  let im1 := fold_left (fun im value => match alookup (adict im var) value with
                                        | Some _ => im
                                        | None => iset2 im var value T
                                        end) (snd vv) im in
  if is_nil (adict im1 var) then iset2 im1 var ANY_VALUE T else im1.

Definition complete (ord : nset -> nset) (eord : list (name * name) -> list (name * name)) (s : solver)
    : option imap :=
  match first_approximation ord eord s with
  | None => None
  | Some fa => Some (fold_left complete_var (map (fun vv => (fst vv, ord (snd vv))) fa) (imps s))
  end.

(* ---- solve ---- *)
Inductive outcome (A : Type) := Done (a : A) | Raised | OutOfFuel.
Arguments Done {A} a. Arguments Raised {A}. Arguments OutOfFuel {A}.

(* for pivot, possible_values in pivots.items(): if pivot in assignments: assignments[pivot] &= set(possible_values)
   (with the length comparison of the main loop; the ground-truth use ignores the flag) *)
Definition apply_pivots (tbl : table) (piv : table) : table * bool :=
  fold_left (fun (tc : table * bool) (nv : name * nset) =>
               match lookup (fst tc) (fst nv) with
               | None => tc
               | Some before =>
                   let after := ninter before (snd nv) in
                   (tset (fst tc) (fst nv) after,
                    snd tc || negb (Nat.eqb (List.length before) (List.length after)))
               end) piv (tbl, false).

Record rstate := { r_tbl : table; r_im : imap; r_ors : list term; r_changed : bool }.

(* body of `for value in assignments[var].copy()` *)
Definition value_step (var : name) (acc : option rstate) (value : name) : option rstate :=
  match acc with
  | None => None
  | Some st =>
      match alookup (adict (r_im st) var) value with
      | None => None                                            (* self.implications[var][value]: KeyError *)
      | Some imp =>
          match simplify (r_tbl st) imp with
          | None => None
          | Some imp' =>
              let im' := iset2 (r_im st) var value imp' in
              if is_ident imp' F
              then (* assignments[var].remove(value): set.remove raises KeyError when the value is absent *)
                   if mem_name value (hget (r_tbl st) var)
                   then Some {| r_tbl := tset (r_tbl st) var (nremove (hget (r_tbl st) var) value); r_im := im';
                                r_ors := r_ors st; r_changed := true |}
                   else None
              else Some {| r_tbl := r_tbl st; r_im := im'; r_ors := r_ors st ++ [imp']; r_changed := r_changed st |}
          end
      end
  end.

Record lstate := { l_tbl : table; l_im : imap; l_ands : list term; l_changed : bool }.

(* body of `for var in self.variables` *)
Definition var_step (ord : nset -> nset) (acc : option lstate) (var : name) : option lstate :=
  match acc with
  | None => None
  | Some st =>
      match lookup (l_tbl st) var with
      | None => None                                            (* assignments[var]: KeyError *)
      | Some values =>
          match fold_left (value_step var) (ord values)
                  (Some {| r_tbl := l_tbl st; r_im := l_im st; r_ors := []; r_changed := l_changed st |}) with
          | None => None
          | Some r => Some {| l_tbl := r_tbl r; l_im := r_im r; l_ands := l_ands st ++ [OrC (r_ors r)];
                              l_changed := r_changed r |}
          end
      end
  end.

(* one iteration of `while something_changed`; also returns the site (table, term) pivots were extracted at *)
Definition round (ord : nset -> nset) (variables : nset) (tbl : table) (im : imap)
    : option (table * imap * bool * (table * term)) :=
  match fold_left (var_step ord) (ord variables)
          (Some {| l_tbl := tbl; l_im := im; l_ands := []; l_changed := false |}) with
  | None => None
  | Some st =>
      let d := AndC (l_ands st) in
      let tc := apply_pivots (l_tbl st) (extract_pivots (l_tbl st) d) in
      Some (fst tc, l_im st, l_changed st || snd tc, (l_tbl st, d))
  end.

Definition trace := list (table * term).

Fixpoint solve_loop (fuel : nat) (ord : nset -> nset) (variables : nset) (tbl : table) (im : imap) (tr : trace)
    : outcome (table * imap * trace) :=
  match fuel with
  | O => OutOfFuel
  | S f =>
      match round ord variables tbl im with
      | None => Raised
      | Some (tbl', im', changed, site) =>
          if changed then solve_loop f ord variables tbl' im' (tr ++ [site])
          else Done (tbl', im', tr ++ [site])
      end
  end.

Definition tsize (tbl : table) : nat := fold_right (fun kv n => List.length (snd kv) + n) 0 tbl.

(* solve(): result table, the final implications, and the pivot-extraction sites of the run (the first one is
   the ground truth's).  The fuel is computed from the table: [solve_never_out_of_fuel] shows it suffices. *)
Definition solve (ord : nset -> nset) (eord : list (name * name) -> list (name * name)) (s : solver)
    : outcome (table * imap * trace) :=
  match complete ord eord s with
  | None => Raised
  | Some im =>
      let tbl0 := map (fun v => (v, nonfalse_values im v)) (ord (vars s)) in
      match simplify tbl0 (ground s) with
      | None => Raised
      | Some g =>
          let tbl1 := fst (apply_pivots tbl0 (extract_pivots tbl0 g)) in
          solve_loop (S (tsize tbl1)) ord (vars s) tbl1 im [(tbl0, g)]
      end
  end.

(* ---------------- specification vocabulary ---------------- *)

Definition ord_ok (ord : nset -> nset) : Prop := forall l x, In x (ord l) <-> In x l.
Definition eord_ok (eord : list (name * name) -> list (name * name)) : Prop := forall l x, In x (eord l) <-> In x l.

(* the variables of the solver are exactly what the term semantics calls a variable: every registered
   name starts with "~", and every "~"-name mentioned by a term is registered *)
Definition keys_vars (tbl : table) : Prop := forall k, has_key tbl k = true -> is_var k = true.
Definition vars_tbl (vs : nset) : table := map (fun v => (v, [])) vs.
Definition wf_solver (s : solver) : Prop :=
  (forall v, In v (vars s) -> is_var v = true) /\
  covers (vars_tbl (vars s)) (ground s) = true /\
  (forall var value imp, In (var, value, imp) (iter_implications (imps s)) ->
     covers (vars_tbl (vars s)) imp = true).

(* sigma solves the completed system: the ground truth holds, and every variable takes a value that has an
   implication (closed world: the candidates are the keys of the completed self.implications[var]) which holds *)
Definition solution (sigma : name -> name) (variables : nset) (gr : term) (im : imap) : Prop :=
  eval sigma gr = true /\
  forall v, In v variables -> exists imp, alookup (adict im v) (sigma v) = Some imp /\ eval sigma imp = true.

(* every pivot entry of a table key contains the value sigma gives that key *)
Definition psound (sigma : name -> name) (tbl piv : table) : Prop :=
  forall p pv, In (p, pv) piv -> has_key tbl p = true -> In (sigma p) pv.

(* _Or.extract_pivots takes the union over the disjuncts that MENTION a name; a disjunct that does not mention it
   allows any value.  [guarded]: every table key among the pivots of an _Or is a pivot of every disjunct. *)
Fixpoint guarded (tbl : table) (t : term) : bool :=
  match t with
  | Op k es =>
      forallb (guarded tbl) es &&
      match k with
      | KAnd => true
      | KOr => forallb (fun nv => negb (has_key tbl (fst nv))
                                  || forallb (fun e => has_key (extract_pivots tbl e) (fst nv)) es)
                       (extract_pivots tbl (Op KOr es))
      end
  | _ => true
  end.

Definition trace_guarded (tr : trace) : bool := forallb (fun site => guarded (fst site) (snd site)) tr.

(* l r occurs as an _Eq somewhere in t *)
Fixpoint occurs_eq (l r : name) (t : term) : Prop :=
  match t with
  | TEq l' r' => l = l' /\ r = r'
  | Op _ es => (fix any (xs : list term) : Prop := match xs with [] => False | x :: rest => occurs_eq l r x \/ any rest end) es
  | _ => False
  end.

(* table inclusion: every key keeps a subset of its values *)
Definition tbl_le (a b : table) : Prop :=
  forall k vs, lookup a k = Some vs -> exists ws, lookup b k = Some ws /\ incl vs ws.

(* ---------------- support for the correspondence check ---------------- *)
Definition nset_same (a b : nset) : bool :=
  forallb (fun x => mem_name x b) a && forallb (fun x => mem_name x a) b.
(* same dict str -> set: same keys, same sets *)
Definition tbl_same (a b : table) : bool :=
  forallb (fun kv => match lookup b (fst kv) with Some w => nset_same (snd kv) w | None => false end) a
  && forallb (fun kv => has_key a (fst kv)) b.
Definition otbl_same (m e : option table) : bool :=
  match m, e with None, None => true | Some a, Some b => tbl_same a b | _, _ => false end.

(* a script of API calls, as the harness issues them to the real Solver *)
Inductive call := CReg (v : name) | CTrue (f : term) | CImp (e imp : term).
Definition run_call (acc : option solver) (c : call) : option solver :=
  match acc with
  | None => None
  | Some s => match c with
              | CReg v => Some (register_variable s v)
              | CTrue f => always_true s f
              | CImp e imp => implies s e imp
              end
  end.
Definition run_script (cs : list call) : option solver := fold_left run_call cs (Some new_solver).

Definition solve_table (ord : nset -> nset) (eord : list (name * name) -> list (name * name)) (s : solver)
    : option table :=
  match solve ord eord s with Done (tbl, _, _) => Some tbl | _ => None end.
