(* C18 extension: exact specifications of the remaining public API of variables.py / state.py
   (model: Flow/Api.v and Flow/Model.v). *)
From Coq Require Import List Bool Arith PeanoNat Lia.
From PV Require Import Flow.Model Flow.Proofs Flow.Api.
Import ListNotations.

(* ------------------------------------------------------------------------------------------ *)
(* Variable.get_atomic_value / is_atomic / has_atomic_value *)

(* success: exactly one binding, its value is returned, and the type test (if any) accepts it *)
Lemma get_atomic_value_ok_lemma : forall v t x,
  get_atomic_value v t = inl x <->
  exists c, vbindings v = [mkB x c] /\ forall isinst, t = Some isinst -> isinst x = true.
Proof.
  intros v t x. unfold get_atomic_value. destruct (vbindings v) as [|[bv bc] [|b2 rest]]; cbn [bval].
  - split; [discriminate|]. intros [c [E _]]. discriminate.
  - destruct t as [f|].
    + destruct (f bv) eqn:Ef; split.
      * intros H. inversion H. subst. exists bc. split; auto. intros g Eg. inversion Eg. subst. exact Ef.
      * intros [c [E H]]. inversion E. subst. reflexivity.
      * discriminate.
      * intros [c [E H]]. inversion E. subst. rewrite (H f eq_refl) in Ef. discriminate.
    + split.
      * intros H. inversion H. subst. exists bc. split; auto. intros g Eg. discriminate.
      * intros [c [E _]]. inversion E. reflexivity.
  - split; [discriminate|]. intros [c [E _]]. discriminate.
Qed.

(* the three errors, each exactly when the code raises it *)
Lemma get_atomic_value_errors_lemma : forall v t,
  (get_atomic_value v t = inr TooFew <-> vbindings v = []) /\
  (get_atomic_value v t = inr TooMany <-> 2 <= length (vbindings v)) /\
  (get_atomic_value v t = inr WrongType <->
     exists b isinst, vbindings v = [b] /\ t = Some isinst /\ isinst (bval b) = false).
Proof.
  intros v t. unfold get_atomic_value. destruct (vbindings v) as [|b [|b2 rest]]; cbn [length].
  - split; [tauto|]. split; [split; [discriminate|lia]|]. split; [discriminate|]. intros [b [f [E _]]]. discriminate.
  - split; [|split].
    + destruct t as [f|]; [destruct (f (bval b))|]; split; discriminate.
    + destruct t as [f|]; [destruct (f (bval b))|]; split; try discriminate; lia.
    + destruct t as [f|]; [destruct (f (bval b)) eqn:Ef|].
      * split; [discriminate|]. intros [b' [g [E [Eg H]]]]. inversion E. inversion Eg. subst. rewrite Ef in H. discriminate.
      * split; [|reflexivity]. intros _. exists b, f. auto.
      * split; [discriminate|]. intros [b' [g [_ [Eg _]]]]. discriminate.
  - split; [split; discriminate|]. split; [split; [lia|reflexivity]|]. split; [discriminate|].
    intros [b' [f [E _]]]. discriminate.
Qed.

(* the value get_atomic_value returns is the only value the variable can ever have *)
Lemma get_atomic_value_only_value_lemma : forall v t x rho,
  get_atomic_value v t = inl x -> forall y, In y (var_vals rho v) -> y = x.
Proof.
  intros v t x rho H y Hy. apply get_atomic_value_ok_lemma in H. destruct H as [c [E _]].
  unfold var_vals in Hy. rewrite E in Hy. cbn [filter bcond] in Hy.
  destruct (holds rho c); simpl in Hy; [destruct Hy as [Hy|[]]; auto | destruct Hy].
Qed.

Lemma is_atomic_spec_lemma : forall v t,
  is_atomic v t = true <->
  exists b, vbindings v = [b] /\ forall isinst, t = Some isinst -> isinst (bval b) = true.
Proof.
  intros v t. unfold is_atomic. destruct (vbindings v) as [|b [|b2 rest]].
  - split; [discriminate|]. intros [b0 [E _]]. discriminate.
  - destruct t as [f|]; split.
    + intros H. exists b. split; auto. intros g Eg. inversion Eg. subst. exact H.
    + intros [b' [E H]]. inversion E. subst. apply H. reflexivity.
    + intros _. exists b. split; auto. intros g Eg. discriminate.
    + reflexivity.
  - split; [discriminate|]. intros [b0 [E _]]. discriminate.
Qed.

(* is_atomic(typ) holds exactly when get_atomic_value(typ) does not raise (same isinstance class) *)
Lemma is_atomic_iff_get_lemma : forall v t,
  is_atomic v t = true <-> exists x, get_atomic_value v t = inl x.
Proof.
  intros v t. rewrite is_atomic_spec_lemma. split.
  - intros [[bv bc] [E H]]. exists bv. apply get_atomic_value_ok_lemma. exists bc. auto.
  - intros [x Hx]. apply get_atomic_value_ok_lemma in Hx. destruct Hx as [c [E H]].
    exists (mkB x c). auto.
Qed.

Lemma has_atomic_value_spec_lemma : forall v x,
  has_atomic_value v x = true <-> get_atomic_value v None = inl x.
Proof.
  intros v x. unfold has_atomic_value, get_atomic_value. destruct (vbindings v) as [|b [|b2 rest]].
  - split; discriminate.
  - rewrite Nat.eqb_eq. split; intros H; [subst; reflexivity | inversion H; reflexivity].
  - split; discriminate.
Qed.

(* ------------------------------------------------------------------------------------------ *)
(* Variable.with_value / with_name *)

Lemma with_value_spec_lemma : forall v x v',
  with_value v x = Some v' <->
  exists b, vbindings v = [b] /\ v' = mkV [mkB x (bcond b)] (vname v).
Proof.
  intros v x v'. unfold with_value. destruct (vbindings v) as [|b [|b2 rest]].
  - split; [discriminate|]. intros [b0 [E _]]. discriminate.
  - split.
    + intros H. inversion H. exists b. auto.
    + intros [b' [E H]]. inversion E. subst. reflexivity.
  - split; [discriminate|]. intros [b0 [E _]]. discriminate.
Qed.

Lemma with_value_none_lemma : forall v x, with_value v x = None <-> length (vbindings v) <> 1.
Proof.
  intros v x. unfold with_value. destruct (vbindings v) as [|b [|b2 rest]]; cbn [length]; split; intros; try discriminate; try lia; auto.
Qed.

(* the new value applies under exactly the valuations under which the old one did *)
Lemma with_value_vals_lemma : forall v x v' rho,
  with_value v x = Some v' ->
  var_vals rho v' = map (fun _ => x) (var_vals rho v) /\ wfvar v' /\ vname v' = vname v.
Proof.
  intros v x v' rho H. apply with_value_spec_lemma in H. destruct H as [b [E Ev]]. subst v'.
  unfold var_vals, wfvar. rewrite E. cbn [vbindings vname filter bcond bval map].
  split; [destruct (holds rho (bcond b)); reflexivity|]. split; [|reflexivity].
  constructor; [intros []|constructor].
Qed.

Lemma with_name_spec_lemma : forall v n rho,
  vbindings (with_name v n) = vbindings v /\ vname (with_name v n) = n /\
  var_vals rho (with_name v n) = var_vals rho v.
Proof. intros. repeat split. Qed.

(* ------------------------------------------------------------------------------------------ *)
(* BlockState.load_local / get_locals / store_local *)

Lemma load_local_spec_lemma : forall s x v,
  load_local s x = Some v <->
  exists v0, dget x (get_locals s) = Some v0 /\ v = with_name v0 (Some x).
Proof.
  intros s x v. unfold load_local, get_locals. destruct (dget x (locals s)) as [v0|]; split.
  - intros H. inversion H. exists v0. auto.
  - intros [v1 [E H]]. inversion E. subst. reflexivity.
  - discriminate.
  - intros [v1 [E _]]. discriminate.
Qed.

(* load_local hands the variable out WITHOUT the lazily tracked block condition: what the local can
   be in the state is what the loaded variable can be, cut down by the block condition *)
Lemma load_local_vals_lemma : forall s x v rho,
  load_local s x = Some v ->
  vals rho s x = if blk rho s x then var_vals rho v else [].
Proof.
  intros s x v rho H. unfold load_local in H. unfold vals.
  destruct (dget x (locals s)) as [v0|]; [|discriminate]. inversion H. subst v.
  unfold var_vals, with_name. cbn [vbindings]. destruct (blk rho s x).
  - f_equal. apply filter_ext_in'. intros. apply andb_true_r.
  - rewrite filter_false; auto. intros. apply andb_false_r.
Qed.

Lemma load_local_none_lemma : forall s x, load_local s x = None <-> dget x (get_locals s) = None.
Proof.
  intros s x. unfold load_local, get_locals. destruct (dget x (locals s)); split; intros; try discriminate; auto.
Qed.

Lemma store_then_load_lemma : forall s x v y,
  load_local (store_local s x v) y =
  if Nat.eqb y x then Some (with_name v (Some x)) else load_local s y.
Proof.
  intros s x v y. unfold load_local, store_local. cbn [locals]. rewrite dget_dset.
  destruct (Nat.eqb y x) eqn:E; [|reflexivity]. apply Nat.eqb_eq in E. subst. reflexivity.
Qed.

Lemma get_locals_store_lemma : forall s x v y,
  dget y (get_locals (store_local s x v)) = if Nat.eqb y x then Some v else dget y (get_locals s).
Proof. intros. unfold get_locals, store_local. cbn [locals]. apply dget_dset. Qed.

(* ------------------------------------------------------------------------------------------ *)
(* BlockState.with_condition on a state whose own condition is not TRUE: the structure *)

Lemma with_condition_shape_lemma : forall s c, NoDup (map fst (locals s)) ->
  scond (with_condition s c) = AndC [scond s; c] /\
  wbc (with_condition s c) = wbc s /\
  forall x, dget x (get_locals (with_condition s c)) =
            match dget x (get_locals s) with
            | None => None
            | Some v => Some (if nmem x (wbc s) then v
                              else var_with_condition v (AndC [scond s; c]))
            end.
Proof.
  intros s c Hnd. split; [reflexivity|]. split; [reflexivity|].
  intros x. unfold get_locals. rewrite wc_locals_get by exact Hnd. reflexivity.
Qed.

Lemma fold_dset_keys : forall (step : list (nat * variable) -> nat * variable -> list (nat * variable))
    (f : nat -> variable -> variable) l,
  (forall acc nv, step acc nv = dset (fst nv) (f (fst nv) (snd nv)) acc) ->
  NoDup (map fst l) ->
  map fst (fold_left step l []) = map fst l.
Proof.
  intros step f l Hstep.
  assert (forall acc, NoDup (map fst acc ++ map fst l) ->
            map fst (fold_left step l acc) = map fst acc ++ map fst l) as G.
  { induction l as [|[n v] t IH]; intros acc H; cbn [fold_left map fst snd].
    - rewrite app_nil_r. reflexivity.
    - rewrite Hstep. cbn [fst snd].
      assert (dset n (f n v) acc = acc ++ [(n, f n v)]) as E.
      { assert (~ In n (map fst acc)) as Hn.
        { cbn [map fst] in H. apply NoDup_remove_2 in H. intros Hin. apply H. apply in_or_app. left. exact Hin. }
        clear H IH. induction acc as [|[k w] acc' IHa]; cbn [dset app]; auto.
        destruct (Nat.eqb n k) eqn:Ek.
        - apply Nat.eqb_eq in Ek. subst. exfalso. apply Hn. left. reflexivity.
        - f_equal. apply IHa. intros Hin. apply Hn. right. exact Hin. }
      rewrite E, IH.
      + rewrite map_app. cbn [map fst]. rewrite <- app_assoc. reflexivity.
      + rewrite map_app. cbn [map fst]. rewrite <- app_assoc. exact H. }
  intros H. apply (G []). exact H.
Qed.

(* ... and the dict keeps its keys in the same order *)
Lemma with_condition_keys_lemma : forall s c, NoDup (map fst (locals s)) ->
  map fst (get_locals (with_condition s c)) = map fst (get_locals s).
Proof.
  intros s c Hnd. unfold get_locals, with_condition. cbn [locals].
  apply (fold_dset_keys _ (fun n v => if nmem n (wbc s) then v
                                      else var_with_condition v (AndC [scond s; c]))); [|exact Hnd].
  intros acc nv. destruct (nmem (fst nv) (wbc s)); reflexivity.
Qed.

(* quirk: explicit locals are conjoined with the COMBINED condition (block condition and c), so even
   with_condition(TRUE) is not the identity on a state with a non-TRUE condition: the term grows *)
Definition grow_s : state := mkS [(0, mkV [mkB 1 (CAnd [Atom 0; Atom 1])] None)] (Atom 0) [].

Lemma with_condition_true_grows_lemma :
  Inv grow_s /\
  get_locals (with_condition grow_s CT) = [(0, mkV [mkB 1 (CAnd [CAnd [Atom 0; Atom 1]; Atom 0])] None)] /\
  forall rho x, vals rho (with_condition grow_s CT) x = vals rho grow_s x.
Proof.
  assert (Inv grow_s) as HI.
  { split; [repeat constructor; intros []|]. split.
    - intros x v H. unfold grow_s in H. cbn [locals dget] in H. destruct (Nat.eqb x 0); inversion H.
      unfold wfvar. cbn. repeat constructor. intros [].
    - intros x v b rho H _ Hb Hc. unfold grow_s in H. cbn [locals dget] in H.
      destruct (Nat.eqb x 0); inversion H. subst v. destruct Hb as [Hb|[]]. subst b.
      cbn in Hc. cbn. destruct (rho 0); auto. }
  split; [exact HI|]. split; [reflexivity|].
  intros rho x. destruct (state_with_condition_exact_lemma rho grow_s CT x HI) as [E _]. exact E.
Qed.
