(* C18 model: pytype/rewrite/flow/conditions.py, variables.py (Binding, Variable.with_condition,
   with_name, from_value) and state.py (BlockState).  Definitions only (no proofs), so that the
   correspondence leg still evaluates when a proof breaks.

   Conventions.
   * Atomic conditions, local names and values are natural-number ids (the harness maps the real
     objects to ids).  Values are compared with Python's [==]/hash, which for the ids is [Nat.eqb].
   * A Python [frozenset]/[set] is a list in insertion order; nothing in the modelled code observes
     the iteration order of a set except [repr], so membership and set equality are the only
     operations.  [cond_eqb] is the dataclass [__eq__] (class must agree, fields compared; frozensets
     compared as sets).
   * A Python [dict] is an association list in insertion order with the usual update discipline
     ([dset]: overwrite in place keeps the position, a new key is appended).
   * [conditions.TRUE]/[conditions.FALSE] are the singletons; the code tests them with [is], the
     model with a match on [CT]/[CF] (assumption: nobody instantiates [_True()]/[_False()] again). *)
From Coq Require Import List Bool.
Import ListNotations.

(* ------------------------------------------------------------------------------------------ *)
(* conditions.py *)

Inductive cond : Type :=
| CT : cond                      (* TRUE *)
| CF : cond                      (* FALSE *)
| Atom : nat -> cond             (* any other Condition subclass instance (opaque) *)
| CNot : cond -> cond            (* _Not(condition) *)
| CAnd : list cond -> cond       (* _And(frozenset) *)
| COr : list cond -> cond.       (* _Or(frozenset) *)

(* meaning under a truth assignment of the atoms *)
Fixpoint holds (rho : nat -> bool) (c : cond) {struct c} : bool :=
  match c with
  | CT => true
  | CF => false
  | Atom a => rho a
  | CNot x => negb (holds rho x)
  | CAnd l => forallb (holds rho) l
  | COr l => existsb (holds rho) l
  end.

(* dataclass __eq__ ; frozenset equality is mutual inclusion (the sets are duplicate free) *)
Fixpoint cond_eqb (a b : cond) {struct a} : bool :=
  match a, b with
  | CT, CT => true
  | CF, CF => true
  | Atom x, Atom y => Nat.eqb x y
  | CNot x, CNot y => cond_eqb x y
  | CAnd l1, CAnd l2 =>
      forallb (fun x => existsb (fun y => cond_eqb x y) l2) l1 &&
      forallb (fun y => existsb (fun x => cond_eqb x y) l1) l2
  | COr l1, COr l2 =>
      forallb (fun x => existsb (fun y => cond_eqb x y) l2) l1 &&
      forallb (fun y => existsb (fun x => cond_eqb x y) l1) l2
  | _, _ => false
  end.

(* _Not.make *)
Definition NotC (c : cond) : cond :=
  match c with
  | CNot x => x
  | _ => CNot c
  end.

Inductive kind := KAnd | KOr.

(* _And: _ACCEPT = FALSE, _IGNORE = TRUE;  _Or: _ACCEPT = TRUE, _IGNORE = FALSE *)
Definition accept (k : kind) : cond := match k with KAnd => CF | KOr => CT end.
Definition ignore (k : kind) : cond := match k with KAnd => CT | KOr => CF end.
Definition mk (k : kind) (l : list cond) : cond := match k with KAnd => CAnd l | KOr => COr l end.

(* [arg is cls._IGNORE], [arg is cls._ACCEPT] *)
Definition is_ignore (k : kind) (c : cond) : bool :=
  match k, c with KAnd, CT => true | KOr, CF => true | _, _ => false end.
Definition is_accept (k : kind) (c : cond) : bool :=
  match k, c with KAnd, CF => true | KOr, CT => true | _, _ => false end.

(* [c in conditions] and [conditions.add(c)] on a Python set *)
Definition cmem (c : cond) (s : list cond) : bool := existsb (fun y => cond_eqb c y) s.
Definition cadd (c : cond) (s : list cond) : list cond := if cmem c s then s else s ++ [c].

(* the for loop of _Composite.make: [inl c] = returned [c] from inside the loop,
   [inr s] = the loop ran to completion with [conditions = s] *)
Fixpoint make_loop (k : kind) (args : list cond) (s : list cond) : cond + list cond :=
  match args with
  | [] => inr s
  | arg :: rest =>
      if is_ignore k arg then make_loop k rest s
      else if is_accept k arg then inl arg
      else if cmem (NotC arg) s then inl (accept k)
      else make_loop k rest (cadd arg s)
  end.

(* _Composite.make *)
Definition make (k : kind) (args : list cond) : cond :=
  match make_loop k args [] with
  | inl c => c
  | inr [] => ignore k
  | inr [c] => c
  | inr s => mk k s
  end.

Definition AndC := make KAnd.
Definition OrC := make KOr.

(* ------------------------------------------------------------------------------------------ *)
(* Python dict / set on nat keys *)

Fixpoint dget {A} (k : nat) (l : list (nat * A)) : option A :=
  match l with
  | [] => None
  | (k', v) :: t => if Nat.eqb k k' then Some v else dget k t
  end.

Fixpoint dset {A} (k : nat) (v : A) (l : list (nat * A)) : list (nat * A) :=
  match l with
  | [] => [(k, v)]
  | (k', v') :: t => if Nat.eqb k k' then (k, v) :: t else (k', v') :: dset k v t
  end.

Definition nmem (x : nat) (s : list nat) : bool := existsb (Nat.eqb x) s.
Definition nadd (x : nat) (s : list nat) : list nat := if nmem x s then s else s ++ [x].

(* ------------------------------------------------------------------------------------------ *)
(* variables.py *)

Record binding := mkB { bval : nat; bcond : cond }.
Record variable := mkV { vbindings : list binding; vname : option nat }.

(* Variable.from_value(value, name=name) *)
Definition from_value (v : nat) (name : option nat) : variable := mkV [mkB v CT] name.

(* Variable.with_name *)
Definition with_name (v : variable) (name : option nat) : variable := mkV (vbindings v) name.

(* Variable.with_condition *)
Definition var_with_condition (v : variable) (c : cond) : variable :=
  match c with
  | CT => v
  | _ => mkV (map (fun b => mkB (bval b) (AndC [bcond b; c])) (vbindings v)) (vname v)
  end.

(* frozen dataclass __eq__ of Binding and Variable (bindings is a tuple: order matters) *)
Definition binding_eqb (a b : binding) : bool :=
  Nat.eqb (bval a) (bval b) && cond_eqb (bcond a) (bcond b).
Fixpoint bindings_eqb (l1 l2 : list binding) : bool :=
  match l1, l2 with
  | [], [] => true
  | a :: t1, b :: t2 => binding_eqb a b && bindings_eqb t1 t2
  | _, _ => false
  end.
Definition oname_eqb (a b : option nat) : bool :=
  match a, b with
  | None, None => true
  | Some x, Some y => Nat.eqb x y
  | _, _ => false
  end.
Definition var_eqb (a b : variable) : bool :=
  bindings_eqb (vbindings a) (vbindings b) && oname_eqb (vname a) (vname b).

(* ------------------------------------------------------------------------------------------ *)
(* state.py *)

Record state := mkS {
  locals : list (nat * variable);      (* _locals *)
  scond : cond;                        (* _condition *)
  wbc : list nat                       (* _locals_with_block_condition *)
}.

(* set(locals_) *)
Definition keys_set {A} (l : list (nat * A)) : list nat :=
  fold_left (fun s kv => nadd (fst kv) s) l [].

(* BlockState.__init__ *)
Definition new_state (locals_ : list (nat * variable)) (c : cond) (w : option (list nat)) : state :=
  mkS locals_ c (match w with None => keys_set locals_ | Some s => s end).

(* load_local: KeyError = None *)
Definition load_local (s : state) (x : nat) : option variable :=
  match dget x (locals s) with
  | Some v => Some (with_name v (Some x))
  | None => None
  end.

(* store_local (the state after the in-place update) *)
Definition store_local (s : state) (x : nat) (v : variable) : state :=
  mkS (dset x v (locals s)) (scond s) (nadd x (wbc s)).

Definition get_locals (s : state) : list (nat * variable) := locals s.

(* with_condition *)
Definition with_condition (s : state) (c : cond) : state :=
  let c' := AndC [scond s; c] in
  mkS (fold_left (fun acc nv =>
                    if nmem (fst nv) (wbc s) then dset (fst nv) (snd nv) acc
                    else dset (fst nv) (var_with_condition (snd nv) c') acc)
                 (locals s) [])
      c' (wbc s).

(* the "both blocks define this variable" part of merge_into *)
Definition merge_vars (cur var : variable) : variable :=
  let d0 := fold_left (fun d b => dset (bval b) (bcond b) d) (vbindings cur) [] in
  let d1 := fold_left (fun d b =>
                         match dget (bval b) d with
                         | Some c => dset (bval b) (OrC [c; bcond b]) d
                         | None => dset (bval b) (bcond b) d
                         end) (vbindings var) d0 in
  mkV (map (fun kc => mkB (fst kc) (snd kc)) d1) None.

(* first loop of merge_into: accumulator (locals_, locals_with_block_condition) *)
Definition merge_step1 (s o : state) (acc : list (nat * variable) * list nat) (nv : nat * variable)
  : list (nat * variable) * list nat :=
  let (name, var) := nv in
  let same := match dget name (locals o) with
              | Some v' => var_eqb var v'
              | None => false
              end in
  if same then (dset name var (fst acc), nadd name (snd acc))
  else if nmem name (wbc s) then (dset name (var_with_condition var (scond s)) (fst acc), snd acc)
  else (dset name var (fst acc), snd acc).

(* second loop of merge_into: accumulator locals_ ; [w] is the finished locals_with_block_condition *)
Definition merge_step2 (o : state) (w : list nat) (acc : list (nat * variable)) (nv : nat * variable)
  : list (nat * variable) :=
  let (name, var) := nv in
  if nmem name w then acc
  else
    let var' := if nmem name (wbc o) then var_with_condition var (scond o) else var in
    match dget name acc with
    | None => dset name var' acc
    | Some cur => dset name (merge_vars cur var') acc
    end.

(* merge_into *)
Definition merge_into (s : state) (other : option state) : state :=
  match other with
  | None => mkS (locals s) (scond s) (wbc s)
  | Some o =>
      let c := OrC [scond s; scond o] in
      let r1 := fold_left (merge_step1 s o) (locals s) ([], []) in
      let l2 := fold_left (merge_step2 o (snd r1)) (locals o) (fst r1) in
      mkS l2 c (snd r1)
  end.

(* ------------------------------------------------------------------------------------------ *)
(* Meaning of a state: which values a local can have under a truth assignment.
   A binding of local [x] applies when its own condition holds and, if [x] is one of the locals
   that carry the block condition implicitly, the block condition holds too. *)

Definition blk (rho : nat -> bool) (s : state) (x : nat) : bool :=
  if nmem x (wbc s) then holds rho (scond s) else true.

Definition vals (rho : nat -> bool) (s : state) (x : nat) : list nat :=
  match dget x (locals s) with
  | None => []
  | Some v => map bval (filter (fun b => holds rho (bcond b) && blk rho s x) (vbindings v))
  end.

(* ------------------------------------------------------------------------------------------ *)
(* Histories of public operations ("built through the state's own operations").
   The harness runs exactly these programs on the real classes. *)

Inductive prog : Type :=
| PInit (l : list (nat * nat)) (c : cond)
    (* BlockState({x: Variable.from_value(v), ...}, c) *)
| PStore (p : prog) (x v : nat) (name : option nat)
    (* s.store_local(x, Variable.from_value(v, name=name)) *)
| PStoreLoad (p : prog) (x : nat) (q : prog) (y : nat)
    (* s.store_local(x, t.load_local(y)) *)
| PWith (p : prog) (c : cond)
    (* s.with_condition(c) *)
| PMerge (p q : prog)
    (* s.merge_into(t) *)
| PMergeNone (p : prog).
    (* s.merge_into(None) *)

Fixpoint run (p : prog) : option state :=
  match p with
  | PInit l c =>
      Some (new_state (fold_left (fun d xv => dset (fst xv) (from_value (snd xv) None) d) l []) c None)
  | PStore p x v name =>
      match run p with
      | Some s => Some (store_local s x (from_value v name))
      | None => None
      end
  | PStoreLoad p x q y =>
      match run p, run q with
      | Some s, Some t =>
          match load_local t y with
          | Some var => Some (store_local s x var)
          | None => None
          end
      | _, _ => None
      end
  | PWith p c =>
      match run p with
      | Some s => Some (with_condition s c)
      | None => None
      end
  | PMerge p q =>
      match run p, run q with
      | Some s, Some t => Some (merge_into s (Some t))
      | _, _ => None
      end
  | PMergeNone p =>
      match run p with
      | Some s => Some (merge_into s None)
      | None => None
      end
  end.

(* rendering used by the correspondence runner (plain pairs/lists print compactly) *)
Definition render_var (v : variable) : list (nat * cond) * option nat :=
  (map (fun b => (bval b, bcond b)) (vbindings v), vname v).
Definition render_state (s : state)
  : list (nat * (list (nat * cond) * option nat)) * cond * list nat :=
  (map (fun nv => (fst nv, render_var (snd nv))) (locals s), scond s, wbc s).
