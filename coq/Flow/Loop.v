(* C18 extension (loops): what FrameBase computes on block graphs WITH back edges.  Definitions only.

   The stepping model Flow/Frame.v (run_block, run_blocks, entry_state, run_frame) never assumed
   acyclicity: FrameBase.step walks code.order once, block by block, whatever the edges are.  When the
   last opcode of the block at position p merges a state into the id of a block at a position <= p
   (a back edge, or a jump of a block to itself), _merge_state_into replaces the entry of _states for
   that id by a NEW merged object, but that block has been processed already and its entry is never
   read again: the merged state is dead.  Only merges into blocks that are still to come are consumed.
   So the entry state of a block is the join over the enabled paths that use only FORWARD edges
   (edges from a position to a strictly later position of code.order). *)
From Coq Require Import List Bool.
From PV Require Import Flow.Model Flow.Frame.
Import ListNotations.

(* the edge from the block at position p to block id j goes forward: j is the id of no block at a
   position <= p  (with distinct ids: j is the id of a later block, or of no block at all) *)
Definition fwd_edge (code : list block) (p j : nat) : Prop :=
  forall q b', q <= p -> nth_error code q = Some b' -> bid b' <> j.

(* [arrivesFK code init rho k j e]: some control path from the entry block, enabled under rho, made of
   forward edges only, all leaving blocks at positions < k, reaches block id j with environment e *)
Inductive arrivesFK (code : list block) (init : list (nat * nat)) (rho : nat -> bool) (k : nat)
  : nat -> env -> Prop :=
| afk_entry : forall b, nth_error code 0 = Some b -> arrivesFK code init rho k (bid b) (init_env init)
| afk_step : forall p b e j,
    p < k -> nth_error code p = Some b ->
    arrivesFK code init rho k (bid b) e -> edge rho (bterm b) j -> fwd_edge code p j ->
    arrivesFK code init rho k j (apply_stores (bstores b) e).

(* all forward paths *)
Definition arrivesF (code : list block) (init : list (nat * nat)) (rho : nat -> bool)
  : nat -> env -> Prop := arrivesFK code init rho (length code).

(* last opcodes after which FrameBase.step merges the block's exit state into _FINAL:
   [not opcode.carry_on_to_next()], i.e. the NO_NEXT flag - RETURN-like opcodes and ALSO plain
   JUMP_FORWARD-like ones (quirk: the state at an unconditional jump is part of the "final" state) *)
Definition exits (t : term) : bool :=
  match t with
  | TJump _ | TRet => true
  | TFall _ | TCond _ _ _ => false
  end.

(* environments with which a forward path leaves the frame: exit environment of a block whose last
   opcode has NO_NEXT and that is reached through blocks at positions < k *)
Definition finalFK (code : list block) (init : list (nat * nat)) (rho : nat -> bool) (k : nat) (e' : env) : Prop :=
  exists p b e, p < k /\ nth_error code p = Some b /\ arrivesFK code init rho p (bid b) e /\
                exits (bterm b) = true /\ e' = apply_stores (bstores b) e.

Definition finalF (code : list block) (init : list (nat * nat)) (rho : nat -> bool) : env -> Prop :=
  finalFK code init rho (length code).
