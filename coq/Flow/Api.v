(* C18 extension: the rest of the public API of variables.py / state.py that Flow/Model.v did not
   have, and the well-formedness invariant of the terms conditions.py builds.  Definitions only.

   variables.py:  Variable.values, is_atomic(typ), get_atomic_value(typ), has_atomic_value(value),
                  with_value(value)         (with_name / from_value / with_condition are in Model.v)
   state.py:      load_local / get_locals are in Model.v; their specifications are in ApiProofs.v
   conditions.py: cond_wfb, the shape every term built by Not / And / Or from well-formed arguments has.

   A runtime type [typ] is modelled by its [isinstance] predicate on value ids ([None] = no type
   given).  get_atomic_value additionally passes the type through [typing.get_origin] (a subscripted
   generic such as list[int] is replaced by its origin class); the harness supplies, for each type it
   uses, the predicate of the class that is finally handed to isinstance ([gtyp]). *)
From Coq Require Import List Bool Arith.
From PV Require Import Flow.Model.
Import ListNotations.

(* ------------------------------------------------------------------------------------------ *)
(* variables.py *)

(* Variable.values *)
Definition var_values (v : variable) : list nat := map bval (vbindings v).

(* Variable.is_atomic(typ):  len(bindings) != 1 -> False;  typ is None -> True;  isinstance(values[0], typ) *)
Definition is_atomic (v : variable) (typ : option (nat -> bool)) : bool :=
  match vbindings v with
  | [b] => match typ with None => true | Some isinst => isinst (bval b) end
  | _ => false
  end.

(* the three ValueErrors of get_atomic_value *)
Inductive gav_error := TooFew | TooMany | WrongType.

(* Variable.get_atomic_value(typ) *)
Definition get_atomic_value (v : variable) (gtyp : option (nat -> bool)) : nat + gav_error :=
  match vbindings v with
  | [] => inr TooFew                      (* 'Too few bindings' : len(bindings) > 1 is false *)
  | [b] =>
      match gtyp with
      | None => inl (bval b)
      | Some isinst => if isinst (bval b) then inl (bval b) else inr WrongType
      end
  | _ :: _ :: _ => inr TooMany
  end.

(* Variable.has_atomic_value(value):  self.is_atomic() and self.values[0] == value *)
Definition has_atomic_value (v : variable) (value : nat) : bool :=
  match vbindings v with
  | [b] => Nat.eqb (bval b) value
  | _ => false
  end.

(* Variable.with_value(value):  assert len(bindings) == 1 (AssertionError = None);
   dataclasses.replace keeps the binding's condition and the variable's name *)
Definition with_value (v : variable) (value : nat) : option variable :=
  match vbindings v with
  | [b] => Some (mkV [mkB value (bcond b)] (vname v))
  | _ => None
  end.

(* which values a variable can have under a valuation (its own conditions only) *)
Definition var_vals (rho : nat -> bool) (v : variable) : list nat :=
  map bval (filter (fun b => holds rho (bcond b)) (vbindings v)).

(* ------------------------------------------------------------------------------------------ *)
(* conditions.py: the normal form of constructed terms.
   NOT guaranteed (and not claimed): flattening - And(And(a, b), c) keeps the inner _And as a member;
   absorption; Not(TRUE) is the term _Not(TRUE), not FALSE. *)

Definition is_not (c : cond) : bool := match c with CNot _ => true | _ => false end.
Definition is_const (c : cond) : bool := match c with CT | CF => true | _ => false end.

(* no two equal members (a frozenset cannot have them; the model's lists must not either) *)
Fixpoint nodupb (l : list cond) : bool :=
  match l with
  | [] => true
  | x :: t => negb (cmem x t) && nodupb t
  end.

(* no member is the (constructor-)negation of a member *)
Definition nocomplb (l : list cond) : bool := forallb (fun x => negb (cmem (NotC x) l)) l.

Fixpoint cond_wfb (c : cond) {struct c} : bool :=
  match c with
  | CT | CF | Atom _ => true
  | CNot x => negb (is_not x) && cond_wfb x           (* never a double negation *)
  | CAnd l =>
      (2 <=? length l) && forallb cond_wfb l && forallb (fun x => negb (is_const x)) l &&
      nodupb l && nocomplb l
  | COr l =>
      (2 <=? length l) && forallb cond_wfb l && forallb (fun x => negb (is_const x)) l &&
      nodupb l && nocomplb l
  end.

(* members of a composite *)
Definition members (c : cond) : list cond :=
  match c with CAnd l | COr l => l | _ => [] end.
Definition is_composite (c : cond) : bool := match c with CAnd _ | COr _ => true | _ => false end.

(* rendering for the correspondence runner *)
Definition render_gav (r : nat + gav_error) : nat * nat :=
  match r with inl v => (0, v) | inr TooFew => (1, 0) | inr TooMany => (2, 0) | inr WrongType => (3, 0) end.
