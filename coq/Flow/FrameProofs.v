(* C18 extension: the frame stepping of Flow/Frame.v computes exactly the path semantics on
   acyclic block graphs processed in topological order. *)
From Coq Require Import List Bool Arith PeanoNat Lia.
From PV Require Import Flow.Model Flow.Proofs Flow.Frame.
Import ListNotations.

(* ------------------------------------------------------------------------------------------ *)
(* a state "denotes" a set A of environments under rho: its value sets are the values the
   environments give, and its block condition holds iff A is inhabited *)

Definition ovals (rho : nat -> bool) (os : option state) (x : nat) : list nat :=
  match os with Some s => vals rho s x | None => [] end.
Definition oreach (rho : nat -> bool) (os : option state) : bool :=
  match os with Some s => holds rho (scond s) | None => false end.

Definition SpecO (rho : nat -> bool) (os : option state) (A : env -> Prop) : Prop :=
  (forall x v, In v (ovals rho os x) <-> exists e, A e /\ dget x e = Some v) /\
  (oreach rho os = true <-> exists e, A e).

Definition Spec (rho : nat -> bool) (s : state) (A : env -> Prop) : Prop := SpecO rho (Some s) A.

Lemma SpecO_ext : forall rho os (A B : env -> Prop),
  SpecO rho os A -> (forall e, A e <-> B e) -> SpecO rho os B.
Proof.
  intros rho os A B [H1 H2] E. split.
  - intros x v. rewrite H1. split; intros [e [Ha Hd]]; exists e; split; auto; apply E; auto.
  - rewrite H2. split; intros [e Ha]; exists e; apply E; auto.
Qed.

Lemma vals_store : forall rho s x v n y,
  vals rho (store_local s x (from_value v n)) y =
  if Nat.eqb y x then (if holds rho (scond s) then [v] else []) else vals rho s y.
Proof.
  intros rho s x v n y. unfold vals, store_local, blk. cbn [locals wbc scond].
  rewrite dget_dset, nmem_nadd. destruct (Nat.eqb y x) eqn:E.
  - cbn [orb from_value vbindings filter bcond bval holds map andb].
    destruct (holds rho (scond s)); reflexivity.
  - cbn [orb]. reflexivity.
Qed.

Lemma store_spec : forall rho s x v n A,
  Spec rho s A ->
  Spec rho (store_local s x (from_value v n)) (fun e' => exists e, A e /\ e' = dset x v e).
Proof.
  intros rho s x v n A [H1 H2]. unfold Spec, SpecO, ovals, oreach in *. split.
  - intros y val. rewrite vals_store. destruct (Nat.eqb y x) eqn:E.
    + apply Nat.eqb_eq in E. subst y. split.
      * intros Hin. destruct (holds rho (scond s)) eqn:Hh; [|destruct Hin].
        destruct Hin as [Hv|[]]. subst val. destruct (proj1 H2 eq_refl) as [e Ha].
        exists (dset x v e). split; [exists e; auto|]. rewrite dget_dset, Nat.eqb_refl. reflexivity.
      * intros [e' [[e [Ha Ee]] Hd]]. subst e'. rewrite dget_dset, Nat.eqb_refl in Hd. inversion Hd. subst.
        assert (holds rho (scond s) = true) as Hh by (apply H2; exists e; exact Ha).
        rewrite Hh. left. reflexivity.
    + rewrite H1. split.
      * intros [e [Ha Hd]]. exists (dset x v e). split; [exists e; auto|]. rewrite dget_dset, E. exact Hd.
      * intros [e' [[e [Ha Ee]] Hd]]. subst e'. rewrite dget_dset, E in Hd. exists e. auto.
  - cbn [store_local scond]. rewrite H2. split.
    + intros [e Ha]. exists (dset x v e), e. auto.
    + intros [e' [e [Ha _]]]. exists e. exact Ha.
Qed.

Lemma run_stores_spec : forall rho st s A,
  Inv s -> Spec rho s A ->
  Spec rho (run_stores st s) (fun e' => exists e, A e /\ e' = apply_stores st e).
Proof.
  intros rho st. induction st as [|[x v] t IH]; intros s A HI HS; cbn [run_stores apply_stores fold_left].
  - apply (SpecO_ext rho (Some s) A); auto. intros e. split; [intros; exists e; auto | intros [e0 [Ha E]]; subst; auto].
  - cbn [fst snd]. eapply SpecO_ext.
    + apply (IH (store_local s x (from_value v None)) (fun e' => exists e, A e /\ e' = dset x v e)).
      * apply Inv_store_lemma; auto. apply from_value_wf.
      * apply store_spec. exact HS.
    + intros e. split.
      * intros [e1 [[e0 [Ha E1]] E]]. subst. exists e0. auto.
      * intros [e0 [Ha E]]. exists (dset x v e0). split; [exists e0; auto | exact E].
Qed.

Lemma run_stores_Inv : forall st s, Inv s -> Inv (run_stores st s).
Proof.
  induction st as [|[x v] t IH]; intros s HI; cbn [run_stores fold_left]; auto.
  apply IH. apply Inv_store_lemma; auto. apply from_value_wf.
Qed.

Lemma with_spec : forall rho s c A,
  Inv s -> Spec rho s A -> Spec rho (with_condition s c) (fun e => holds rho c = true /\ A e).
Proof.
  intros rho s c A HI [H1 H2]. unfold Spec, SpecO, ovals, oreach in *. split.
  - intros x v. destruct (state_with_condition_exact_lemma rho s c x HI) as [Ev _]. rewrite Ev.
    destruct (holds rho c).
    + rewrite H1. split; intros [e [Ha Hd]]; exists e; tauto.
    + split; [intros [] | intros [e [[Hf _] _]]; discriminate].
  - destruct (state_with_condition_exact_lemma rho s c 0 HI) as [_ Ec]. rewrite Ec.
    destruct (holds rho c).
    + rewrite andb_true_r, H2. split; intros [e Ha]; exists e; tauto.
    + rewrite andb_false_r. split; [discriminate | intros [e [Hf _]]; discriminate].
Qed.

Lemma merge_spec : forall rho s1 os2 A1 A2,
  Inv s1 -> (forall s2, os2 = Some s2 -> Inv s2) ->
  Spec rho s1 A1 -> SpecO rho os2 A2 ->
  Spec rho (merge_into s1 os2) (fun e => A1 e \/ A2 e) /\ Inv (merge_into s1 os2).
Proof.
  intros rho s1 os2 A1 A2 I1 I2 [H1 H1'] [H2 H2']. destruct os2 as [s2|].
  - specialize (I2 s2 eq_refl). split; [|apply Inv_merge_lemma; auto].
    unfold Spec, SpecO, ovals, oreach in *. split.
    + intros x v. destruct (merge_union_lemma rho s1 s2 x I1 I2) as [Ev _]. rewrite Ev, H1, H2.
      split.
      * intros [[e [Ha Hd]]|[e [Ha Hd]]]; exists e; auto.
      * intros [e [[Ha|Ha] Hd]]; [left|right]; exists e; auto.
    + destruct (merge_union_lemma rho s1 s2 0 I1 I2) as [_ Ec]. rewrite Ec, orb_true_iff, H1', H2'.
      split.
      * intros [[e Ha]|[e Ha]]; exists e; auto.
      * intros [e [Ha|Ha]]; [left|right]; exists e; auto.
  - rewrite merge_none_lemma. split; [|exact I1].
    assert (forall e, ~ A2 e) as N.
    { intros e Ha. unfold oreach in H2'. assert (false = true) by (apply H2'; exists e; exact Ha). discriminate. }
    apply (SpecO_ext rho (Some s1) A1); [split; assumption|].
    intros e. split; [auto | intros [Ha|Ha]; [auto | destruct (N e Ha)]].
Qed.

(* ------------------------------------------------------------------------------------------ *)
(* well-formed (forward) code *)

Lemma nmem_cons : forall x y s, nmem x (y :: s) = Nat.eqb x y || nmem x s.
Proof. reflexivity. Qed.

Lemma fwd_spec : forall code seen, fwd seen code = true ->
  NoDup (map bid code) /\
  (forall b, In b code -> nmem (bid b) seen = false) /\
  (forall p b t, nth_error code p = Some b -> In t (targets (bterm b)) ->
     nmem t seen = false /\
     forall q b', nth_error code q = Some b' -> bid b' = t -> p < q).
Proof.
  induction code as [|b0 rest IH]; intros seen H.
  - split; [constructor|]. split; [intros ? []|]. intros [|p] b t Hn; discriminate.
  - cbn [fwd] in H. apply andb_prop in H. destruct H as [H H3]. apply andb_prop in H. destruct H as [H1 H2].
    apply negb_true_iff in H1. rewrite forallb_forall in H2.
    destruct (IH _ H3) as [Hnd [Hseen Htg]].
    assert (forall b, In b rest -> bid b <> bid b0 /\ nmem (bid b) seen = false) as Hrest.
    { intros b Hb. specialize (Hseen b Hb). rewrite nmem_cons in Hseen. apply orb_false_iff in Hseen.
      destruct Hseen as [Hne Hs]. apply Nat.eqb_neq in Hne. auto. }
    split; [|split].
    + cbn [map]. constructor; auto. intros Hin. apply in_map_iff in Hin. destruct Hin as [b [E Hb]].
      destruct (Hrest b Hb) as [Hne _]. auto.
    + intros b [E|Hb]; [subst; auto | apply Hrest; auto].
    + intros p b t Hn Ht. destruct p as [|p]; cbn [nth_error] in Hn.
      * inversion Hn. subst b. specialize (H2 t Ht). apply negb_true_iff in H2. rewrite nmem_cons in H2.
        apply orb_false_iff in H2. destruct H2 as [Hne Hs]. apply Nat.eqb_neq in Hne. split; auto.
        intros q b' Hq E. destruct q as [|q]; [|lia]. cbn [nth_error] in Hq. inversion Hq. subst. congruence.
      * destruct (Htg p b t Hn Ht) as [Hs Hq]. rewrite nmem_cons in Hs. apply orb_false_iff in Hs.
        destruct Hs as [Hne Hs]. apply Nat.eqb_neq in Hne. split; auto.
        intros q b' Hq' E. destruct q as [|q]; cbn [nth_error] in Hq'.
        -- inversion Hq'. subst. congruence.
        -- specialize (Hq q b' Hq' E). lia.
Qed.

Lemma wf_forward : forall code p b t q b',
  wf_code code = true -> nth_error code p = Some b -> In t (targets (bterm b)) ->
  nth_error code q = Some b' -> bid b' = t -> p < q.
Proof.
  intros code p b t q b' H Hp Ht Hq E. destruct (fwd_spec code [] H) as [_ [_ Htg]].
  destruct (Htg p b t Hp Ht) as [_ Hlt]. eauto.
Qed.

Lemma wf_unique : forall code p q b b',
  wf_code code = true -> nth_error code p = Some b -> nth_error code q = Some b' ->
  bid b = bid b' -> p = q.
Proof.
  intros code p q b b' H Hp Hq E. destruct (fwd_spec code [] H) as [Hnd _].
  rewrite NoDup_nth_error in Hnd. apply Hnd.
  - rewrite map_length. apply nth_error_Some. congruence.
  - rewrite (map_nth_error bid _ _ Hp), (map_nth_error bid _ _ Hq). congruence.
Qed.

(* ------------------------------------------------------------------------------------------ *)
(* arrivals *)

Section Arrivals.
  Variable code : list block.
  Variable init : list (nat * nat).
  Variable rho : nat -> bool.
  Hypothesis WF : wf_code code = true.

  Lemma arrivesK_mono : forall k k' j e, arrivesK code init rho k j e -> k <= k' -> arrivesK code init rho k' j e.
  Proof.
    intros k k' j e H Hle. induction H.
    - apply ak_entry. assumption.
    - eapply ak_step; eauto. lia.
  Qed.

  Lemma edge_targets : forall t j, edge rho t j -> In j (targets t).
  Proof.
    intros t j H. unfold edge in H. destruct t; simpl in *.
    - destruct H as [H|[]]. inversion H. auto.
    - destruct H as [H|[]]. inversion H. auto.
    - destruct H as [H|[H|[]]]; inversion H; auto.
    - destruct H.
  Qed.

  Lemma arrivesK_restrict : forall k j e, arrivesK code init rho k j e ->
    forall p b, nth_error code p = Some b -> bid b = j -> arrivesK code init rho p j e.
  Proof.
    intros k j e H. induction H as [b0 H0 | q bq e j Hq Hnq Hsrc IH Hedge]; intros p b Hp E.
    - apply ak_entry. assumption.
    - assert (q < p) as Hlt.
      { eapply (wf_forward code q bq j p b); eauto. apply edge_targets. exact Hedge. }
      eapply ak_step; eauto. eapply arrivesK_mono; [apply (IH q bq Hnq eq_refl)|lia].
  Qed.

  Lemma arrivesK_succ : forall k b j e, nth_error code k = Some b ->
    (arrivesK code init rho (S k) j e <->
     arrivesK code init rho k j e \/
     (In (true, j) (sem_outs rho (bterm b)) /\
      exists e0, arrivesK code init rho k (bid b) e0 /\ e = apply_stores (bstores b) e0)).
  Proof.
    intros k b j e Hk. split.
    - intros H. inversion H as [b0 H0 | q bq e0 j' Hq Hnq Hsrc Hedge]; subst.
      + left. apply ak_entry. assumption.
      + assert (arrivesK code init rho q (bid bq) e0) as Hr by (eapply arrivesK_restrict; eauto).
        destruct (Nat.eq_dec q k) as [E|Hne].
        * subst q. rewrite Hk in Hnq. inversion Hnq. subst bq. right. split; [exact Hedge|].
          exists e0. auto.
        * left. eapply ak_step; eauto; [lia|]. eapply arrivesK_mono; eauto. lia.
    - intros [H|[Hedge [e0 [H E]]]].
      + eapply arrivesK_mono; eauto.
      + subst e. eapply (ak_step code init rho (S k) k b e0 j); auto.
        eapply arrivesK_mono; eauto.
  Qed.

  Lemma arrivesK_zero : forall j e, arrivesK code init rho 0 j e ->
    exists b, nth_error code 0 = Some b /\ j = bid b /\ e = init_env init.
  Proof.
    intros j e H. inversion H as [b0 H0 | q bq e0 j' Hq]; subst.
    - exists b0. auto.
    - lia.
  Qed.
End Arrivals.

(* ------------------------------------------------------------------------------------------ *)
(* the merges performed when a block is left *)

Definition outs_of (t : term) (s : state) : list (state * nat) :=
  match t with
  | TFall n => [(s, n)]
  | TJump j => [(s, j)]
  | TCond a j n => [(with_condition s (NotC (Atom a)), j); (with_condition s (Atom a), n)]
  | TRet => []
  end.

Definition merge_all (st : list (nat * state)) (outs : list (state * nat)) : list (nat * state) :=
  fold_left (fun st sn => dset (snd sn) (merge_into (fst sn) (dget (snd sn) st)) st) outs st.

Lemma run_block_states : forall f b f', run_block f b = Some f' ->
  exists cur, dget (bid b) (fstates f) = Some cur /\
    fstates f' = merge_all (dset (bid b) (run_stores (bstores b) cur) (fstates f))
                           (outs_of (bterm b) (run_stores (bstores b) cur)).
Proof.
  intros f b f' H. unfold run_block in H. destruct (dget (bid b) (fstates f)) as [cur|]; [|discriminate].
  exists cur. split; auto. inversion H. destruct (bterm b); reflexivity.
Qed.

Definition all_Inv (st : list (nat * state)) : Prop := forall j s, dget j st = Some s -> Inv s.

Lemma merge_all_Inv : forall outs st,
  (forall sn, In sn outs -> Inv (fst sn)) -> all_Inv st -> all_Inv (merge_all st outs).
Proof.
  induction outs as [|[s t] rest IH]; intros st Ho Hs; cbn [merge_all fold_left]; auto.
  apply IH.
  - intros sn Hin. apply Ho. right. exact Hin.
  - intros j s' Hd. cbn [fst snd] in Hd. rewrite dget_dset in Hd. destruct (Nat.eqb j t).
    + inversion Hd. subst s'. destruct (dget t st) as [s2|] eqn:E.
      * apply Inv_merge_lemma; [apply (Ho (s, t)); left; reflexivity | eapply Hs; eauto].
      * rewrite merge_none_lemma. apply (Ho (s, t)). left. reflexivity.
    + eapply Hs; eauto.
Qed.

Lemma outs_Inv : forall t s, Inv s -> forall sn, In sn (outs_of t s) -> Inv (fst sn).
Proof.
  intros t s HI sn Hin. destruct t; simpl in Hin.
  - destruct Hin as [E|[]]. subst. exact HI.
  - destruct Hin as [E|[]]. subst. exact HI.
  - destruct Hin as [E|[E|[]]]; subst; apply Inv_with_condition_lemma; exact HI.
  - destruct Hin.
Qed.

Lemma merge_all_spec : forall rho (Aex : env -> Prop) outs sem,
  Forall2 (fun (sn : state * nat) (en : bool * nat) =>
             snd sn = snd en /\ Inv (fst sn) /\
             Spec rho (fst sn) (fun e => fst en = true /\ Aex e)) outs sem ->
  forall st j A, all_Inv st -> SpecO rho (dget j st) A ->
  SpecO rho (dget j (merge_all st outs)) (fun e => A e \/ (In (true, j) sem /\ Aex e)).
Proof.
  intros rho Aex outs sem F. induction F as [|[s t] [en t'] outs sem [Et [Is Ss]] F IH]; intros st j A Hs HA.
  - cbn [merge_all fold_left]. eapply SpecO_ext; eauto. intros e. simpl. tauto.
  - cbn [fst snd] in *. subst t'. cbn [merge_all fold_left fst snd].
    set (st1 := dset t (merge_into s (dget t st)) st).
    assert (all_Inv st1) as Hs1.
    { intros j' s' Hd. unfold st1 in Hd. rewrite dget_dset in Hd. destruct (Nat.eqb j' t).
      - inversion Hd. subst s'. destruct (dget t st) as [s2|] eqn:E.
        + apply Inv_merge_lemma; [exact Is | eapply Hs; eauto].
        + rewrite merge_none_lemma. exact Is.
      - eapply Hs; eauto. }
    destruct (Nat.eqb j t) eqn:Ejt.
    + apply Nat.eqb_eq in Ejt. subst t.
      assert (SpecO rho (dget j st1) (fun e => (en = true /\ Aex e) \/ A e)) as H1.
      { unfold st1. rewrite dget_dset, Nat.eqb_refl.
        apply (merge_spec rho s (dget j st) _ A); auto. intros s2 E. eapply Hs; eauto. }
      eapply SpecO_ext; [apply (IH st1 j _ Hs1 H1)|].
      intros e. simpl. split.
      * intros [[[E Ha]|Ha]|[Hin Ha]]; auto.
        -- right. split; auto. left. subst en. reflexivity.
      * intros [Ha|[[E|Hin] Ha]]; auto.
        -- left. left. inversion E. auto.
    + assert (SpecO rho (dget j st1) A) as H1.
      { unfold st1. rewrite dget_dset, Ejt. exact HA. }
      eapply SpecO_ext; [apply (IH st1 j _ Hs1 H1)|].
      intros e. simpl. split.
      * intros [Ha|[Hin Ha]]; auto.
      * intros [Ha|[[E|Hin] Ha]]; auto.
        inversion E. subst. rewrite Nat.eqb_refl in Ejt. discriminate.
Qed.

Lemma outs_sem : forall rho t s (Aex : env -> Prop),
  Inv s -> Spec rho s Aex ->
  Forall2 (fun (sn : state * nat) (en : bool * nat) =>
             snd sn = snd en /\ Inv (fst sn) /\
             Spec rho (fst sn) (fun e => fst en = true /\ Aex e))
          (outs_of t s) (sem_outs rho t).
Proof.
  intros rho t s Aex HI HS.
  assert (Spec rho s (fun e => true = true /\ Aex e)) as HS'.
  { eapply SpecO_ext; eauto. intros e. tauto. }
  destruct t; simpl.
  - constructor; [|constructor]. simpl. auto.
  - constructor; [|constructor]. simpl. auto.
  - constructor; [|constructor; [|constructor]]; cbn [fst snd].
    + split; auto. split; [apply Inv_with_condition_lemma; auto|].
      apply (with_spec rho s (NotC (Atom a)) Aex HI HS).
    + split; auto. split; [apply Inv_with_condition_lemma; auto|].
      apply (with_spec rho s (Atom a) Aex HI HS).
  - constructor.
Qed.

(* ------------------------------------------------------------------------------------------ *)
(* the frame invariant *)

Section Frame.
  Variable code : list block.
  Variable init : list (nat * nat).
  Hypothesis WF : wf_code code = true.

  (* after the first k blocks: every recorded state satisfies Inv, and the state recorded for
     any not yet processed block id denotes exactly the environments arriving there along
     enabled paths through the processed blocks *)
  Definition InvF (k : nat) (f : frame) : Prop :=
    all_Inv (fstates f) /\
    forall j, (forall q b', q < k -> nth_error code q = Some b' -> bid b' <> j) ->
    forall rho, SpecO rho (dget j (fstates f)) (arrivesK code init rho k j).

  Lemma init_locals_get : forall l x,
    dget x (init_locals l) = option_map (fun v => from_value v None) (dget x (init_env l)).
  Proof.
    intros l x. unfold init_locals, init_env, apply_stores.
    assert (forall (d : list (nat * variable)) (e : env),
              dget x d = option_map (fun v => from_value v None) (dget x e) ->
              dget x (fold_left (fun d xv => dset (fst xv) (from_value (snd xv) None) d) l d) =
              option_map (fun v => from_value v None)
                         (dget x (fold_left (fun e xv => dset (fst xv) (snd xv) e) l e))) as G.
    { induction l as [|[y v] t IH]; intros d e H; simpl; auto.
      apply IH. rewrite !dget_dset. destruct (Nat.eqb x y); auto. }
    apply G. reflexivity.
  Qed.

  Lemma init_state_Inv : forall l c, Inv (new_state (init_locals l) c None).
  Proof.
    intros l c. apply Inv_init_lemma.
    - unfold init_locals. apply fold_inv; [constructor|]. intros acc a _ Ha. apply dset_keys_NoDup. exact Ha.
    - unfold init_locals.
      apply (fold_inv _ _ (fun d : list (nat * variable) => forall x v, In (x, v) d -> wfvar v)).
      + intros ? ? [].
      + intros acc a _ Ha x v Hin. destruct (dset_in _ _ _ _ _ _ Hin) as [[_ E]|Hold]; [|eauto].
        subst. apply from_value_wf.
  Qed.

  Lemma init_state_spec : forall rho,
    Spec rho (new_state (init_locals init) CT None) (fun e => e = init_env init).
  Proof.
    intros rho. unfold Spec, SpecO, ovals, oreach. split.
    - intros x v. unfold vals, blk. cbn [new_state locals wbc scond holds].
      rewrite init_locals_get. destruct (dget x (init_env init)) as [v0|] eqn:E; cbn [option_map].
      + assert (nmem x (keys_set (init_locals init)) = true) as Hm.
        { apply keys_set_mem. eapply dget_in_keys. rewrite init_locals_get, E. reflexivity. }
        rewrite Hm. cbn. split.
        * intros [Hv|[]]. subst. exists (init_env init). auto.
        * intros [e [Ee Hd]]. subst e. rewrite E in Hd. inversion Hd. auto.
      + split; [intros []|]. intros [e [Ee Hd]]. subst e. rewrite E in Hd. discriminate.
    - cbn. split; [intros _; exists (init_env init); reflexivity | reflexivity].
  Qed.

  Lemma InvF_init : forall f, init_frame code init = Some f -> InvF 0 f.
  Proof.
    intros f H. unfold init_frame in H. destruct code as [|b0 rest] eqn:Ec; [discriminate|].
    inversion H. subst f. clear H. split.
    - intros j s Hd. cbn [fstates dget] in Hd. destruct (Nat.eqb j (bid b0)); inversion Hd.
      apply init_state_Inv.
    - intros j _ rho. cbn [fstates dget]. destruct (Nat.eqb j (bid b0)) eqn:E.
      + apply Nat.eqb_eq in E. subst j. eapply SpecO_ext; [apply init_state_spec|].
        intros e. split.
        * intros Ee. subst e. apply ak_entry. rewrite Ec. reflexivity.
        * intros Ha. destruct (arrivesK_zero _ _ _ _ _ Ha) as [b [_ [_ Ee]]]. exact Ee.
      + split.
        * intros x v. split; [intros []|]. intros [e [Ha _]].
          destruct (arrivesK_zero _ _ _ _ _ Ha) as [b [Hb [Ej _]]]. rewrite Ec in Hb. cbn [nth_error] in Hb. inversion Hb. subst.
          rewrite Nat.eqb_refl in E. discriminate.
        * split; [discriminate|]. intros [e Ha].
          destruct (arrivesK_zero _ _ _ _ _ Ha) as [b [Hb [Ej _]]]. rewrite Ec in Hb. cbn [nth_error] in Hb. inversion Hb. subst.
          rewrite Nat.eqb_refl in E. discriminate.
  Qed.

  Lemma InvF_step : forall k f b f',
    InvF k f -> nth_error code k = Some b -> run_block f b = Some f' -> InvF (S k) f'.
  Proof.
    intros k f b f' [HI HS] Hk Hrun.
    destruct (run_block_states _ _ _ Hrun) as [cur [Hcur Hst]].
    assert (Inv cur) as Icur by (eapply HI; eauto).
    assert (forall q b', q < k -> nth_error code q = Some b' -> bid b' <> bid b) as Hfresh.
    { intros q b' Hq Hnq E. assert (q = k) by (eapply wf_unique; eauto). lia. }
    set (cur' := run_stores (bstores b) cur) in *.
    assert (Inv cur') as Icur' by (apply run_stores_Inv; exact Icur).
    set (st0 := dset (bid b) cur' (fstates f)) in *.
    assert (all_Inv st0) as Hs0.
    { intros j s Hd. unfold st0 in Hd. rewrite dget_dset in Hd. destruct (Nat.eqb j (bid b)).
      - inversion Hd. subst. exact Icur'.
      - eapply HI; eauto. }
    split.
    - rewrite Hst. apply merge_all_Inv; auto. apply outs_Inv. exact Icur'.
    - intros j Hj rho. rewrite Hst.
      assert (j <> bid b) as Hne.
      { intros E. apply (Hj k b); auto. }
      assert (forall q b', q < k -> nth_error code q = Some b' -> bid b' <> j) as Hj'.
      { intros q b' Hq Hnq. apply (Hj q b'); [lia | exact Hnq]. }
      set (Aex := fun e' => exists e, arrivesK code init rho k (bid b) e /\ e' = apply_stores (bstores b) e).
      assert (Spec rho cur' Aex) as Scur'.
      { apply run_stores_spec; auto. unfold Spec. rewrite <- Hcur. apply HS. exact Hfresh. }
      assert (SpecO rho (dget j st0) (arrivesK code init rho k j)) as Sj.
      { unfold st0. rewrite dget_dset. apply Nat.eqb_neq in Hne. rewrite Hne. apply HS. exact Hj'. }
      eapply SpecO_ext.
      + apply (merge_all_spec rho Aex _ _ (outs_sem rho (bterm b) cur' Aex Icur' Scur') st0 j _ Hs0 Sj).
      + intros e. rewrite (arrivesK_succ code init rho WF k b j e Hk). unfold Aex. split.
        * intros [Ha|[Hin [e0 [Ha E]]]]; auto. right. split; auto. exists e0. auto.
        * intros [Ha|[Hin [e0 [Ha E]]]]; auto. right. split; auto. exists e0. auto.
  Qed.

  Lemma run_blocks_app : forall l1 l2 f,
    run_blocks (l1 ++ l2) f = match run_blocks l1 f with Some f' => run_blocks l2 f' | None => None end.
  Proof.
    induction l1 as [|b t IH]; intros l2 f; simpl; auto.
    destruct (run_block f b); auto.
  Qed.

  Lemma firstn_succ : forall (l : list block) p b, nth_error l p = Some b -> firstn (S p) l = firstn p l ++ [b].
  Proof.
    induction l as [|a t IH]; intros [|p] b H; simpl in *; try discriminate.
    - inversion H. reflexivity.
    - f_equal. apply IH. exact H.
  Qed.

  Lemma InvF_prefix : forall p f, p <= length code -> run_prefix code init p = Some f -> InvF p f.
  Proof.
    induction p as [|p IH]; intros f Hle H; unfold run_prefix in *.
    - destruct (init_frame code init) as [f0|] eqn:E; [|discriminate]. simpl in H. inversion H. subst.
      apply InvF_init. exact E.
    - destruct (init_frame code init) as [f0|] eqn:E; [|discriminate].
      destruct (nth_error code p) as [b|] eqn:Hb; [|apply nth_error_None in Hb; lia].
      rewrite (firstn_succ _ _ _ Hb), run_blocks_app in H.
      destruct (run_blocks (firstn p code) f0) as [f1|] eqn:E1; [|discriminate].
      simpl in H. destruct (run_block f1 b) as [f2|] eqn:E2; [|discriminate]. inversion H. subst f2.
      eapply InvF_step; eauto. apply IH; [lia|]. reflexivity.
  Qed.

  Lemma frame_join_exact_lemma : forall p b s,
    nth_error code p = Some b -> entry_state code init p = Some s ->
    Inv s /\
    forall rho,
      (forall x v, In v (vals rho s x) <->
                   exists e, arrives code init rho (bid b) e /\ dget x e = Some v) /\
      (holds rho (scond s) = true <-> exists e, arrives code init rho (bid b) e).
  Proof.
    intros p b s Hb He. unfold entry_state in He.
    destruct (run_prefix code init p) as [f|] eqn:Ef; [|discriminate]. rewrite Hb in He.
    assert (p < length code) as Hp by (apply nth_error_Some; congruence).
    destruct (InvF_prefix p f (Nat.lt_le_incl _ _ Hp) Ef) as [HI HS].
    split; [eapply HI; eauto|]. intros rho.
    assert (forall q b', q < p -> nth_error code q = Some b' -> bid b' <> bid b) as Hfresh.
    { intros q b' Hq Hnq E. assert (q = p) by (eapply wf_unique; eauto). lia. }
    specialize (HS (bid b) Hfresh rho). rewrite He in HS.
    assert (SpecO rho (Some s) (arrives code init rho (bid b))) as [H1 H2].
    { eapply SpecO_ext; [exact HS|]. intros e. unfold arrives. split.
      - intros Ha. eapply arrivesK_mono; eauto. lia.
      - intros Ha. eapply arrivesK_restrict; eauto. }
    split; assumption.
  Qed.
End Frame.

(* a block that some enabled path reaches has a recorded state when it is processed *)
Lemma frame_reached_has_state_lemma : forall code init p b f rho e,
  wf_code code = true -> nth_error code p = Some b -> run_prefix code init p = Some f ->
  arrives code init rho (bid b) e -> exists s, entry_state code init p = Some s.
Proof.
  intros code init p b f rho e WF Hb Ef Ha. unfold entry_state. rewrite Ef, Hb.
  assert (p < length code) as Hp by (apply nth_error_Some; congruence).
  destruct (InvF_prefix code init WF p f (Nat.lt_le_incl _ _ Hp) Ef) as [_ HS].
  assert (forall q b', q < p -> nth_error code q = Some b' -> bid b' <> bid b) as Hfresh.
  { intros q b' Hq Hnq E. assert (q = p) by (eapply wf_unique; eauto). lia. }
  destruct (HS (bid b) Hfresh rho) as [_ H2].
  destruct (dget (bid b) (fstates f)) as [s|]; [eauto|].
  assert (false = true) as X; [|discriminate]. apply H2. exists e.
  eapply arrivesK_restrict; eauto.
Qed.
