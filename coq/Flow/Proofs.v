(* C18 proofs over the model Flow/Model.v. *)
From Coq Require Import List Bool Arith PeanoNat Lia.
From PV Require Import Flow.Model.
Import ListNotations.

(* ------------------------------------------------------------------------------------------ *)
(* induction principle for the nested type *)

Section CondInd.
  Variable P : cond -> Prop.
  Hypothesis HT : P CT.
  Hypothesis HF : P CF.
  Hypothesis HA : forall a, P (Atom a).
  Hypothesis HN : forall c, P c -> P (CNot c).
  Hypothesis HAnd : forall l, Forall P l -> P (CAnd l).
  Hypothesis HOr : forall l, Forall P l -> P (COr l).

  Fixpoint cond_ind' (c : cond) : P c :=
    match c with
    | CT => HT
    | CF => HF
    | Atom a => HA a
    | CNot x => HN x (cond_ind' x)
    | CAnd l => HAnd l ((fix go (l : list cond) : Forall P l :=
                           match l with
                           | [] => Forall_nil P
                           | x :: t => Forall_cons x (cond_ind' x) (go t)
                           end) l)
    | COr l => HOr l ((fix go (l : list cond) : Forall P l :=
                         match l with
                         | [] => Forall_nil P
                         | x :: t => Forall_cons x (cond_ind' x) (go t)
                         end) l)
    end.
End CondInd.

(* ------------------------------------------------------------------------------------------ *)
(* conditions *)

Lemma bool_eq_iff : forall a b : bool, (a = true <-> b = true) -> a = b.
Proof. intros [] [] [H1 H2]; auto; try (symmetry; auto); discriminate (H1 eq_refl) || discriminate (H2 eq_refl). Qed.

Lemma set_sem_eq : forall (f : cond -> bool) l1 l2,
  (forall x, In x l1 -> exists y, In y l2 /\ f x = f y) ->
  (forall y, In y l2 -> exists x, In x l1 /\ f x = f y) ->
  forallb f l1 = forallb f l2 /\ existsb f l1 = existsb f l2.
Proof.
  intros f l1 l2 H1 H2. split; apply bool_eq_iff.
  - rewrite !forallb_forall. split; intros H z Hz.
    + destruct (H2 z Hz) as [x [Hx E]]. rewrite <- E. auto.
    + destruct (H1 z Hz) as [y [Hy E]]. rewrite E. auto.
  - rewrite !existsb_exists. split; intros [z [Hz Hf]].
    + destruct (H1 z Hz) as [y [Hy E]]. exists y. split; auto. congruence.
    + destruct (H2 z Hz) as [x [Hx E]]. exists x. split; auto. congruence.
Qed.

Lemma cond_eqb_sound : forall rho a b, cond_eqb a b = true -> holds rho a = holds rho b.
Proof.
  intros rho a. induction a using cond_ind'; intros b E; destruct b; simpl in E; try discriminate; simpl.
  - reflexivity.
  - reflexivity.
  - apply Nat.eqb_eq in E. subst. reflexivity.
  - f_equal. auto.
  - apply andb_prop in E. destruct E as [E1 E2].
    rewrite forallb_forall in E1, E2. rewrite Forall_forall in H.
    apply (set_sem_eq (holds rho) l l0).
    + intros x Hx. specialize (E1 x Hx). apply existsb_exists in E1. destruct E1 as [y [Hy E]].
      exists y. split; auto.
    + intros y Hy. specialize (E2 y Hy). apply existsb_exists in E2. destruct E2 as [x [Hx E]].
      exists x. split; auto.
  - apply andb_prop in E. destruct E as [E1 E2].
    rewrite forallb_forall in E1, E2. rewrite Forall_forall in H.
    apply (set_sem_eq (holds rho) l l0).
    + intros x Hx. specialize (E1 x Hx). apply existsb_exists in E1. destruct E1 as [y [Hy E]].
      exists y. split; auto.
    + intros y Hy. specialize (E2 y Hy). apply existsb_exists in E2. destruct E2 as [x [Hx E]].
      exists x. split; auto.
Qed.

Lemma cond_eqb_refl : forall a, cond_eqb a a = true.
Proof.
  induction a using cond_ind'; simpl; auto.
  - apply Nat.eqb_refl.
  - rewrite Forall_forall in H.
    assert (forallb (fun x => existsb (fun y => cond_eqb x y) l) l = true) as E.
    { apply forallb_forall. intros x Hx. apply existsb_exists. exists x. auto. }
    assert (forallb (fun y => existsb (fun x => cond_eqb x y) l) l = true) as E'.
    { apply forallb_forall. intros x Hx. apply existsb_exists. exists x. auto. }
    rewrite E, E'. reflexivity.
  - rewrite Forall_forall in H.
    assert (forallb (fun x => existsb (fun y => cond_eqb x y) l) l = true) as E.
    { apply forallb_forall. intros x Hx. apply existsb_exists. exists x. auto. }
    assert (forallb (fun y => existsb (fun x => cond_eqb x y) l) l = true) as E'.
    { apply forallb_forall. intros x Hx. apply existsb_exists. exists x. auto. }
    rewrite E, E'. reflexivity.
Qed.

Lemma holds_NotC : forall rho c, holds rho (NotC c) = negb (holds rho c).
Proof. intros rho c. destruct c; simpl; try reflexivity. rewrite negb_involutive. reflexivity. Qed.

Lemma cmem_sound : forall rho c s, cmem c s = true -> exists y, In y s /\ holds rho y = holds rho c.
Proof.
  intros rho c s H. unfold cmem in H. apply existsb_exists in H. destruct H as [y [Hy E]].
  exists y. split; auto. symmetry. apply cond_eqb_sound. exact E.
Qed.

Lemma forallb_cadd : forall rho c s,
  forallb (holds rho) (cadd c s) = forallb (holds rho) s && holds rho c.
Proof.
  intros rho c s. unfold cadd. destruct (cmem c s) eqn:E.
  - destruct (cmem_sound rho c s E) as [y [Hy Ey]].
    destruct (forallb (holds rho) s) eqn:F; simpl; auto.
    rewrite forallb_forall in F. rewrite <- Ey. symmetry. auto.
  - rewrite forallb_app. simpl. rewrite andb_true_r. reflexivity.
Qed.

Lemma existsb_cadd : forall rho c s,
  existsb (holds rho) (cadd c s) = existsb (holds rho) s || holds rho c.
Proof.
  intros rho c s. unfold cadd. destruct (cmem c s) eqn:E.
  - destruct (cmem_sound rho c s E) as [y [Hy Ey]].
    destruct (holds rho c) eqn:Hc.
    + rewrite orb_true_r. apply existsb_exists. exists y. auto.
    + rewrite orb_false_r. reflexivity.
  - rewrite existsb_app. simpl. rewrite orb_false_r. reflexivity.
Qed.

Lemma and_loop_sem : forall rho args s,
  match make_loop KAnd args s with
  | inl c => holds rho c = forallb (holds rho) s && forallb (holds rho) args
  | inr s' => forallb (holds rho) s' = forallb (holds rho) s && forallb (holds rho) args
  end.
Proof.
  intros rho args. induction args as [|arg rest IH]; intros s; cbn [make_loop forallb].
  - rewrite andb_true_r. reflexivity.
  - destruct (is_ignore KAnd arg) eqn:Ei.
    + assert (holds rho arg = true) as Ha by (destruct arg; simpl in Ei; try discriminate; reflexivity).
      rewrite Ha. simpl. apply IH.
    + destruct (is_accept KAnd arg) eqn:Ea.
      * assert (holds rho arg = false) as Ha by (destruct arg; simpl in Ea; try discriminate; reflexivity).
        rewrite Ha. simpl. rewrite andb_false_r. reflexivity.
      * destruct (cmem (NotC arg) s) eqn:Em.
        -- destruct (cmem_sound rho _ _ Em) as [y [Hy Ey]]. rewrite holds_NotC in Ey. simpl.
           destruct (holds rho arg) eqn:Ha; simpl.
           ++ assert (forallb (holds rho) s = false) as F.
              { destruct (forallb (holds rho) s) eqn:F; auto. rewrite forallb_forall in F.
                rewrite (F y Hy) in Ey. discriminate. }
              rewrite F. reflexivity.
           ++ rewrite andb_false_r. reflexivity.
        -- specialize (IH (cadd arg s)). destruct (make_loop KAnd rest (cadd arg s)).
           ++ rewrite IH, forallb_cadd, andb_assoc. reflexivity.
           ++ rewrite IH, forallb_cadd, andb_assoc. reflexivity.
Qed.

Lemma or_loop_sem : forall rho args s,
  match make_loop KOr args s with
  | inl c => holds rho c = existsb (holds rho) s || existsb (holds rho) args
  | inr s' => existsb (holds rho) s' = existsb (holds rho) s || existsb (holds rho) args
  end.
Proof.
  intros rho args. induction args as [|arg rest IH]; intros s; cbn [make_loop existsb].
  - rewrite orb_false_r. reflexivity.
  - destruct (is_ignore KOr arg) eqn:Ei.
    + assert (holds rho arg = false) as Ha by (destruct arg; simpl in Ei; try discriminate; reflexivity).
      rewrite Ha. simpl. apply IH.
    + destruct (is_accept KOr arg) eqn:Ea.
      * assert (holds rho arg = true) as Ha by (destruct arg; simpl in Ea; try discriminate; reflexivity).
        rewrite Ha. simpl. rewrite orb_true_r. reflexivity.
      * destruct (cmem (NotC arg) s) eqn:Em.
        -- destruct (cmem_sound rho _ _ Em) as [y [Hy Ey]]. rewrite holds_NotC in Ey. simpl.
           destruct (holds rho arg) eqn:Ha; simpl.
           ++ rewrite orb_true_r. reflexivity.
           ++ assert (existsb (holds rho) s = true) as F.
              { apply existsb_exists. exists y. auto. }
              rewrite F. reflexivity.
        -- specialize (IH (cadd arg s)). destruct (make_loop KOr rest (cadd arg s)).
           ++ rewrite IH, existsb_cadd, orb_assoc. reflexivity.
           ++ rewrite IH, existsb_cadd, orb_assoc. reflexivity.
Qed.

Lemma not_equiv_lemma : forall rho c, holds rho (NotC c) = negb (holds rho c).
Proof. exact holds_NotC. Qed.

Lemma and_equiv_lemma : forall rho args, holds rho (AndC args) = forallb (holds rho) args.
Proof.
  intros rho args. unfold AndC, make. pose proof (and_loop_sem rho args []) as H.
  destruct (make_loop KAnd args []) as [c|s]; simpl in H.
  - exact H.
  - destruct s as [|c [|c' s]]; simpl in *.
    + exact H.
    + rewrite andb_true_r in H. exact H.
    + exact H.
Qed.

Lemma or_equiv_lemma : forall rho args, holds rho (OrC args) = existsb (holds rho) args.
Proof.
  intros rho args. unfold OrC, make. pose proof (or_loop_sem rho args []) as H.
  destruct (make_loop KOr args []) as [c|s]; simpl in H.
  - exact H.
  - destruct s as [|c [|c' s]]; simpl in *.
    + exact H.
    + rewrite orb_false_r in H. exact H.
    + exact H.
Qed.

Lemma holds_and2 : forall rho a b, holds rho (AndC [a; b]) = holds rho a && holds rho b.
Proof. intros. rewrite and_equiv_lemma. simpl. rewrite andb_true_r. reflexivity. Qed.

Lemma holds_or2 : forall rho a b, holds rho (OrC [a; b]) = holds rho a || holds rho b.
Proof. intros. rewrite or_equiv_lemma. simpl. rewrite orb_false_r. reflexivity. Qed.

(* ------------------------------------------------------------------------------------------ *)
(* dict / set lemmas *)

Lemma dget_dset : forall A x y (v : A) l,
  dget x (dset y v l) = if Nat.eqb x y then Some v else dget x l.
Proof.
  intros A x y v l. induction l as [|[k w] t IH]; simpl.
  - destruct (Nat.eqb x y); reflexivity.
  - destruct (Nat.eqb y k) eqn:Eyk; simpl.
    + apply Nat.eqb_eq in Eyk. subst k. destruct (Nat.eqb x y); reflexivity.
    + destruct (Nat.eqb x k) eqn:Exk.
      * apply Nat.eqb_eq in Exk. subst k.
        rewrite Nat.eqb_sym in Eyk. rewrite Eyk. reflexivity.
      * exact IH.
Qed.

Lemma dset_in : forall A k (v : A) l k' v',
  In (k', v') (dset k v l) -> (k' = k /\ v' = v) \/ In (k', v') l.
Proof.
  intros A k v l. induction l as [|[k0 w] t IH]; simpl; intros k' v' H.
  - destruct H as [H|[]]. inversion H. auto.
  - destruct (Nat.eqb k k0); simpl in H.
    + destruct H as [H|H]; [inversion H; auto | auto].
    + destruct H as [H|H]; [auto|]. destruct (IH _ _ H); auto.
Qed.

Lemma dset_keys_in : forall A k (v : A) l k',
  In k' (map fst (dset k v l)) -> k' = k \/ In k' (map fst l).
Proof.
  intros A k v l k' H. apply in_map_iff in H. destruct H as [[a b] [E H]]. simpl in E. subst a.
  destruct (dset_in _ _ _ _ _ _ H) as [[E _]|H']; auto.
  right. apply in_map_iff. exists (k', b). auto.
Qed.

Lemma dset_keys_NoDup : forall A k (v : A) l,
  NoDup (map fst l) -> NoDup (map fst (dset k v l)).
Proof.
  intros A k v l. induction l as [|[k0 w] t IH]; simpl; intros H.
  - constructor; [intros []|constructor].
  - inversion H as [|? ? Hn Ht]; subst. destruct (Nat.eqb k k0) eqn:E; simpl.
    + apply Nat.eqb_eq in E. subst. constructor; auto.
    + constructor; auto. intros Hin. destruct (dset_keys_in _ _ _ _ _ Hin) as [E'|E']; auto.
      subst. rewrite Nat.eqb_refl in E. discriminate.
Qed.

Lemma dget_in : forall A k (v : A) l, dget k l = Some v -> In (k, v) l.
Proof.
  intros A k v l. induction l as [|[k0 w] t IH]; simpl; intros H; [discriminate|].
  destruct (Nat.eqb k k0) eqn:E.
  - apply Nat.eqb_eq in E. inversion H. subst. auto.
  - auto.
Qed.

Lemma dget_in_keys : forall A k (v : A) l, dget k l = Some v -> In k (map fst l).
Proof. intros A k v l H. apply dget_in in H. apply in_map_iff. exists (k, v). auto. Qed.

Lemma dget_none_keys : forall A k (l : list (nat * A)), ~ In k (map fst l) -> dget k l = None.
Proof.
  intros A k l H. destruct (dget k l) eqn:E; auto. exfalso. apply H. eapply dget_in_keys; eauto.
Qed.

Lemma nmem_nadd : forall x y s, nmem x (nadd y s) = Nat.eqb x y || nmem x s.
Proof.
  intros x y s. unfold nadd. destruct (nmem y s) eqn:E.
  - destruct (Nat.eqb x y) eqn:Exy; auto. apply Nat.eqb_eq in Exy. subst. simpl. auto.
  - unfold nmem. rewrite existsb_app. simpl. rewrite orb_false_r. apply orb_comm.
Qed.

(* A loop [for n, v in l.items(): acc = step acc (n, v)] whose step only touches key n, and whose
   effect on key n depends only on the old entry of n. *)
Lemma fold_dget : forall A B (step : list (nat * B) -> nat * A -> list (nat * B))
                         (G : nat -> A -> option B -> option B),
  (forall acc n v x, x <> n -> dget x (step acc (n, v)) = dget x acc) ->
  (forall acc n v, dget n (step acc (n, v)) = G n v (dget n acc)) ->
  forall l acc x, NoDup (map fst l) ->
  dget x (fold_left step l acc) =
  match dget x l with
  | None => dget x acc
  | Some v => G x v (dget x acc)
  end.
Proof.
  intros A B step G Hother Hsame l. induction l as [|[n v] t IH]; intros acc x Hnd; simpl.
  - reflexivity.
  - inversion Hnd as [|? ? Hn Ht]; subst. rewrite IH by assumption.
    destruct (Nat.eqb x n) eqn:E.
    + apply Nat.eqb_eq in E. subst x. rewrite (dget_none_keys _ _ _ Hn). apply Hsame.
    + apply Nat.eqb_neq in E. rewrite Hother by assumption. reflexivity.
Qed.

Lemma fold_inv : forall A B (P : B -> Prop) (step : B -> A -> B) l acc,
  P acc -> (forall acc a, In a l -> P acc -> P (step acc a)) -> P (fold_left step l acc).
Proof.
  intros A B P step l. induction l as [|a t IH]; intros acc H0 Hs; simpl; auto.
  apply IH.
  - apply Hs; simpl; auto.
  - intros acc' a' Hin. apply Hs. simpl. auto.
Qed.

(* ------------------------------------------------------------------------------------------ *)
(* variables *)

(* value [val] is among the bindings of a variable whose own condition holds *)
Definition act (rho : nat -> bool) (bs : list binding) (val : nat) : bool :=
  existsb (fun b => Nat.eqb (bval b) val && holds rho (bcond b)) bs.

Definition wfvar (v : variable) : Prop := NoDup (map bval (vbindings v)).

Lemma vwc_cases : forall v c,
  (c = CT /\ var_with_condition v c = v) \/
  var_with_condition v c = mkV (map (fun b => mkB (bval b) (AndC [bcond b; c])) (vbindings v)) (vname v).
Proof. intros v c. destruct c; simpl; auto. Qed.

Lemma vwc_values : forall v c, map bval (vbindings (var_with_condition v c)) = map bval (vbindings v).
Proof.
  intros v c. destruct (vwc_cases v c) as [[_ E]|E]; rewrite E; auto.
  simpl. rewrite map_map. simpl. reflexivity.
Qed.

Lemma vwc_name : forall v c, vname (var_with_condition v c) = vname v.
Proof. intros v c. destruct (vwc_cases v c) as [[_ E]|E]; rewrite E; auto. Qed.

Lemma vwc_wf : forall v c, wfvar v -> wfvar (var_with_condition v c).
Proof. intros v c H. unfold wfvar. rewrite vwc_values. exact H. Qed.

Lemma var_with_condition_exact_lemma : forall v c,
  Forall2 (fun b b' => bval b' = bval b /\
                       forall rho, holds rho (bcond b') = holds rho (bcond b) && holds rho c)
          (vbindings v) (vbindings (var_with_condition v c))
  /\ vname (var_with_condition v c) = vname v.
Proof.
  intros v c. split; [|apply vwc_name].
  destruct (vwc_cases v c) as [[Ec E]|E]; rewrite E; clear E.
  - subst c. generalize (vbindings v) as l. induction l; constructor; auto. split; auto.
    intros rho. simpl. rewrite andb_true_r. reflexivity.
  - simpl. generalize (vbindings v) as l. induction l; simpl; constructor; auto. split; auto.
    intros rho. simpl. apply holds_and2.
Qed.

Lemma vwc_in : forall v c b', In b' (vbindings (var_with_condition v c)) ->
  exists b, In b (vbindings v) /\ bval b' = bval b /\
            forall rho, holds rho (bcond b') = holds rho (bcond b) && holds rho c.
Proof.
  intros v c b' H. destruct (var_with_condition_exact_lemma v c) as [F _].
  revert H. induction F as [|x y l l' Hxy F IH]; simpl; intros H; [contradiction|].
  destruct H as [H|H].
  - subst y. exists x. destruct Hxy. auto.
  - destruct (IH H) as [b [Hb Hr]]. exists b. auto.
Qed.

Lemma act_vwc : forall rho v c val,
  act rho (vbindings (var_with_condition v c)) val = act rho (vbindings v) val && holds rho c.
Proof.
  intros rho v c val. destruct (var_with_condition_exact_lemma v c) as [F _].
  unfold act. induction F as [|x y l l' [Ev Ec] F IH]; simpl; auto.
  rewrite IH, Ev, Ec. destruct (Nat.eqb (bval x) val), (holds rho (bcond x)), (holds rho c); simpl; auto;
    rewrite ?andb_false_r; auto.
Qed.

Lemma act_exists : forall rho bs val,
  act rho bs val = true <-> exists b, In b bs /\ bval b = val /\ holds rho (bcond b) = true.
Proof.
  intros rho bs val. unfold act. rewrite existsb_exists. split.
  - intros [b [Hb E]]. apply andb_prop in E. destruct E as [E1 E2]. apply Nat.eqb_eq in E1. exists b. auto.
  - intros [b [Hb [E1 E2]]]. exists b. split; auto. rewrite E2. subst. rewrite Nat.eqb_refl. reflexivity.
Qed.

Lemma bindings_eqb_act : forall rho l1 l2 val,
  bindings_eqb l1 l2 = true -> act rho l1 val = act rho l2 val.
Proof.
  intros rho l1. induction l1 as [|a t IH]; intros [|b t2] val H; simpl in *; try discriminate; auto.
  apply andb_prop in H. destruct H as [Hab Ht]. unfold binding_eqb in Hab. apply andb_prop in Hab.
  destruct Hab as [Ev Ec]. apply Nat.eqb_eq in Ev. rewrite Ev. rewrite (cond_eqb_sound rho _ _ Ec).
  f_equal. apply IH. exact Ht.
Qed.

Lemma var_eqb_act : forall rho v1 v2 val,
  var_eqb v1 v2 = true -> act rho (vbindings v1) val = act rho (vbindings v2) val.
Proof.
  intros rho v1 v2 val H. unfold var_eqb in H. apply andb_prop in H. destruct H as [H _].
  apply bindings_eqb_act. exact H.
Qed.

Lemma bindings_eqb_values : forall l1 l2, bindings_eqb l1 l2 = true -> map bval l1 = map bval l2.
Proof.
  induction l1 as [|a t IH]; intros [|b t2] H; simpl in *; try discriminate; auto.
  apply andb_prop in H. destruct H as [Hab Ht]. unfold binding_eqb in Hab. apply andb_prop in Hab.
  destruct Hab as [Ev _]. apply Nat.eqb_eq in Ev. rewrite Ev. f_equal. auto.
Qed.

(* the value -> condition dict of merge_into *)
Definition dsem (rho : nat -> bool) (d : list (nat * cond)) (val : nat) : bool :=
  match dget val d with
  | Some c => holds rho c
  | None => false
  end.

Definition mstep0 (d : list (nat * cond)) (b : binding) := dset (bval b) (bcond b) d.
Definition mstep1 (d : list (nat * cond)) (b : binding) :=
  match dget (bval b) d with
  | Some c => dset (bval b) (OrC [c; bcond b]) d
  | None => dset (bval b) (bcond b) d
  end.

Lemma merge_vars_unfold : forall cur var,
  merge_vars cur var =
  mkV (map (fun kc => mkB (fst kc) (snd kc))
           (fold_left mstep1 (vbindings var) (fold_left mstep0 (vbindings cur) []))) None.
Proof. reflexivity. Qed.

Lemma act_app : forall rho l1 l2 val, act rho (l1 ++ l2) val = act rho l1 val || act rho l2 val.
Proof. intros. unfold act. apply existsb_app. Qed.

Lemma act_not_in : forall rho bs val, ~ In val (map bval bs) -> act rho bs val = false.
Proof.
  intros rho bs val H. destruct (act rho bs val) eqn:E; auto.
  apply act_exists in E. destruct E as [b [Hb [Ev _]]]. exfalso. apply H. apply in_map_iff. exists b. auto.
Qed.

Lemma d0_sem : forall rho bs val, NoDup (map bval bs) ->
  dsem rho (fold_left mstep0 bs []) val = act rho bs val.
Proof.
  intros rho bs val. induction bs as [|b bs IH] using rev_ind; intros Hnd.
  - reflexivity.
  - rewrite fold_left_app. simpl. rewrite act_app. unfold mstep0 at 1. unfold dsem.
    rewrite dget_dset. rewrite map_app in Hnd. simpl in Hnd.
    assert (NoDup (map bval bs) /\ ~ In (bval b) (map bval bs)) as [Hnd' Hnin].
    { split.
      - apply NoDup_remove_1 in Hnd. rewrite app_nil_r in Hnd. exact Hnd.
      - apply NoDup_remove_2 in Hnd. rewrite app_nil_r in Hnd. exact Hnd. }
    destruct (Nat.eqb val (bval b)) eqn:E.
    + apply Nat.eqb_eq in E. subst val. rewrite (act_not_in rho bs _ Hnin). unfold act. simpl.
      rewrite Nat.eqb_refl. simpl. rewrite orb_false_r. reflexivity.
    + specialize (IH Hnd'). unfold dsem in IH. rewrite IH. unfold act at 2. simpl.
      rewrite Nat.eqb_sym in E. rewrite E. simpl. rewrite orb_false_r. reflexivity.
Qed.

Lemma d1_sem : forall rho bs d val,
  dsem rho (fold_left mstep1 bs d) val = dsem rho d val || act rho bs val.
Proof.
  intros rho bs. induction bs as [|b bs IH]; intros d val; simpl.
  - rewrite orb_false_r. reflexivity.
  - rewrite IH. unfold act. simpl. fold (act rho bs val). rewrite orb_assoc. f_equal.
    unfold mstep1, dsem. destruct (dget (bval b) d) eqn:Eg; rewrite dget_dset;
      destruct (Nat.eqb val (bval b)) eqn:E.
    + apply Nat.eqb_eq in E. subst val. rewrite Eg, Nat.eqb_refl. simpl. apply holds_or2.
    + rewrite Nat.eqb_sym in E. rewrite E. simpl. rewrite orb_false_r. reflexivity.
    + apply Nat.eqb_eq in E. subst val. rewrite Eg, Nat.eqb_refl. reflexivity.
    + rewrite Nat.eqb_sym in E. rewrite E. simpl. rewrite orb_false_r. reflexivity.
Qed.

Lemma act_of_dict : forall rho d val, NoDup (map fst d) ->
  act rho (map (fun kc => mkB (fst kc) (snd kc)) d) val = dsem rho d val.
Proof.
  intros rho d val. induction d as [|[k c] t IH]; intros Hnd; simpl.
  - reflexivity.
  - inversion Hnd as [|? ? Hn Ht]; subst. unfold dsem. simpl. rewrite (Nat.eqb_sym val k).
    destruct (Nat.eqb k val) eqn:E; simpl.
    + apply Nat.eqb_eq in E. subst k. fold (act rho (map (fun kc => mkB (fst kc) (snd kc)) t) val).
      rewrite IH by assumption. unfold dsem. rewrite (dget_none_keys _ _ _ Hn).
      rewrite orb_false_r. reflexivity.
    + fold (act rho (map (fun kc => mkB (fst kc) (snd kc)) t) val). rewrite IH by assumption. reflexivity.
Qed.

Lemma mstep0_keys : forall bs d, NoDup (map fst d) -> NoDup (map fst (fold_left mstep0 bs d)).
Proof.
  intros bs d H. apply fold_inv; auto. intros acc b _ Hacc. unfold mstep0. apply dset_keys_NoDup. exact Hacc.
Qed.

Lemma mstep1_keys : forall bs d, NoDup (map fst d) -> NoDup (map fst (fold_left mstep1 bs d)).
Proof.
  intros bs d H. apply fold_inv; auto. intros acc b _ Hacc. unfold mstep1.
  destruct (dget (bval b) acc); apply dset_keys_NoDup; exact Hacc.
Qed.

Lemma merge_vars_keys : forall cur var,
  NoDup (map fst (fold_left mstep1 (vbindings var) (fold_left mstep0 (vbindings cur) []))).
Proof. intros. apply mstep1_keys. apply mstep0_keys. constructor. Qed.

Lemma merge_vars_wf : forall cur var, wfvar (merge_vars cur var).
Proof.
  intros cur var. unfold wfvar. rewrite merge_vars_unfold. simpl. rewrite map_map. simpl.
  apply merge_vars_keys.
Qed.

Lemma act_merge_vars : forall rho cur var val, wfvar cur ->
  act rho (vbindings (merge_vars cur var)) val =
  act rho (vbindings cur) val || act rho (vbindings var) val.
Proof.
  intros rho cur var val Hwf. rewrite merge_vars_unfold. simpl.
  rewrite act_of_dict by apply merge_vars_keys. rewrite d1_sem, d0_sem by exact Hwf. reflexivity.
Qed.

(* every condition in the merged variable is one of the inputs' or an Or of them *)
Lemma merge_vars_conds : forall (Q : cond -> Prop) cur var,
  (forall a b, Q a -> Q b -> Q (OrC [a; b])) ->
  (forall b, In b (vbindings cur) -> Q (bcond b)) ->
  (forall b, In b (vbindings var) -> Q (bcond b)) ->
  forall b, In b (vbindings (merge_vars cur var)) -> Q (bcond b).
Proof.
  intros Q cur var Hor Hcur Hvar b Hb. rewrite merge_vars_unfold in Hb. simpl in Hb.
  apply in_map_iff in Hb. destruct Hb as [[k c] [E Hin]]. subst b. simpl.
  set (P := fun d : list (nat * cond) => forall k c, In (k, c) d -> Q c).
  assert (P (fold_left mstep1 (vbindings var) (fold_left mstep0 (vbindings cur) []))) as HP.
  { apply fold_inv.
    - apply fold_inv.
      + intros ? ? [].
      + intros acc a Ha Hacc k' c' Hin'. unfold mstep0 in Hin'.
        destruct (dset_in _ _ _ _ _ _ Hin') as [[_ Ec]|Hold]; [subst; auto | eapply Hacc; eauto].
    - intros acc a Ha Hacc k' c' Hin'. unfold mstep1 in Hin'.
      destruct (dget (bval a) acc) eqn:Eg.
      + destruct (dset_in _ _ _ _ _ _ Hin') as [[_ Ec]|Hold]; [|eapply Hacc; eauto].
        subst c'. apply Hor; auto. apply dget_in in Eg. eapply Hacc; eauto.
      + destruct (dset_in _ _ _ _ _ _ Hin') as [[_ Ec]|Hold]; [subst; auto | eapply Hacc; eauto]. }
  eapply HP; eauto.
Qed.

(* ------------------------------------------------------------------------------------------ *)
(* states *)

Definition Inv (s : state) : Prop :=
  NoDup (map fst (locals s)) /\
  (forall x v, dget x (locals s) = Some v -> wfvar v) /\
  (forall x v b rho, dget x (locals s) = Some v -> nmem x (wbc s) = false ->
                     In b (vbindings v) -> holds rho (bcond b) = true -> holds rho (scond s) = true).

(* Inv without the distinct-values clause (used to show that clause is necessary) *)
Definition Inv_weak (s : state) : Prop :=
  NoDup (map fst (locals s)) /\
  (forall x v b rho, dget x (locals s) = Some v -> nmem x (wbc s) = false ->
                     In b (vbindings v) -> holds rho (bcond b) = true -> holds rho (scond s) = true).

(* boolean reading of [vals] *)
Definition valb (rho : nat -> bool) (s : state) (x val : nat) : bool :=
  match dget x (locals s) with
  | None => false
  | Some v => act rho (vbindings v) val && blk rho s x
  end.

Lemma in_vals_iff : forall rho s x val, In val (vals rho s x) <-> valb rho s x val = true.
Proof.
  intros rho s x val. unfold vals, valb. destruct (dget x (locals s)) as [v|]; [|simpl; split; [contradiction|discriminate]].
  rewrite in_map_iff. split.
  - intros [b [Ev Hb]]. apply filter_In in Hb. destruct Hb as [Hb Hp]. apply andb_prop in Hp.
    destruct Hp as [Hc Hk]. rewrite Hk, andb_true_r. apply act_exists. exists b. auto.
  - intros H. apply andb_prop in H. destruct H as [Ha Hk]. apply act_exists in Ha.
    destruct Ha as [b [Hb [Ev Hc]]]. exists b. split; auto. apply filter_In. split; auto.
    rewrite Hc, Hk. reflexivity.
Qed.

Lemma keys_set_mem : forall A (l : list (nat * A)) x, In x (map fst l) -> nmem x (keys_set l) = true.
Proof.
  intros A l x. unfold keys_set.
  assert (forall s, nmem x s = true \/ In x (map fst l) ->
                    nmem x (fold_left (fun s kv => nadd (fst kv) s) l s) = true) as G.
  { induction l as [|[k v] t IH]; simpl; intros s [H|H]; auto; try contradiction.
    - apply IH. left. rewrite nmem_nadd, H. apply orb_true_r.
    - destruct H as [H|H].
      + subst k. apply IH. left. rewrite nmem_nadd, Nat.eqb_refl. reflexivity.
      + apply IH. right. exact H. }
  intros H. apply G. right. exact H.
Qed.

Lemma Inv_init_lemma : forall l c,
  NoDup (map fst l) -> (forall x v, In (x, v) l -> wfvar v) -> Inv (new_state l c None).
Proof.
  intros l c Hnd Hwf. unfold Inv, new_state. simpl. split; [exact Hnd|]. split.
  - intros x v H. apply dget_in in H. eauto.
  - intros x v b rho H Hn. apply dget_in_keys in H. rewrite (keys_set_mem _ _ _ H) in Hn. discriminate.
Qed.

Lemma Inv_weak_init : forall l c, NoDup (map fst l) -> Inv_weak (new_state l c None).
Proof.
  intros l c Hnd. unfold Inv_weak, new_state. simpl. split; [exact Hnd|].
  intros x v b rho H Hn. apply dget_in_keys in H. rewrite (keys_set_mem _ _ _ H) in Hn. discriminate.
Qed.

Lemma Inv_store_lemma : forall s x v, Inv s -> wfvar v -> Inv (store_local s x v).
Proof.
  intros s x v [Hnd [Hwf Himp]] Hv. unfold Inv, store_local. simpl. split; [|split].
  - apply dset_keys_NoDup. exact Hnd.
  - intros y w H. rewrite dget_dset in H. destruct (Nat.eqb y x); [inversion H; subst; auto | eauto].
  - intros y w b rho H Hn. rewrite dget_dset in H. rewrite nmem_nadd in Hn.
    destruct (Nat.eqb y x); [discriminate|]. simpl in Hn. eauto.
Qed.

Lemma load_local_wf : forall s x v, Inv s -> load_local s x = Some v -> wfvar v.
Proof.
  intros s x v [_ [Hwf _]] H. unfold load_local in H. destruct (dget x (locals s)) eqn:E; [|discriminate].
  inversion H. subst. unfold wfvar, with_name. simpl. apply (Hwf _ _ E).
Qed.

(* locals of with_condition *)
Definition wc_var (s : state) (c' : cond) (n : nat) (v : variable) : variable :=
  if nmem n (wbc s) then v else var_with_condition v c'.

Lemma wc_locals_get : forall s c x, NoDup (map fst (locals s)) ->
  dget x (locals (with_condition s c)) =
  match dget x (locals s) with
  | None => None
  | Some v => Some (wc_var s (AndC [scond s; c]) x v)
  end.
Proof.
  intros s c x Hnd. unfold with_condition. simpl.
  rewrite (fold_dget variable variable _ (fun n v _ => Some (wc_var s (AndC [scond s; c]) n v))); auto.
  - intros acc n v y Hy. simpl. destruct (nmem n (wbc s)); rewrite dget_dset;
      apply Nat.eqb_neq in Hy; rewrite Hy; reflexivity.
  - intros acc n v. simpl. unfold wc_var. destruct (nmem n (wbc s)); rewrite dget_dset, Nat.eqb_refl; reflexivity.
Qed.

Lemma wc_locals_keys : forall s c, NoDup (map fst (locals (with_condition s c))).
Proof.
  intros s c. unfold with_condition. simpl. apply fold_inv.
  - constructor.
  - intros acc a _ H. destruct (nmem (fst a) (wbc s)); apply dset_keys_NoDup; exact H.
Qed.

Lemma Inv_with_condition_lemma : forall s c, Inv s -> Inv (with_condition s c).
Proof.
  intros s c [Hnd [Hwf Himp]]. split; [apply wc_locals_keys|]. split.
  - intros x v H. rewrite wc_locals_get in H by exact Hnd.
    destruct (dget x (locals s)) eqn:E; [|discriminate]. inversion H. subst. unfold wc_var.
    destruct (nmem x (wbc s)); [eauto | apply vwc_wf; eauto].
  - intros x v b rho H Hn Hb Hc. rewrite wc_locals_get in H by exact Hnd.
    destruct (dget x (locals s)) eqn:E; [|discriminate]. inversion H. subst. unfold wc_var in Hb.
    change (wbc (with_condition s c)) with (wbc s) in Hn. rewrite Hn in Hb.
    change (scond (with_condition s c)) with (AndC [scond s; c]).
    destruct (vwc_in _ _ _ Hb) as [b0 [_ [_ Hr]]]. rewrite Hr in Hc. apply andb_prop in Hc. tauto.
Qed.

Lemma filter_map_ext : forall (p p' : binding -> bool) (f : binding -> binding) bs,
  (forall b, In b bs -> bval (f b) = bval b /\ p' (f b) = p b) ->
  map bval (filter p' (map f bs)) = map bval (filter p bs).
Proof.
  intros p p' f bs. induction bs as [|b t IH]; intros H; simpl; auto.
  destruct (H b (or_introl eq_refl)) as [Ev Ep]. rewrite Ep.
  destruct (p b); simpl; rewrite ?Ev, IH; auto; intros; apply H; simpl; auto.
Qed.

Lemma filter_false : forall A (p : A -> bool) l, (forall a, In a l -> p a = false) -> filter p l = [].
Proof.
  intros A p l. induction l as [|a t IH]; intros H; simpl; auto.
  rewrite (H a (or_introl eq_refl)). apply IH. intros. apply H. simpl. auto.
Qed.

Lemma filter_ext_in' : forall A (p q : A -> bool) l, (forall a, In a l -> p a = q a) -> filter p l = filter q l.
Proof.
  intros A p q l. induction l as [|a t IH]; intros H; simpl; auto.
  rewrite (H a (or_introl eq_refl)). rewrite IH; auto. intros. apply H. simpl. auto.
Qed.

Lemma state_with_condition_exact_lemma : forall rho s c x, Inv s ->
  vals rho (with_condition s c) x = (if holds rho c then vals rho s x else []) /\
  holds rho (scond (with_condition s c)) = holds rho (scond s) && holds rho c.
Proof.
  intros rho s c x [Hnd [Hwf Himp]]. split; [|apply holds_and2].
  unfold vals. rewrite wc_locals_get by exact Hnd.
  destruct (dget x (locals s)) as [v|] eqn:E; [|destruct (holds rho c); reflexivity].
  unfold blk. change (wbc (with_condition s c)) with (wbc s).
  change (scond (with_condition s c)) with (AndC [scond s; c]). unfold wc_var.
  destruct (nmem x (wbc s)) eqn:Ew; cbv iota.
  - rewrite holds_and2. destruct (holds rho c).
    + rewrite andb_true_r. reflexivity.
    + rewrite andb_false_r. rewrite filter_false; auto. intros. apply andb_false_r.
  - destruct (vwc_cases v (AndC [scond s; c])) as [[Ec Ev]|Ev]; rewrite Ev.
    + assert (holds rho (AndC [scond s; c]) = true) as Ht by (rewrite Ec; reflexivity).
      rewrite holds_and2 in Ht. apply andb_prop in Ht. destruct Ht as [_ Ht]. rewrite Ht. reflexivity.
    + cbn [vbindings]. destruct (holds rho c) eqn:Hc.
      * apply filter_map_ext. intros b Hb. cbn [bval bcond]. split; auto.
        rewrite !holds_and2, Hc, !andb_true_r.
        destruct (holds rho (bcond b)) eqn:Hbc; simpl; auto. eapply Himp; eauto.
      * rewrite filter_false; auto. intros b Hb. apply in_map_iff in Hb. destruct Hb as [b0 [Eb _]].
        subst b. cbn [bval bcond]. rewrite !holds_and2, Hc, !andb_false_r. reflexivity.
Qed.

(* ---- merge_into ---- *)

Definition same_in (o : state) (name : nat) (var : variable) : bool :=
  match dget name (locals o) with
  | Some v' => var_eqb var v'
  | None => false
  end.

(* the value the first loop stores for (name, var) *)
Definition m1_var (s o : state) (name : nat) (var : variable) : variable :=
  if same_in o name var then var
  else if nmem name (wbc s) then var_with_condition var (scond s) else var.

Definition m1_locals_step (s o : state) (acc : list (nat * variable)) (nv : nat * variable) :=
  dset (fst nv) (m1_var s o (fst nv) (snd nv)) acc.
Definition m1_wbc_step (o : state) (w : list nat) (nv : nat * variable) :=
  if same_in o (fst nv) (snd nv) then nadd (fst nv) w else w.

Lemma merge_loop1_split : forall s o l acc,
  fold_left (merge_step1 s o) l acc =
  (fold_left (m1_locals_step s o) l (fst acc), fold_left (m1_wbc_step o) l (snd acc)).
Proof.
  intros s o l. induction l as [|[n v] t IH]; intros [a w]; simpl.
  - reflexivity.
  - rewrite IH. unfold m1_locals_step, m1_wbc_step, m1_var, same_in. simpl.
    destruct (match dget n (locals o) with Some v' => var_eqb v v' | None => false end);
      [reflexivity|]. destruct (nmem n (wbc s)); reflexivity.
Qed.

Lemma m1_locals_get : forall s o l x, NoDup (map fst l) ->
  dget x (fold_left (m1_locals_step s o) l []) =
  match dget x l with
  | None => None
  | Some v => Some (m1_var s o x v)
  end.
Proof.
  intros s o l x Hnd.
  rewrite (fold_dget variable variable _ (fun n v _ => Some (m1_var s o n v))); auto.
  - intros acc n v y Hy. unfold m1_locals_step. simpl. rewrite dget_dset.
    apply Nat.eqb_neq in Hy. rewrite Hy. reflexivity.
  - intros acc n v. unfold m1_locals_step. simpl. rewrite dget_dset, Nat.eqb_refl. reflexivity.
Qed.

Lemma m1_wbc_mem : forall o l w x, NoDup (map fst l) ->
  nmem x (fold_left (m1_wbc_step o) l w) =
  nmem x w || match dget x l with Some v => same_in o x v | None => false end.
Proof.
  intros o l. induction l as [|[n v] t IH]; intros w x Hnd; simpl.
  - rewrite orb_false_r. reflexivity.
  - inversion Hnd as [|? ? Hn Ht]; subst. rewrite IH by assumption. unfold m1_wbc_step at 1. simpl.
    destruct (Nat.eqb x n) eqn:E.
    + apply Nat.eqb_eq in E. subst x. rewrite (dget_none_keys _ _ _ Hn), orb_false_r.
      destruct (same_in o n v).
      * rewrite nmem_nadd, Nat.eqb_refl. simpl. rewrite orb_true_r. reflexivity.
      * rewrite orb_false_r. reflexivity.
    + destruct (same_in o n v); [|reflexivity]. rewrite nmem_nadd, E. reflexivity.
Qed.

(* the variable the second loop contributes for (name, var) *)
Definition m2_var (o : state) (name : nat) (var : variable) : variable :=
  if nmem name (wbc o) then var_with_condition var (scond o) else var.

Definition m2_G (o : state) (w : list nat) (n : nat) (v : variable) (old : option variable)
  : option variable :=
  if nmem n w then old
  else Some (match old with
             | None => m2_var o n v
             | Some cur => merge_vars cur (m2_var o n v)
             end).

Lemma m2_locals_get : forall o w l acc x, NoDup (map fst l) ->
  dget x (fold_left (merge_step2 o w) l acc) =
  match dget x l with
  | None => dget x acc
  | Some v => m2_G o w x v (dget x acc)
  end.
Proof.
  intros o w l acc x Hnd. apply (fold_dget variable variable (merge_step2 o w) (m2_G o w)); auto.
  - intros a n v y Hy. unfold merge_step2. apply Nat.eqb_neq in Hy.
    destruct (nmem n w); auto. destruct (dget n a); rewrite dget_dset, Hy; reflexivity.
  - intros a n v. unfold merge_step2, m2_G, m2_var. destruct (nmem n w); auto.
    destruct (dget n a); rewrite dget_dset, Nat.eqb_refl; reflexivity.
Qed.

Lemma merge_locals_keys : forall s o, NoDup (map fst (locals (merge_into s (Some o)))).
Proof.
  intros s o. unfold merge_into. simpl. rewrite merge_loop1_split. simpl. apply fold_inv.
  - apply fold_inv; [constructor|]. intros acc a _ H. unfold m1_locals_step. apply dset_keys_NoDup. exact H.
  - intros acc [n v] _ H. unfold merge_step2. destruct (nmem n _); auto.
    destruct (dget n acc); apply dset_keys_NoDup; exact H.
Qed.

Lemma merge_wbc_mem : forall s o x, NoDup (map fst (locals s)) ->
  nmem x (wbc (merge_into s (Some o))) =
  match dget x (locals s) with Some v => same_in o x v | None => false end.
Proof.
  intros s o x Hnd. unfold merge_into. simpl. rewrite merge_loop1_split. simpl.
  rewrite m1_wbc_mem by exact Hnd. reflexivity.
Qed.

Lemma merge_locals_get : forall s o x,
  NoDup (map fst (locals s)) -> NoDup (map fst (locals o)) ->
  dget x (locals (merge_into s (Some o))) =
  let a := match dget x (locals s) with None => None | Some v => Some (m1_var s o x v) end in
  match dget x (locals o) with
  | None => a
  | Some v2 => m2_G o (wbc (merge_into s (Some o))) x v2 a
  end.
Proof.
  intros s o x H1 H2. unfold merge_into. simpl. rewrite merge_loop1_split. simpl.
  rewrite m2_locals_get by exact H2. rewrite m1_locals_get by exact H1. reflexivity.
Qed.

Lemma merge_scond : forall rho s o,
  holds rho (scond (merge_into s (Some o))) = holds rho (scond s) || holds rho (scond o).
Proof. intros. unfold merge_into. simpl. apply holds_or2. Qed.

(* activity of a value in the explicitly conditioned copies *)
Lemma act_m2_var : forall rho o x v val,
  act rho (vbindings (m2_var o x v)) val && true =
  act rho (vbindings v) val && blk rho o x.
Proof.
  intros. unfold m2_var, blk. destruct (nmem x (wbc o)); [rewrite act_vwc|]; rewrite andb_true_r; reflexivity.
Qed.

Lemma implied_act : forall rho s x v val, Inv s -> dget x (locals s) = Some v ->
  nmem x (wbc s) = false -> act rho (vbindings v) val = true -> holds rho (scond s) = true.
Proof.
  intros rho s x v val [_ [_ Himp]] E Hn Ha. apply act_exists in Ha. destruct Ha as [b [Hb [_ Hc]]]. eauto.
Qed.

Lemma merge_valb : forall rho s1 s2 x val, Inv s1 -> Inv s2 ->
  valb rho (merge_into s1 (Some s2)) x val = valb rho s1 x val || valb rho s2 x val.
Proof.
  intros rho s1 s2 x val I1 I2. pose proof I1 as [N1 [W1 _]]. pose proof I2 as [N2 [W2 _]].
  unfold valb at 1. unfold blk. rewrite merge_wbc_mem by exact N1.
  rewrite merge_locals_get by assumption. cbv zeta. unfold m2_G. rewrite merge_wbc_mem by exact N1.
  rewrite merge_scond. unfold valb, blk.
  destruct (dget x (locals s1)) as [v1|] eqn:E1; destruct (dget x (locals s2)) as [v2|] eqn:E2; simpl.
  - (* both define x *)
    unfold same_in. rewrite E2. destruct (var_eqb v1 v2) eqn:Eq.
    + (* equal variables: kept, guarded by the merged block condition *)
      unfold m1_var, same_in. rewrite E2, Eq.
      rewrite <- (var_eqb_act rho v1 v2 val Eq).
      destruct (act rho (vbindings v1) val) eqn:Ha; simpl; auto.
      destruct (nmem x (wbc s1)) eqn:M1; destruct (nmem x (wbc s2)) eqn:M2; auto.
      * rewrite orb_true_r. rewrite (var_eqb_act rho v1 v2 val Eq) in Ha.
        rewrite (implied_act rho s2 x v2 val I2 E2 M2 Ha). apply orb_true_r.
      * rewrite (implied_act rho s1 x v1 val I1 E1 M1 Ha). reflexivity.
      * rewrite (implied_act rho s1 x v1 val I1 E1 M1 Ha). reflexivity.
    + (* different variables: bindings merged by value *)
      rewrite andb_true_r. rewrite act_merge_vars.
      * f_equal.
        -- unfold m1_var, same_in. rewrite E2, Eq. destruct (nmem x (wbc s1)).
           ++ apply act_vwc.
           ++ rewrite andb_true_r. reflexivity.
        -- rewrite <- (andb_true_r (act rho (vbindings (m2_var s2 x v2)) val)). apply act_m2_var.
      * unfold m1_var, same_in. rewrite E2, Eq. destruct (nmem x (wbc s1)); [apply vwc_wf|]; eauto.
  - (* only s1 defines x *)
    unfold same_in. rewrite E2. rewrite orb_false_r. rewrite andb_true_r.
    unfold m1_var, same_in. rewrite E2. destruct (nmem x (wbc s1)).
    + apply act_vwc.
    + rewrite andb_true_r. reflexivity.
  - (* only s2 defines x *)
    apply act_m2_var.
  - reflexivity.
Qed.

Lemma merge_union_lemma : forall rho s1 s2 x, Inv s1 -> Inv s2 ->
  (forall val, In val (vals rho (merge_into s1 (Some s2)) x) <->
               In val (vals rho s1 x) \/ In val (vals rho s2 x)) /\
  holds rho (scond (merge_into s1 (Some s2))) = holds rho (scond s1) || holds rho (scond s2).
Proof.
  intros rho s1 s2 x I1 I2. split; [|apply merge_scond].
  intros val. rewrite !in_vals_iff. rewrite merge_valb by assumption. apply orb_true_iff.
Qed.

Lemma merge_none_lemma : forall s, merge_into s None = s.
Proof. intros [l c w]. reflexivity. Qed.

Lemma Inv_merge_lemma : forall s1 s2, Inv s1 -> Inv s2 -> Inv (merge_into s1 (Some s2)).
Proof.
  intros s1 s2 I1 I2. pose proof I1 as [N1 [W1 P1]]. pose proof I2 as [N2 [W2 P2]].
  (* every binding condition of the explicitly conditioned copies implies the merged condition *)
  assert (forall rho x v b, dget x (locals s1) = Some v -> In b (vbindings (m1_var s1 s2 x v)) ->
            same_in s2 x v = false ->
            holds rho (bcond b) = true -> holds rho (scond s1) = true) as Q1.
  { intros rho x v b E Hb Hs Hc. unfold m1_var in Hb. rewrite Hs in Hb.
    destruct (nmem x (wbc s1)) eqn:M.
    - destruct (vwc_in _ _ _ Hb) as [b0 [_ [_ Hr]]]. rewrite Hr in Hc. apply andb_prop in Hc. tauto.
    - eapply P1; eauto. }
  assert (forall rho x v b, dget x (locals s2) = Some v -> In b (vbindings (m2_var s2 x v)) ->
            holds rho (bcond b) = true -> holds rho (scond s2) = true) as Q2.
  { intros rho x v b E Hb Hc. unfold m2_var in Hb.
    destruct (nmem x (wbc s2)) eqn:M.
    - destruct (vwc_in _ _ _ Hb) as [b0 [_ [_ Hr]]]. rewrite Hr in Hc. apply andb_prop in Hc. tauto.
    - eapply P2; eauto. }
  assert (forall x v, dget x (locals s1) = Some v -> wfvar (m1_var s1 s2 x v)) as WF1.
  { intros x v E. unfold m1_var. destruct (same_in s2 x v); eauto.
    destruct (nmem x (wbc s1)); [apply vwc_wf|]; eauto. }
  assert (forall x v, dget x (locals s2) = Some v -> wfvar (m2_var s2 x v)) as WF2.
  { intros x v E. unfold m2_var. destruct (nmem x (wbc s2)); [apply vwc_wf|]; eauto. }
  split; [apply merge_locals_keys|]. split.
  - intros x v H. rewrite merge_locals_get in H by assumption. cbv zeta in H. unfold m2_G in H.
    destruct (dget x (locals s1)) as [v1|] eqn:E1; destruct (dget x (locals s2)) as [v2|] eqn:E2.
    + destruct (nmem x _); inversion H; subst; auto. apply merge_vars_wf.
    + inversion H; subst; auto.
    + destruct (nmem x _); inversion H; subst; auto.
    + discriminate.
  - intros x v b rho H Hn Hb Hc. rewrite merge_scond. rewrite merge_wbc_mem in Hn by exact N1.
    rewrite merge_locals_get in H by assumption. cbv zeta in H. unfold m2_G in H.
    rewrite merge_wbc_mem in H by exact N1.
    destruct (dget x (locals s1)) as [v1|] eqn:E1; destruct (dget x (locals s2)) as [v2|] eqn:E2.
    + rewrite Hn in H. inversion H; subst; clear H.
      revert b Hb Hc.
      apply (merge_vars_conds (fun c => holds rho c = true ->
                                        holds rho (scond s1) || holds rho (scond s2) = true)).
      * intros a b0 Ha Hb0 Hor. rewrite holds_or2 in Hor. apply orb_prop in Hor. destruct Hor; auto.
      * intros b Hb Hc. rewrite (Q1 rho x v1 b E1 Hb Hn Hc). reflexivity.
      * intros b Hb Hc. rewrite (Q2 rho x v2 b E2 Hb Hc). apply orb_true_r.
    + inversion H; subst; clear H. rewrite (Q1 rho x v1 b E1 Hb Hn Hc). reflexivity.
    + inversion H; subst; clear H. rewrite (Q2 rho x v2 b E2 Hb Hc). apply orb_true_r.
    + discriminate.
Qed.

(* ------------------------------------------------------------------------------------------ *)
(* every history of public operations yields a state satisfying Inv *)

Lemma from_value_wf : forall v n, wfvar (from_value v n).
Proof. intros. unfold wfvar, from_value. simpl. constructor; auto. constructor. Qed.

Lemma run_Inv_lemma : forall p s, run p = Some s -> Inv s.
Proof.
  induction p; intros s H; simpl in H.
  - inversion H; subst; clear H. apply Inv_init_lemma.
    + apply fold_inv; [constructor|]. intros acc a _ Ha. apply dset_keys_NoDup. exact Ha.
    + apply (fold_inv _ _ (fun d : list (nat * variable) => forall x v, In (x, v) d -> wfvar v)).
      * intros ? ? [].
      * intros acc a _ Ha x v Hin. destruct (dset_in _ _ _ _ _ _ Hin) as [[_ E]|Hold]; [|eauto].
        subst. apply from_value_wf.
  - destruct (run p) as [s0|]; [|discriminate]. inversion H; subst.
    apply Inv_store_lemma; auto. apply from_value_wf.
  - destruct (run p1) as [s0|]; [|discriminate]. destruct (run p2) as [t|]; [|discriminate].
    destruct (load_local t y) as [var|] eqn:El; [|discriminate]. inversion H; subst.
    apply Inv_store_lemma; auto. apply (load_local_wf t y); auto.
  - destruct (run p) as [s0|]; [|discriminate]. inversion H; subst.
    apply Inv_with_condition_lemma; auto.
  - destruct (run p1) as [s0|]; [|discriminate]. destruct (run p2) as [t|]; [|discriminate].
    inversion H; subst. apply Inv_merge_lemma; auto.
  - destruct (run p) as [s0|]; [|discriminate]. inversion H; subst.
    destruct s0 as [l c w]. simpl. auto.
Qed.

Lemma merge_union_run_lemma : forall p q s t rho x,
  run p = Some s -> run q = Some t ->
  forall val, In val (vals rho (merge_into s (Some t)) x) <->
              In val (vals rho s x) \/ In val (vals rho t x).
Proof.
  intros p q s t rho x Hp Hq. apply merge_union_lemma; eapply run_Inv_lemma; eauto.
Qed.

(* ------------------------------------------------------------------------------------------ *)
(* necessity of the two semantic clauses of Inv (hand-built objects) *)

(* x -> (1 if a0 | 1 if a1): two bindings of the same value; merged with x -> 2 *)
Definition dup_s1 : state :=
  new_state [(0, mkV [mkB 1 (Atom 0); mkB 1 (Atom 1)] None)] CT None.
Definition dup_s2 : state := new_state [(0, from_value 2 None)] CT None.
Definition dup_rho (a : nat) : bool := Nat.eqb a 0.

Lemma merge_union_needs_distinct_values_lemma :
  exists s1 s2 rho x val,
    Inv_weak s1 /\ Inv s2 /\
    In val (vals rho s1 x) /\ ~ In val (vals rho (merge_into s1 (Some s2)) x).
Proof.
  exists dup_s1, dup_s2, dup_rho, 0, 1. split; [|split; [|split]].
  - apply Inv_weak_init. simpl. constructor; auto. constructor.
  - apply Inv_init_lemma.
    + simpl. constructor; auto. constructor.
    + intros x v [H|[]]. inversion H. apply from_value_wf.
  - vm_compute. auto.
  - vm_compute. intros [H|[]]. discriminate.
Qed.

(* an explicitly conditioned local whose condition does not imply the block condition *)
Definition imp_s : state := mkS [(0, from_value 1 None)] (Atom 0) [].
Definition imp_rho (a : nat) : bool := Nat.eqb a 1.

Lemma with_condition_needs_implication_lemma :
  exists s c rho x,
    NoDup (map fst (locals s)) /\ (forall y v, dget y (locals s) = Some v -> wfvar v) /\
    holds rho c = true /\ vals rho (with_condition s c) x <> vals rho s x.
Proof.
  exists imp_s, (Atom 1), imp_rho, 0. split; [|split; [|split]].
  - simpl. constructor; auto. constructor.
  - intros y v H. simpl in H. destruct (Nat.eqb y 0); inversion H. apply from_value_wf.
  - reflexivity.
  - vm_compute. discriminate.
Qed.
