(* C18 extension: the normal form of the terms conditions.py builds (cond_wfb of Flow/Api.v) is
   preserved by every constructor, and the idempotence / unit / complement laws that do hold. *)
From Coq Require Import List Bool Arith PeanoNat Lia.
From PV Require Import Flow.Model Flow.Proofs Flow.Api.
Import ListNotations.

(* ------------------------------------------------------------------------------------------ *)
(* equality of terms *)

Lemma forallb_ext_in : forall A (f g : A -> bool) l, (forall x, In x l -> f x = g x) -> forallb f l = forallb g l.
Proof.
  intros A f g l. induction l as [|a t IH]; intros H; simpl; auto.
  rewrite (H a (or_introl eq_refl)), IH; auto. intros. apply H. right. assumption.
Qed.

Lemma existsb_ext_in : forall A (f g : A -> bool) l, (forall x, In x l -> f x = g x) -> existsb f l = existsb g l.
Proof.
  intros A f g l. induction l as [|a t IH]; intros H; simpl; auto.
  rewrite (H a (or_introl eq_refl)), IH; auto. intros. apply H. right. assumption.
Qed.

Lemma set_eqb_sym : forall l l0,
  (forall x, In x l -> forall y, cond_eqb x y = cond_eqb y x) ->
  forallb (fun x => existsb (fun y => cond_eqb x y) l0) l &&
  forallb (fun y => existsb (fun x => cond_eqb x y) l) l0 =
  forallb (fun x => existsb (fun y => cond_eqb x y) l) l0 &&
  forallb (fun y => existsb (fun x => cond_eqb x y) l0) l.
Proof.
  intros l l0 H. rewrite andb_comm. f_equal.
  - apply forallb_ext_in. intros y _. apply existsb_ext_in. intros x Hx. apply H. exact Hx.
  - apply forallb_ext_in. intros x Hx. apply existsb_ext_in. intros y _. apply H. exact Hx.
Qed.

Lemma cond_eqb_sym : forall a b, cond_eqb a b = cond_eqb b a.
Proof.
  induction a using cond_ind'; intros b; destruct b; simpl; try reflexivity.
  - apply Nat.eqb_sym.
  - apply IHa.
  - rewrite Forall_forall in H. apply set_eqb_sym. exact H.
  - rewrite Forall_forall in H. apply set_eqb_sym. exact H.
Qed.

Lemma cond_eqb_not_self : forall x, cond_eqb x (CNot x) = false.
Proof. induction x using cond_ind'; simpl; auto. Qed.

Lemma eqb_not_shape : forall x y, is_not x = false -> cond_eqb x (CNot y) = false.
Proof. intros x y H. destruct x; simpl in *; auto. discriminate. Qed.

Lemma notc_not_self : forall a, cond_eqb (NotC a) a = false.
Proof.
  intros a. destruct a; cbn [NotC]; try apply cond_eqb_not_self;
    rewrite cond_eqb_sym; apply cond_eqb_not_self.
Qed.

(* no double negation at the top of the term *)
Definition nn (c : cond) : bool := match c with CNot (CNot _) => false | _ => true end.

Lemma wf_nn : forall c, cond_wfb c = true -> nn c = true.
Proof.
  intros c H. destruct c; auto. simpl in H. apply andb_prop in H. destruct H as [H _].
  destruct c; auto; try discriminate.
Qed.

Lemma notc_involutive_lemma : forall a, nn a = true -> NotC (NotC a) = a.
Proof. intros a H. destruct a; auto. destruct a; auto. discriminate. Qed.

(* [Not(x) == y] is the same test as [Not(y) == x] on terms without double negation *)
Lemma notc_swap : forall x y, nn x = true -> nn y = true -> cond_eqb (NotC x) y = cond_eqb (NotC y) x.
Proof.
  intros x y Hx Hy.
  assert (forall u w, is_not u = false -> is_not w = false ->
                      cond_eqb (NotC u) w = false /\ cond_eqb (NotC w) u = false) as Plain.
  { intros u w Hu Hw. split.
    - replace (NotC u) with (CNot u) by (destruct u; auto; discriminate).
      rewrite cond_eqb_sym. apply eqb_not_shape. exact Hw.
    - replace (NotC w) with (CNot w) by (destruct w; auto; discriminate).
      rewrite cond_eqb_sym. apply eqb_not_shape. exact Hu. }
  destruct (is_not x) eqn:Ex; destruct (is_not y) eqn:Ey.
  - destruct x as [| | |x'| |]; try discriminate. destruct y as [| | |y'| |]; try discriminate.
    assert (is_not x' = false) by (destruct x'; auto; discriminate).
    assert (is_not y' = false) by (destruct y'; auto; discriminate).
    cbn [NotC]. rewrite (eqb_not_shape x' y'), (eqb_not_shape y' x'); auto.
  - destruct x as [| | |x'| |]; try discriminate.
    replace (NotC y) with (CNot y) by (destruct y; auto; discriminate).
    cbn [NotC cond_eqb]. apply cond_eqb_sym.
  - destruct y as [| | |y'| |]; try discriminate.
    replace (NotC x) with (CNot x) by (destruct x; auto; discriminate).
    cbn [NotC cond_eqb]. apply cond_eqb_sym.
  - destruct (Plain x y Ex Ey) as [A B]. rewrite A, B. reflexivity.
Qed.

(* ------------------------------------------------------------------------------------------ *)
(* sets *)

Lemma cmem_false : forall c s, cmem c s = false <-> forall y, In y s -> cond_eqb c y = false.
Proof.
  intros c s. unfold cmem. induction s as [|a t IH]; simpl.
  - split; [intros _ y []|reflexivity].
  - rewrite orb_false_iff, IH. split.
    + intros [H1 H2] y [E|Hy]; [subst; auto | auto].
    + intros H. split; [apply H; left; reflexivity | intros y Hy; apply H; right; exact Hy].
Qed.

Lemma cmem_app : forall c s1 s2, cmem c (s1 ++ s2) = cmem c s1 || cmem c s2.
Proof. intros. unfold cmem. apply existsb_app. Qed.

Lemma nodupb_snoc : forall s c, nodupb s = true -> cmem c s = false -> nodupb (s ++ [c]) = true.
Proof.
  induction s as [|x t IH]; intros c Hs Hc; cbn [app nodupb] in *.
  - reflexivity.
  - apply andb_prop in Hs. destruct Hs as [Hx Ht].
    rewrite cmem_false in Hc.
    rewrite cmem_app. unfold cmem at 2. cbn [existsb]. rewrite orb_false_r.
    rewrite (cond_eqb_sym x c), (Hc x (or_introl eq_refl)), orb_false_r, Hx. cbn [andb].
    apply IH; auto. apply cmem_false. intros y Hy. apply Hc. right. exact Hy.
Qed.

Lemma nodupb_cadd : forall c s, nodupb s = true -> nodupb (cadd c s) = true.
Proof.
  intros c s H. unfold cadd. destruct (cmem c s) eqn:E; auto. apply nodupb_snoc; auto.
Qed.

Lemma in_cadd : forall x c s, In x (cadd c s) -> In x s \/ x = c.
Proof.
  intros x c s H. unfold cadd in H. destruct (cmem c s); auto.
  apply in_app_or in H. destruct H as [H|[H|[]]]; auto.
Qed.

Lemma cadd_incl : forall c s x, In x s -> In x (cadd c s).
Proof. intros c s x H. unfold cadd. destruct (cmem c s); auto. apply in_or_app. auto. Qed.

Lemma length_cadd : forall c s, length s <= length (cadd c s).
Proof. intros. unfold cadd. destruct (cmem c s); auto. rewrite app_length. lia. Qed.

Lemma is_ignore_eq : forall k c, is_ignore k c = true -> c = ignore k.
Proof. intros [] c H; destruct c; simpl in H; try discriminate; reflexivity. Qed.

Lemma is_accept_eq : forall k c, is_accept k c = true -> c = accept k.
Proof. intros [] c H; destruct c; simpl in H; try discriminate; reflexivity. Qed.

Lemma not_ign_acc_const : forall k c, is_ignore k c = false -> is_accept k c = false -> is_const c = false.
Proof. intros [] c H1 H2; destruct c; simpl in *; auto; discriminate. Qed.

Lemma const_wf : forall c, is_const c = true -> cond_wfb c = true.
Proof. intros c H. destruct c; auto; discriminate. Qed.

(* ------------------------------------------------------------------------------------------ *)
(* the loop of _Composite.make keeps the set well formed *)

Definition set_ok (s : list cond) : Prop :=
  (forall x, In x s -> cond_wfb x = true /\ is_const x = false) /\
  nodupb s = true /\
  (forall x y, In x s -> In y s -> cond_eqb (NotC x) y = false).

Lemma make_loop_ok : forall k args s,
  (forall a, In a args -> cond_wfb a = true) -> set_ok s ->
  match make_loop k args s with
  | inl c => c = accept k
  | inr s' => set_ok s' /\ (forall x, In x s' -> In x s \/ In x args) /\ length s <= length s'
  end.
Proof.
  intros k args. induction args as [|arg rest IH]; intros s Hargs Hs; cbn [make_loop].
  - split; auto.
  - assert (forall a, In a rest -> cond_wfb a = true) as Hrest by (intros; apply Hargs; right; assumption).
    destruct (is_ignore k arg) eqn:Ei.
    + specialize (IH s Hrest Hs). destruct (make_loop k rest s); auto.
      destruct IH as [A [B C]]. split; auto. split; auto. intros x Hx. destruct (B x Hx); auto. right. right. assumption.
    + destruct (is_accept k arg) eqn:Ea; [apply is_accept_eq; exact Ea|].
      destruct (cmem (NotC arg) s) eqn:Em; [reflexivity|].
      assert (cond_wfb arg = true) as Wa by (apply Hargs; left; reflexivity).
      assert (set_ok (cadd arg s)) as Hs'.
      { destruct Hs as [H1 [H2 H3]]. split; [|split].
        - intros x Hx. destruct (in_cadd _ _ _ Hx) as [Hx'|E]; [auto|]. subst x. split; auto.
          eapply not_ign_acc_const; eauto.
        - apply nodupb_cadd. exact H2.
        - rewrite cmem_false in Em. intros x y Hx Hy.
          destruct (in_cadd _ _ _ Hx) as [Hx'|Ex]; destruct (in_cadd _ _ _ Hy) as [Hy'|Ey]; subst; auto.
          + rewrite notc_swap; [apply Em; exact Hx' | apply wf_nn; apply H1; exact Hx' | apply wf_nn; exact Wa].
          + apply notc_not_self. }
      specialize (IH (cadd arg s) Hrest Hs'). destruct (make_loop k rest (cadd arg s)); auto.
      destruct IH as [A [B C]]. split; auto. split.
      * intros x Hx. destruct (B x Hx) as [Hc|Hr]; [|right; right; exact Hr].
        destruct (in_cadd _ _ _ Hc); [left; assumption | right; left; auto].
      * pose proof (length_cadd arg s). lia.
Qed.

Lemma set_ok_nil : set_ok [].
Proof. split; [intros x []|]. split; [reflexivity|intros x y []]. Qed.

Lemma mk_wf : forall k s, set_ok s -> 2 <= length s -> cond_wfb (mk k s) = true.
Proof.
  intros k s [H1 [H2 H3]] Hl.
  assert ((2 <=? length s) && forallb cond_wfb s && forallb (fun x => negb (is_const x)) s &&
          nodupb s && nocomplb s = true) as G.
  { apply andb_true_intro. split; [apply andb_true_intro; split; [apply andb_true_intro; split; [apply andb_true_intro; split|]|]|].
    - apply Nat.leb_le. exact Hl.
    - apply forallb_forall. intros x Hx. apply H1. exact Hx.
    - apply forallb_forall. intros x Hx. destruct (H1 x Hx) as [_ E]. rewrite E. reflexivity.
    - exact H2.
    - unfold nocomplb. apply forallb_forall. intros x Hx. apply negb_true_iff. apply cmem_false.
      intros y Hy. apply H3; assumption. }
  destruct k; exact G.
Qed.

(* the result of And / Or is an argument, a constant, or a fresh composite of the called kind with at
   least two members that are all arguments (nothing is flattened, no new subterm is built) *)
Lemma make_result_lemma : forall k args,
  (forall a, In a args -> cond_wfb a = true) ->
  In (make k args) args \/ is_const (make k args) = true \/
  exists s, make k args = mk k s /\ 2 <= length s /\ set_ok s /\ forall x, In x s -> In x args.
Proof.
  intros k args Hargs. unfold make.
  pose proof (make_loop_ok k args [] Hargs set_ok_nil) as H.
  destruct (make_loop k args []) as [c|s].
  - right. left. subst c. destruct k; reflexivity.
  - destruct H as [Hok [Hmem _]].
    assert (forall x, In x s -> In x args) as Hin.
    { intros x Hx. destruct (Hmem x Hx) as [[]|]; assumption. }
    destruct s as [|c [|c' s']].
    + right. left. destruct k; reflexivity.
    + left. apply Hin. left. reflexivity.
    + right. right. exists (c :: c' :: s'). split; [reflexivity|]. split; [simpl; lia|]. auto.
Qed.

Lemma make_wf_lemma : forall k args,
  (forall a, In a args -> cond_wfb a = true) -> cond_wfb (make k args) = true.
Proof.
  intros k args Hargs. destruct (make_result_lemma k args Hargs) as [H|[H|[s [E [Hl [Hok _]]]]]].
  - apply Hargs. exact H.
  - apply const_wf. exact H.
  - rewrite E. apply mk_wf; assumption.
Qed.

Lemma notc_wf_lemma : forall c, cond_wfb c = true -> cond_wfb (NotC c) = true.
Proof.
  intros c H. destruct c; auto; try (cbn [NotC cond_wfb is_not negb andb]; exact H).
  simpl in H. apply andb_prop in H. tauto.
Qed.

(* what cond_wfb says about a composite, in words *)
Lemma wf_composite_lemma : forall c, is_composite c = true -> cond_wfb c = true ->
  2 <= length (members c) /\
  (forall x, In x (members c) -> cond_wfb x = true /\ x <> CT /\ x <> CF) /\
  nodupb (members c) = true /\
  (forall x y, In x (members c) -> In y (members c) -> cond_eqb (NotC x) y = false).
Proof.
  intros c Hc H.
  assert (forall l, (2 <=? length l) && forallb cond_wfb l && forallb (fun x => negb (is_const x)) l &&
                    nodupb l && nocomplb l = true ->
          2 <= length l /\ (forall x, In x l -> cond_wfb x = true /\ x <> CT /\ x <> CF) /\
          nodupb l = true /\ (forall x y, In x l -> In y l -> cond_eqb (NotC x) y = false)) as G.
  { intros l E. apply andb_prop in E. destruct E as [E E5]. apply andb_prop in E. destruct E as [E E4].
    apply andb_prop in E. destruct E as [E E3]. apply andb_prop in E. destruct E as [E1 E2].
    split; [apply Nat.leb_le; exact E1|]. split; [|split; [exact E4|]].
    - intros x Hx. rewrite forallb_forall in E2, E3. split; [auto|].
      specialize (E3 x Hx). split; intros ->; discriminate.
    - intros x y Hx Hy. unfold nocomplb in E5. rewrite forallb_forall in E5. specialize (E5 x Hx).
      apply negb_true_iff in E5. rewrite cmem_false in E5. auto. }
  destruct c; try discriminate; simpl in H; apply G; exact H.
Qed.

(* ------------------------------------------------------------------------------------------ *)
(* laws that hold for ALL terms (well formed or not) *)

Lemma cadd_nil : forall a, cadd a [] = [a].
Proof. reflexivity. Qed.

Lemma cadd_self : forall a, cadd a [a] = [a].
Proof. intros a. unfold cadd, cmem. cbn [existsb]. rewrite cond_eqb_refl. reflexivity. Qed.

Lemma cmem_notc_self : forall a, cmem (NotC a) [a] = false.
Proof. intros a. unfold cmem. cbn [existsb]. rewrite notc_not_self. reflexivity. Qed.

(* And(a) = a,  Or(a) = a *)
Lemma make_single_lemma : forall k a, make k [a] = a.
Proof.
  intros k a. unfold make. cbn [make_loop].
  destruct (is_ignore k a) eqn:Ei; [symmetry; apply is_ignore_eq; exact Ei|].
  destruct (is_accept k a) eqn:Ea; [reflexivity|].
  reflexivity.
Qed.

(* And(a, a) = a,  Or(a, a) = a *)
Lemma make_idem_lemma : forall k a, make k [a; a] = a.
Proof.
  intros k a. unfold make. cbn [make_loop].
  destruct (is_ignore k a) eqn:Ei; [symmetry; apply is_ignore_eq; exact Ei|].
  destruct (is_accept k a) eqn:Ea; [reflexivity|].
  change (cmem (NotC a) []) with false. cbv iota. rewrite cadd_nil, cmem_notc_self, cadd_self. reflexivity.
Qed.

(* And(TRUE, a) = And(a, TRUE) = a,  Or(FALSE, a) = Or(a, FALSE) = a *)
Lemma make_unit_lemma : forall k a, make k [ignore k; a] = a /\ make k [a; ignore k] = a.
Proof.
  intros k a.
  assert (is_ignore k (ignore k) = true) as Hi by (destruct k; reflexivity).
  split; unfold make; cbn [make_loop]; rewrite Hi.
  - fold (make k [a]). apply make_single_lemma.
  - destruct (is_ignore k a) eqn:Ei; [symmetry; apply is_ignore_eq; exact Ei|].
    destruct (is_accept k a) eqn:Ea; [reflexivity|]. reflexivity.
Qed.

(* And(FALSE, a) = And(a, FALSE) = FALSE,  Or(TRUE, a) = Or(a, TRUE) = TRUE *)
Lemma make_zero_lemma : forall k a, make k [accept k; a] = accept k /\ make k [a; accept k] = accept k.
Proof.
  intros k a.
  assert (is_ignore k (accept k) = false) as Hi by (destruct k; reflexivity).
  assert (is_accept k (accept k) = true) as Ha by (destruct k; reflexivity).
  split; unfold make; cbn [make_loop]; rewrite ?Hi, ?Ha; [reflexivity|].
  destruct (is_ignore k a) eqn:Ei; [reflexivity|].
  destruct (is_accept k a) eqn:Ea; [apply is_accept_eq; exact Ea|].
  change (cmem (NotC a) []) with false. cbv iota. reflexivity.
Qed.

(* ------------------------------------------------------------------------------------------ *)
(* laws that need the normal form *)

(* And(a, Not(a)) = FALSE and Or(a, Not(a)) = TRUE in both argument orders, for every non-constant
   term without a double negation whose negation is not a constant either (Not(_Not(TRUE)) is TRUE) *)
Lemma make_complement_lemma : forall k a,
  nn a = true -> is_const a = false -> is_const (NotC a) = false ->
  make k [a; NotC a] = accept k /\ make k [NotC a; a] = accept k.
Proof.
  intros k a Hn Ha Hna.
  assert (forall c, is_const c = false -> is_ignore k c = false /\ is_accept k c = false) as NC.
  { intros c Hc. destruct k; destruct c; simpl in *; auto; discriminate. }
  destruct (NC a Ha) as [I1 A1]. destruct (NC (NotC a) Hna) as [I2 A2].
  split; unfold make; cbn [make_loop]; rewrite ?I1, ?A1, ?I2, ?A2.
  - change (cmem (NotC a) []) with false. cbv iota. rewrite cadd_nil.
    rewrite (notc_involutive_lemma a Hn). unfold cmem. cbn [existsb]. rewrite cond_eqb_refl. reflexivity.
  - change (cmem (NotC (NotC a)) []) with false. cbv iota. rewrite cadd_nil.
    unfold cmem. cbn [existsb]. rewrite cond_eqb_refl. reflexivity.
Qed.

(* without the normal form Not is not an involution (it is one semantically: not_equiv) *)
Lemma notc_not_involutive_lemma : exists a, NotC (NotC a) <> a /\ cond_wfb a = false.
Proof. exists (CNot (CNot (Atom 0))). split; [discriminate|reflexivity]. Qed.

(* ... and a complementary pair survives: And(_Not(_Not(a)), Not(a)) keeps both members *)
Lemma make_complement_needs_wf_lemma :
  exists a b, cond_wfb a = false /\ cond_wfb b = true /\
              (forall rho, holds rho a = negb (holds rho b)) /\ make KAnd [a; b] = CAnd [a; b].
Proof.
  exists (CNot (CNot (Atom 0))), (CNot (Atom 0)). split; [reflexivity|]. split; [reflexivity|].
  split; [|reflexivity]. intros rho. simpl. reflexivity.
Qed.

(* no flattening: And(And(a, b), c) keeps the inner _And as a member - and that IS well formed *)
Lemma no_flattening_lemma :
  make KAnd [make KAnd [Atom 0; Atom 1]; Atom 2] = CAnd [CAnd [Atom 0; Atom 1]; Atom 2] /\
  cond_wfb (CAnd [CAnd [Atom 0; Atom 1]; Atom 2]) = true /\
  (* the same set of atoms written flat is a different, unequal term *)
  cond_eqb (make KAnd [make KAnd [Atom 0; Atom 1]; Atom 2]) (make KAnd [Atom 0; Atom 1; Atom 2]) = false.
Proof. repeat split. Qed.
