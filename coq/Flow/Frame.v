(* C18 extension: model of pytype/rewrite/flow/frame_base.py (FrameBase.__init__, step at block
   granularity, _merge_state_into) over an abstract block graph, plus the path semantics the flow
   layer is supposed to compute.  Definitions only (no proofs).

   A block is the list of its opcodes: straight-line stores followed by one last opcode, whose class
   decides what FrameBase.step and the opcode handler do when the block is left:
   * TFall n      last opcode carries on to the next opcode and has no known jump
                  (step: [_merge_state_into(self._current_state, opcode.next.index)]); n is
                  opcode.next.index, i.e. the id of the block that follows in the bytecode;
   * TJump t      JUMP_FORWARD-like (flags HAS_JREL | NO_NEXT): the handler merges the current state
                  into the jump target (rewrite/frame.py byte_JUMP_FORWARD); since the opcode does not
                  carry on, step ALSO merges the current state into _FINAL;
   * TCond a t n  POP_JUMP_IF_FALSE-like (HAS_JREL, carries on) on the atomic condition a: the handler
                  (rewrite/frame.py _pop_jump_if_false, with real conditions instead of the placeholder)
                  merges with_condition(Not a) into the jump target t first and then with_condition(a)
                  into opcode.next.index = n; step itself merges nothing (has_known_jump);
   * TRet         NO_NEXT without jump: step merges the current state into _FINAL.
   _states is keyed by block id (= index of the block's first opcode); _FINAL (-1) is the separate
   field [ffinal].  Blocks are processed once each, in the order of code.order.  The handlers mutate
   self._current_state, which IS the object recorded in _states[block.id]: after a block has been
   processed its entry in _states is the block's exit state. *)
From Coq Require Import List Bool.
From PV Require Import Flow.Model.
Import ListNotations.

Inductive term : Type :=
| TFall (next : nat)
| TJump (target : nat)
| TCond (a target next : nat)
| TRet.

Record block := mkBlk { bid : nat; bstores : list (nat * nat); bterm : term }.

Record frame := mkF {
  fstates : list (nat * state);     (* _states without the _FINAL key *)
  ffinal : option state             (* _states.get(_FINAL) *)
}.

(* _merge_state_into(from_state, block_id):
   self._states[block_id] = from_state.merge_into(self._states.get(block_id)) *)
Definition merge_state_into (f : frame) (from : state) (k : option nat) : frame :=
  match k with
  | Some id => mkF (dset id (merge_into from (dget id (fstates f))) (fstates f)) (ffinal f)
  | None => mkF (fstates f) (Some (merge_into from (ffinal f)))
  end.

(* dict(initial_locals) with initial_locals = {x: Variable.from_value(v), ...} *)
Definition init_locals (init : list (nat * nat)) : list (nat * variable) :=
  fold_left (fun d xv => dset (fst xv) (from_value (snd xv) None) d) init [].

(* FrameBase.__init__ ([assert code.order] = None on empty code) *)
Definition init_frame (code : list block) (init : list (nat * nat)) : option frame :=
  match code with
  | [] => None
  | b :: _ => Some (mkF [(bid b, new_state (init_locals init) CT None)] None)
  end.

(* the store opcodes of a block: self._current_state.store_local(x, Variable.from_value(v)) *)
Definition run_stores (stores : list (nat * nat)) (s : state) : state :=
  fold_left (fun s xv => store_local s (fst xv) (from_value (snd xv) None)) stores s.

(* all step() calls of one block; None = KeyError (no state was recorded for the block) *)
Definition run_block (f : frame) (b : block) : option frame :=
  match dget (bid b) (fstates f) with
  | None => None
  | Some cur =>
      let cur' := run_stores (bstores b) cur in
      (* in-place mutation of the recorded state object *)
      let f1 := mkF (dset (bid b) cur' (fstates f)) (ffinal f) in
      Some
        match bterm b with
        | TFall n => merge_state_into f1 cur' (Some n)
        | TJump t => merge_state_into (merge_state_into f1 cur' (Some t)) cur' None
        | TCond a t n =>
            merge_state_into
              (merge_state_into f1 (with_condition cur' (NotC (Atom a))) (Some t))
              (with_condition cur' (Atom a)) (Some n)
        | TRet => merge_state_into f1 cur' None
        end
  end.

Fixpoint run_blocks (bs : list block) (f : frame) : option frame :=
  match bs with
  | [] => Some f
  | b :: rest =>
      match run_block f b with
      | Some f' => run_blocks rest f'
      | None => None
      end
  end.

(* the frame after the first p blocks of code.order have been processed *)
Definition run_prefix (code : list block) (init : list (nat * nat)) (p : nat) : option frame :=
  match init_frame code init with
  | Some f => run_blocks (firstn p code) f
  | None => None
  end.

(* the state with which the block at position p of code.order is entered *)
Definition entry_state (code : list block) (init : list (nat * nat)) (p : nat) : option state :=
  match run_prefix code init p, nth_error code p with
  | Some f, Some b => dget (bid b) (fstates f)
  | _, _ => None
  end.

(* whole frame: all blocks, then _final_locals = _states[_FINAL].get_locals() (KeyError = None) *)
Definition run_frame (code : list block) (init : list (nat * nat))
  : option (frame * list (nat * variable)) :=
  match run_prefix code init (length code) with
  | Some f =>
      match ffinal f with
      | Some s => Some (f, get_locals s)
      | None => None
      end
  | None => None
  end.

(* ------------------------------------------------------------------------------------------ *)
(* Path semantics (independent of states, conditions and merging): concrete environments flowing
   along the control edges that are enabled under a valuation of the atoms. *)

Definition env := list (nat * nat).

Definition apply_stores (stores : list (nat * nat)) (e : env) : env :=
  fold_left (fun e xv => dset (fst xv) (snd xv) e) stores e.

Definition init_env (init : list (nat * nat)) : env := apply_stores init [].

(* outgoing control edges of a last opcode: (enabled under rho?, target block id) *)
Definition sem_outs (rho : nat -> bool) (t : term) : list (bool * nat) :=
  match t with
  | TFall n => [(true, n)]
  | TJump j => [(true, j)]
  | TCond a j n => [(negb (rho a), j); (rho a, n)]
  | TRet => []
  end.

Definition edge (rho : nat -> bool) (t : term) (j : nat) : Prop := In (true, j) (sem_outs rho t).

Definition targets (t : term) : list nat :=
  match t with
  | TFall n => [n]
  | TJump j => [j]
  | TCond _ j n => [j; n]
  | TRet => []
  end.

(* [arrivesK code init rho k j e]: some control path from the entry block, enabled under rho, all of
   whose edges leave blocks at positions < k of code.order, reaches block j with environment e *)
Inductive arrivesK (code : list block) (init : list (nat * nat)) (rho : nat -> bool) (k : nat)
  : nat -> env -> Prop :=
| ak_entry : forall b, nth_error code 0 = Some b -> arrivesK code init rho k (bid b) (init_env init)
| ak_step : forall p b e j,
    p < k -> nth_error code p = Some b ->
    arrivesK code init rho k (bid b) e -> edge rho (bterm b) j ->
    arrivesK code init rho k j (apply_stores (bstores b) e).

(* all control paths *)
Definition arrives (code : list block) (init : list (nat * nat)) (rho : nat -> bool)
  : nat -> env -> Prop := arrivesK code init rho (length code).

(* acyclic graph processed in a topological order: block ids are distinct and every jump target /
   fall-through is the id of no block at the same or an earlier position *)
Fixpoint fwd (seen : list nat) (code : list block) : bool :=
  match code with
  | [] => true
  | b :: rest =>
      negb (nmem (bid b) seen) &&
      forallb (fun t => negb (nmem t (bid b :: seen))) (targets (bterm b)) &&
      fwd (bid b :: seen) rest
  end.

Definition wf_code (code : list block) : bool := fwd [] code.

(* rendering for the correspondence runner *)
Definition render_frame (f : frame) :=
  (map (fun ks => (fst ks, render_state (snd ks))) (fstates f), option_map render_state (ffinal f)).
Definition render_run (code : list block) (init : list (nat * nat)) :=
  (map (fun p => option_map render_state (entry_state code init p)) (seq 0 (length code)),
   option_map render_frame (run_prefix code init (length code)),
   option_map (fun fl => map (fun nv => (fst nv, render_var (snd nv))) (snd fl)) (run_frame code init)).
