(* C18 extension (loops): the frame stepping of Flow/Frame.v computes exactly the FORWARD-path
   semantics of Flow/Loop.v on arbitrary block graphs (back edges, self loops, jumps to ids that
   are no block), and the all-paths reading is refuted. *)
From Coq Require Import List Bool Arith PeanoNat Lia.
From PV Require Import Flow.Model Flow.Proofs Flow.Frame Flow.FrameProofs Flow.Loop.
Import ListNotations.

Lemma unique_pos : forall code p q b b',
  NoDup (map bid code) -> nth_error code p = Some b -> nth_error code q = Some b' ->
  bid b = bid b' -> p = q.
Proof.
  intros code p q b b' Hnd Hp Hq E. rewrite NoDup_nth_error in Hnd. apply Hnd.
  - rewrite map_length. apply nth_error_Some. congruence.
  - rewrite (map_nth_error bid _ _ Hp), (map_nth_error bid _ _ Hq). congruence.
Qed.

(* ------------------------------------------------------------------------------------------ *)
(* forward arrivals *)

Section ArrivalsF.
  Variable code : list block.
  Variable init : list (nat * nat).
  Variable rho : nat -> bool.

  Lemma arrivesFK_mono : forall k k' j e,
    arrivesFK code init rho k j e -> k <= k' -> arrivesFK code init rho k' j e.
  Proof.
    intros k k' j e H Hle. induction H.
    - apply afk_entry. assumption.
    - eapply afk_step; eauto. lia.
  Qed.

  (* a forward path is a path *)
  Lemma arrivesFK_arrivesK : forall k j e, arrivesFK code init rho k j e -> arrivesK code init rho k j e.
  Proof.
    intros k j e H. induction H.
    - apply ak_entry. assumption.
    - eapply ak_step; eauto.
  Qed.

  (* a forward path into the block at position p only leaves blocks at positions < p *)
  Lemma arrivesFK_restrict : forall k j e, arrivesFK code init rho k j e ->
    forall p b, nth_error code p = Some b -> bid b = j -> arrivesFK code init rho p j e.
  Proof.
    intros k j e H. induction H as [b0 H0 | q bq e j Hq Hnq Hsrc IH Hedge Hfwd]; intros p b Hp E.
    - apply afk_entry. assumption.
    - assert (q < p) as Hlt.
      { destruct (le_lt_dec p q) as [Hle|]; [|assumption]. exfalso. apply (Hfwd p b Hle Hp E). }
      eapply afk_step; eauto. eapply arrivesFK_mono; [apply (IH q bq Hnq eq_refl)|lia].
  Qed.

  Lemma arrivesFK_succ : forall k b j e, nth_error code k = Some b ->
    (arrivesFK code init rho (S k) j e <->
     arrivesFK code init rho k j e \/
     (In (true, j) (sem_outs rho (bterm b)) /\ fwd_edge code k j /\
      exists e0, arrivesFK code init rho k (bid b) e0 /\ e = apply_stores (bstores b) e0)).
  Proof.
    intros k b j e Hk. split.
    - intros H. inversion H as [b0 H0 | q bq e0 j' Hq Hnq Hsrc Hedge Hfwd]; subst.
      + left. apply afk_entry. assumption.
      + assert (arrivesFK code init rho q (bid bq) e0) as Hr by (eapply arrivesFK_restrict; eauto).
        destruct (Nat.eq_dec q k) as [E|Hne].
        * subst q. rewrite Hk in Hnq. inversion Hnq. subst bq. right. split; [exact Hedge|].
          split; [exact Hfwd|]. exists e0. auto.
        * left. eapply afk_step; eauto; [lia|]. eapply arrivesFK_mono; eauto. lia.
    - intros [H|[Hedge [Hfwd [e0 [H E]]]]].
      + eapply arrivesFK_mono; eauto.
      + subst e. eapply (afk_step code init rho (S k) k b e0 j); auto.
        eapply arrivesFK_mono; eauto.
  Qed.

  Lemma arrivesFK_zero : forall j e, arrivesFK code init rho 0 j e ->
    exists b, nth_error code 0 = Some b /\ j = bid b /\ e = init_env init.
  Proof.
    intros j e H. inversion H as [b0 H0 | q bq e0 j' Hq]; subst.
    - exists b0. auto.
    - lia.
  Qed.

  Lemma finalFK_succ : forall k b e', nth_error code k = Some b ->
    (finalFK code init rho (S k) e' <->
     finalFK code init rho k e' \/
     (exits (bterm b) = true /\
      exists e0, arrivesFK code init rho k (bid b) e0 /\ e' = apply_stores (bstores b) e0)).
  Proof.
    intros k b e' Hk. unfold finalFK. split.
    - intros [p [bp [e [Hp [Hn [Ha [Hx E]]]]]]]. destruct (Nat.eq_dec p k) as [Ep|Hne].
      + subst p. rewrite Hk in Hn. inversion Hn. subst bp. right. split; auto. exists e. auto.
      + left. exists p, bp, e. repeat split; auto. lia.
    - intros [[p [bp [e [Hp [Hn [Ha [Hx E]]]]]]]|[Hx [e0 [Ha E]]]].
      + exists p, bp, e. repeat split; auto.
      + exists k, b, e0. repeat split; auto.
  Qed.
End ArrivalsF.

(* on an acyclic graph in topological order every edge is forward: the two semantics coincide *)
Lemma arrivesF_acyclic : forall code init rho k j e,
  wf_code code = true -> (arrivesFK code init rho k j e <-> arrivesK code init rho k j e).
Proof.
  intros code init rho k j e WF. split; [apply arrivesFK_arrivesK|].
  intros H. induction H as [b0 H0 | p b e j Hp Hn Hsrc IH Hedge].
  - apply afk_entry. assumption.
  - eapply afk_step; eauto. intros q b' Hq Hnq E.
    assert (p < q); [|lia].
    eapply (wf_forward code p b j q b'); eauto. eapply edge_targets. exact Hedge.
Qed.

(* ------------------------------------------------------------------------------------------ *)
(* the _FINAL merges of a block *)

Lemma run_block_final : forall f b f', run_block f b = Some f' ->
  exists cur, dget (bid b) (fstates f) = Some cur /\
    ffinal f' = if exits (bterm b) then Some (merge_into (run_stores (bstores b) cur) (ffinal f))
                else ffinal f.
Proof.
  intros f b f' H. unfold run_block in H. destruct (dget (bid b) (fstates f)) as [cur|]; [|discriminate].
  exists cur. split; auto. inversion H. destruct (bterm b); reflexivity.
Qed.

(* ------------------------------------------------------------------------------------------ *)
(* the frame invariant, without acyclicity *)

Section FrameL.
  Variable code : list block.
  Variable init : list (nat * nat).
  Hypothesis ND : NoDup (map bid code).

  (* after the first k blocks: every recorded state (dead ones included) satisfies Inv; the state
     recorded for any id that is not the id of a processed block denotes exactly the environments
     arriving there along enabled FORWARD paths through the processed blocks; the _FINAL state
     denotes the exit environments of the processed NO_NEXT blocks *)
  Definition InvL (k : nat) (f : frame) : Prop :=
    all_Inv (fstates f) /\
    (forall s, ffinal f = Some s -> Inv s) /\
    (forall j, (forall q b', q < k -> nth_error code q = Some b' -> bid b' <> j) ->
       forall rho, SpecO rho (dget j (fstates f)) (arrivesFK code init rho k j)) /\
    (forall rho, SpecO rho (ffinal f) (finalFK code init rho k)).

  Lemma InvL_init : forall f, init_frame code init = Some f -> InvL 0 f.
  Proof.
    intros f H. unfold init_frame in H. destruct code as [|b0 rest] eqn:Ec; [discriminate|].
    inversion H. subst f. clear H. split; [|split; [|split]].
    - intros j s Hd. cbn [fstates dget] in Hd. destruct (Nat.eqb j (bid b0)); inversion Hd.
      apply init_state_Inv.
    - intros s Hs. discriminate.
    - intros j _ rho. cbn [fstates dget]. destruct (Nat.eqb j (bid b0)) eqn:E.
      + apply Nat.eqb_eq in E. subst j. eapply SpecO_ext; [apply init_state_spec|].
        intros e. split.
        * intros Ee. subst e. apply afk_entry. rewrite Ec. reflexivity.
        * intros Ha. destruct (arrivesFK_zero _ _ _ _ _ Ha) as [b [_ [_ Ee]]]. exact Ee.
      + split.
        * intros x v. split; [intros []|]. intros [e [Ha _]].
          destruct (arrivesFK_zero _ _ _ _ _ Ha) as [b [Hb [Ej _]]]. rewrite Ec in Hb. cbn [nth_error] in Hb. inversion Hb. subst.
          rewrite Nat.eqb_refl in E. discriminate.
        * split; [discriminate|]. intros [e Ha].
          destruct (arrivesFK_zero _ _ _ _ _ Ha) as [b [Hb [Ej _]]]. rewrite Ec in Hb. cbn [nth_error] in Hb. inversion Hb. subst.
          rewrite Nat.eqb_refl in E. discriminate.
    - intros rho. split.
      + intros x v. split; [intros []|]. intros [e [[p [b [e0 [Hp _]]]] _]]. lia.
      + split; [discriminate|]. intros [e [p [b [e0 [Hp _]]]]]. lia.
  Qed.

  Lemma InvL_step : forall k f b f',
    InvL k f -> nth_error code k = Some b -> run_block f b = Some f' -> InvL (S k) f'.
  Proof.
    intros k f b f' [HI [HIf [HS HF]]] Hk Hrun.
    destruct (run_block_states _ _ _ Hrun) as [cur [Hcur Hst]].
    destruct (run_block_final _ _ _ Hrun) as [cur2 [Hcur2 Hfin]].
    rewrite Hcur in Hcur2. inversion Hcur2. subst cur2. clear Hcur2.
    assert (Inv cur) as Icur by (eapply HI; eauto).
    assert (forall q b', q < k -> nth_error code q = Some b' -> bid b' <> bid b) as Hfresh.
    { intros q b' Hq Hnq E. assert (q = k) by (eapply unique_pos; eauto). lia. }
    set (cur' := run_stores (bstores b) cur) in *.
    assert (Inv cur') as Icur' by (apply run_stores_Inv; exact Icur).
    set (st0 := dset (bid b) cur' (fstates f)) in *.
    assert (all_Inv st0) as Hs0.
    { intros j s Hd. unfold st0 in Hd. rewrite dget_dset in Hd. destruct (Nat.eqb j (bid b)).
      - inversion Hd. subst. exact Icur'.
      - eapply HI; eauto. }
    assert (forall rho, Spec rho cur'
              (fun e' => exists e, arrivesFK code init rho k (bid b) e /\ e' = apply_stores (bstores b) e)) as Scur'.
    { intros rho. apply run_stores_spec; auto. unfold Spec. rewrite <- Hcur. apply HS. exact Hfresh. }
    split; [|split; [|split]].
    - rewrite Hst. apply merge_all_Inv; auto. apply outs_Inv. exact Icur'.
    - intros s Hs. rewrite Hfin in Hs. destruct (exits (bterm b)); [|auto].
      inversion Hs. destruct (ffinal f) as [s2|] eqn:Ef.
      + apply Inv_merge_lemma; auto.
      + rewrite merge_none_lemma. exact Icur'.
    - intros j Hj rho. rewrite Hst.
      assert (j <> bid b) as Hne.
      { intros E. apply (Hj k b); auto. }
      assert (forall q b', q < k -> nth_error code q = Some b' -> bid b' <> j) as Hj'.
      { intros q b' Hq Hnq. apply (Hj q b'); [lia | exact Hnq]. }
      assert (fwd_edge code k j) as Hfw.
      { intros q b' Hq Hnq. apply (Hj q b'); [lia | exact Hnq]. }
      set (Aex := fun e' => exists e, arrivesFK code init rho k (bid b) e /\ e' = apply_stores (bstores b) e).
      assert (SpecO rho (dget j st0) (arrivesFK code init rho k j)) as Sj.
      { unfold st0. rewrite dget_dset. apply Nat.eqb_neq in Hne. rewrite Hne. apply HS. exact Hj'. }
      eapply SpecO_ext.
      + apply (merge_all_spec rho Aex _ _ (outs_sem rho (bterm b) cur' Aex Icur' (Scur' rho)) st0 j _ Hs0 Sj).
      + intros e. rewrite (arrivesFK_succ code init rho k b j e Hk). unfold Aex. split.
        * intros [Ha|[Hin [e0 [Ha E]]]]; auto. right. split; auto. split; auto. exists e0. auto.
        * intros [Ha|[Hin [_ [e0 [Ha E]]]]]; auto. right. split; auto. exists e0. auto.
    - intros rho. rewrite Hfin. destruct (exits (bterm b)) eqn:Ex.
      + destruct (merge_spec rho cur' (ffinal f) _ _ Icur' HIf (Scur' rho) (HF rho)) as [Sm _].
        eapply SpecO_ext; [exact Sm|]. intros e.
        rewrite (finalFK_succ code init rho k b e Hk). rewrite Ex. split.
        * intros [H|H]; [right; split; auto | left; exact H].
        * intros [H|[_ H]]; [right; exact H | left; exact H].
      + eapply SpecO_ext; [apply HF|]. intros e.
        rewrite (finalFK_succ code init rho k b e Hk). rewrite Ex. split.
        * intros H. left. exact H.
        * intros [H|[H _]]; [exact H | discriminate].
  Qed.

  Lemma InvL_prefix : forall p f, p <= length code -> run_prefix code init p = Some f -> InvL p f.
  Proof.
    induction p as [|p IH]; intros f Hle H; unfold run_prefix in *.
    - destruct (init_frame code init) as [f0|] eqn:E; [|discriminate]. simpl in H. inversion H. subst.
      apply InvL_init. exact E.
    - destruct (init_frame code init) as [f0|] eqn:E; [|discriminate].
      destruct (nth_error code p) as [b|] eqn:Hb; [|apply nth_error_None in Hb; lia].
      rewrite (firstn_succ _ _ _ Hb), run_blocks_app in H.
      destruct (run_blocks (firstn p code) f0) as [f1|] eqn:E1; [|discriminate].
      simpl in H. destruct (run_block f1 b) as [f2|] eqn:E2; [|discriminate]. inversion H. subst f2.
      eapply InvL_step; eauto. apply IH; [lia|]. reflexivity.
  Qed.

  Lemma frame_loop_join_exact_lemma : forall p b s,
    nth_error code p = Some b -> entry_state code init p = Some s ->
    Inv s /\
    forall rho,
      (forall x v, In v (vals rho s x) <->
                   exists e, arrivesF code init rho (bid b) e /\ dget x e = Some v) /\
      (holds rho (scond s) = true <-> exists e, arrivesF code init rho (bid b) e).
  Proof.
    intros p b s Hb He. unfold entry_state in He.
    destruct (run_prefix code init p) as [f|] eqn:Ef; [|discriminate]. rewrite Hb in He.
    assert (p < length code) as Hp by (apply nth_error_Some; congruence).
    destruct (InvL_prefix p f (Nat.lt_le_incl _ _ Hp) Ef) as [HI [_ [HS _]]].
    split; [eapply HI; eauto|]. intros rho.
    assert (forall q b', q < p -> nth_error code q = Some b' -> bid b' <> bid b) as Hfresh.
    { intros q b' Hq Hnq E. assert (q = p) by (eapply unique_pos; eauto). lia. }
    specialize (HS (bid b) Hfresh rho). rewrite He in HS.
    assert (SpecO rho (Some s) (arrivesF code init rho (bid b))) as [H1 H2].
    { eapply SpecO_ext; [exact HS|]. intros e. unfold arrivesF. split.
      - intros Ha. eapply arrivesFK_mono; eauto. lia.
      - intros Ha. eapply arrivesFK_restrict; eauto. }
    split; assumption.
  Qed.

  (* a block that some enabled forward path reaches has a recorded state when its turn comes *)
  Lemma frame_loop_reached_has_state_lemma : forall p b f rho e,
    nth_error code p = Some b -> run_prefix code init p = Some f ->
    arrivesF code init rho (bid b) e -> exists s, entry_state code init p = Some s.
  Proof.
    intros p b f rho e Hb Ef Ha. unfold entry_state. rewrite Ef, Hb.
    assert (p < length code) as Hp by (apply nth_error_Some; congruence).
    destruct (InvL_prefix p f (Nat.lt_le_incl _ _ Hp) Ef) as [_ [_ [HS _]]].
    assert (forall q b', q < p -> nth_error code q = Some b' -> bid b' <> bid b) as Hfresh.
    { intros q b' Hq Hnq E. assert (q = p) by (eapply unique_pos; eauto). lia. }
    destruct (HS (bid b) Hfresh rho) as [_ H2].
    destruct (dget (bid b) (fstates f)) as [s|]; [eauto|].
    assert (false = true) as X; [|discriminate]. apply H2. exists e.
    eapply arrivesFK_restrict; eauto.
  Qed.

  (* the frame's final state / _final_locals *)
  Lemma frame_final_exact_lemma : forall f fl,
    run_frame code init = Some (f, fl) ->
    exists s, ffinal f = Some s /\ fl = get_locals s /\ Inv s /\
      forall rho,
        (forall x v, In v (vals rho s x) <->
                     exists e, finalF code init rho e /\ dget x e = Some v) /\
        (holds rho (scond s) = true <-> exists e, finalF code init rho e).
  Proof.
    intros f fl H. unfold run_frame in H.
    destruct (run_prefix code init (length code)) as [f0|] eqn:Ef; [|discriminate].
    destruct (ffinal f0) as [s|] eqn:Es; [|discriminate]. inversion H. subst f0 fl.
    destruct (InvL_prefix (length code) f (le_n _) Ef) as [_ [HIf [_ HF]]].
    exists s. split; [exact Es|]. split; [reflexivity|]. split; [apply HIf; exact Es|].
    intros rho. specialize (HF rho). rewrite Es in HF. destruct HF as [H1 H2]. split; assumption.
  Qed.
End FrameL.

(* entry states under-approximate the all-paths semantics (soundness direction only) *)
Lemma frame_loop_sound_lemma : forall code init, NoDup (map bid code) ->
  forall p b s rho x v, nth_error code p = Some b -> entry_state code init p = Some s ->
  In v (vals rho s x) -> exists e, arrives code init rho (bid b) e /\ dget x e = Some v.
Proof.
  intros code init ND p b s rho x v Hb He Hin.
  destruct (frame_loop_join_exact_lemma code init ND p b s Hb He) as [_ H].
  destruct (H rho) as [H1 _]. apply H1 in Hin. destruct Hin as [e [Ha Hd]].
  exists e. split; auto. apply arrivesFK_arrivesK. exact Ha.
Qed.

(* ------------------------------------------------------------------------------------------ *)
(* the all-paths reading is false: a while loop.
     B0: x = 1 (fall)   B2: if not a0 jump B5   B3: x = 2; jump B2   B5: ret
   under a0 = true the path B0 B2 B3 B2 reaches the loop header B2 with x = 2, but the header's entry
   state (and the body's) only knows x = 1: the loop body is visited once, its exit state is merged into
   the header's ALREADY CONSUMED state *)
Definition code_while : list block :=
  [mkBlk 0 [(0, 1)] (TFall 2); mkBlk 2 [] (TCond 0 5 3); mkBlk 3 [(0, 2)] (TJump 2); mkBlk 5 [] TRet].
Definition rho_all (a : nat) : bool := true.

Lemma while_arrives_around : arrives code_while [] rho_all 2 [(0, 2)].
Proof.
  unfold arrives.
  change [(0, 2)] with (apply_stores [(0, 2)] (apply_stores [] (apply_stores [(0, 1)] (init_env [])))).
  apply (ak_step code_while [] rho_all _ 2 (mkBlk 3 [(0, 2)] (TJump 2))); [simpl; auto | reflexivity | | left; reflexivity].
  apply (ak_step code_while [] rho_all _ 1 (mkBlk 2 [] (TCond 0 5 3))); [simpl; auto | reflexivity | | right; left; reflexivity].
  apply (ak_step code_while [] rho_all _ 0 (mkBlk 0 [(0, 1)] (TFall 2))); [simpl; auto | reflexivity | | left; reflexivity].
  apply (ak_entry code_while [] rho_all _ (mkBlk 0 [(0, 1)] (TFall 2))). reflexivity.
Qed.

Lemma frame_loop_all_paths_refuted_lemma :
  exists code init p b s rho x v e,
    NoDup (map bid code) /\ nth_error code p = Some b /\ entry_state code init p = Some s /\
    arrives code init rho (bid b) e /\ dget x e = Some v /\ ~ In v (vals rho s x).
Proof.
  destruct (entry_state code_while [] 1) as [s|] eqn:E; [|vm_compute in E; discriminate].
  exists code_while, [], 1, (mkBlk 2 [] (TCond 0 5 3)), s, rho_all, 0, 2, [(0, 2)].
  split. { simpl. repeat constructor; simpl; intuition discriminate. }
  split; [reflexivity|]. split; [exact E|].
  split; [exact while_arrives_around|]. split; [reflexivity|].
  vm_compute in E. inversion E. vm_compute. intuition discriminate.
Qed.

(* a block that is reachable through a back edge only has no state when its turn comes: KeyError *)
Definition code_back_only : list block :=
  [mkBlk 0 [] (TJump 2); mkBlk 1 [] TRet; mkBlk 2 [] (TJump 1)].

Lemma back_only_dies_lemma :
  (exists e, arrives code_back_only [] rho_all 1 e) /\
  entry_state code_back_only [] 1 = None /\ run_frame code_back_only [] = None.
Proof.
  split; [|split; reflexivity].
  exists (apply_stores [] (apply_stores [] (init_env []))). unfold arrives.
  apply (ak_step code_back_only [] rho_all _ 2 (mkBlk 2 [] (TJump 1))); [simpl; auto | reflexivity | | left; reflexivity].
  apply (ak_step code_back_only [] rho_all _ 0 (mkBlk 0 [] (TJump 2))); [simpl; auto | reflexivity | | left; reflexivity].
  apply (ak_entry code_back_only [] rho_all _ (mkBlk 0 [] (TJump 2))). reflexivity.
Qed.
