(* C02: a syntactic sufficient condition for the second hypothesis of enforcement_exact_partial.
   For an annotation whose unions have at most one option that looks inside the value (union_simple), and a
   value without tuple(...) calls (tupleof_free), PEP 484 membership of the value is decided slice by slice:
       forallb (fun s => inhabits tb s t) (slices v) = inhabits tb v t. *)
From Coq Require Import List Arith Bool Lia.
From PV Require Import Match.Model Match.Proofs.
Import ListNotations.

(* ---- list lemmas ---- *)
Lemma forallb_andb {A} (f g : A -> bool) l :
  forallb (fun x => f x && g x) l = forallb f l && forallb g l.
Proof.
  induction l as [|x l IH]; simpl; [reflexivity|]. rewrite IH.
  destruct (f x), (g x), (forallb f l), (forallb g l); reflexivity.
Qed.

Lemma forallb_const {A} (b : bool) (l : list A) : l <> [] -> forallb (fun _ => b) l = b.
Proof.
  intro H. destruct l as [|x l]; [contradiction|]. clear H. simpl.
  destruct b; simpl; [|reflexivity]. induction l; simpl; auto.
Qed.

Lemma forallb_true {A} (l : list A) : forallb (fun _ => true) l = true.
Proof. induction l; simpl; auto. Qed.

Lemma forallb_flat_map {A B} (f : B -> bool) (g : A -> list B) l :
  forallb f (flat_map g l) = forallb (fun x => forallb f (g x)) l.
Proof. induction l; simpl; [reflexivity|]. rewrite forallb_app. congruence. Qed.

Lemma forallb_and_const {A} (f : A -> bool) (c : bool) l : l <> [] ->
  forallb (fun x => f x && c) l = forallb f l && c.
Proof. intro H. rewrite forallb_andb, forallb_const by assumption. reflexivity. Qed.

Lemma forallb_const_and {A} (f : A -> bool) (c : bool) l : l <> [] ->
  forallb (fun x => c && f x) l = c && forallb f l.
Proof. intro H. rewrite forallb_andb, forallb_const by assumption. reflexivity. Qed.

Lemma opt_slices_nonempty ss : opt_slices ss <> [].
Proof. destruct ss; simpl; discriminate. Qed.

Lemma opt_slices_forallb (f : value -> bool) ss :
  forallb (fun l => forallb f l) (opt_slices ss) = forallb f ss.
Proof.
  destruct ss as [|s ss]; [reflexivity|]. unfold opt_slices. rewrite forallb_map.
  apply forallb_ext_Forall. apply Forall_forall. intros x _. simpl. apply andb_true_r.
Qed.

Lemma list_prod_nonempty {A} (ls : list (list A)) : Forall (fun l => l <> []) ls -> list_prod ls <> [].
Proof.
  induction 1 as [|l ls Hl Hls IH]; simpl; [discriminate|].
  destruct l as [|x l]; [contradiction|]. simpl.
  destruct (list_prod ls) as [|y ys]; [contradiction|]. simpl. discriminate.
Qed.

Lemma forallb_list_prod {A} (f : A -> bool) (ls : list (list A)) : Forall (fun l => l <> []) ls ->
  forallb (fun l => forallb f l) (list_prod ls) = forallb (forallb f) ls.
Proof.
  induction 1 as [|l ls Hl Hls IH]; [reflexivity|]. cbn [list_prod].
  change (forallb (fun l : list A => forallb f l) (list_prod ls)) with (forallb (forallb f) (list_prod ls)) in IH.
  rewrite forallb_flat_map.
  assert (E : forall x, forallb (fun l0 => forallb f l0) (map (cons x) (list_prod ls))
                        = f x && forallb (forallb f) ls).
  { intro x. rewrite forallb_map. cbn [forallb].
    rewrite forallb_const_and by (apply list_prod_nonempty; assumption). rewrite IH. reflexivity. }
  rewrite (forallb_ext_Forall _ (fun x => f x && forallb (forallb f) ls)) by (apply Forall_forall; intros; apply E).
  rewrite forallb_and_const by assumption. reflexivity.
Qed.

(* ---- slices ---- *)
Lemma slices_nonempty v : slices v <> [].
Proof.
  induction v using value_ind'; simpl; try discriminate.
  - intro E. apply map_eq_nil in E. exact (opt_slices_nonempty _ E).
  - intro E. apply map_eq_nil in E. revert E. apply list_prod_nonempty.
    apply Forall_forall. intros l Hl. apply in_map_iff in Hl as [x [<- Hx]].
    rewrite Forall_forall in H. apply H; assumption.
  - destruct (opt_slices (flat_map slices ks)) as [|k1 K] eqn:EK; [exfalso; exact (opt_slices_nonempty _ EK)|].
    destruct (opt_slices (flat_map slices vs)) as [|v1 V] eqn:EV; [exfalso; exact (opt_slices_nonempty _ EV)|].
    simpl. discriminate.
Qed.

(* same outermost constructor (and container kind) *)
Definition same_top (s v : value) : Prop :=
  s = v \/ (exists k l1 l2, s = VColl k l1 /\ v = VColl k l2) \/
  (exists l1 l2, s = VTuple l1 /\ v = VTuple l2) \/
  (exists a1 b1 a2 b2, s = VDict a1 b1 /\ v = VDict a2 b2).

Lemma slices_same_top v s : In s (slices v) -> same_top s v.
Proof.
  destruct v; simpl; intro H; try (destruct H as [<-|[]]; left; reflexivity).
  - apply in_map_iff in H as [l [<- _]]. right; left. eauto.
  - apply in_map_iff in H as [l [<- _]]. right; right; left. eauto.
  - apply in_flat_map in H as [k1 [_ H]]. apply in_map_iff in H as [v1 [<- _]]. right; right; right. eauto 6.
Qed.

Section SE.
  Variable tb : table.
  Let I := inhabitsF pep484 tb.

  (* formals whose membership test only looks at the outermost constructor *)
  Definition top_only (t : ty) : Prop := forall s v, same_top s v -> I t s = I t v.

  Lemma top_only_user k args : top_only (TCls (CU k) args).
  Proof.
    intros s v [->|[[kd [l1 [l2 [-> ->]]]]|[[l1 [l2 [-> ->]]]|[a1 [b1 [a2 [b2 [-> ->]]]]]]]]; reflexivity.
  Qed.

  Lemma top_only_bare h : top_only (TCls (CB h) []).
  Proof.
    intros s v [->|[[kd [l1 [l2 [-> ->]]]]|[[l1 [l2 [-> ->]]]|[a1 [b1 [a2 [b2 [-> ->]]]]]]]]; try reflexivity;
      unfold I; cbn [inhabitsF]; destruct (bname_beq h B_object); try reflexivity;
      cbn [noniter_str_hit d_noniter_str pep484 andb vclass];
      match goal with |- context [reachF ?d ?c ?h] => destruct (reachF d c h) as [pm|]; [destruct pm|]; reflexivity end.
  Qed.

  Lemma top_only_shallow t : shallow t = true -> top_only t.
  Proof.
    destruct t as [|ts|c args|ts|a r|r]; try discriminate.
    - intros _ s v _. reflexivity.
    - destruct args; [|discriminate]. intros _. destruct c; [apply top_only_bare | apply top_only_user].
  Qed.

  Lemma top_only_forallb t v : top_only t -> forallb (I t) (slices v) = I t v.
  Proof.
    intro H. rewrite (forallb_ext_Forall _ (fun _ => I t v)).
    - apply forallb_const. apply slices_nonempty.
    - apply Forall_forall. intros s Hs. apply H. apply slices_same_top. assumption.
  Qed.

  (* the statement proved by induction on the annotation *)
  Definition SX (t : ty) : Prop :=
    union_simple t = true -> forall v, tupleof_free v = true -> forallb (I t) (slices v) = I t v.

  Lemma elems_SX a vs : (forall v, tupleof_free v = true -> forallb (I a) (slices v) = I a v) ->
    forallb tupleof_free vs = true ->
    forallb (I a) (flat_map slices vs) = forallb (I a) vs.
  Proof.
    intros H Hf. rewrite forallb_flat_map. apply forallb_ext_Forall.
    apply forallb_Forall in Hf. eapply Forall_impl; [|exact Hf]. intros e He. apply H; assumption.
  Qed.

  Lemma not_tupleof_free_coll k vs : tupleof_free (VColl k vs) = true -> k <> KTupleOf /\ forallb tupleof_free vs = true.
  Proof. destruct k; simpl; intro H; try discriminate; split; try discriminate; assumption. Qed.

  (* parameter i of the slices of v, together, hold exactly the members-so-far of parameter i of v *)
  Lemma param_slices a v i : (forall w, tupleof_free w = true -> forallb (I a) (slices w) = I a w) ->
    tupleof_free v = true ->
    forallb (fun s => forallb (I a) (vparam s i)) (slices v) = forallb (I a) (vparam v i).
  Proof.
    intros H Hf. destruct v as [sc|k vs|vs|ks vs|n|c|m o st]; try (simpl; destruct i; reflexivity).
    - destruct (not_tupleof_free_coll k vs Hf) as [_ Hvs].
      cbn [slices]. rewrite forallb_map. destruct i as [|i].
      + cbn [vparam]. rewrite opt_slices_forallb. apply elems_SX; assumption.
      + cbn [vparam]. apply forallb_true.
    - simpl in Hf. cbn [slices]. rewrite forallb_map. destruct i as [|i].
      + cbn [vparam]. rewrite forallb_list_prod.
        * rewrite forallb_map. apply forallb_ext_Forall. apply forallb_Forall in Hf.
          eapply Forall_impl; [|exact Hf]. intros e He. apply H; assumption.
        * apply Forall_forall. intros l Hl. apply in_map_iff in Hl as [x [<- _]]. apply slices_nonempty.
      + cbn [vparam]. apply forallb_true.
    - simpl in Hf. apply andb_true_iff in Hf as [Hk Hv]. cbn [slices]. rewrite forallb_flat_map.
      destruct i as [|[|i]].
      + rewrite (forallb_ext_Forall _ (fun k1 => forallb (I a) k1)).
        * rewrite opt_slices_forallb. apply elems_SX; assumption.
        * apply Forall_forall. intros k1 _. rewrite forallb_map. cbn [vparam].
          apply forallb_const. apply opt_slices_nonempty.
      + rewrite (forallb_ext_Forall _ (fun _ => forallb (I a) vs)).
        * apply forallb_const. apply opt_slices_nonempty.
        * apply Forall_forall. intros k1 _. rewrite forallb_map. cbn [vparam].
          rewrite opt_slices_forallb. apply elems_SX; assumption.
      + rewrite (forallb_ext_Forall _ (fun _ => true)).
        * apply forallb_true.
        * apply Forall_forall. intros k1 _. rewrite forallb_map. cbn [vparam]. apply forallb_true.
  Qed.

  Lemma lockstep_slices v : tupleof_free v = true -> forall args pm,
    Forall (fun a => forall w, tupleof_free w = true -> forallb (I a) (slices w) = I a w) args ->
    forallb (fun s => lockstep pep484 I s args pm) (slices v) = lockstep pep484 I v args pm.
  Proof.
    intros Hf args. induction args as [|a args IH]; intros pm HF.
    - destruct pm; apply forallb_true.
    - destruct pm as [|p pm]; [apply forallb_true|]. inversion HF; subst. cbn [lockstep].
      change (forallb (fun s => (match p with
                                 | PIdx i => forallb (I a) (vparam s i)
                                 | PInst c => match rep c with Some r => I a r | None => true end
                                 | PEmpty => true end) && lockstep pep484 I s args pm) (slices v) =
              (match p with
               | PIdx i => forallb (I a) (vparam v i)
               | PInst c => match rep c with Some r => I a r | None => true end
               | PEmpty => true end) && lockstep pep484 I v args pm).
      rewrite forallb_andb, IH by assumption. f_equal.
      destruct p as [i|c|].
      + apply param_slices; assumption.
      + apply forallb_const. apply slices_nonempty.
      + apply forallb_true.
  Qed.

  Lemma bcls_same_top s v : same_top s v -> bcls s = bcls v.
  Proof.
    intros [->|[[kd [l1 [l2 [-> ->]]]]|[[l1 [l2 [-> ->]]]|[a1 [b1 [a2 [b2 [-> ->]]]]]]]]; reflexivity.
  Qed.

  Lemma I_cls_binst v c hb args : bcls v = Some c -> bname_beq hb B_object = false ->
    I (TCls (CB hb) args) v =
    match reachF pep484 c hb with Some pm => lockstep pep484 I v args pm | None => false end.
  Proof.
    intros Hb Ho. unfold I. cbn [inhabitsF]. rewrite Ho.
    destruct v; simpl in Hb; inversion Hb; subst; reflexivity.
  Qed.

  Lemma forall2b_slices ts : Forall SX ts -> forallb union_simple ts = true ->
    forall vs, forallb tupleof_free vs = true ->
    forallb (fun l => forall2b I ts l) (list_prod (map slices vs)) = forall2b I ts vs.
  Proof.
    induction ts as [|a ts IH]; intros HF Hu vs Hf.
    - destruct vs as [|e vs]; [reflexivity|].
      rewrite (forallb_ext_Forall _ (fun _ => false)).
      + apply forallb_const. apply list_prod_nonempty. apply Forall_forall. intros l Hl.
        apply in_map_iff in Hl as [x [<- _]]. apply slices_nonempty.
      + apply Forall_forall. intros l Hl. cbn [map list_prod] in Hl.
        apply in_flat_map in Hl as [x [_ Hl]]. apply in_map_iff in Hl as [l' [<- _]]. reflexivity.
    - destruct vs as [|e vs]; [reflexivity|].
      inversion HF; subst. simpl in Hu, Hf. apply andb_true_iff in Hu as [Hu1 Hu2].
      apply andb_true_iff in Hf as [Hf1 Hf2].
      cbn [map list_prod]. rewrite forallb_flat_map.
      assert (NE : list_prod (map slices vs) <> []).
      { apply list_prod_nonempty. apply Forall_forall. intros l Hl.
        apply in_map_iff in Hl as [x [<- _]]. apply slices_nonempty. }
      rewrite (forallb_ext_Forall _ (fun x => I a x && forall2b I ts vs)).
      + rewrite forallb_and_const by apply slices_nonempty. cbn [forall2b]. f_equal. apply H1; assumption.
      + apply Forall_forall. intros x _. rewrite forallb_map. cbn [forall2b].
        rewrite forallb_const_and by assumption. f_equal. apply IH; assumption.
  Qed.

  (* unions: at most one option that is not top-only *)
  Lemma union_slices ts : Forall SX ts -> forallb union_simple ts = true ->
    length (filter (fun o => negb (shallow o)) ts) <= 1 ->
    forall v, tupleof_free v = true ->
    forallb (fun s => existsb (fun o => I o s) ts) (slices v) = existsb (fun o => I o v) ts.
  Proof.
    induction ts as [|o ts IH]; intros HF Hu Hlen v Hf.
    - simpl. apply forallb_const. apply slices_nonempty.
    - inversion HF; subst. simpl in Hu. apply andb_true_iff in Hu as [Hu1 Hu2]. cbn [existsb].
      destruct (shallow o) eqn:Esh.
      + pose proof (top_only_shallow o Esh) as TO.
        rewrite (forallb_ext_Forall _ (fun s => I o v || existsb (fun o0 => I o0 s) ts)).
        * destruct (I o v); cbn [orb]; [apply forallb_true|].
          apply IH; try assumption. simpl in Hlen. rewrite Esh in Hlen. exact Hlen.
        * apply Forall_forall. intros s Hs. f_equal. apply TO. apply slices_same_top; assumption.
      + (* o is the one deep option: every other option is top-only *)
        assert (Hall : forallb shallow ts = true).
        { simpl in Hlen. rewrite Esh in Hlen. simpl in Hlen.
          assert (L0 : length (filter (fun o0 => negb (shallow o0)) ts) = 0) by lia.
          apply length_zero_iff_nil in L0. apply forallb_forall. intros x Hx.
          destruct (shallow x) eqn:Ex; [reflexivity|].
          assert (In x (filter (fun o0 => negb (shallow o0)) ts)) by (apply filter_In; rewrite Ex; auto).
          rewrite L0 in H. contradiction. }
        rewrite (forallb_ext_Forall _ (fun s => I o s || existsb (fun o0 => I o0 v) ts)).
        * destruct (existsb (fun o0 => I o0 v) ts).
          -- rewrite orb_true_r. rewrite (forallb_ext_Forall _ (fun _ => true)); [apply forallb_true|].
             apply Forall_forall. intros; apply orb_true_r.
          -- rewrite orb_false_r. rewrite (forallb_ext_Forall _ (I o)).
             ++ apply H1; assumption.
             ++ apply Forall_forall. intros; apply orb_false_r.
        * apply Forall_forall. intros s Hs. f_equal. apply existsb_ext_Forall.
          apply Forall_forall. intros x Hx. rewrite forallb_forall in Hall.
          apply (top_only_shallow x (Hall x Hx)). apply slices_same_top; assumption.
  Qed.

  Lemma singleton_slices v : bcls v = None -> slices v = [v].
  Proof. destruct v; simpl; intro H; try discriminate; reflexivity. Qed.

  Lemma SX_all : forall t, SX t.
  Proof.
    induction t using ty_ind'; intros Hu v Hf.
    - apply forallb_true.
    - cbn [union_simple] in Hu. apply andb_true_iff in Hu as [Hu _]. apply andb_true_iff in Hu as [Hlen Hu].
      apply Nat.leb_le in Hlen. unfold I. cbn [inhabitsF].
      apply (union_slices ts H Hu Hlen v Hf).
    - destruct c as [hb|k]; [|apply top_only_forallb, top_only_user].
      destruct (bname_beq hb B_object) eqn:Eo.
      { rewrite (forallb_ext_Forall _ (fun _ => true)).
        - rewrite forallb_true. unfold I. cbn [inhabitsF]. rewrite Eo. reflexivity.
        - apply Forall_forall. intros s _. unfold I. cbn [inhabitsF]. rewrite Eo. reflexivity. }
      destruct (bcls v) as [c|] eqn:Eb.
      + rewrite (I_cls_binst v c hb args Eb Eo).
        rewrite (forallb_ext_Forall _ (fun s => match reachF pep484 c hb with
                                                  | Some pm => lockstep pep484 I s args pm
                                                  | None => false end)).
        * destruct (reachF pep484 c hb) as [pm|].
          -- apply lockstep_slices; [assumption|]. cbn [union_simple] in Hu.
             apply forallb_Forall in Hu. rewrite Forall_forall in *. intros a Ha. apply H; auto.
          -- apply forallb_const. apply slices_nonempty.
        * apply Forall_forall. intros s Hs. apply I_cls_binst; [|assumption].
          rewrite (bcls_same_top s v (slices_same_top v s Hs)). assumption.
      + rewrite (singleton_slices v Eb). simpl. apply andb_true_r.
    - cbn [union_simple] in Hu.
      destruct v as [sc|k vs|vs|ks vs|n|c|m o st]; try (simpl; reflexivity).
      + destruct (not_tupleof_free_coll k vs Hf) as [Hk _].
        assert (E : forall l, I (TTuple ts) (VColl k l) = false) by (intro l; destruct k; try reflexivity; congruence).
        rewrite E. rewrite (forallb_ext_Forall _ (fun _ => false)).
        * apply forallb_const. apply slices_nonempty.
        * apply Forall_forall. intros s Hs. cbn [slices] in Hs. apply in_map_iff in Hs as [l [<- _]]. apply E.
      + simpl in Hf. cbn [slices]. rewrite forallb_map. unfold I. cbn [inhabitsF].
        apply forall2b_slices; assumption.
      + rewrite (forallb_ext_Forall _ (fun _ => false)).
        * apply forallb_const. apply slices_nonempty.
        * apply Forall_forall. intros s Hs. destruct (slices_same_top _ s Hs) as [->|[[kd [l1 [l2 [_ E]]]]|[[l1 [l2 [_ E]]]|[a1 [b1 [a2 [b2 [-> _]]]]]]]];
            try discriminate; reflexivity.
    - destruct (bcls v) as [c|] eqn:Eb.
      + assert (E : forall s, bcls s = Some c -> I (TCallable args t) s = false)
          by (intros s Hs; destruct s; simpl in Hs; try discriminate; reflexivity).
        rewrite (E v Eb). rewrite (forallb_ext_Forall _ (fun _ => false)).
        * apply forallb_const. apply slices_nonempty.
        * apply Forall_forall. intros s Hs. apply E.
          rewrite (bcls_same_top s v (slices_same_top v s Hs)). assumption.
      + rewrite (singleton_slices v Eb). simpl. apply andb_true_r.
    - destruct (bcls v) as [c|] eqn:Eb.
      + assert (E : forall s, bcls s = Some c -> I (TCallableAny t) s = false)
          by (intros s Hs; destruct s; simpl in Hs; try discriminate; reflexivity).
        rewrite (E v Eb). rewrite (forallb_ext_Forall _ (fun _ => false)).
        * apply forallb_const. apply slices_nonempty.
        * apply Forall_forall. intros s Hs. apply E.
          rewrite (bcls_same_top s v (slices_same_top v s Hs)). assumption.
      + rewrite (singleton_slices v Eb). simpl. apply andb_true_r.
  Qed.
End SE.

Theorem slice_exact tb v t : union_simple t = true -> tupleof_free v = true ->
  forallb (fun s => inhabits tb s t) (slices v) = inhabits tb v t.
Proof. intros Hu Hf. apply (SX_all tb t Hu v Hf). Qed.

Theorem exact_syntactic tb v t :
  table_ok tb = true -> wf_ty tb t = true -> wf_val tb v = true ->
  union_simple t = true -> tupleof_free v = true ->
  (forall s, In s (slices v) -> inhabitsF pytype_devs tb t s = inhabits tb s t) ->
  matches tb (abs v) t = inhabits tb v t.
Proof.
  intros Hok Hwt Hwv Hu Hf Hdev. apply exact_partial; try assumption. apply slice_exact; assumption.
Qed.
