(* C02 extension (d): proofs about Match/Store.v *)
From Coq Require Import List Arith Bool Lia.
From PV Require Import Match.Store.
Import ListNotations.

Section Proofs.
Variable T : Type.

(* the recorded annotations agree with the declared ones on every name that is not an explicit global *)
Definition agree (kn : nat -> skind) (st sp : env T) : Prop :=
  forall x, is_global (kn x) = false -> lookup st x = lookup sp x.

Lemma lookup_cons : forall (e : env T) x y t,
  lookup ((y, t) :: e) x = if Nat.eqb y x then Some t else lookup e x.
Proof. intros. unfold lookup. simpl. destruct (Nat.eqb y x); reflexivity. Qed.

Lemma step_agree : forall kn st sp (e : ev T), agree kn st sp ->
  agree kn (fst (chk_ev kn st e)) (fst (spec_ev sp e)).
Proof.
  intros kn st sp e H. destruct e as [x t hv | x | x | x]; simpl; auto.
  intros y Hy. destruct (is_global (kn x)) eqn:Ex.
  - rewrite lookup_cons. destruct (Nat.eqb x y) eqn:Exy.
    + apply Nat.eqb_eq in Exy. subst. congruence.
    + apply H. exact Hy.
  - rewrite !lookup_cons. destruct (Nat.eqb x y); [reflexivity | apply H; exact Hy].
Qed.

Lemma step_out : forall kn st sp (e : ev T), agree kn st sp -> own_nonglobal kn e = true ->
  snd (chk_ev kn st e) = snd (spec_ev sp e).
Proof.
  intros kn st sp e H Ho. destruct e as [x t hv | x | x | x]; simpl in *; auto.
  - apply negb_true_iff in Ho. rewrite Ho. apply H. exact Ho.
  - discriminate.
Qed.

Lemma checks_spec_from : forall kn evs st sp i e, agree kn st sp ->
  nth_error evs i = Some e -> own_nonglobal kn e = true ->
  nth_error (checks_from kn st evs) i = nth_error (spec_from sp evs) i.
Proof.
  intros kn. induction evs as [|e0 evs IH]; intros st sp i e H Hn Ho.
  - destruct i; discriminate.
  - destruct i as [|i]; simpl in *.
    + inversion Hn. subst e0. f_equal. apply step_out; assumption.
    + apply IH with (e := e); auto. apply step_agree. exact H.
Qed.

(* MAIN: every store of the frame itself to a name that is not an explicit global (fast local, module/class name,
   or a CELL captured by a nested function) is checked against exactly the declared annotation *)
Theorem own_stores_checked : forall kn (evs : list (ev T)) i e,
  nth_error evs i = Some e -> own_nonglobal kn e = true ->
  nth_error (checks kn evs) i = nth_error (spec evs) i.
Proof.
  intros. unfold checks, spec. apply checks_spec_from with (e := e); auto.
  intros x _. reflexivity.
Qed.

Lemma checks_len : forall kn (evs : list (ev T)) st, length (checks_from kn st evs) = length evs.
Proof. intros kn. induction evs; intros; simpl; auto. Qed.
Lemma spec_len : forall (evs : list (ev T)) sp, length (spec_from sp evs) = length evs.
Proof. induction evs; intros; simpl; auto. Qed.

(* ... hence exactness of the whole frame when it has neither explicit globals nor nonlocal stores from nested frames *)
Theorem frame_exact : forall kn (evs : list (ev T)),
  forallb (own_nonglobal kn) evs = true -> checks kn evs = spec evs.
Proof.
  intros kn evs H. apply nth_ext with (d := None) (d' := None).
  - unfold checks, spec. rewrite checks_len, spec_len. reflexivity.
  - intros n Hn. unfold checks in Hn. rewrite checks_len in Hn.
    destruct (nth_error evs n) as [e|] eqn:E.
    + rewrite forallb_forall in H. pose proof (H e (nth_error_In _ _ E)) as Ho.
      pose proof (own_stores_checked kn evs n e E Ho) as Hx.
      rewrite !(nth_error_nth' _ None) in Hx.
      * inversion Hx. reflexivity.
      * unfold spec. rewrite spec_len. exact Hn.
      * unfold checks. rewrite checks_len. exact Hn.
    + apply nth_error_None in E. lia.
Qed.

End Proofs.

(* the two unchecked store kinds are real on the faithful model: annotation 7 on name 0 *)
Lemma stores_refuted_w :
  (* x: 7 = v   then a nested function stores to x through `nonlocal x` *)
  (checks (fun _ => KCell) [EAnn 0 7 true; ENonlocal 0] = [Some 7; None] /\
   spec [EAnn 0 7 true; ENonlocal 0] = [Some 7; Some 7]) /\
  (* x: 7 = v  then  x = w  where x is declared `global x` somewhere (STORE_GLOBAL) *)
  (checks (fun _ => KGlobal) [EAnn 0 7 true; EStore 0] = [Some 7; None] /\
   spec [EAnn 0 7 true; EStore 0] = [Some 7; Some 7]).
Proof. vm_compute. repeat split; reflexivity. Qed.
