(* C02 extension: closed witnesses of the Literal fragment on the table of this run (vm_compute only). *)
From Coq Require Import List Arith Bool ZArith.
From PV Require Import Match.Model Match.Lit Match.Witnesses Generated.C02_Builtins.
Import ListNotations.

Definition Li (z : Z) : lty := LLit (LInt z).
Definition Ci (z : Z) : lval := LC (LInt z).

(* x: Literal[1] = True -- accepted at all three sites (pyval equality), not a member under PEP 586 *)
Lemma lit_refuted_bool_w :
  exists v t, table_ok tb0 = true /\ wf_lty tb0 t = true /\ wf_lval v = true /\
              short_lists v = true /\ base_dev_free t = true /\
              errL_arg tb0 v t = false /\ errL_ret tb0 v t = false /\ errL_assign tb0 v t = false /\
              inhabitsL tb0 v t = false.
Proof. exists (LC (LBool true)), (Li 1). vm_compute. repeat split; reflexivity. Qed.

(* x: List[Literal[1]] = [1, 3] -- accepted at all three sites (one matching element suffices) *)
Lemma lit_refuted_list_w :
  exists v t, table_ok tb0 = true /\ wf_lty tb0 t = true /\ wf_lval v = true /\
              bool_free_ty t = true /\ bool_free_val v = true /\ base_dev_free t = true /\
              errL_arg tb0 v t = false /\ errL_ret tb0 v t = false /\ errL_assign tb0 v t = false /\
              inhabitsL tb0 v t = false.
Proof. exists (LL [Ci 1; Ci 3]), (LSeq B_list (Li 1)). vm_compute. repeat split; reflexivity. Qed.

(* non-vacuity of lit_exact_partial: Optional[Union[Literal[1, 2], Optional[Literal["a"]]]], Tuple[Literal[1], str],
   Sequence[Literal["a", "b"]], a literal against its base class in both directions *)
Definition hypsL (v : lval) (t : lty) : bool :=
  table_ok tb0 && wf_lty tb0 t && wf_lval v && bool_free_ty t && bool_free_val v && short_lists v && base_dev_free t.
Definition optL (t : lty) : lty := LUnion [t; LBase NoneT].
Definition ex_lt1 : lty := optL (LUnion [LUnion [Li 1; Li 2]; optL (LLit (LStr 0))]).
Definition ex_lt2 : lty := LTuple [Li 1; LBase (Cb B_str [])].
Definition ex_lt3 : lty := LSeq B_t_Sequence (LUnion [LLit (LStr 0); LLit (LStr 1)]).
Lemma lit_hyps_w :
  hypsL (LC (LStr 0)) ex_lt1 = true /\ inhabitsL tb0 (LC (LStr 0)) ex_lt1 = true /\ matchL tb0 ex_lt1 (LC (LStr 0)) = true /\
  hypsL (LC (LStr 1)) ex_lt1 = true /\ inhabitsL tb0 (LC (LStr 1)) ex_lt1 = false /\ errL_ret tb0 (LC (LStr 1)) ex_lt1 = true /\
  hypsL LNoneV ex_lt1 = true /\ inhabitsL tb0 LNoneV ex_lt1 = true /\
  hypsL (LT [Ci 1; LC (LStr 5)]) ex_lt2 = true /\ inhabitsL tb0 (LT [Ci 1; LC (LStr 5)]) ex_lt2 = true /\
  hypsL (LT [Ci 2; LC (LStr 5)]) ex_lt2 = true /\ errL_arg tb0 (LT [Ci 2; LC (LStr 5)]) ex_lt2 = true /\
  hypsL (LL [LC (LStr 1)]) ex_lt3 = true /\ inhabitsL tb0 (LL [LC (LStr 1)]) ex_lt3 = true /\
  hypsL (LT [LC (LStr 1); LC (LStr 2)]) ex_lt3 = true /\ errL_assign tb0 (LT [LC (LStr 1); LC (LStr 2)]) ex_lt3 = true /\
  (* Literal[1] value against int / float (promotion), opaque int against Literal[1] *)
  hypsL (Ci 1) (LBase (Cb B_float [])) = true /\ inhabitsL tb0 (Ci 1) (LBase (Cb B_float [])) = true /\
  hypsL (LO B_int) (Li 1) = true /\ errL_ret tb0 (LO B_int) (Li 1) = true /\
  (* a str against Sequence[Literal["a", "b"]]: its elements are arbitrary strs *)
  hypsL (LC (LStr 0)) ex_lt3 = true /\ errL_arg tb0 (LC (LStr 0)) ex_lt3 = true.
Proof. vm_compute. repeat split; reflexivity. Qed.

(* return site: two return statements, the second returns a variable with two bindings *)
Definition ex_body : list lret_stmt :=
  [{| lrs_line := 3; lrs_vals := [Ci 1] |}; {| lrs_line := 5; lrs_vals := [Ci 2; Ci 7] |};
   {| lrs_line := 7; lrs_vals := [Ci 7; Ci 1] |}].
Lemma lret_example_w :
  lret_errors tb0 (Some (LUnion [Li 1; Li 2])) ex_body = [5; 7] /\ lret_errors tb0 None ex_body = [].
Proof. vm_compute. split; reflexivity. Qed.

Definition ex_rbody : list ret_stmt :=
  [{| rs_line := 3; rs_vals := [VColl KList [Int]] |};
   {| rs_line := 5; rs_vals := [VColl KList [Int]; VColl KList [Int; Str]] |}].
Lemma ret_example_w :
  ret_errors tb0 (Some (Cb B_list [Cb B_int []])) ex_rbody = [5] /\
  length (ret_views [VColl KList [Int]; VColl KList [Int; Str]]) = 3.
Proof. vm_compute. split; reflexivity. Qed.
