(* C02 extension (a): STRUCTURAL PROTOCOL MATCHING for unparameterised protocols.
   Definitions only (no proofs).

   Code anchors:
     pattrs_step / pattrs_tbl     abstract/class_mixin.py  Class._init_protocol_attributes  (user classes: the loop over
                                  reversed(self.mro); typing.pytd classes: the abstract-method set, read from the live
                                  class into pc_fixed) and Class.is_protocol = bool(protocol_attributes)
     attr_names                   matcher.py _get_attribute_names  (own attributes of every class of left.cls.mro, plus
                                  the implicit __iter__ of a class with __getitem__)
     lookup                       attribute.py get_attribute through the MRO, as used by
                                  matcher.py _get_attribute_for_protocol_matching (first class of the MRO that defines it)
     attr_ok                      matcher.py _match_protocol_attribute for a protocol that is NOT parameterised:
                                  callable member vs callable protocol member -> success without looking at signatures;
                                  otherwise the member's value is matched against the type of the protocol's member
     proto_match                  matcher.py _match_against_protocol (the Sequence-vs-Mapping rule, missing attributes,
                                  then every protocol attribute)
     inst_match                   matcher.py _match_instance_against_type for a class formal: match_from_mro (nominal)
                                  first, then is_protocol -> _match_against_protocol, else has_protocol_base -> success
   Classes are numbered; the world lists them bases-first (a class's MRO only mentions itself and smaller ids).  The
   builtin part of the world (object, int, str, list, dict, ..., typing.Sized, ...) is regenerated from pytype's
   loaded stubs on every run; the user part comes from the generated program. *)
From Coq Require Import List Arith Bool.
Import ListNotations.

(* what a class member is, as far as _match_protocol_attribute can tell *)
Inductive akind :=
| AMethod                (* def m(self): ...            -- callable *)
| ANone                  (* m = None                    -- an instance of NoneType *)
| AData (c : nat).       (* x = <constant of class c>  /  x: C  -- an instance of class c *)

Record pcls := {
  pc_mro : list nat;               (* cls.mro as class ids, itself first (typing.Protocol / Generic left out) *)
  pc_own : list (nat * akind);     (* members the class defines itself: get_own_attributes() with their kind *)
  pc_pbase : bool;                 (* has_protocol_base(): Protocol is a direct base *)
  pc_fixed : option (list nat)     (* Some l for a typing.pytd class: protocol_attributes is the abstract-method
                                      set l (+ the Mapping extras), read from the live class *)
}.

Record world := {
  w_cls : list pcls;
  w_iter : nat;                    (* attribute id of __iter__ *)
  w_getitem : nat;                 (* attribute id of __getitem__ *)
  w_seq : nat;                     (* class id of typing.Sequence *)
  w_map : nat;                     (* class id of typing.Mapping *)
  w_compat : list (nat * nat)      (* AbstractMatcher._compatible_builtins as class-id pairs *)
}.

Definition empty_pcls : pcls := {| pc_mro := []; pc_own := []; pc_pbase := false; pc_fixed := None |}.
Definition cls_of (w : world) (c : nat) : pcls := nth c (w_cls w) empty_pcls.
Definition nmem (n : nat) (l : list nat) : bool := existsb (Nat.eqb n) l.
Definition own_names (p : pcls) : list nat := map fst (pc_own p).

(* ---- Class._init_protocol_attributes ------------------------------------------------------------ *)

Definition nonempty {A} (l : list A) : bool := match l with [] => false | _ => true end.
Definition add_all (acc l : list nat) : list nat := acc ++ filter (fun a => negb (nmem a acc)) l.

(* one iteration of `for cls in reversed(self.mro)`: [pa] is cls.protocol_attributes (for self: its own
   attributes, as the code pre-populates), [own] the names cls defines *)
Definition pattrs_fold_step (acc pa own : list nat) : list nat :=
  if nonempty pa                                   (* cls.is_protocol *)
  then add_all acc (filter (fun a => nmem a own) pa)          (* |= {a for a in cls.protocol_attributes if a in cls} *)
  else filter (fun a => negb (nmem a own)) acc.               (* {a for a in protocol_attributes if a not in cls} *)

(* protocol_attributes of class number [self] = length done, given those of the earlier classes *)
Definition pattrs_step (cls : list pcls) (done : list (list nat)) (self : nat) (p : pcls) : list nat :=
  if negb (pc_pbase p) then []
  else match pc_fixed p with
       | Some l => l
       | None =>
           fold_left (fun acc k =>
                        let pk := nth k cls empty_pcls in
                        let pa := if Nat.eqb k self then own_names p else nth k done [] in
                        pattrs_fold_step acc pa (own_names pk))
                     (rev (pc_mro p)) []
       end.

Fixpoint pattrs_aux (cls : list pcls) (done : list (list nat)) (rest : list pcls) : list (list nat) :=
  match rest with
  | [] => done
  | p :: rest' => pattrs_aux cls (done ++ [pattrs_step cls done (length done) p]) rest'
  end.

Definition pattrs_tbl (w : world) : list (list nat) := pattrs_aux (w_cls w) [] (w_cls w).
Definition pattrs (w : world) (c : nat) : list nat := nth c (pattrs_tbl w) [].
Definition is_protocol (w : world) (c : nat) : bool := nonempty (pattrs w c).

(* ---- attribute names and lookup along the MRO ---------------------------------------------------- *)

(* _get_attribute_names(left) for an instance of class c (instances carry no members of their own here) *)
Definition attr_names (w : world) (c : nat) : list nat :=
  let l := flat_map (fun k => own_names (cls_of w k)) (pc_mro (cls_of w c)) in
  if nmem (w_getitem w) l && negb (nmem (w_iter w) l) then w_iter w :: l else l.

Definition own_kind (p : pcls) (a : nat) : option akind :=
  option_map snd (find (fun e => Nat.eqb (fst e) a) (pc_own p)).

(* attribute lookup through the MRO: the first class that defines the name wins *)
Fixpoint lookup_in (w : world) (mro : list nat) (a : nat) : option akind :=
  match mro with
  | [] => None
  | k :: rest => match own_kind (cls_of w k) a with
                 | Some kd => Some kd
                 | None => lookup_in w rest a
                 end
  end.

Definition lookup (w : world) (c a : nat) : option akind := lookup_in w (pc_mro (cls_of w c)) a.

(* match_from_mro + _match_base_class_flat for two unparameterised classes: is an instance of class c an
   instance of class h *)
Definition nominal (w : world) (c h : nat) : bool :=
  existsb (fun k => Nat.eqb k h || existsb (fun p => Nat.eqb (fst p) k && Nat.eqb (snd p) h) (w_compat w))
          (pc_mro (cls_of w c)).

(* an instance of class c (no parameters of interest) against the class the protocol member is an instance of;
   for a data member the formal is a plain class h: nominal, or (h itself a protocol) -- not needed: the
   generator only declares data members of scalar builtin classes *)
Definition data_ok (w : world) (c h : nat) : bool := nominal w c h.

(* _match_protocol_attribute(left, other_type, a): left's member (or the implicit __iter__) against the
   protocol's member; NoneType's class id is needed for `m = None` *)
Definition attr_ok (w : world) (none_cls : nat) (c p a : nat) : bool :=
  let left := match lookup w c a with
              | Some k => Some k
              | None => if Nat.eqb a (w_iter w) then Some AMethod else None   (* DummyMethod("__iter__") *)
              end in
  match left, lookup w p a with
  | Some AMethod, Some AMethod => true
  | Some AMethod, Some _ => false                     (* a function is not an instance of a scalar class *)
  | Some ANone, Some AMethod | Some (AData _), Some AMethod => false   (* no __call__ on the value *)
  | Some ANone, Some ANone => true
  | Some ANone, Some (AData h) => data_ok w none_cls h
  | Some (AData c'), Some ANone => data_ok w c' none_cls
  | Some (AData c'), Some (AData h) => data_ok w c' h
  | _, _ => false                                     (* the code asserts instead; never reached, see lookup_present *)
  end.

Definition nsubset (l1 l2 : list nat) : bool := forallb (fun a => nmem a l2) l1.

(* _match_against_protocol *)
Definition proto_match (w : world) (none_cls : nat) (c p : nat) : bool :=
  if Nat.eqb p (w_seq w) && nmem (w_map w) (pc_mro (cls_of w c)) then false
  else nsubset (pattrs w p) (attr_names w c) && forallb (attr_ok w none_cls c p) (pattrs w p).

(* _match_instance_against_type, class formal p, instance of class c *)
Definition inst_match (w : world) (none_cls : nat) (c p : nat) : bool :=
  if nominal w c p then true
  else if is_protocol w p then proto_match w none_cls c p
  else pc_pbase (cls_of w p).

(* ---- ORACLE: PEP 544 structural membership, written independently of the set algebra above ----------- *)

(* does an instance of c have member a, inherited members included (Python attribute lookup) *)
Definition has_member (w : world) (c a : nat) : bool :=
  existsb (fun k => nmem a (own_names (cls_of w k))) (pc_mro (cls_of w c)).

(* the members a protocol class requires: every member defined by a protocol class of its MRO *)
Definition required (w : world) (p : nat) : list nat :=
  flat_map (fun k => if pc_pbase (cls_of w k) then own_names (cls_of w k) else []) (pc_mro (cls_of w p)).

Definition kind_ok (w : world) (none_cls : nat) (kl kp : akind) : bool :=
  match kl, kp with
  | AMethod, AMethod => true
  | AMethod, _ => false
  | _, AMethod => false
  | ANone, ANone => true
  | ANone, AData h => data_ok w none_cls h
  | AData c', ANone => data_ok w c' none_cls
  | AData c', AData h => data_ok w c' h
  end.

(* member a of the protocol is provided, with a compatible kind, by the first class of c's MRO defining it *)
Definition member_ok (w : world) (none_cls : nat) (c p a : nat) : bool :=
  match lookup w c a, lookup w p a with
  | Some kl, Some kp => kind_ok w none_cls kl kp
  | _, _ => false
  end.

(* the value's class (with inherited members) has every protocol member *)
Definition pep544 (w : world) (none_cls : nat) (c p : nat) : bool :=
  forallb (member_ok w none_cls c p) (pattrs w p).

(* the two places where _match_against_protocol departs from pep544 *)
Definition implicit_iter_hit (w : world) (c p : nat) : bool :=
  nmem (w_iter w) (pattrs w p) && negb (has_member w c (w_iter w)) && has_member w c (w_getitem w).
Definition seq_map_hit (w : world) (c p : nat) : bool :=
  Nat.eqb p (w_seq w) && nmem (w_map w) (pc_mro (cls_of w c)).

(* ---- well-formedness ------------------------------------------------------------------------------- *)

(* every protocol member is defined somewhere along the protocol's own MRO (true of every table the code
   builds: protocol_attributes only ever collects names `a in cls` for classes of the MRO); monitored on the
   generated worlds *)
Definition pattrs_defined (w : world) (p : nat) : bool :=
  forallb (fun a => match lookup w p a with Some _ => true | None => false end) (pattrs w p).

(* a user protocol hierarchy as CPython accepts it: every class of the MRO other than the last one (object) is
   declared with Protocol as a base, bases come first in the world, object defines none of the names in sight *)
Definition proto_hier_ok (w : world) (p : nat) : bool :=
  let mro := pc_mro (cls_of w p) in
  match rev mro with
  | [] => false
  | obj :: rest =>
      forallb (fun k => pc_pbase (cls_of w k) &&
                        match pc_fixed (cls_of w k) with None => true | Some _ => false end) rest
      && negb (pc_pbase (cls_of w obj))
  end.
