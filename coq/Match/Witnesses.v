(* C02: closed witnesses evaluated on the table of this run (regenerated builtins + the default hierarchy).
   Everything here is proved by computation (vm_compute) on closed terms. *)
From Coq Require Import List Arith Bool.
From PV Require Import Match.Model Generated.C02_Builtins.
Import ListNotations.

Definition cls (mro own : list nat) : uinfo := {| u_mro := mro; u_own := own; u_pbase := false; u_pattrs := [] |}.
Definition proto (me : nat) (ms : list nat) : uinfo :=
  {| u_mro := [me]; u_own := ms; u_pbase := true; u_pattrs := ms |}.
Definition tb0 : table :=
  {| t_b := gen_builtins;
     t_u := [cls [0] []; cls [1; 0] []; cls [2; 1; 0] [0]; cls [3] [0; 1]; cls [4; 3; 0] []; cls [5; 0] [1];
             proto 6 [0]; proto 7 [1]; proto 8 [0; 1]] |}.

Definition Cb (b : bname) (args : list ty) : ty := TCls (CB b) args.
Definition Str := VScalar SStr.   Definition Int := VScalar SInt.   Definition NoneV := VScalar SNone.

Lemma generated_table_ok_w : table_ok tb0 = true.
Proof. vm_compute. reflexivity. Qed.

Lemma refuted_w :
  exists v t, table_ok tb0 = true /\ wf_ty tb0 t = true /\ wf_val tb0 v = true /\
              matches tb0 (abs v) t <> inhabits tb0 v t /\
              err_arg tb0 v t = true /\ err_ret tb0 v t = true /\ err_assign tb0 v t = true /\
              inhabits tb0 v t = true.
Proof.
  exists Str, (Cb B_t_Sequence [Cb B_str []]). vm_compute. repeat split; discriminate.
Qed.

Definition K (n : nat) : ty := TCls (CU n) [].
Definition deviations_stmt : Prop :=
  (* none-for-bool *)        (matches tb0 (abs NoneV) (Cb B_bool []) = true /\ inhabits tb0 NoneV (Cb B_bool []) = false) /\
  (* bytearray-for-bytes *)  (matches tb0 (abs (VScalar SBytearray)) (Cb B_bytes []) = true /\
                              inhabits tb0 (VScalar SBytearray) (Cb B_bytes []) = false) /\
  (* tuple-call-length *)    (matches tb0 (abs (VColl KTupleOf [Int])) (TTuple [Cb B_int []; Cb B_int []]) = true /\
                              inhabits tb0 (VColl KTupleOf [Int]) (TTuple [Cb B_int []; Cb B_int []]) = false) /\
  (* class-as-callable-args *) (matches tb0 (abs (VClass (CU 0))) (TCallable [Cb B_int []] (K 0)) = true /\
                              inhabits tb0 (VClass (CU 0)) (TCallable [Cb B_int []] (K 0)) = false) /\
  (* classobj-protocol-inherited-attr: K4 inherits m0, m1 from K3 *)
                             (matches tb0 (abs (VClass (CU 4))) (K 8) = false /\ inhabits tb0 (VClass (CU 4)) (K 8) = true) /\
  (* union-split-views *)    (matches tb0 (abs (VColl KList [Int; Str]))
                                (TUnion [Cb B_list [Cb B_int []]; Cb B_list [Cb B_str []]]) = true /\
                              inhabits tb0 (VColl KList [Int; Str])
                                (TUnion [Cb B_list [Cb B_int []]; Cb B_list [Cb B_str []]]) = false) /\
  (* arg-any-view *)         (err_arg tb0 (VColl KList [Int; Str]) (Cb B_list [Cb B_int []]) = false /\
                              err_ret tb0 (VColl KList [Int; Str]) (Cb B_list [Cb B_int []]) = true /\
                              inhabits tb0 (VColl KList [Int; Str]) (Cb B_list [Cb B_int []]) = false) /\
  (* assign-none *)          (err_assign tb0 NoneV (Cb B_int []) = false /\ err_ret tb0 NoneV (Cb B_int []) = true /\
                              inhabits tb0 NoneV (Cb B_int []) = false).
Lemma deviations_w : deviations_stmt.
Proof. vm_compute. repeat split; reflexivity. Qed.
