(* C02 extension (c): proofs about Match/ArgSite.v *)
From Coq Require Import List Arith Bool Lia.
From PV Require Import Match.ArgSite.
Import ListNotations.

Section Proofs.
Variables A V : Type.
Notation sig := (sig A).
Notation call := (call V).
Notation formal := (formal A).

Lemma nmem_In : forall n l, nmem n l = true <-> In n l.
Proof.
  intros n l. unfold nmem. rewrite existsb_exists. split.
  - intros [x [H1 H2]]. apply Nat.eqb_eq in H2. subst. exact H1.
  - intros H. exists n. split; [exact H | apply Nat.eqb_refl].
Qed.

Lemma nmem_app : forall n l1 l2, nmem n (l1 ++ l2) = nmem n l1 || nmem n l2.
Proof. intros. unfold nmem. apply existsb_app. Qed.

Lemma nmem_firstn_skipn : forall n k l, nmem n (firstn k l) || nmem n (skipn k l) = nmem n l.
Proof. intros. rewrite <- nmem_app, firstn_skipn. reflexivity. Qed.

Lemma nodup_app : forall l1 l2, nodup_names (l1 ++ l2) = true ->
  nodup_names l1 = true /\ nodup_names l2 = true /\ (forall n, nmem n l1 = true -> nmem n l2 = false).
Proof.
  induction l1 as [|a l1 IH]; simpl; intros l2 H.
  - repeat split; auto. intros n Hn. discriminate.
  - apply andb_true_iff in H. destruct H as [Ha H]. apply IH in H. destruct H as [H1 [H2 H3]].
    rewrite nmem_app in Ha. apply negb_true_iff in Ha. apply orb_false_iff in Ha. destruct Ha as [Ha1 Ha2].
    repeat split; auto.
    + rewrite Ha1. simpl. exact H1.
    + intros n Hn. apply orb_true_iff in Hn. destruct Hn as [Hn | Hn].
      * apply Nat.eqb_eq in Hn. subst. exact Ha2.
      * apply H3. exact Hn.
Qed.

(* ---- positional part ---------------------------------------------------------------------------- *)

Lemma skipn_cons_nth : forall (l : list nat) i p ps, skipn i l = p :: ps ->
  i < length l /\ nth i l 0 = p /\ skipn (S i) l = ps.
Proof.
  induction l as [|x l IH]; intros i p ps H.
  - destruct i; discriminate.
  - destruct i as [|i].
    + simpl in H. inversion H. subst. simpl. repeat split; auto. lia.
    + simpl in H. apply IH in H. destruct H as [H1 [H2 H3]]. simpl. repeat split; auto. lia.
Qed.

Lemma skipn_nil_len : forall (l : list nat) i, skipn i l = [] -> length l <= i.
Proof.
  induction l as [|x l IH]; intros i H; simpl.
  - lia.
  - destruct i; [discriminate|]. simpl in H. apply IH in H. lia.
Qed.

Lemma skipn_nil_S : forall (l : list nat) i, skipn i l = [] -> skipn (S i) l = [].
Proof.
  intros l i H. apply skipn_nil_len in H. apply skipn_all2. lia.
Qed.

Lemma pos_agree : forall (s : sig) (vs : list V) i l,
  bind_pos s (skipn i (s_params s)) vs = Some l -> iter_pos s i vs = l.
Proof.
  intros s. induction vs as [|v vs IH]; intros i l H.
  - simpl in H. inversion H. reflexivity.
  - simpl in H. simpl. destruct (skipn i (s_params s)) as [|p ps] eqn:E.
    + destruct (s_varargs s) as [va|] eqn:Eva; [|discriminate].
      destruct (bind_pos s [] vs) as [l'|] eqn:Eb; [|discriminate]. simpl in H. inversion H. subst l.
      pose proof (skipn_nil_len _ _ E) as Hlen.
      assert (Hlt : (i <? length (s_params s)) = false) by (apply Nat.ltb_ge; lia).
      rewrite Hlt. f_equal.
      apply IH. rewrite (skipn_nil_S _ _ E). exact Eb.
    + destruct (bind_pos s ps vs) as [l'|] eqn:Eb; [|discriminate]. simpl in H. inversion H. subst l.
      apply skipn_cons_nth in E. destruct E as [Hlt [Hnth Hsk]].
      assert (Hlt' : (i <? length (s_params s)) = true) by (apply Nat.ltb_lt; exact Hlt).
      rewrite Hlt', Hnth. f_equal. apply IH. rewrite Hsk. exact Eb.
Qed.

(* ---- keyword part ------------------------------------------------------------------------------- *)

Definition ann_keys_ok (s : sig) : bool := forallb (fun e => nmem (fst e) (all_names s)) (s_ann s).

Lemma ann_some_in_names : forall (s : sig) n a, ann_keys_ok s = true -> ann s n = Some a -> nmem n (all_names s) = true.
Proof.
  intros s n a Hk H. unfold ann in H.
  destruct (find (fun e => Nat.eqb (fst e) n) (s_ann s)) as [e|] eqn:E; [|discriminate].
  apply find_some in E. destruct E as [Hin He]. apply Nat.eqb_eq in He.
  unfold ann_keys_ok in Hk. rewrite forallb_forall in Hk. specialize (Hk e Hin). rewrite He in Hk. exact Hk.
Qed.

Lemma named1_agree : forall (s : sig) npos (nv : nat * V) x,
  wf_sig s = true -> ann_keys_ok s = true ->
  opt_is (s_varargs s) (fst nv) || opt_is (s_kwargs s) (fst nv) = false ->
  (opt_ann s (s_kwargs s) <> None -> nmem (fst nv) (keywordable s) = true -> ann s (fst nv) <> None) ->
  bind_named1 s npos nv = Some x -> iter_named1 false s nv = x.
Proof.
  intros s npos [n v] x Hwf Hk Hstar Hd2 H. simpl in *.
  apply orb_false_iff in Hstar. destruct Hstar as [Hva Hkw].
  unfold wf_sig in Hwf. apply andb_true_iff in Hwf. destruct Hwf as [Hnd _].
  unfold all_names in Hnd.
  unfold bind_named1 in H. simpl in H. unfold iter_named1. simpl.
  destruct (nmem n (keywordable s)) eqn:Ekw.
  - (* the keyword binds a parameter *)
    destruct (nmem n (firstn npos (s_params s))); [discriminate|]. inversion H. subst x. clear H.
    assert (Hnotpo : nmem n (firstn (s_posonly s) (s_params s)) = false).
    { unfold keywordable in Ekw. rewrite nmem_app in Ekw. apply orb_true_iff in Ekw.
      destruct (nmem n (firstn (s_posonly s) (s_params s))) eqn:Ef; [|reflexivity]. exfalso.
      destruct Ekw as [Es | Eko].
      - apply nodup_app in Hnd. destruct Hnd as [Hp _].
        rewrite <- (firstn_skipn (s_posonly s) (s_params s)) in Hp.
        apply nodup_app in Hp. destruct Hp as [_ [_ Hd]]. rewrite (Hd n Ef) in Es. discriminate.
      - apply nodup_app in Hnd. destruct Hnd as [_ [_ Hd]].
        assert (Hp : nmem n (s_params s) = true).
        { rewrite <- nmem_firstn_skipn with (k := s_posonly s). rewrite Ef. reflexivity. }
        specialize (Hd n Hp). rewrite nmem_app in Hd. rewrite Eko in Hd. discriminate. }
    rewrite Hnotpo. unfold ann_by_name. destruct (ann s n) as [a|] eqn:Ea.
    + rewrite Hva, Hkw. reflexivity.
    + simpl. destruct (opt_ann s (s_kwargs s)) as [b|] eqn:Eb; [|reflexivity].
      exfalso. apply Hd2; [discriminate | reflexivity | reflexivity].
  - (* the keyword goes to **kwargs *)
    destruct (s_kwargs s) as [kw|] eqn:Ekwn; [|discriminate]. inversion H. subst x. clear H. simpl.
    destruct (nmem n (firstn (s_posonly s) (s_params s))) eqn:Ef.
    { rewrite Hva. simpl in Hkw. rewrite Hkw. reflexivity. }
    unfold ann_by_name. destruct (ann s n) as [a|] eqn:Ea.
    2:{ rewrite Hva. simpl in Hkw. rewrite Hkw. reflexivity. }
    exfalso.
    pose proof (ann_some_in_names s n a Hk Ea) as Hin. unfold all_names in Hin.
    unfold keywordable in Ekw. rewrite nmem_app in Ekw. apply orb_false_iff in Ekw. destruct Ekw as [Es Eko].
    rewrite !nmem_app in Hin. rewrite Eko in Hin.
    rewrite <- (nmem_firstn_skipn n (s_posonly s) (s_params s)) in Hin. rewrite Ef, Es in Hin. simpl in Hin.
    rewrite Ekwn in Hin. simpl in Hkw, Hin.
    destruct (s_varargs s) as [va|]; simpl in Hva, Hin.
    + rewrite Nat.eqb_sym in Hva. rewrite Hva in Hin. simpl in Hin.
      rewrite Nat.eqb_sym in Hkw. rewrite Hkw in Hin. discriminate.
    + rewrite Nat.eqb_sym in Hkw. rewrite Hkw in Hin. discriminate.
Qed.

Lemma named_agree : forall (s : sig) npos (nvs : list (nat * V)) l,
  wf_sig s = true -> ann_keys_ok s = true ->
  (forall nv, In nv nvs -> opt_is (s_varargs s) (fst nv) || opt_is (s_kwargs s) (fst nv) = false) ->
  (forall nv, In nv nvs -> opt_ann s (s_kwargs s) <> None -> nmem (fst nv) (keywordable s) = true ->
              ann s (fst nv) <> None) ->
  all_some (map (bind_named1 s npos) nvs) = Some l -> map (iter_named1 false s) nvs = l.
Proof.
  intros s npos. induction nvs as [|nv nvs IH]; intros l Hwf Hk H1 H2 H.
  - simpl in H. inversion H. reflexivity.
  - simpl in H. destruct (bind_named1 s npos nv) as [x|] eqn:Ex; [|discriminate].
    destruct (all_some (map (bind_named1 s npos) nvs)) as [l'|] eqn:El; [|discriminate].
    simpl in H. inversion H. subst l. simpl. f_equal.
    + apply named1_agree with (npos := npos); auto.
      * apply H1. left. reflexivity.
      * apply H2. left. reflexivity.
    + apply IH; auto.
      * intros nv' Hin. apply H1. right. exact Hin.
      * intros nv' Hin. apply H2. right. exact Hin.
Qed.

Lemma existsb_false_forall : forall {B} (f : B -> bool) l, existsb f l = false -> forall x, In x l -> f x = false.
Proof.
  intros B f l H x Hin. destruct (f x) eqn:E; [|reflexivity].
  assert (existsb f l = true) by (apply existsb_exists; exists x; auto). congruence.
Qed.

(* MAIN: on a call CPython accepts, every passed argument is matched against the annotation the binding
   associates with it -- away from the two named deviations *)
Theorem iter_args_is_binding : forall (s : sig) (c : call) l,
  wf_sig s = true -> ann_keys_ok s = true -> bind s c = Some l ->
  kw_named_like_star s c = false -> kw_unannotated_with_kwargs s c = false ->
  iter_args false s c = l.
Proof.
  intros s c l Hwf Hk Hb Hd1 Hd2. unfold bind in Hb.
  destruct (c_star c) eqn:Est; [discriminate|]. destruct (c_starstar c) eqn:Ess; [discriminate|].
  destruct (nodup_names (map fst (c_named c)) && none_missing s c); [|discriminate].
  destruct (bind_pos s (s_params s) (c_pos c)) as [l1|] eqn:E1; [|discriminate].
  destruct (all_some (map (bind_named1 s (length (c_pos c))) (c_named c))) as [l2|] eqn:E2; [|discriminate].
  inversion Hb. subst l. clear Hb.
  unfold iter_args. rewrite Est, Ess.
  assert (Hp : iter_pos s 0 (c_pos c) = l1) by (apply pos_agree; simpl; exact E1).
  assert (Hn : map (iter_named1 false s) (c_named c) = l2).
  { apply named_agree with (npos := length (c_pos c)); auto.
    - intros nv Hin. unfold kw_named_like_star in Hd1.
      exact (existsb_false_forall _ _ Hd1 nv Hin).
    - intros nv Hin Hkwann Hkwable Hnone. unfold kw_unannotated_with_kwargs in Hd2.
      destruct (opt_ann s (s_kwargs s)) as [b|]; [|apply Hkwann; reflexivity].
      pose proof (existsb_false_forall _ _ Hd2 nv Hin) as Hf. simpl in Hf.
      rewrite Hkwable, Hnone in Hf. discriminate. }
  rewrite Hp, Hn.
  destruct (s_varargs s); destruct (s_kwargs s); simpl; rewrite app_nil_r; reflexivity.
Qed.

(* site corollary: an error iff some passed argument fails the annotation the binding associates with it *)
Corollary err_call_is_binding : forall (matchf : V -> formal -> bool) (s : sig) (c : call) l,
  wf_sig s = true -> ann_keys_ok s = true -> bind s c = Some l ->
  kw_named_like_star s c = false -> kw_unannotated_with_kwargs s c = false ->
  err_call false matchf s c =
  existsb (fun vf => match snd vf with Some f => negb (matchf (fst vf) f) | None => false end) l.
Proof.
  intros. unfold err_call. rewrite (iter_args_is_binding s c l); auto.
Qed.

(* ---- the FIXED code (fx = true): no deviation hypothesis, no well-formedness needed ------------------------ *)

Lemma named1_agree_fixed : forall (s : sig) npos (nv : nat * V) x,
  bind_named1 s npos nv = Some x -> iter_named1 true s nv = x.
Proof.
  intros s npos [n v] x H. unfold bind_named1 in H. unfold iter_named1. simpl in *.
  destruct (nmem n (keywordable s)).
  - destruct (nmem n (firstn npos (s_params s))); [discriminate|]. inversion H. reflexivity.
  - destruct (s_kwargs s) as [kw|]; [|discriminate]. inversion H. reflexivity.
Qed.

Lemma named_agree_fixed : forall (s : sig) npos (nvs : list (nat * V)) l,
  all_some (map (bind_named1 s npos) nvs) = Some l -> map (iter_named1 true s) nvs = l.
Proof.
  intros s npos. induction nvs as [|nv nvs IH]; intros l H.
  - simpl in H. inversion H. reflexivity.
  - simpl in H. destruct (bind_named1 s npos nv) as [x|] eqn:Ex; [|discriminate].
    destruct (all_some (map (bind_named1 s npos) nvs)) as [l'|] eqn:El; [|discriminate].
    simpl in H. inversion H. subst l. simpl. f_equal.
    + apply named1_agree_fixed with (npos := npos). exact Ex.
    + apply IH. reflexivity.
Qed.

(* MAIN, fixed code: on EVERY call CPython accepts, every passed argument is matched against the annotation the
   binding associates with it *)
Theorem iter_args_fixed_is_binding : forall (s : sig) (c : call) l,
  bind s c = Some l -> iter_args true s c = l.
Proof.
  intros s c l Hb. unfold bind in Hb.
  destruct (c_star c) eqn:Est; [discriminate|]. destruct (c_starstar c) eqn:Ess; [discriminate|].
  destruct (nodup_names (map fst (c_named c)) && none_missing s c); [|discriminate].
  destruct (bind_pos s (s_params s) (c_pos c)) as [l1|] eqn:E1; [|discriminate].
  destruct (all_some (map (bind_named1 s (length (c_pos c))) (c_named c))) as [l2|] eqn:E2; [|discriminate].
  inversion Hb. subst l. clear Hb.
  unfold iter_args. rewrite Est, Ess.
  assert (Hp : iter_pos s 0 (c_pos c) = l1) by (apply pos_agree; simpl; exact E1).
  rewrite Hp, (named_agree_fixed s (length (c_pos c)) (c_named c) l2 E2).
  destruct (s_varargs s); destruct (s_kwargs s); simpl; rewrite app_nil_r; reflexivity.
Qed.

Corollary err_call_fixed_is_binding : forall (matchf : V -> formal -> bool) (s : sig) (c : call) l,
  bind s c = Some l ->
  err_call true matchf s c =
  existsb (fun vf => match snd vf with Some f => negb (matchf (fst vf) f) | None => false end) l.
Proof.
  intros. unfold err_call. rewrite (iter_args_fixed_is_binding s c l); auto.
Qed.

End Proofs.

(* ---- the deviations are real on the faithful model --------------------------------------------------- *)

(* names: 0 = a, 1 = k, 2 = kw;  annotations are numbers (7 = int), values are numbers *)
(* D1:  def f(a: int, **kw: int)   f(1, kw=5): CPython binds kw={'kw': 5} (element annotation), iter_args yields
        Mapping[str, int] for it *)
Definition d1_sig : sig nat :=
  {| s_posonly := 0; s_params := [0]; s_varargs := None; s_kwonly := []; s_kwargs := Some 2; s_defaults := [];
     s_ann := [(0, 7); (2, 7)] |}.
Definition d1_call : call nat := {| c_pos := [1]; c_named := [(2, 5)]; c_star := None; c_starstar := None |}.
(* D2:  def f(a, *, k, **kw: int)   f(1, k=5): k is un-annotated, iter_args falls back to **kw's annotation *)
Definition d2_sig : sig nat :=
  {| s_posonly := 0; s_params := [0]; s_varargs := None; s_kwonly := [1]; s_kwargs := Some 2; s_defaults := [];
     s_ann := [(2, 7)] |}.
Definition d2_call : call nat := {| c_pos := [1]; c_named := [(1, 5)]; c_star := None; c_starstar := None |}.

Lemma binding_refuted_w :
  (wf_sig d1_sig = true /\ ann_keys_ok nat d1_sig = true /\
   bind d1_sig d1_call = Some [(1, Some (FElem 7)); (5, Some (FElem 7))] /\
   iter_args false d1_sig d1_call = [(1, Some (FElem 7)); (5, Some (FKw 7))] /\
   kw_unannotated_with_kwargs d1_sig d1_call = false) /\
  (wf_sig d2_sig = true /\ ann_keys_ok nat d2_sig = true /\
   bind d2_sig d2_call = Some [(1, None); (5, None)] /\
   iter_args false d2_sig d2_call = [(1, None); (5, Some (FElem 7))] /\
   kw_named_like_star d2_sig d2_call = false).
Proof. vm_compute. repeat split; reflexivity. Qed.

(* D1, crashing variant:  def f(a: int, *rest, **kw: int)   f(1, rest=5): *rest is un-annotated, the keyword falls back
   to **kw's element type, and because it is spelled like the *args parameter widen_type is applied to a plain class *)
Definition d3_sig : sig nat :=
  {| s_posonly := 0; s_params := [0]; s_varargs := Some 1; s_kwonly := []; s_kwargs := Some 2; s_defaults := [];
     s_ann := [(0, 7); (2, 7)] |}.
Definition d3_call : call nat := {| c_pos := [1]; c_named := [(1, 5)]; c_star := None; c_starstar := None |}.
Lemma crash_w :
  wf_sig d3_sig = true /\ ann_keys_ok nat d3_sig = true /\
  bind d3_sig d3_call = Some [(1, Some (FElem 7)); (5, Some (FElem 7))] /\
  iter_args false d3_sig d3_call = [(1, Some (FElem 7)); (5, Some (FCrash 7))] /\
  iter_args true d3_sig d3_call = [(1, Some (FElem 7)); (5, Some (FElem 7))].
Proof. vm_compute. repeat split; reflexivity. Qed.
