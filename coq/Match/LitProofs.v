(* C02 extension proofs: Literal fragment (Match/Lit.v) and the return site with multi-binding variables. *)
From Coq Require Import List Arith Bool ZArith Lia.
From PV Require Import Match.Model Match.Proofs Match.Lit.
Import ListNotations.

Section LtyInd.
  Variable P : lty -> Prop.
  Hypothesis HLit : forall l, P (LLit l).
  Hypothesis HBase : forall t, P (LBase t).
  Hypothesis HUnion : forall ts, Forall P ts -> P (LUnion ts).
  Hypothesis HTuple : forall ts, Forall P ts -> P (LTuple ts).
  Hypothesis HHom : forall t, P t -> P (LHom t).
  Hypothesis HSeq : forall h t, P t -> P (LSeq h t).
  Fixpoint lty_ind' (t : lty) : P t :=
    match t with
    | LLit l => HLit l
    | LBase t0 => HBase t0
    | LUnion ts => HUnion ts ((fix go (l : list lty) : Forall P l :=
                                 match l with [] => Forall_nil P | x :: r => Forall_cons x (lty_ind' x) (go r) end) ts)
    | LTuple ts => HTuple ts ((fix go (l : list lty) : Forall P l :=
                                 match l with [] => Forall_nil P | x :: r => Forall_cons x (lty_ind' x) (go r) end) ts)
    | LHom a => HHom a (lty_ind' a)
    | LSeq h a => HSeq h a (lty_ind' a)
    end.
End LtyInd.

(* ------------------------------------------------------------------------------------------------ *)
(* generic list lemmas *)

Lemma forall2b_ext_wf {A B} (f g : A -> B -> bool) (w : B -> bool) ts :
  Forall (fun t => forall v, w v = true -> f t v = g t v) ts ->
  forall vs, forallb w vs = true -> forall2b f ts vs = forall2b g ts vs.
Proof.
  induction 1 as [|t ts Ht _ IH]; intros [|v vs] Hw; cbn [forall2b]; try reflexivity.
  cbn [forallb] in Hw. apply andb_true_iff in Hw as [Hv Hvs].
  rewrite (Ht v Hv), (IH vs Hvs). reflexivity.
Qed.

Lemma forallb_ext_wf {B} (f g : B -> bool) (w : B -> bool) vs :
  (forall v, w v = true -> f v = g v) -> forallb w vs = true -> forallb f vs = forallb g vs.
Proof.
  intros H. induction vs as [|v vs IH]; intro Hw; cbn [forallb]; [reflexivity|].
  cbn [forallb] in Hw. apply andb_true_iff in Hw as [Hv Hvs]. rewrite (H v Hv), (IH Hvs). reflexivity.
Qed.

Lemma existsb_ext_wf {B} (f g : B -> bool) (w : B -> bool) vs :
  (forall v, w v = true -> f v = g v) -> forallb w vs = true -> existsb f vs = existsb g vs.
Proof.
  intros H. induction vs as [|v vs IH]; intro Hw; cbn [existsb]; [reflexivity|].
  cbn [forallb] in Hw. apply andb_true_iff in Hw as [Hv Hvs]. rewrite (H v Hv), (IH Hvs). reflexivity.
Qed.

Lemma bmem_In b l : bmem b l = true -> In b l.
Proof.
  unfold bmem. intro H. apply existsb_exists in H as [x [Hx E]]. apply bname_beq_eq in E. subst. assumption.
Qed.

(* ------------------------------------------------------------------------------------------------ *)
(* facts by computation *)

Lemma seq_heads_heads h : bmem h seq_heads = true -> In h heads.
Proof.
  intro H. apply bmem_In in H. simpl in H.
  repeat (destruct H as [H|H]; [subst; simpl; tauto|]). contradiction.
Qed.

Lemma lscalars_vclasses c : bmem c lscalars = true -> In c vclasses.
Proof.
  intro H. apply bmem_In in H. simpl in H.
  repeat (destruct H as [H|H]; [subst; simpl; tauto|]). contradiction.
Qed.

Lemma lcls_vclasses v : wf_lval v = true -> In (lcls v) vclasses.
Proof.
  destruct v as [[z|b|n]| |c|vs|vs]; cbn [lcls lit_cls wf_lval]; intro H; try (simpl; tauto).
  apply lscalars_vclasses. assumption.
Qed.

Definition pinst_ok (d : devs) : bool :=
  forallb (fun c => forallb (fun h =>
    match reachF d c h with
    | Some (PInst (CB k) :: _) => bmem k lscalars
    | _ => true
    end) all_bnames) all_bnames.

Lemma pinst_ok_py : pinst_ok pytype_devs = true.
Proof. vm_compute. reflexivity. Qed.

Lemma reachF_pinst c h k rest :
  reachF pytype_devs c h = Some (PInst (CB k) :: rest) -> bmem k lscalars = true.
Proof.
  intro E. pose proof pinst_ok_py as H. unfold pinst_ok in H.
  rewrite forallb_forall in H. specialize (H c (all_bnames_complete c)).
  rewrite forallb_forall in H. specialize (H h (all_bnames_complete h)).
  rewrite E in H. exact H.
Qed.

Lemma top_value_slice v : is_slice (top_value v) = true.
Proof.
  destruct v as [[z|b|n]| |c|vs|vs]; cbn [top_value lcls lit_cls scalar_of_cls]; try reflexivity.
  destruct (scalar_of_cls c); reflexivity.
Qed.

Lemma top_value_wf tb v : wf_val tb (top_value v) = true.
Proof.
  destruct v as [[z|b|n]| |c|vs|vs]; cbn [top_value lcls lit_cls scalar_of_cls]; try reflexivity.
  destruct (scalar_of_cls c); reflexivity.
Qed.

(* ------------------------------------------------------------------------------------------------ *)
(* characterisation: what the matcher computes on the Literal fragment *)

Theorem matchL_char tb : tok tb -> forall t, wf_lty tb t = true ->
  forall v, wf_lval v = true -> matchL tb t v = inhabL pytype_ldevs pytype_devs tb t v.
Proof.
  intros T. induction t using lty_ind'; intros Hwf v Hv.
  - destruct v; reflexivity.
  - cbn [matchL inhabL]. cbn [wf_lty] in Hwf. apply andb_true_iff in Hwf as [_ Hwf].
    apply (matchm_slice tb T t Hwf (top_value v) (top_value_slice v) (top_value_wf tb v)).
  - cbn [matchL inhabL]. cbn [wf_lty] in Hwf. rewrite forallb_forall in Hwf.
    apply existsb_ext_Forall. rewrite Forall_forall in H |- *. intros o Ho. apply H; auto.
  - cbn [matchL inhabL]. cbn [wf_lty] in Hwf. rewrite forallb_forall in Hwf.
    destruct v as [l| |c|vs|vs]; try reflexivity.
    apply forall2b_ext_wf with (w := wf_lval); [|exact Hv].
    rewrite Forall_forall in H |- *. intros o Ho w Hw. apply H; auto.
  - cbn [matchL inhabL]. cbn [wf_lty] in Hwf.
    destruct v as [l| |c|vs|vs]; try reflexivity.
    apply forallb_ext_wf with (w := wf_lval); [|exact Hv]. intros w Hw. apply IHt; assumption.
  - cbn [matchL inhabL]. cbn [wf_lty] in Hwf.
    apply andb_true_iff in Hwf as [Hwf Ha]. apply andb_true_iff in Hwf as [Hh _].
    pose proof (seq_heads_heads h Hh) as Hhh. pose proof (lcls_vclasses v Hv) as Hc.
    rewrite (tok_reach tb T _ _ Hc Hhh).
    destruct (reachF pytype_devs (lcls v) h) as [pm|] eqn:E.
    + destruct v as [l| |c|vs|vs].
      * destruct pm as [|[i|[k|k]|] rest]; try reflexivity.
        apply IHt; [assumption|]. cbn [wf_lval]. exact (reachF_pinst _ _ _ _ E).
      * destruct pm as [|[i|[k|k]|] rest]; try reflexivity.
        apply IHt; [assumption|]. cbn [wf_lval]. exact (reachF_pinst _ _ _ _ E).
      * destruct pm as [|[i|[k|k]|] rest]; try reflexivity.
        apply IHt; [assumption|]. cbn [wf_lval]. exact (reachF_pinst _ _ _ _ E).
      * apply forallb_ext_wf with (w := wf_lval); [|exact Hv]. intros w Hw. apply IHt; assumption.
      * cbn [ld_list_any pytype_ldevs]. destruct vs as [|x xs]; [reflexivity|].
        apply existsb_ext_wf with (w := wf_lval); [|exact Hv]. intros w Hw. apply IHt; assumption.
    + pose proof (tok_reach tb T _ _ Hc Hhh) as R. rewrite E in R.
      destruct (is_protocol tb (CB h)) eqn:Ep.
      * apply (tok_fallback tb T _ _ Hc Hhh R Ep).
      * rewrite <- (tok_proto_base tb T h Hhh). exact Ep.
Qed.

(* the three sites *)
Theorem lit_sites_char tb v t :
  table_ok tb = true -> wf_lty tb t = true -> wf_lval v = true ->
  errL_arg tb v t = negb (inhabL pytype_ldevs pytype_devs tb t v) /\
  errL_ret tb v t = negb (inhabL pytype_ldevs pytype_devs tb t v) /\
  errL_assign tb v t = negb (l_is_none v) && negb (inhabL pytype_ldevs pytype_devs tb t v).
Proof.
  intros Hok Hwt Hwv. pose proof (table_ok_tok tb Hok) as T.
  unfold errL_arg, errL_ret, errL_assign. rewrite (matchL_char tb T t Hwt v Hwv). auto.
Qed.

(* ------------------------------------------------------------------------------------------------ *)
(* away from the deviations the verdict is PEP 484 / PEP 586 membership *)

Lemma reachF_same c h :
  bname_beq h B_bool = false -> bname_beq h B_bytes = false -> reachF pytype_devs c h = reachF pep484 c h.
Proof.
  intros H1 H2. unfold reachF.
  destruct c; try reflexivity; destruct h; try reflexivity; discriminate.
Qed.

Lemma base_dev_eq tb t0 v :
  lshallow t0 = true -> base_dev_free1 t0 = true ->
  inhabitsF pytype_devs tb t0 (top_value v) = inhabitsF pep484 tb t0 (top_value v).
Proof.
  intros Hs Hd. destruct t0 as [|ts|c args|ts|a r|r]; try discriminate; [reflexivity|].
  destruct args; [|discriminate].
  destruct c as [h|k].
  - cbn [base_dev_free1] in Hd. apply andb_true_iff in Hd as [H1 H2].
    apply negb_true_iff in H1. apply negb_true_iff in H2.
    cbn [inhabitsF]. destruct (bname_beq h B_object); [reflexivity|].
    assert (HS : forall s, inhabitsF pytype_devs tb (TCls (CB h) []) (VScalar s) = inhabitsF pep484 tb (TCls (CB h) []) (VScalar s)).
    { intro s. cbn [inhabitsF]. destruct (bname_beq h B_object); [reflexivity|].
      unfold noniter_str_hit. rewrite andb_false_r || idtac.
      destruct s; cbn [d_noniter_str pytype_devs pep484 andb vclass scalar_cls];
        rewrite (reachF_same _ h H1 H2); reflexivity. }
    destruct v as [[z|b|n]| |c|vs|vs]; cbn [top_value lcls lit_cls scalar_of_cls].
    + cbn [inhabitsF noniter_str_hit d_noniter_str pytype_devs pep484 andb vclass scalar_cls].
      rewrite (reachF_same _ h H1 H2). reflexivity.
    + cbn [inhabitsF noniter_str_hit d_noniter_str pytype_devs pep484 andb vclass scalar_cls].
      rewrite (reachF_same _ h H1 H2). reflexivity.
    + cbn [inhabitsF noniter_str_hit d_noniter_str pytype_devs pep484 andb vclass scalar_cls].
      rewrite (reachF_same _ h H1 H2). reflexivity.
    + cbn [inhabitsF noniter_str_hit d_noniter_str pytype_devs pep484 andb vclass scalar_cls].
      rewrite (reachF_same _ h H1 H2). reflexivity.
    + destruct (scalar_of_cls c) as [s|];
      cbn [inhabitsF noniter_str_hit d_noniter_str pytype_devs pep484 andb vclass scalar_cls];
      try (destruct s; cbn [andb vclass scalar_cls]);
      rewrite (reachF_same _ h H1 H2); reflexivity.
    + cbn [inhabitsF noniter_str_hit d_noniter_str pytype_devs pep484 andb vclass ckind_cls].
      rewrite (reachF_same _ h H1 H2). reflexivity.
    + cbn [inhabitsF noniter_str_hit d_noniter_str pytype_devs pep484 andb vclass ckind_cls].
      rewrite (reachF_same _ h H1 H2). reflexivity.
  - destruct v as [[z|b|n]| |c|vs|vs]; cbn [top_value lcls lit_cls scalar_of_cls]; try reflexivity.
    destruct (scalar_of_cls c); reflexivity.
Qed.

Lemma lit_eq_pyeq c l : lit_is_bool c = false -> lit_is_bool l = false -> lit_pyeq c l = lit_eq c l.
Proof. destruct c, l; simpl; intros; try discriminate; reflexivity. Qed.

Theorem inhabL_dev_free tb : forall t, wf_lty tb t = true -> bool_free_ty t = true -> base_dev_free t = true ->
  forall v, bool_free_val v = true -> short_lists v = true ->
  inhabL pytype_ldevs pytype_devs tb t v = inhabL pep586 pep484 tb t v.
Proof.
  induction t using lty_ind'; intros Hwf Hb Hd v Hbv Hs.
  - destruct v as [c| |c|vs|vs]; try reflexivity.
    cbn [inhabL ld_pyeq pytype_ldevs pep586]. cbn [bool_free_ty] in Hb. cbn [bool_free_val] in Hbv.
    apply negb_true_iff in Hb. apply negb_true_iff in Hbv. apply lit_eq_pyeq; assumption.
  - cbn [inhabL]. cbn [wf_lty] in Hwf. apply andb_true_iff in Hwf as [Hsh _].
    apply base_dev_eq; assumption.
  - cbn [inhabL]. cbn [wf_lty] in Hwf. cbn [bool_free_ty] in Hb. cbn [base_dev_free] in Hd.
    rewrite forallb_forall in Hwf, Hb, Hd.
    apply existsb_ext_Forall. rewrite Forall_forall in H |- *. intros o Ho. apply H; auto.
  - cbn [inhabL]. cbn [wf_lty] in Hwf. cbn [bool_free_ty] in Hb. cbn [base_dev_free] in Hd.
    rewrite forallb_forall in Hwf, Hb, Hd.
    destruct v as [l| |c|vs|vs]; try reflexivity.
    cbn [bool_free_val] in Hbv. cbn [short_lists] in Hs.
    apply forall2b_ext_wf with (w := fun x => bool_free_val x && short_lists x).
    + rewrite Forall_forall in H |- *. intros o Ho w Hw. apply andb_true_iff in Hw as [W1 W2]. apply H; auto.
    + rewrite forallb_forall in Hbv, Hs |- *. intros x Hx. rewrite (Hbv x Hx), (Hs x Hx). reflexivity.
  - cbn [inhabL]. cbn [wf_lty] in Hwf. cbn [bool_free_ty] in Hb. cbn [base_dev_free] in Hd.
    destruct v as [l| |c|vs|vs]; try reflexivity.
    cbn [bool_free_val] in Hbv. cbn [short_lists] in Hs.
    apply forallb_ext_wf with (w := fun x => bool_free_val x && short_lists x).
    + intros w Hw. apply andb_true_iff in Hw as [W1 W2]. apply IHt; auto.
    + rewrite forallb_forall in Hbv, Hs |- *. intros x Hx. rewrite (Hbv x Hx), (Hs x Hx). reflexivity.
  - cbn [inhabL]. cbn [wf_lty] in Hwf. cbn [bool_free_ty] in Hb. cbn [base_dev_free] in Hd.
    apply andb_true_iff in Hwf as [Hwf Ha]. apply andb_true_iff in Hwf as [Hh _].
    assert (R : reachF pytype_devs (lcls v) h = reachF pep484 (lcls v) h).
    { apply reachF_same; apply bmem_In in Hh; simpl in Hh;
        repeat (destruct Hh as [Hh|Hh]; [subst; reflexivity|]); contradiction. }
    rewrite R. destruct (reachF pep484 (lcls v) h) as [pm|]; [|reflexivity].
    destruct v as [l| |c|vs|vs].
    + destruct pm as [|[i|[k|k]|] rest]; try reflexivity. apply IHt; auto.
    + destruct pm as [|[i|[k|k]|] rest]; try reflexivity. apply IHt; auto.
    + destruct pm as [|[i|[k|k]|] rest]; try reflexivity. apply IHt; auto.
    + cbn [bool_free_val] in Hbv. cbn [short_lists] in Hs.
      apply forallb_ext_wf with (w := fun x => bool_free_val x && short_lists x).
      * intros w Hw. apply andb_true_iff in Hw as [W1 W2]. apply IHt; auto.
      * rewrite forallb_forall in Hbv, Hs |- *. intros x Hx. rewrite (Hbv x Hx), (Hs x Hx). reflexivity.
    + cbn [ld_list_any pytype_ldevs pep586]. cbn [bool_free_val] in Hbv. cbn [short_lists] in Hs.
      apply andb_true_iff in Hs as [Hlen Hs].
      destruct vs as [|x [|y ys]]; [reflexivity| |simpl in Hlen; discriminate].
      cbn [existsb forallb]. rewrite orb_false_r, andb_true_r.
      cbn [forallb] in Hbv, Hs. rewrite andb_true_r in Hbv, Hs. apply IHt; auto.
Qed.

Theorem lit_exact_partial_w tb v t :
  table_ok tb = true -> wf_lty tb t = true -> wf_lval v = true ->
  bool_free_ty t = true -> bool_free_val v = true -> short_lists v = true -> base_dev_free t = true ->
  matchL tb t v = inhabitsL tb v t /\
  errL_arg tb v t = negb (inhabitsL tb v t) /\
  errL_ret tb v t = negb (inhabitsL tb v t) /\
  (l_is_none v = false -> errL_assign tb v t = negb (inhabitsL tb v t)).
Proof.
  intros Hok Hwt Hwv Hb Hbv Hs Hd. pose proof (table_ok_tok tb Hok) as T.
  assert (E : matchL tb t v = inhabitsL tb v t).
  { rewrite (matchL_char tb T t Hwt v Hwv). unfold inhabitsL. apply inhabL_dev_free; assumption. }
  unfold errL_arg, errL_ret, errL_assign. rewrite E. repeat split; auto.
  intro Hn. rewrite Hn. reflexivity.
Qed.

(* ------------------------------------------------------------------------------------------------ *)
(* return site *)

Lemma forallb_flat_map {A B} (f : B -> bool) (g : A -> list B) l :
  forallb f (flat_map g l) = forallb (fun x => forallb f (g x)) l.
Proof.
  induction l as [|x l IH]; cbn [flat_map forallb]; [reflexivity|]. rewrite forallb_app, IH. reflexivity.
Qed.

Lemma negb_forallb {A} (f : A -> bool) l : negb (forallb f l) = existsb (fun x => negb (f x)) l.
Proof.
  induction l as [|x l IH]; cbn [forallb existsb]; [reflexivity|]. rewrite negb_andb, IH. reflexivity.
Qed.

Theorem ret_var_error_iff_w tb bs t :
  err_ret_var tb bs t = existsb (fun v => err_ret tb v t) bs.
Proof.
  unfold err_ret_var, ret_views, err_ret, matches_all. rewrite forallb_flat_map. apply negb_forallb.
Qed.

Theorem ret_errors_app_w tb ann b1 b2 :
  ret_errors tb ann (b1 ++ b2) = ret_errors tb ann b1 ++ ret_errors tb ann b2.
Proof.
  destruct ann as [t|]; cbn [ret_errors]; [|reflexivity]. rewrite filter_app, map_app. reflexivity.
Qed.

Theorem ret_site_exact_w tb t body :
  table_ok tb = true -> wf_ty tb t = true ->
  (forall s v, In s body -> In v (rs_vals s) ->
     wf_val tb v = true /\
     (forall sl, In sl (slices v) -> inhabitsF pytype_devs tb t sl = inhabits tb sl t) /\
     forallb (fun sl => inhabits tb sl t) (slices v) = inhabits tb v t) ->
  forall l, In l (ret_errors tb (Some t) body) <->
            exists s, In s body /\ rs_line s = l /\ exists v, In v (rs_vals s) /\ inhabits tb v t = false.
Proof.
  intros Hok Hwt Hb l. cbn [ret_errors]. rewrite in_map_iff. split.
  - intros [s [Hl Hs]]. apply filter_In in Hs as [Hin He]. exists s. repeat split; auto.
    rewrite ret_var_error_iff_w in He. apply existsb_exists in He as [v [Hv Ev]].
    exists v. split; [assumption|].
    destruct (Hb s v Hin Hv) as [Hw [Hd Hsl]].
    destruct (sites_partial tb v t Hok Hwt Hw Hd Hsl) as [R _]. rewrite R in Ev.
    apply negb_true_iff in Ev. exact Ev.
  - intros [s [Hin [Hl [v [Hv Ev]]]]]. exists s. split; [assumption|]. apply filter_In. split; [assumption|].
    rewrite ret_var_error_iff_w. apply existsb_exists. exists v. split; [assumption|].
    destruct (Hb s v Hin Hv) as [Hw [Hd Hsl]].
    destruct (sites_partial tb v t Hok Hwt Hw Hd Hsl) as [R _]. rewrite R, Ev. reflexivity.
Qed.

Theorem lret_site_exact_w tb t body :
  table_ok tb = true -> wf_lty tb t = true -> bool_free_ty t = true -> base_dev_free t = true ->
  (forall s v, In s body -> In v (lrs_vals s) ->
     wf_lval v = true /\ bool_free_val v = true /\ short_lists v = true) ->
  forall l, In l (lret_errors tb (Some t) body) <->
            exists s, In s body /\ lrs_line s = l /\ exists v, In v (lrs_vals s) /\ inhabitsL tb v t = false.
Proof.
  intros Hok Hwt Hbt Hdt Hb l. cbn [lret_errors]. rewrite in_map_iff.
  assert (E : forall s v, In s body -> In v (lrs_vals s) -> matchL tb t v = inhabitsL tb v t).
  { intros s v Hs Hv. destruct (Hb s v Hs Hv) as [W [B S]].
    apply (lit_exact_partial_w tb v t Hok Hwt W Hbt B S Hdt). }
  split.
  - intros [s [Hl Hs]]. apply filter_In in Hs as [Hin He]. exists s. repeat split; auto.
    unfold errL_ret_var in He. rewrite negb_forallb in He. apply existsb_exists in He as [v [Hv Ev]].
    exists v. split; [assumption|]. rewrite (E s v Hin Hv) in Ev. apply negb_true_iff in Ev. exact Ev.
  - intros [s [Hin [Hl [v [Hv Ev]]]]]. exists s. split; [assumption|]. apply filter_In. split; [assumption|].
    unfold errL_ret_var. rewrite negb_forallb. apply existsb_exists. exists v. split; [assumption|].
    rewrite (E s v Hin Hv), Ev. reflexivity.
Qed.

(* the deviation-aware version of the Literal return site needs no side condition at all *)
Theorem lret_site_char_w tb t body :
  table_ok tb = true -> wf_lty tb t = true ->
  (forall s v, In s body -> In v (lrs_vals s) -> wf_lval v = true) ->
  forall l, In l (lret_errors tb (Some t) body) <->
            exists s, In s body /\ lrs_line s = l /\
                      exists v, In v (lrs_vals s) /\ inhabL pytype_ldevs pytype_devs tb t v = false.
Proof.
  intros Hok Hwt Hb l. pose proof (table_ok_tok tb Hok) as T. cbn [lret_errors]. rewrite in_map_iff. split.
  - intros [s [Hl Hs]]. apply filter_In in Hs as [Hin He]. exists s. repeat split; auto.
    unfold errL_ret_var in He. rewrite negb_forallb in He. apply existsb_exists in He as [v [Hv Ev]].
    exists v. split; [assumption|]. rewrite (matchL_char tb T t Hwt v (Hb s v Hin Hv)) in Ev.
    apply negb_true_iff in Ev. exact Ev.
  - intros [s [Hin [Hl [v [Hv Ev]]]]]. exists s. split; [assumption|]. apply filter_In. split; [assumption|].
    unfold errL_ret_var. rewrite negb_forallb. apply existsb_exists. exists v. split; [assumption|].
    rewrite (matchL_char tb T t Hwt v (Hb s v Hin Hv)), Ev. reflexivity.
Qed.
