(* C02 extension (c): the ARGUMENT SITE glue -- which annotation each passed argument is matched against.
   Definitions only (no proofs).

   Code anchors:
     iter_args      abstract/function.py  Signature.iter_args  (after Args.simplify expanded literal *(..)/**{..})
     formal kinds   abstract/_function_base.py  _match_args_sequentially:  `if name in (varargs_name, kwargs_name):
                    formal = widen_type(formal)`  -- the yielded NAME decides whether the annotation is taken as the
                    element type (FElem) or as the widened container type (FStar = Iterable[a], FKw = Mapping[str, a])
     err_call       _match_args_sequentially + matcher.compute_matches: an error iff some argument with a formal fails
     bind           SPECIFICATION: CPython's argument binding (what inspect.Signature.bind computes), written
                    independently: positionals fill the parameters in order, extras go to *args; a keyword binds the
                    keyword-able parameter of that name (positional-or-keyword or keyword-only), anything else goes
                    to **kwargs; duplicates / unknown keywords / too many positionals / missing arguments fail.
   The names are numbers; A is the type of annotations, V of argument values (both abstract). *)
From Coq Require Import List Arith Bool.
Import ListNotations.

Section ArgSite.
Variables A V : Type.

Record sig := {
  s_posonly : nat;                 (* posonly_count *)
  s_params : list nat;             (* param_names: positional-only, then positional-or-keyword *)
  s_varargs : option nat;          (* varargs_name *)
  s_kwonly : list nat;             (* kwonly_params *)
  s_kwargs : option nat;           (* kwargs_name *)
  s_defaults : list nat;           (* names with a default *)
  s_ann : list (nat * A)           (* annotations, keyed by name; for *args / **kw the annotation as WRITTEN
                                      (pytype stores Tuple[a, ...] / Dict[str, a] and takes get_element_type) *)
}.

Record call := {
  c_pos : list V;                  (* args.posargs *)
  c_named : list (nat * V);        (* args.namedargs in sorted(name) order *)
  c_star : option V;               (* args.starargs that simplify could not expand *)
  c_starstar : option V            (* args.starstarargs that simplify could not expand *)
}.

Inductive formal :=
| FElem (a : A)      (* the argument against a *)
| FStar (a : A)      (* the argument against Iterable[a] *)
| FKw (a : A)        (* the argument against Mapping[str, a] *)
| FCrash (a : A).    (* widen_type applied to a plain annotation: `assert container.full_name == "builtins.dict"`
                        fails, pytype raises AssertionError instead of reporting *)

Definition nmem (n : nat) (l : list nat) : bool := existsb (Nat.eqb n) l.
Definition opt_is (o : option nat) (n : nat) : bool := match o with Some m => Nat.eqb m n | None => false end.

Definition ann (s : sig) (n : nat) : option A :=
  option_map snd (find (fun e => Nat.eqb (fst e) n) (s_ann s)).

Definition opt_ann (s : sig) (o : option nat) : option A :=
  match o with Some n => ann s n | None => None end.

(* self.annotations.get(name), with the kind _match_args_sequentially gives it from the yielded name *)
Definition ann_by_name (s : sig) (n : nat) : option formal :=
  match ann s n with
  | None => None
  | Some a => Some (if opt_is (s_varargs s) n then FStar a else if opt_is (s_kwargs s) n then FKw a else FElem a)
  end.

Fixpoint iter_pos (s : sig) (i : nat) (vs : list V) : list (V * option formal) :=
  match vs with
  | [] => []
  | v :: vs' =>
      (v, if i <? length (s_params s) then option_map FElem (ann s (nth i (s_params s) 0))
          else option_map FElem (opt_ann s (s_varargs s))) :: iter_pos s (S i) vs'
  end.

(* names a keyword can bind (the fixed code's keyword_params; also used by the specification below) *)
Definition keywordable (s : sig) : list nat := skipn (s_posonly s) (s_params s) ++ s_kwonly s.

(* one keyword.  TWO VARIANTS of the code, selected by [fx]:
   fx = false  the code before fixes/C02-iter-args-keyword-binding.patch: the name is looked up in self.annotations
               (which also holds the *args / **kwargs entries), `if formal is None and self.kwargs_name` falls back to
               **kwargs' element type, and _match_args_sequentially widens by the yielded NAME;
   fx = true   the fixed code: `if name in keyword_params: formal = self.annotations.get(name)` else **kwargs'
               element type; widening only for the real *x / **x arguments (`arg is args.starargs`).
   The check probes which variant the tree under test implements. *)
Definition iter_named1 (fx : bool) (s : sig) (nv : nat * V) : V * option formal :=
  let n := fst nv in
  if fx then
    (snd nv, if nmem n (keywordable s) then option_map FElem (ann s n)
             else option_map FElem (opt_ann s (s_kwargs s)))
  else
  let f0 := if nmem n (firstn (s_posonly s) (s_params s)) then None else ann_by_name s n in
  (snd nv, match f0 with
           | Some f => Some f
           | None =>       (* `if formal is None and self.kwargs_name`: **kwargs' element type; the yielded NAME
                              still decides whether _match_args_sequentially widens it *)
               option_map (fun a => if opt_is (s_varargs s) n || opt_is (s_kwargs s) n then FCrash a else FElem a)
                          (opt_ann s (s_kwargs s))
           end).

Definition iter_args (fx : bool) (s : sig) (c : call) : list (V * option formal) :=
  iter_pos s 0 (c_pos c) ++ map (iter_named1 fx s) (c_named c)
  ++ (match s_varargs s, c_star c with
      | Some va, Some v => [(v, option_map FStar (ann s va))]
      | _, _ => []
      end)
  ++ (match s_kwargs s, c_starstar c with
      | Some kw, Some v => [(v, option_map FKw (ann s kw))]
      | _, _ => []
      end).

(* an error is raised iff some argument that has a formal does not match it *)
Definition err_call (fx : bool) (matchf : V -> formal -> bool) (s : sig) (c : call) : bool :=
  existsb (fun vf => match snd vf with Some f => negb (matchf (fst vf) f) | None => false end) (iter_args fx s c).

(* ---- SPECIFICATION: CPython's binding ------------------------------------------------------------- *)

(* positional arguments: parameter i for argument i, the rest into *args; None = too many positionals *)
Fixpoint bind_pos (s : sig) (ps : list nat) (vs : list V) : option (list (V * option formal)) :=
  match vs, ps with
  | [], _ => Some []
  | v :: vs', p :: ps' => option_map (cons (v, option_map FElem (ann s p))) (bind_pos s ps' vs')
  | v :: vs', [] =>
      match s_varargs s with
      | Some va => option_map (cons (v, option_map FElem (ann s va))) (bind_pos s [] vs')
      | None => None
      end
  end.

(* one keyword: None = TypeError (multiple values / unexpected keyword) *)
Definition bind_named1 (s : sig) (npos : nat) (nv : nat * V) : option (V * option formal) :=
  let n := fst nv in
  if nmem n (keywordable s) then
    if nmem n (firstn npos (s_params s)) then None          (* multiple values for the parameter *)
    else Some (snd nv, option_map FElem (ann s n))
  else match s_kwargs s with
       | Some kw => Some (snd nv, option_map FElem (ann s kw))
       | None => None                                         (* unexpected keyword argument *)
       end.

Fixpoint all_some {B} (l : list (option B)) : option (list B) :=
  match l with
  | [] => Some []
  | Some x :: l' => option_map (cons x) (all_some l')
  | None :: _ => None
  end.

Fixpoint nodup_names (l : list nat) : bool :=
  match l with [] => true | n :: l' => negb (nmem n l') && nodup_names l' end.

(* every parameter without a default received a value (only decidable when no opaque *x / **x is passed) *)
Definition none_missing (s : sig) (c : call) : bool :=
  let npos := length (c_pos c) in
  forallb (fun p => nmem p (s_defaults s) || nmem p (firstn npos (s_params s)) || nmem p (map fst (c_named c)))
          (s_params s ++ s_kwonly s).

Definition bind (s : sig) (c : call) : option (list (V * option formal)) :=
  match c_star c, c_starstar c with
  | None, None =>
      if nodup_names (map fst (c_named c)) && none_missing s c then
        match bind_pos s (s_params s) (c_pos c),
              all_some (map (bind_named1 s (length (c_pos c))) (c_named c)) with
        | Some l1, Some l2 => Some (l1 ++ l2)
        | _, _ => None
        end
      else None
  | _, _ => None           (* opaque *x / **x: CPython's binding depends on the run-time length, not specified here *)
  end.

(* names of a signature are pairwise distinct (CPython rejects anything else at compile time) *)
Definition all_names (s : sig) : list nat :=
  s_params s ++ s_kwonly s ++ (match s_varargs s with Some n => [n] | None => [] end)
  ++ (match s_kwargs s with Some n => [n] | None => [] end).
Definition wf_sig (s : sig) : bool := nodup_names (all_names s) && (s_posonly s <=? length (s_params s)).

(* the two places where iter_args BEFORE THE FIX (fx = false) departs from the binding *)
(* D1: a keyword spelled like the *args / **kwargs parameter itself (CPython puts it into **kwargs) *)
Definition kw_named_like_star (s : sig) (c : call) : bool :=
  existsb (fun nv => opt_is (s_varargs s) (fst nv) || opt_is (s_kwargs s) (fst nv)) (c_named c).
(* D2: a keyword binding an UN-annotated parameter while **kwargs is annotated (the `formal is None` fallback) *)
Definition kw_unannotated_with_kwargs (s : sig) (c : call) : bool :=
  match opt_ann s (s_kwargs s) with
  | None => false
  | Some _ => existsb (fun nv => nmem (fst nv) (keywordable s) &&
                                 match ann s (fst nv) with None => true | Some _ => false end) (c_named c)
  end.

End ArgSite.

Arguments s_posonly {A}. Arguments s_params {A}. Arguments s_varargs {A}. Arguments s_kwonly {A}.
Arguments s_kwargs {A}. Arguments s_defaults {A}. Arguments s_ann {A}.
Arguments c_pos {V}. Arguments c_named {V}. Arguments c_star {V}. Arguments c_starstar {V}.
Arguments FElem {A}. Arguments FStar {A}. Arguments FKw {A}. Arguments FCrash {A}.
Arguments iter_args {A V}. Arguments bind {A V}. Arguments err_call {A V}. Arguments wf_sig {A}.
Arguments kw_named_like_star {A V}. Arguments kw_unannotated_with_kwargs {A V}.
Arguments keywordable {A}. Arguments ann {A}. Arguments iter_pos {A V}. Arguments bind_pos {A V}.
Arguments iter_named1 {A V}. Arguments bind_named1 {A V}. Arguments all_names {A}. Arguments opt_ann {A}.
Arguments ann_by_name {A}. Arguments none_missing {A V}. Arguments all_some {B}.
