(* C02 extension (a): proofs about Match/Proto.v *)
From Coq Require Import List Arith Bool Lia.
From PV Require Import Match.Proto.
Import ListNotations.

Lemma nmem_true_In : forall n l, nmem n l = true <-> In n l.
Proof.
  intros n l. unfold nmem. rewrite existsb_exists. split.
  - intros [x [H1 H2]]. apply Nat.eqb_eq in H2. subst. exact H1.
  - intros H. exists n. split; [exact H | apply Nat.eqb_refl].
Qed.

Lemma nmem_flat_map : forall {B} a (f : B -> list nat) l,
  nmem a (flat_map f l) = existsb (fun k => nmem a (f k)) l.
Proof.
  intros B a f. induction l as [|x l IH]; simpl; [reflexivity|].
  unfold nmem in *. rewrite existsb_app, IH. reflexivity.
Qed.

Lemma own_kind_names : forall p a,
  nmem a (own_names p) = match own_kind p a with Some _ => true | None => false end.
Proof.
  intros p a. unfold own_names, own_kind. induction (pc_own p) as [|e l IH]; simpl; [reflexivity|].
  rewrite (Nat.eqb_sym a (fst e)). destruct (Nat.eqb (fst e) a); simpl; [reflexivity | exact IH].
Qed.

(* Python attribute lookup finds something iff some class of the MRO defines the name *)
Lemma lookup_in_has : forall w mro a,
  existsb (fun k => nmem a (own_names (cls_of w k))) mro =
  match lookup_in w mro a with Some _ => true | None => false end.
Proof.
  intros w mro a. induction mro as [|k l IH]; simpl; [reflexivity|].
  rewrite own_kind_names. destruct (own_kind (cls_of w k) a); simpl; [reflexivity | exact IH].
Qed.

Lemma has_member_lookup : forall w c a,
  has_member w c a = match lookup w c a with Some _ => true | None => false end.
Proof. intros. unfold has_member, lookup. apply lookup_in_has. Qed.

(* inherited members with override: the first class of the MRO that defines the name decides *)
Lemma lookup_first_definer : forall w pre k0 post a kd,
  (forall j, In j pre -> own_kind (cls_of w j) a = None) -> own_kind (cls_of w k0) a = Some kd ->
  lookup_in w (pre ++ k0 :: post) a = Some kd.
Proof.
  intros w pre k0 post a kd. induction pre as [|j pre IH]; intros Hpre Hk; simpl.
  - rewrite Hk. reflexivity.
  - rewrite (Hpre j (or_introl eq_refl)). apply IH; auto. intros j' Hj. apply Hpre. right. exact Hj.
Qed.

Lemma forallb_and : forall {B} (f g : B -> bool) l,
  forallb f l && forallb g l = forallb (fun a => f a && g a) l.
Proof.
  intros B f g. induction l as [|x l IH]; simpl; [reflexivity|].
  rewrite <- IH. destruct (f x), (g x), (forallb f l), (forallb g l); reflexivity.
Qed.

Lemma forallb_ext_in : forall {B} (f g : B -> bool) l,
  (forall a, In a l -> f a = g a) -> forallb f l = forallb g l.
Proof.
  intros B f g. induction l as [|x l IH]; intros H; simpl; [reflexivity|].
  rewrite (H x (or_introl eq_refl)), IH; auto. intros a Ha. apply H. right. exact Ha.
Qed.

(* one protocol member: presence in the collected name set + _match_protocol_attribute  =  the member is
   provided with a compatible kind -- unless it is the implicit __iter__ *)
Lemma member_char : forall w nc c p a kp,
  lookup w p a = Some kp ->
  (Nat.eqb a (w_iter w) && negb (has_member w c (w_iter w)) && has_member w c (w_getitem w) = false) ->
  nmem a (attr_names w c) && attr_ok w nc c p a = member_ok w nc c p a.
Proof.
  intros w nc c p a kp Hp Hii. unfold attr_ok, member_ok. rewrite Hp.
  destruct (lookup w c a) as [kl|] eqn:El.
  - assert (Hin : nmem a (attr_names w c) = true).
    { pose proof (has_member_lookup w c a) as Hm. rewrite El in Hm. unfold has_member in Hm.
      rewrite <- nmem_flat_map in Hm. unfold attr_names.
      destruct (nmem (w_getitem w) _ && negb (nmem (w_iter w) _)); [|exact Hm].
      unfold nmem in *. simpl. rewrite Hm. apply orb_true_r. }
    rewrite Hin. simpl. destruct kl, kp; reflexivity.
  - assert (Hnot : nmem a (flat_map (fun k => own_names (cls_of w k)) (pc_mro (cls_of w c))) = false).
    { rewrite nmem_flat_map. pose proof (has_member_lookup w c a) as Hm. rewrite El in Hm. exact Hm. }
    unfold attr_names.
    destruct (nmem (w_getitem w) (flat_map (fun k => own_names (cls_of w k)) (pc_mro (cls_of w c))) &&
              negb (nmem (w_iter w) (flat_map (fun k => own_names (cls_of w k)) (pc_mro (cls_of w c))))) eqn:Eimp.
    + (* the implicit __iter__ was added: a must not be __iter__ *)
      apply andb_true_iff in Eimp. destruct Eimp as [Eg Ei]. apply negb_true_iff in Ei.
      rewrite !nmem_flat_map in Eg, Ei. fold (has_member w c (w_getitem w)) in Eg.
      fold (has_member w c (w_iter w)) in Ei. rewrite Eg, Ei in Hii. simpl in Hii.
      rewrite !andb_true_r in Hii.
      unfold nmem at 1. simpl. rewrite Hii. simpl. fold (nmem a (flat_map (fun k => own_names (cls_of w k)) (pc_mro (cls_of w c)))).
      rewrite Hnot. reflexivity.
    + rewrite Hnot. reflexivity.
Qed.

(* MAIN (a): _match_against_protocol accepts an instance of c for the unparameterised protocol p  iff  c, with its
   inherited members, provides every protocol member with a compatible kind -- away from the two named deviations *)
Theorem proto_match_is_pep544 : forall w nc c p,
  pattrs_defined w p = true -> seq_map_hit w c p = false -> implicit_iter_hit w c p = false ->
  proto_match w nc c p = pep544 w nc c p.
Proof.
  intros w nc c p Hdef Hsm Hii. unfold proto_match, pep544. unfold seq_map_hit in Hsm. rewrite Hsm.
  unfold nsubset. rewrite forallb_and. apply forallb_ext_in. intros a Ha.
  unfold pattrs_defined in Hdef. rewrite forallb_forall in Hdef. specialize (Hdef a Ha).
  destruct (lookup w p a) as [kp|] eqn:Ep; [|discriminate].
  apply member_char with (kp := kp); [exact Ep|].
  destruct (Nat.eqb a (w_iter w)) eqn:Ea; [|reflexivity]. apply Nat.eqb_eq in Ea. subst a.
  unfold implicit_iter_hit in Hii. apply nmem_true_In in Ha. rewrite Ha in Hii. exact Hii.
Qed.

(* the iff form the task names: matches <-> every protocol member is present (with inherited members) and compatible *)
Corollary proto_match_iff : forall w nc c p,
  pattrs_defined w p = true -> seq_map_hit w c p = false -> implicit_iter_hit w c p = false ->
  (proto_match w nc c p = true <->
   forall a, In a (pattrs w p) ->
     exists kl kp, lookup w c a = Some kl /\ lookup w p a = Some kp /\ kind_ok w nc kl kp = true).
Proof.
  intros w nc c p H1 H2 H3. rewrite (proto_match_is_pep544 w nc c p H1 H2 H3). unfold pep544.
  rewrite forallb_forall. split.
  - intros H a Ha. specialize (H a Ha). unfold member_ok in H.
    destruct (lookup w c a) as [kl|]; [|discriminate]. destruct (lookup w p a) as [kp|]; [|discriminate].
    exists kl, kp. auto.
  - intros H a Ha. destruct (H a Ha) as [kl [kp [E1 [E2 E3]]]]. unfold member_ok. rewrite E1, E2. exact E3.
Qed.

(* whole instance-vs-class step: nominal through the MRO first, structural second *)
Theorem inst_match_exact_partial : forall w nc c p,
  pattrs_defined w p = true -> seq_map_hit w c p = false -> implicit_iter_hit w c p = false ->
  inst_match w nc c p = nominal w c p || (if is_protocol w p then pep544 w nc c p else pc_pbase (cls_of w p)).
Proof.
  intros w nc c p H1 H2 H3. unfold inst_match. destruct (nominal w c p); [reflexivity|]. simpl.
  destruct (is_protocol w p); [|reflexivity]. apply proto_match_is_pep544; assumption.
Qed.

(* ---- witnesses: both deviations are real on the faithful model ----------------------------------------- *)
(* attribute ids: 0 __iter__, 1 __getitem__, 2 __len__, 3 m0;
   classes: 0 object; 1 Iterable (protocol, {__iter__}); 2 Sequence (protocol, {__getitem__, __len__});
            3 Mapping (protocol); 4 class G: __getitem__ only; 5 class M(Mapping): __getitem__, __len__ *)
Definition w0 : world :=
  {| w_cls := [ {| pc_mro := [0]; pc_own := []; pc_pbase := false; pc_fixed := None |};
                {| pc_mro := [1; 0]; pc_own := [(0, AMethod)]; pc_pbase := true; pc_fixed := Some [0] |};
                {| pc_mro := [2; 0]; pc_own := [(1, AMethod); (2, AMethod)]; pc_pbase := true; pc_fixed := Some [1; 2] |};
                {| pc_mro := [3; 0]; pc_own := [(1, AMethod); (2, AMethod); (0, AMethod)]; pc_pbase := true;
                   pc_fixed := Some [1; 2; 0] |};
                {| pc_mro := [4; 0]; pc_own := [(1, AMethod)]; pc_pbase := false; pc_fixed := None |};
                {| pc_mro := [5; 3; 0]; pc_own := [(1, AMethod); (2, AMethod)]; pc_pbase := false; pc_fixed := None |} ];
     w_iter := 0; w_getitem := 1; w_seq := 2; w_map := 3; w_compat := [] |}.

Lemma proto_refuted_w :
  (* class G: def __getitem__  is accepted for Iterable although it has no __iter__ *)
  (pattrs_defined w0 1 = true /\ seq_map_hit w0 4 1 = false /\
   proto_match w0 0 4 1 = true /\ pep544 w0 0 4 1 = false /\ implicit_iter_hit w0 4 1 = true) /\
  (* class M(Mapping) with __getitem__ and __len__ is rejected for Sequence although it has every member *)
  (pattrs_defined w0 2 = true /\ implicit_iter_hit w0 5 2 = false /\
   proto_match w0 0 5 2 = false /\ pep544 w0 0 5 2 = true /\ seq_map_hit w0 5 2 = true).
Proof. vm_compute. repeat split; reflexivity. Qed.

(* ---- _init_protocol_attributes on an inheriting user protocol (computed example; the algorithm is tied to the
   code by correspondence) ------------------------------------------------------------------------------- *)
(* 0 object {9}; 1 P0(Protocol) {3}; 2 P1(P0, Protocol) {4}; 3 PE(P1, Protocol) {} ; 4 Q(P0) {5}: not a protocol;
   5 K: m3 = None, m4 method; 6 L(K): m3 method  -- L overrides the None *)
Definition w1 : world :=
  {| w_cls := [ {| pc_mro := [0]; pc_own := [(9, AMethod)]; pc_pbase := false; pc_fixed := None |};
                {| pc_mro := [1; 0]; pc_own := [(3, AMethod)]; pc_pbase := true; pc_fixed := None |};
                {| pc_mro := [2; 1; 0]; pc_own := [(4, AMethod)]; pc_pbase := true; pc_fixed := None |};
                {| pc_mro := [3; 2; 1; 0]; pc_own := []; pc_pbase := true; pc_fixed := None |};
                {| pc_mro := [4; 1; 0]; pc_own := [(5, AMethod)]; pc_pbase := false; pc_fixed := None |};
                {| pc_mro := [5; 0]; pc_own := [(3, ANone); (4, AMethod)]; pc_pbase := false; pc_fixed := None |};
                {| pc_mro := [6; 5; 0]; pc_own := [(3, AMethod)]; pc_pbase := false; pc_fixed := None |} ];
     w_iter := 100; w_getitem := 101; w_seq := 102; w_map := 103; w_compat := [] |}.

Lemma pattrs_example_w :
  pattrs_tbl w1 = [[]; [3]; [3; 4]; [3; 4]; []; []; []] /\
  (* hypotheses of proto_match_is_pep544 hold, both verdicts occur, the None override is seen through the MRO *)
  pattrs_defined w1 3 = true /\ seq_map_hit w1 5 3 = false /\ implicit_iter_hit w1 5 3 = false /\
  proto_match w1 0 5 3 = false /\ proto_match w1 0 6 3 = true /\ proto_match w1 0 6 1 = true /\
  inst_match w1 0 4 1 = true /\ inst_match w1 0 5 4 = false.
Proof. vm_compute. repeat split; reflexivity. Qed.
