(* C02 extension (d): the ASSIGNMENT SITE glue -- which stores are checked against which recorded annotation.
   Definitions only (no proofs).

   Code anchors (pytype/vm.py):
     chk_ev        _pop_and_store -> _get_value_from_annotations -> _apply_annotation  (STORE_FAST / STORE_NAME: local=True,
                   the frame's annotated locals are consulted and updated), byte_STORE_DEREF (the same dictionary, for a
                   name living in a closure cell), byte_STORE_GLOBAL (local=False: annotations_dict is None, so only an
                   annotation written ON the statement is used and nothing is recorded); a store executed by a NESTED
                   frame (`nonlocal x; x = v`) consults that frame's own dictionary, in which x is absent.
     latest-wins   abstract_utils.Local.update adds the new annotation as a later binding of Local.typ; get_type reads the
                   binding visible at the current node.
   One frame, straight-line.  kn gives, per name, what CPython's symbol table decided for this frame: a fast/name
   local, a cell (captured by a nested def/lambda/class), or an explicit global.  T is the type of annotations.
   The output is, per event, the annotation the stored value is checked against (None: nothing stored, or the store
   is not checked against anything). *)
From Coq Require Import List Arith Bool.
Import ListNotations.

Inductive skind := KLocal | KCell | KGlobal.

Section Store.
Variable T : Type.

Inductive ev :=
| EAnn (x : nat) (t : T) (has_value : bool)    (* x: t = v   /   x: t *)
| EStore (x : nat)                             (* x = v, x += v, for x in .., with .. as x, import .. as x *)
| ENonlocal (x : nat)                          (* a nested function declared `nonlocal x` stores to x *)
| EDel (x : nat).                              (* del x *)

Definition env := list (nat * T).
Definition lookup (e : env) (x : nat) : option T := option_map snd (find (fun p => Nat.eqb (fst p) x) e).
Definition is_global (k : skind) : bool := match k with KGlobal => true | _ => false end.

(* pytype: state = the frame's annotated locals (latest annotation of a name first) *)
Definition chk_ev (kn : nat -> skind) (st : env) (e : ev) : env * option T :=
  match e with
  | EAnn x t hv => (if is_global (kn x) then st else (x, t) :: st, if hv then Some t else None)
  | EStore x => (st, if is_global (kn x) then None else lookup st x)
  | ENonlocal _ => (st, None)
  | EDel _ => (st, None)
  end.

Fixpoint checks_from (kn : nat -> skind) (st : env) (evs : list ev) : list (option T) :=
  match evs with
  | [] => []
  | e :: evs' => snd (chk_ev kn st e) :: checks_from kn (fst (chk_ev kn st e)) evs'
  end.
Definition checks (kn : nat -> skind) (evs : list ev) : list (option T) := checks_from kn [] evs.

(* SPECIFICATION (PEP 526): a value stored into x is checked against the most recent annotation of x in the scope
   that owns x, whatever instruction performs the store *)
Definition spec_ev (sp : env) (e : ev) : env * option T :=
  match e with
  | EAnn x t hv => ((x, t) :: sp, if hv then Some t else None)
  | EStore x => (sp, lookup sp x)
  | ENonlocal x => (sp, lookup sp x)
  | EDel _ => (sp, None)
  end.

Fixpoint spec_from (sp : env) (evs : list ev) : list (option T) :=
  match evs with
  | [] => []
  | e :: evs' => snd (spec_ev sp e) :: spec_from (fst (spec_ev sp e)) evs'
  end.
Definition spec (evs : list ev) : list (option T) := spec_from [] evs.

(* an event of this frame itself on a name that is not an explicit global *)
Definition own_nonglobal (kn : nat -> skind) (e : ev) : bool :=
  match e with
  | EAnn x _ _ | EStore x | EDel x => negb (is_global (kn x))
  | ENonlocal _ => false
  end.

End Store.

Arguments EAnn {T}. Arguments EStore {T}. Arguments ENonlocal {T}. Arguments EDel {T}.
Arguments checks {T}. Arguments spec {T}. Arguments checks_from {T}. Arguments spec_from {T}.
Arguments chk_ev {T}. Arguments spec_ev {T}. Arguments lookup {T}. Arguments own_nonglobal {T}.
