(* C02 extension model: Literal[...] annotations and constant values (pytype/matcher.py
   _match_instance_against_type, LiteralClass branch; _match_instance_parameters, match_as_literal branch;
   _match_all_bindings; _match_heterogeneous_tuple_instance), arbitrarily nested Optional/Union around them, and
   the base classes of the constants in both directions.  Definitions only (no proofs).

   What the VM builds (convert.py): int / bool / str constants are abstract.ConcreteValue carrying their pyval;
   float constants and results of calls (int("7"), str(5)) are plain instances; a tuple display is an
   abstract.Tuple of single-binding variables; a list display is an abstract.List whose pyval keeps the element
   variables (is_concrete).  Literal[a, b] is Union[LiteralClass(a), LiteralClass(b)]; Literal[None] is NoneType.

   The fragment is single-view: nothing below looks a parameter variable up in the view (the list rule bypasses
   the view through build_content), so compute_one_match gives the same verdict with match_all_views on or off
   and the three sites differ only by allow_none at the assignment. *)
From Coq Require Import List Arith Bool ZArith.
From PV Require Import Match.Model.
Import ListNotations.

Inductive lit := LInt (z : Z) | LBool (b : bool) | LStr (n : nat).   (* strings by id *)

Inductive lval :=
| LC (l : lit)             (* a constant expression: ConcreteValue with that pyval *)
| LNoneV                   (* None *)
| LO (c : bname)           (* an instance of builtin class c whose value is not statically known *)
| LT (vs : list lval)      (* tuple display *)
| LL (vs : list lval).     (* list display *)

Inductive lty :=
| LLit (l : lit)           (* Literal[l] *)
| LBase (t : ty)           (* a literal-free, unparameterised annotation of the ground fragment: Any / a class *)
| LUnion (ts : list lty)   (* Union / Optional, any nesting *)
| LTuple (ts : list lty)   (* Tuple[t1, .., tn] *)
| LHom (t : lty)           (* Tuple[t, ...] *)
| LSeq (h : bname) (t : lty).  (* h[t] for a one-parameter container class / ABC h, t containing a Literal *)

(* left.pyval == other_value.pyval: PYTHON equality, under which True == 1 and False == 0 *)
Definition lit_pyeq (a b : lit) : bool :=
  match a, b with
  | LInt x, LInt y => Z.eqb x y
  | LBool x, LBool y => Bool.eqb x y
  | LInt x, LBool y | LBool y, LInt x => Z.eqb x (if y then 1%Z else 0%Z)
  | LStr x, LStr y => Nat.eqb x y
  | _, _ => false
  end.

(* PEP 586: same type and same value *)
Definition lit_eq (a b : lit) : bool :=
  match a, b with
  | LInt x, LInt y => Z.eqb x y
  | LBool x, LBool y => Bool.eqb x y
  | LStr x, LStr y => Nat.eqb x y
  | _, _ => false
  end.

Definition lit_cls (l : lit) : bname :=
  match l with LInt _ => B_int | LBool _ => B_bool | LStr _ => B_str end.

Definition lcls (v : lval) : bname :=
  match v with
  | LC l => lit_cls l | LNoneV => B_NoneType | LO c => c | LT _ => B_tuple | LL _ => B_list
  end.

Definition scalar_of_cls (c : bname) : option scalar :=
  match c with
  | B_int => Some SInt | B_bool => Some SBool | B_float => Some SFloat | B_complex => Some SComplex
  | B_str => Some SStr | B_bytes => Some SBytes | B_NoneType => Some SNone | _ => None
  end.

(* what an unparameterised formal sees of the value: its class only *)
Definition top_value (v : lval) : value :=
  match v with
  | LT _ => VTuple []
  | LL _ => VColl KList []
  | _ => match scalar_of_cls (lcls v) with Some s => VScalar s | None => VScalar SNone end
  end.

(* _contains_literal(class_param): a LiteralClass or a Union with such an option (flattened unions) *)
Fixpoint contains_literal (t : lty) : bool :=
  match t with
  | LLit _ => true
  | LUnion ts => existsb contains_literal ts
  | _ => false
  end.

Fixpoint matchL (tb : table) (t : lty) (v : lval) {struct t} : bool :=
  match t with
  | LLit l =>
      (* both ConcreteValue: pyval equality; anything else against a LiteralClass: None *)
      match v with LC c => lit_pyeq c l | _ => false end
  | LBase t0 => matchm tb t0 (abs1 (top_value v))
  | LUnion ts => existsb (fun o => matchL tb o v) ts
  | LTuple ts =>
      (* find_base(cls, tuple) succeeds for tuple displays only in this fragment; length + pointwise *)
      match v with LT vs => forall2b (matchL tb) ts vs | _ => false end
  | LHom a =>
      match v with LT vs => forallb (matchL tb a) vs | _ => false end
  | LSeq h a =>
      match reach tb (CB (lcls v)) (CB h) with
      | None => if is_protocol tb (CB h) then protocol_match tb (inst0 (CB (lcls v))) (CB h)
                else has_protocol_base tb (CB h)
      | Some pm =>
          match v with
          | LT vs => forallb (matchL tb a) vs              (* _match_heterogeneous_tuple_instance *)
          | LL vs =>                                        (* match_as_literal: build_content + _match_all_bindings:
                                                               success as soon as ONE element matches *)
              match vs with [] => true | _ => existsb (matchL tb a) vs end
          | _ =>                                            (* _match_instance_parameters through the MRO entry *)
              match pm with
              | PInst (CB k) :: _ => matchL tb a (LO k)
              | _ => true
              end
          end
      end
  end.

Definition l_is_none (v : lval) : bool := match v with LNoneV => true | _ => false end.
Definition errL_arg (tb : table) (v : lval) (t : lty) : bool := negb (matchL tb t v).
Definition errL_ret (tb : table) (v : lval) (t : lty) : bool := negb (matchL tb t v).
Definition errL_assign (tb : table) (v : lval) (t : lty) : bool := negb (l_is_none v) && negb (matchL tb t v).

(* ------------------------------------------------------------------------------------------------ *)
(* ORACLE: membership under PEP 484 / PEP 586, with two more named deviation switches *)

Record ldevs := {
  ld_pyeq : bool;       (* a constant matches Literal[l] when pyval == l in Python (True for Literal[1]) *)
  ld_list_any : bool    (* a list display matches h[...Literal...] when ONE of its elements matches *)
}.
Definition pep586 : ldevs := {| ld_pyeq := false; ld_list_any := false |}.
Definition pytype_ldevs : ldevs := {| ld_pyeq := true; ld_list_any := true |}.

Fixpoint inhabL (ld : ldevs) (d : devs) (tb : table) (t : lty) (v : lval) {struct t} : bool :=
  match t with
  | LLit l => match v with LC c => if ld_pyeq ld then lit_pyeq c l else lit_eq c l | _ => false end
  | LBase t0 => inhabitsF d tb t0 (top_value v)
  | LUnion ts => existsb (fun o => inhabL ld d tb o v) ts
  | LTuple ts => match v with LT vs => forall2b (inhabL ld d tb) ts vs | _ => false end
  | LHom a => match v with LT vs => forallb (inhabL ld d tb a) vs | _ => false end
  | LSeq h a =>
      match reachF d (lcls v) h with
      | None => false
      | Some pm =>
          match v with
          | LT vs => forallb (inhabL ld d tb a) vs
          | LL vs => if ld_list_any ld
                     then match vs with [] => true | _ => existsb (inhabL ld d tb a) vs end
                     else forallb (inhabL ld d tb a) vs
          | _ => match pm with
                 | PInst (CB k) :: _ => inhabL ld d tb a (LO k)   (* the elements of a str are arbitrary strs *)
                 | _ => true
                 end
          end
      end
  end.

Definition inhabitsL (tb : table) (v : lval) (t : lty) : bool := inhabL pep586 pep484 tb t v.

(* ------------------------------------------------------------------------------------------------ *)
(* well-formedness *)

Definition lshallow (t : ty) : bool :=
  match t with TAny => true | TCls _ [] => true | _ => false end.

Definition seq_heads : list bname := [B_list; B_tuple; B_t_Sequence; B_t_MutableSequence; B_t_Iterable; B_t_Container].

Fixpoint wf_lty (tb : table) (t : lty) : bool :=
  match t with
  | LLit _ => true
  | LBase t0 => lshallow t0 && wf_ty tb t0
  | LUnion ts => forallb (wf_lty tb) ts
  | LTuple ts => forallb (wf_lty tb) ts
  | LHom a => wf_lty tb a
  | LSeq h a => bmem h seq_heads && contains_literal a && wf_lty tb a
  end.

Definition lscalars : list bname := [B_int; B_bool; B_float; B_complex; B_str; B_bytes; B_NoneType].

Fixpoint wf_lval (v : lval) : bool :=
  match v with
  | LO c => bmem c lscalars
  | LT vs => forallb wf_lval vs
  | LL vs => forallb wf_lval vs
  | _ => true
  end.

(* syntactic conditions under which no deviation can change a verdict *)
Definition lit_is_bool (l : lit) : bool := match l with LBool _ => true | _ => false end.

Fixpoint bool_free_ty (t : lty) : bool :=
  match t with
  | LLit l => negb (lit_is_bool l)
  | LBase _ => true
  | LUnion ts => forallb bool_free_ty ts
  | LTuple ts => forallb bool_free_ty ts
  | LHom a => bool_free_ty a
  | LSeq _ a => bool_free_ty a
  end.

Fixpoint bool_free_val (v : lval) : bool :=
  match v with
  | LC l => negb (lit_is_bool l)
  | LT vs => forallb bool_free_val vs
  | LL vs => forallb bool_free_val vs
  | _ => true
  end.

(* every list display has at most one element (then "one element matches" = "every element matches") *)
Fixpoint short_lists (v : lval) : bool :=
  match v with
  | LT vs => forallb short_lists vs
  | LL vs => (length vs <=? 1) && forallb short_lists vs
  | _ => true
  end.

(* no unparameterised formal on which the base deviations act (None for bool, bytearray for bytes) *)
Definition base_dev_free1 (t0 : ty) : bool :=
  match t0 with
  | TCls (CB h) _ => negb (bname_beq h B_bool) && negb (bname_beq h B_bytes)
  | _ => true
  end.

Fixpoint base_dev_free (t : lty) : bool :=
  match t with
  | LLit _ => true
  | LBase t0 => base_dev_free1 t0
  | LUnion ts => forallb base_dev_free ts
  | LTuple ts => forallb base_dev_free ts
  | LHom a => base_dev_free a
  | LSeq _ a => base_dev_free a
  end.

(* ------------------------------------------------------------------------------------------------ *)
(* RETURN SITE (vm.py _return_value / tracer_vm.py _check_return): every RETURN_VALUE / RETURN_CONST of a frame
   whose function has a return annotation runs compute_one_match(var, allowed_returns) on the returned
   VARIABLE, with match_all_views; one bad-return-type is logged at that statement iff some view is bad.
   The views of a variable with several bindings (x = V1 if c else V2; return x) are the views of each binding:
   deep_variable_product takes the product over the top-level row without deduplication.
   The caller never sees the returned value of an annotated function: _set_frame_return pastes an instance of
   the annotation. *)

Record ret_stmt := { rs_line : nat; rs_vals : list value }.   (* the bindings of the returned variable *)

Definition ret_views (bs : list value) : list mono := flat_map (fun v => views (abs v)) bs.

Definition err_ret_var (tb : table) (bs : list value) (t : ty) : bool :=
  negb (forallb (matchm tb t) (ret_views bs)).

(* lines of the bad-return-type errors of one frame; [ann] = None: frame.check_return is off *)
Definition ret_errors (tb : table) (ann : option ty) (body : list ret_stmt) : list nat :=
  match ann with
  | None => []
  | Some t => map rs_line (filter (fun s => err_ret_var tb (rs_vals s) t) body)
  end.

(* the same on the Literal fragment (single-view values, several bindings) *)
Record lret_stmt := { lrs_line : nat; lrs_vals : list lval }.
Definition errL_ret_var (tb : table) (bs : list lval) (t : lty) : bool :=
  negb (forallb (matchL tb t) bs).
Definition lret_errors (tb : table) (ann : option lty) (body : list lret_stmt) : list nat :=
  match ann with
  | None => []
  | Some t => map lrs_line (filter (fun s => errL_ret_var tb (lrs_vals s) t) body)
  end.
