(* C02 model: the ground, type-variable-free fragment of pytype/matcher.py (AbstractMatcher) together with
   the three enforcement sites (argument / return / annotated assignment), the abstraction of literal value
   expressions the VM builds, and the ORACLE (PEP 484 membership as the property text names it).
   Definitions only (no proofs), so that the file still evaluates when a proof breaks.

   Code anchors (pytype/matcher.py unless stated otherwise):
     views / matches_all / matches_any   compute_one_match + abstract_utils.get_views + cfg_utils.deep_variable_product
     matchm                              _match_value_against_type / _match_type_against_type
     instance_match                      _match_instance_against_type  (+ _satisfies_noniterable_str, match_from_mro,
                                         _match_base_class_flat with the compat builtins, _match_against_protocol)
     base_match                          _match_instance / _match_heterogeneous_tuple_instance /
                                         _match_callable_instance / _match_maybe_parameterized_instance /
                                         _match_instance_parameters
     func_match                          _match_signature_against_callable (un-annotated signatures)
     err_arg / err_ret / err_assign      abstract/_function_base.py _match_args_sequentially (match_all_views=False),
                                         tracer_vm.py _check_return, context.py check_annotation_type_mismatch
                                         (called from vm.py _apply_annotation with allow_none=True)
   The builtin class table (MROs with the way every base's parameters resolve on an instance, protocol
   attributes, own attributes, compat pairs, the special-cased name lists) is NOT written here: it is
   regenerated from pytype's loaded stubs on every run into Generated/C02_Builtins.v. *)
From Coq Require Import List Arith Bool.
Import ListNotations.

(* ------------------------------------------------------------------------------------------------ *)
(* names *)

Inductive bname :=
| B_int | B_float | B_complex | B_bool | B_str | B_bytes | B_bytearray | B_memoryview | B_NoneType | B_object
| B_list | B_tuple | B_set | B_frozenset | B_dict | B_type
| B_t_Sequence | B_t_MutableSequence | B_t_Iterable | B_t_Collection | B_t_Container | B_t_Mapping
| B_t_MutableMapping | B_t_AbstractSet | B_t_MutableSet | B_t_Sized | B_t_Callable | B_t_Hashable
| B_t_Reversible | B_t_Iterator | B_t_Generic | B_t_Protocol | B_t_List | B_t_Dict | B_t_Set | B_t_FrozenSet
| B_t_Tuple | B_t_Type | B_t_SupportsInt | B_t_SupportsFloat | B_t_SupportsAbs | B_t_SupportsComplex
| B_t_SupportsIndex | B_t_SupportsRound | B_t_SupportsBytes.

Inductive battr :=
| A_abs | A_call | A_complex | A_contains | A_delitem | A_eq | A_float | A_getitem | A_hash | A_int | A_iter
| A_len | A_ne | A_next | A_reversed | A_setitem | A_index | A_round | A_bytes
| A_m_get | A_m_insert | A_m_items | A_m_keys | A_m_values.

Definition bname_idx (x : bname) : nat :=
  match x with
  | B_int => 0 | B_float => 1 | B_complex => 2 | B_bool => 3 | B_str => 4 | B_bytes => 5
  | B_bytearray => 6 | B_memoryview => 7 | B_NoneType => 8 | B_object => 9 | B_list => 10 | B_tuple => 11
  | B_set => 12 | B_frozenset => 13 | B_dict => 14 | B_type => 15 | B_t_Sequence => 16 | B_t_MutableSequence => 17
  | B_t_Iterable => 18 | B_t_Collection => 19 | B_t_Container => 20 | B_t_Mapping => 21 | B_t_MutableMapping => 22 | B_t_AbstractSet => 23
  | B_t_MutableSet => 24 | B_t_Sized => 25 | B_t_Callable => 26 | B_t_Hashable => 27 | B_t_Reversible => 28 | B_t_Iterator => 29
  | B_t_Generic => 30 | B_t_Protocol => 31 | B_t_List => 32 | B_t_Dict => 33 | B_t_Set => 34 | B_t_FrozenSet => 35
  | B_t_Tuple => 36 | B_t_Type => 37 | B_t_SupportsInt => 38 | B_t_SupportsFloat => 39 | B_t_SupportsAbs => 40 | B_t_SupportsComplex => 41
  | B_t_SupportsIndex => 42 | B_t_SupportsRound => 43 | B_t_SupportsBytes => 44
  end.
Definition bname_of_idx (n : nat) : bname :=
  match n with
  | 0 => B_int | 1 => B_float | 2 => B_complex | 3 => B_bool | 4 => B_str | 5 => B_bytes
  | 6 => B_bytearray | 7 => B_memoryview | 8 => B_NoneType | 9 => B_object | 10 => B_list | 11 => B_tuple
  | 12 => B_set | 13 => B_frozenset | 14 => B_dict | 15 => B_type | 16 => B_t_Sequence | 17 => B_t_MutableSequence
  | 18 => B_t_Iterable | 19 => B_t_Collection | 20 => B_t_Container | 21 => B_t_Mapping | 22 => B_t_MutableMapping | 23 => B_t_AbstractSet
  | 24 => B_t_MutableSet | 25 => B_t_Sized | 26 => B_t_Callable | 27 => B_t_Hashable | 28 => B_t_Reversible | 29 => B_t_Iterator
  | 30 => B_t_Generic | 31 => B_t_Protocol | 32 => B_t_List | 33 => B_t_Dict | 34 => B_t_Set | 35 => B_t_FrozenSet
  | 36 => B_t_Tuple | 37 => B_t_Type | 38 => B_t_SupportsInt | 39 => B_t_SupportsFloat | 40 => B_t_SupportsAbs | 41 => B_t_SupportsComplex
  | 42 => B_t_SupportsIndex | 43 => B_t_SupportsRound
  | _ => B_t_SupportsBytes
  end.
Definition bname_beq (x y : bname) : bool := Nat.eqb (bname_idx x) (bname_idx y).

Definition battr_idx (x : battr) : nat :=
  match x with
  | A_abs => 0 | A_call => 1 | A_complex => 2 | A_contains => 3 | A_delitem => 4 | A_eq => 5
  | A_float => 6 | A_getitem => 7 | A_hash => 8 | A_int => 9 | A_iter => 10 | A_len => 11
  | A_ne => 12 | A_next => 13 | A_reversed => 14 | A_setitem => 15 | A_index => 16 | A_round => 17
  | A_bytes => 18 | A_m_get => 19 | A_m_insert => 20 | A_m_items => 21 | A_m_keys => 22 | A_m_values => 23
  end.
Definition battr_of_idx (n : nat) : battr :=
  match n with
  | 0 => A_abs | 1 => A_call | 2 => A_complex | 3 => A_contains | 4 => A_delitem | 5 => A_eq
  | 6 => A_float | 7 => A_getitem | 8 => A_hash | 9 => A_int | 10 => A_iter | 11 => A_len
  | 12 => A_ne | 13 => A_next | 14 => A_reversed | 15 => A_setitem | 16 => A_index | 17 => A_round
  | 18 => A_bytes | 19 => A_m_get | 20 => A_m_insert | 21 => A_m_items | 22 => A_m_keys
  | _ => A_m_values
  end.
Definition battr_beq (x y : battr) : bool := Nat.eqb (battr_idx x) (battr_idx y).

(* class ids: a builtin / typing class, or class number n of the generated hierarchy *)
Inductive cid := CB (b : bname) | CU (n : nat).
Inductive attr := AB (a : battr) | AU (n : nat).

Definition cid_eqb (x y : cid) : bool :=
  match x, y with
  | CB a, CB b => bname_beq a b
  | CU a, CU b => Nat.eqb a b
  | _, _ => false
  end.

Definition attr_eqb (x y : attr) : bool :=
  match x, y with
  | AB a, AB b => battr_beq a b
  | AU a, AU b => Nat.eqb a b
  | _, _ => false
  end.

Definition cmem (c : cid) (l : list cid) : bool := existsb (cid_eqb c) l.
Definition amem (a : attr) (l : list attr) : bool := existsb (attr_eqb a) l.
Definition asubset (l1 l2 : list attr) : bool := forallb (fun a => amem a l2) l1.
Definition nmem (n : nat) (l : list nat) : bool := existsb (Nat.eqb n) l.
Definition bmem (b : bname) (l : list bname) : bool := existsb (bname_beq b) l.

(* ------------------------------------------------------------------------------------------------ *)
(* class table *)

(* how a template parameter of a base class resolves on an instance of the class
   (Instance._load_instance_type_parameters / get_instance_type_parameter through the aliasing dict) *)
Inductive parg :=
| PIdx (i : nat)      (* the instance's own i-th parameter variable *)
| PInst (c : cid)     (* a variable holding one instance of c (Sequence[str] in str's MRO) *)
| PEmpty.             (* an empty variable *)

Record binfo := {
  b_arity : nat;                         (* len(cls.template) *)
  b_mro : list (cid * list parg);        (* cls.mro, each entry with its parameters resolved on an instance *)
  b_proto : bool;                        (* cls.is_protocol *)
  b_pattrs : list attr;                  (* cls.protocol_attributes *)
  b_own : list attr;                     (* cls.get_own_attributes(), restricted to protocol-relevant names *)
  b_has_proto_base : bool                (* cls.has_protocol_base() *)
}.

Record btable := {
  bt_info : bname -> option binfo;
  bt_compat : list (cid * cid);          (* AbstractMatcher._compatible_builtins *)
  bt_noniter_abcs : list cid;            (* conflicting_iter_types in _satisfies_noniterable_str *)
  bt_str_types : list cid;               (* str_types in _satisfies_noniterable_str *)
  bt_class_accept : list cid;            (* names a class object matches outright in _match_type_against_type *)
  bt_function_type : cid                 (* ctx.convert.function_type: the class of an InterpreterFunction *)
}.

(* a class of the generated hierarchy *)
Record uinfo := {
  u_mro : list nat;        (* its MRO restricted to generated classes, itself first (object is implicit last) *)
  u_own : list nat;        (* names of the attributes it defines itself *)
  u_pbase : bool;          (* declared with Protocol as a direct base *)
  u_pattrs : list nat      (* protocol attributes (of a protocol class) *)
}.

Record table := { t_b : btable; t_u : list uinfo }.

Definition empty_binfo : binfo :=
  {| b_arity := 0; b_mro := []; b_proto := false; b_pattrs := []; b_own := []; b_has_proto_base := false |}.
Definition empty_uinfo : uinfo := {| u_mro := []; u_own := []; u_pbase := false; u_pattrs := [] |}.

Definition binfo_of (tb : table) (b : bname) : binfo :=
  match bt_info (t_b tb) b with Some i => i | None => empty_binfo end.
Definition uinfo_of (tb : table) (n : nat) : uinfo := nth n (t_u tb) empty_uinfo.

Definition mro (tb : table) (c : cid) : list (cid * list parg) :=
  match c with
  | CB b => b_mro (binfo_of tb b)
  | CU n => map (fun k => (CU k, @nil parg)) (u_mro (uinfo_of tb n)) ++ [(CB B_object, [])]
  end.

Definition arity (tb : table) (c : cid) : nat :=
  match c with CB b => b_arity (binfo_of tb b) | CU _ => 0 end.

Definition pattrs (tb : table) (c : cid) : list attr :=
  match c with
  | CB b => b_pattrs (binfo_of tb b)
  | CU n => map AU (u_pattrs (uinfo_of tb n))
  end.

(* Class.is_protocol = bool(protocol_attributes) *)
Definition is_protocol (tb : table) (c : cid) : bool :=
  match c with
  | CB b => b_proto (binfo_of tb b)
  | CU n => u_pbase (uinfo_of tb n) && negb (match u_pattrs (uinfo_of tb n) with [] => true | _ => false end)
  end.

Definition has_protocol_base (tb : table) (c : cid) : bool :=
  match c with
  | CB b => b_has_proto_base (binfo_of tb b)
  | CU n => u_pbase (uinfo_of tb n)
  end.

Definition own_attrs (tb : table) (c : cid) : list attr :=
  match c with
  | CB b => b_own (binfo_of tb b)
  | CU n => map AU (u_own (uinfo_of tb n))
  end.

(* _get_attribute_names for an instance of c: own attributes of every class in the MRO, plus the implicit
   __iter__ of a class with __getitem__ *)
Definition attrs (tb : table) (c : cid) : list attr :=
  let l := flat_map (fun e => own_attrs tb (fst e)) (mro tb c) in
  if amem (AB A_getitem) l then AB A_iter :: l else l.

Definition compat (tb : table) (x y : cid) : bool :=
  existsb (fun p => cid_eqb (fst p) x && cid_eqb (snd p) y) (bt_compat (t_b tb)).

(* match_from_mro + _match_base_class_flat: first MRO entry with the formal's name, or compatible with it *)
Definition find_base (tb : table) (c h : cid) : option (cid * list parg) :=
  find (fun e => cid_eqb (fst e) h || compat tb (fst e) h) (mro tb c).

Definition reach (tb : table) (c h : cid) : option (list parg) := option_map snd (find_base tb c h).

(* ------------------------------------------------------------------------------------------------ *)
(* annotations *)

Inductive ty :=
| TAny
| TUnion (ts : list ty)                    (* Optional[X] = Union[X, None] *)
| TCls (c : cid) (args : list ty)          (* a class; args = [] when unparameterised.  Tuple[X, ...] is
                                              TCls tuple [X], Type[C] is TCls type [C] *)
| TTuple (ts : list ty)                    (* Tuple[X1, .., Xn] (TupleClass) *)
| TCallable (args : list ty) (ret : ty)    (* Callable[[A1, .., An], R] (CallableClass) *)
| TCallableAny (ret : ty).                 (* Callable[..., R] *)

Definition NoneT : ty := TCls (CB B_NoneType) [].

(* ------------------------------------------------------------------------------------------------ *)
(* ground run-time values (what the value expressions of the generator evaluate to) *)

Inductive scalar := SInt | SBool | SFloat | SComplex | SStr | SBytes | SNone | SBytearray.
(* SStr / SBytes / SBytearray stand for NON-EMPTY strings (the generator only writes such literals) *)

Inductive ckind := KList | KSet | KFrozenset | KTupleOf.   (* KTupleOf: tuple([...]), a tuple not written as a display *)

Inductive value :=
| VScalar (s : scalar)
| VColl (k : ckind) (vs : list value)
| VTuple (vs : list value)                (* a tuple display / constant *)
| VDict (ks vs : list value)              (* keys and values of a dict display, in order *)
| VInst (c : nat)                         (* an instance of generated class c *)
| VClass (c : cid)                        (* a class object *)
| VFunc (mand opt : nat) (star : bool).   (* lambda with mand mandatory + opt defaulted positional parameters,
                                             and *args iff star *)

Definition scalar_cls (s : scalar) : bname :=
  match s with
  | SInt => B_int | SBool => B_bool | SFloat => B_float | SComplex => B_complex | SStr => B_str
  | SBytes => B_bytes | SNone => B_NoneType | SBytearray => B_bytearray
  end.

Definition ckind_cls (k : ckind) : bname :=
  match k with KList => B_list | KSet => B_set | KFrozenset => B_frozenset | KTupleOf => B_tuple end.

(* ------------------------------------------------------------------------------------------------ *)
(* abstract values: what vm.py / convert.py build for the literal expression *)

Inductive aval :=
| AInst (c : cid) (p1 p2 : list aval)   (* Instance of c with its (up to two) parameter variables, each a list of
                                           bindings; an unused / never-filled parameter is the empty variable *)
| ATuple (es : list aval)               (* abstract.Tuple: one single-binding variable per position *)
| AClass (c : cid)                      (* a class object (InterpreterClass / PyTDClass) *)
| AFunc (mand opt : nat) (star : bool). (* InterpreterFunction with an un-annotated signature *)

Fixpoint abs (v : value) : aval :=
  match v with
  | VScalar s => AInst (CB (scalar_cls s)) [] []
  | VColl k vs => AInst (CB (ckind_cls k)) (map abs vs) []
  | VTuple vs => ATuple (map abs vs)
  | VDict ks vs => AInst (CB B_dict) (map abs ks) (map abs vs)
  | VInst c => AInst (CU c) [] []
  | VClass c => AClass c
  | VFunc m o s => AFunc m o s
  end.

(* a view: one binding chosen for every (reachable, non-empty) variable *)
Inductive mono :=
| MInst (c : cid) (o1 o2 : option mono)
| MTuple (es : list mono)
| MClass (c : cid)
| MFunc (mand opt : nat) (star : bool).

(* all ways of picking one element from each list *)
Fixpoint list_prod {A} (ls : list (list A)) : list (list A) :=
  match ls with
  | [] => [[]]
  | l :: rest => flat_map (fun x => map (cons x) (list_prod rest)) l
  end.

Definition var_views (vs : list mono) : list (option mono) :=
  match vs with [] => [None] | _ => map Some vs end.

(* abstract_utils.get_views over cfg_utils.deep_variable_product (type-key deduplication and the skip_future
   optimisation do not change which verdicts occur; DEEP_VARIABLE_LIMIT is not modelled) *)
Fixpoint views (a : aval) : list mono :=
  match a with
  | AInst c p1 p2 =>
      flat_map (fun o1 => map (fun o2 => MInst c o1 o2) (var_views (flat_map views p2)))
               (var_views (flat_map views p1))
  | ATuple es => map MTuple (list_prod (map views es))
  | AClass c => [MClass c]
  | AFunc m o s => [MFunc m o s]
  end.

(* ------------------------------------------------------------------------------------------------ *)
(* the matcher on one view *)

Definition cls_of (tb : table) (m : mono) : cid :=
  match m with
  | MInst c _ _ => c
  | MTuple _ => CB B_tuple
  | MClass _ => CB B_type                   (* the metaclass *)
  | MFunc _ _ _ => bt_function_type (t_b tb)
  end.

(* _get_attribute_names(left): left.members (for a class object: what the class defines itself) + attrs *)
Definition attrs_of (tb : table) (m : mono) : list attr :=
  match m with
  | MClass (CU k) => own_attrs tb (CU k) ++ attrs tb (CB B_type)
  | _ => attrs tb (cls_of tb m)
  end.

(* left.instantiate(node): a fresh instance, all parameters empty *)
Definition inst0 (c : cid) : mono := MInst c None None.

Definition resolve (m : mono) (p : parg) : option mono :=
  match p with
  | PIdx 0 => match m with MInst _ o1 _ => o1 | _ => None end
  | PIdx 1 => match m with MInst _ _ o2 => o2 | _ => None end
  | PIdx _ => None
  | PInst c => Some (inst0 c)
  | PEmpty => None
  end.

(* match_var_against_type for a variable with at most one (chosen) binding: the empty variable matches *)
Definition match_var (rec : ty -> mono -> bool) (o : option mono) (t : ty) : bool :=
  match o with None => true | Some m => rec t m end.

(* _match_instance_parameters: class parameter j against instance parameter j (resolved through the MRO entry) *)
Definition match_params (rec : ty -> mono -> bool) (m : mono) : list ty -> list parg -> bool :=
  fix go (args : list ty) (pm : list parg) : bool :=
    match args, pm with
    | a :: args', p :: pm' => match_var rec (resolve m p) a && go args' pm'
    | _, _ => true
    end.

Definition forall2b {A B} (f : A -> B -> bool) : list A -> list B -> bool :=
  fix go (l1 : list A) (l2 : list B) : bool :=
    match l1, l2 with
    | [], [] => true
    | x :: l1', y :: l2' => f x y && go l1' l2'
    | _, _ => false
    end.

(* the formal's class *)
Definition head (t : ty) : cid :=
  match t with
  | TCls c _ => c
  | TTuple _ => CB B_tuple
  | TCallable _ _ | TCallableAny _ => CB B_t_Callable
  | _ => CB B_object
  end.

(* formal parameter "_T".full_name, when the formal is parameterised *)
Definition first_arg_cls (t : ty) : option cid :=
  match t with
  | TCls _ (TCls c _ :: _) => Some c
  | TCls _ (TTuple _ :: _) => Some (CB B_tuple)
  | TCls _ (TCallable _ _ :: _) | TCls _ (TCallableAny _ :: _) => Some (CB B_t_Callable)
  | _ => None
  end.

(* _satisfies_noniterable_str (left.cls, other_type) *)
Definition satisfies_noniterable_str (tb : table) (c : cid) (t : ty) : bool :=
  if cmem (head t) (bt_noniter_abcs (t_b tb)) && cmem c (bt_str_types (t_b tb)) then
    match first_arg_cls t with
    | Some p => negb (cmem p (bt_str_types (t_b tb)))
    | None => true
    end
  else true.

(* _match_against_protocol, for a formal that is a protocol no MRO entry matched.  [true] in the last case
   stands for "every protocol attribute is present": for an unparameterised protocol whose attributes are
   methods the code returns success there; for a parameterised one it goes on to match signatures, which is
   outside this model (wf_ty excludes the formals for which that can happen). *)
Definition protocol_match (tb : table) (m : mono) (h : cid) : bool :=
  if cid_eqb h (CB B_t_Sequence) && existsb (fun e => cid_eqb (fst e) (CB B_t_Mapping)) (mro tb (cls_of tb m))
  then false
  else asubset (pattrs tb h) (attrs_of tb m).

(* _match_instance and what it dispatches to, once an MRO entry (with parameter map pm) matched *)
Definition base_match (rec : ty -> mono -> bool) (m : mono) (pm : list parg) (t : ty) : bool :=
  match m, t with
  | MTuple es, TTuple ts => forall2b rec ts es
  | MTuple es, TCls _ (a :: _) => forallb (rec a) es
  | MTuple _, _ => true
  | _, TTuple ts => forallb (fun a => match_var rec (resolve m (PIdx 0)) a) ts
  | _, TCallable _ ret | _, TCallableAny ret => match_var rec (resolve m (nth 1 pm PEmpty)) ret
  | _, TCls _ args => match_params rec m args pm
  | _, _ => true
  end.

(* _match_instance_against_type for a formal that is a class *)
Definition instance_match (tb : table) (rec : ty -> mono -> bool) (m : mono) (t : ty) : bool :=
  let c := cls_of tb m in
  let h := head t in
  if negb (satisfies_noniterable_str tb c t) then false
  else match find_base tb c h with
       | Some (_, pm) => base_match rec m pm t
       | None => if is_protocol tb h then protocol_match tb m h else has_protocol_base tb h
       end.

(* _match_signature_against_callable for a signature without annotations: only the argument count matters *)
Definition func_match (mand opt : nat) (star : bool) (n : nat) : bool :=
  (mand <=? n) && (star || (n <=? mand + opt)).

Fixpoint matchm (tb : table) (t : ty) (m : mono) {struct t} : bool :=
  match t with
  | TAny => true
  | TUnion ts => existsb (fun o => matchm tb o m) ts
  | TCls h args =>
      match m with
      | MClass k =>
          match args with
          | u :: _ =>
              if cid_eqb h (CB B_type) then matchm tb u (inst0 k)
              else if cmem h (bt_class_accept (t_b tb)) then true
              else instance_match tb (matchm tb) m t
          | [] =>
              if cmem h (bt_class_accept (t_b tb)) then true
              else instance_match tb (matchm tb) m t
          end
      | MFunc _ _ _ =>
          if cid_eqb h (CB B_object) || cid_eqb h (CB B_t_Callable) then true
          else instance_match tb (matchm tb) (inst0 (bt_function_type (t_b tb))) t
      | _ => instance_match tb (matchm tb) m t
      end
  | TTuple _ =>
      match m with
      | MFunc _ _ _ => instance_match tb (matchm tb) (inst0 (bt_function_type (t_b tb))) t
      | _ => instance_match tb (matchm tb) m t
      end
  | TCallable args ret =>
      match m with
      | MClass k => matchm tb ret (inst0 k)
      | MFunc mand opt star => func_match mand opt star (length args)
      | _ => instance_match tb (matchm tb) m t
      end
  | TCallableAny ret =>
      match m with
      | MClass k => matchm tb ret (inst0 k)
      | MFunc _ _ _ => true
      | _ => instance_match tb (matchm tb) m t
      end
  end.

(* compute_one_match: success iff no view is bad (match_all_views) / iff some view is good *)
Definition matches_all (tb : table) (a : aval) (t : ty) : bool := forallb (matchm tb t) (views a).
Definition matches_any (tb : table) (a : aval) (t : ty) : bool := existsb (matchm tb t) (views a).
Definition matches := matches_all.

(* the three enforcement sites: is an error logged? *)
Definition err_ret (tb : table) (v : value) (t : ty) : bool := negb (matches_all tb (abs v) t).
Definition err_arg (tb : table) (v : value) (t : ty) : bool := negb (matches_any tb (abs v) t).
Definition is_none (v : value) : bool := match v with VScalar SNone => true | _ => false end.
Definition err_assign (tb : table) (v : value) (t : ty) : bool :=
  negb (is_none v) && negb (matches_all tb (abs v) t).

(* ------------------------------------------------------------------------------------------------ *)
(* ORACLE: membership of the run-time value in the annotated type, PEP 484 as the property names it.
   Independent of the stubs: run-time facts about the builtin classes are written out here (rt_reach), user
   classes are nominal through their MRO, protocols are structural (attribute presence).
   The [devs] switches turn on, one by one, the places where the matcher deliberately or accidentally departs
   from membership; [inhabits] is the function with every switch off. *)

Record devs := {
  d_noniter_str : bool;       (* str is rejected for Sequence/Iterable/Collection/Container[str] *)
  d_none_bool : bool;         (* None is accepted for bool (compat pair (NoneType, bool)) *)
  d_bytearray_bytes : bool;   (* bytearray is accepted for bytes (compat pair) *)
  d_tuplecall_len : bool;     (* a tuple not written as a display is matched against Tuple[X1..Xn] without its length *)
  d_class_callable_args : bool; (* a class object is matched against Callable[[..], R] by R only *)
  d_classobj_own_attrs : bool   (* a class object satisfies a protocol only through attributes it defines itself *)
}.

Definition pep484 : devs := {| d_noniter_str := false; d_none_bool := false; d_bytearray_bytes := false;
  d_tuplecall_len := false; d_class_callable_args := false; d_classobj_own_attrs := false |}.
Definition pytype_devs : devs := {| d_noniter_str := true; d_none_bool := true; d_bytearray_bytes := true;
  d_tuplecall_len := true; d_class_callable_args := true; d_classobj_own_attrs := true |}.

(* run-time class of a value, as a class id *)
Definition vclass (v : value) : cid :=
  match v with
  | VScalar s => CB (scalar_cls s)
  | VColl k _ => CB (ckind_cls k)
  | VTuple _ => CB B_tuple
  | VDict _ _ => CB B_dict
  | VInst c => CU c
  | VClass _ => CB B_type
  | VFunc _ _ _ => CB B_t_Callable
  end.

(* elements held in "parameter i" of a container value *)
Definition vparam (v : value) (i : nat) : list value :=
  match v, i with
  | VColl _ vs, 0 => vs
  | VTuple vs, 0 => vs
  | VDict ks _, 0 => ks
  | VDict _ vs, 1 => vs
  | _, _ => []
  end.

(* a representative instance of a class (for Type[C], class objects as callables, and Sequence[str] of str) *)
Definition rep (c : cid) : option value :=
  match c with
  | CU n => Some (VInst n)
  | CB B_int => Some (VScalar SInt) | CB B_bool => Some (VScalar SBool) | CB B_float => Some (VScalar SFloat)
  | CB B_complex => Some (VScalar SComplex) | CB B_str => Some (VScalar SStr) | CB B_bytes => Some (VScalar SBytes)
  | CB B_bytearray => Some (VScalar SBytearray) | CB B_NoneType => Some (VScalar SNone)
  | CB B_list => Some (VColl KList []) | CB B_set => Some (VColl KSet []) | CB B_frozenset => Some (VColl KFrozenset [])
  | CB B_tuple => Some (VColl KTupleOf []) | CB B_dict => Some (VDict [] [])
  | _ => None
  end.

(* Run-time truth about the builtin classes: is an instance of builtin class c an instance of builtin class /
   ABC h (isinstance, plus the int -> float -> complex promotion of PEP 484), and if so, which of its own
   "parameters" hold the elements that h's parameters range over.  None = not an instance. *)
Definition rt_reach (c h : bname) : option (list parg) :=
  match h with
  | B_object => Some []
  | _ =>
  match c, h with
  | B_int, B_int | B_bool, B_bool | B_bool, B_int | B_float, B_float | B_complex, B_complex
  | B_str, B_str | B_bytes, B_bytes | B_bytearray, B_bytearray | B_NoneType, B_NoneType => Some []
  | B_int, B_float | B_bool, B_float | B_int, B_complex | B_bool, B_complex | B_float, B_complex => Some []
  | B_list, B_list | B_list, B_t_MutableSequence | B_list, B_t_Sequence | B_list, B_t_Iterable
  | B_list, B_t_Container => Some [PIdx 0]
  | B_tuple, B_tuple | B_tuple, B_t_Sequence | B_tuple, B_t_Iterable | B_tuple, B_t_Container => Some [PIdx 0]
  | B_set, B_set | B_set, B_t_MutableSet | B_set, B_t_AbstractSet | B_set, B_t_Iterable
  | B_set, B_t_Container => Some [PIdx 0]
  | B_frozenset, B_frozenset | B_frozenset, B_t_AbstractSet | B_frozenset, B_t_Iterable
  | B_frozenset, B_t_Container => Some [PIdx 0]
  | B_dict, B_dict | B_dict, B_t_Mapping => Some [PIdx 0; PIdx 1]
  | B_dict, B_t_Iterable | B_dict, B_t_Container => Some [PIdx 0]
  | B_str, B_t_Sequence | B_str, B_t_Iterable | B_str, B_t_Container => Some [PInst (CB B_str)]
  | B_bytes, B_t_Sequence | B_bytes, B_t_Iterable | B_bytes, B_t_Container => Some [PInst (CB B_int)]
  | B_bytearray, B_t_Sequence | B_bytearray, B_t_MutableSequence | B_bytearray, B_t_Iterable
  | B_bytearray, B_t_Container => Some [PInst (CB B_int)]
  | B_list, B_t_Sized | B_tuple, B_t_Sized | B_set, B_t_Sized | B_frozenset, B_t_Sized | B_dict, B_t_Sized
  | B_str, B_t_Sized | B_bytes, B_t_Sized | B_bytearray, B_t_Sized => Some []
  | B_type, B_type => Some [PIdx 0]
  | B_type, B_t_Callable => Some [PEmpty; PEmpty]
  | B_t_Callable, B_t_Callable => Some [PIdx 0; PIdx 1]
  | _, _ => None
  end
  end.

Definition reachF (d : devs) (c h : bname) : option (list parg) :=
  match c, h with
  | B_NoneType, B_bool => if d_none_bool d then Some [] else None
  | B_bytearray, B_bytes => if d_bytearray_bytes d then Some [] else None
  | _, _ => rt_reach c h
  end.

(* attributes of generated class c visible on its instances (Python attribute lookup through the MRO) *)
Definition uattrs (tb : table) (c : nat) : list nat :=
  flat_map (fun k => u_own (uinfo_of tb k)) (u_mro (uinfo_of tb c)).
Definition nsubset (l1 l2 : list nat) : bool := forallb (fun a => nmem a l2) l1.

(* number of positional arguments a class object accepts when called: generated classes define no __init__ *)
Definition class_arity_ok (c : cid) (n : nat) : bool :=
  match c with
  | CU _ => Nat.eqb n 0
  | CB B_int => n <=? 2
  | CB B_str => n <=? 3
  | CB B_list | CB B_set | CB B_frozenset | CB B_tuple | CB B_dict | CB B_float | CB B_bool | CB B_complex
  | CB B_bytes | CB B_bytearray => n <=? 1
  | _ => Nat.eqb n 0
  end.

(* instance-of for a generated formal class k *)
Definition user_member (d : devs) (tb : table) (v : value) (k : nat) : bool :=
  let structural (have : list nat) :=
    u_pbase (uinfo_of tb k) && nsubset (u_pattrs (uinfo_of tb k)) have in
  match v with
  | VInst c => nmem k (u_mro (uinfo_of tb c)) || structural (uattrs tb c)
  | VClass (CU c) => structural (if d_classobj_own_attrs d then u_own (uinfo_of tb c) else uattrs tb c)
  | _ => structural []
  end.

Definition lockstep (d : devs) (rec : ty -> value -> bool) (v : value) : list ty -> list parg -> bool :=
  fix go (args : list ty) (pm : list parg) : bool :=
    match args, pm with
    | a :: args', p :: pm' =>
        (match p with
         | PIdx i => forallb (rec a) (vparam v i)
         | PInst c => match rep c with Some r => rec a r | None => true end
         | PEmpty => true
         end) && go args' pm'
    | _, _ => true
    end.

Definition noniter_str_hit (d : devs) (v : value) (t : ty) : bool :=
  d_noniter_str d &&
  match v, t with
  | VScalar SStr, TCls (CB h) (TCls (CB B_str) _ :: _) =>
      bmem h [B_t_Sequence; B_t_Iterable; B_t_Collection; B_t_Container]
  | _, _ => false
  end.

Fixpoint inhabitsF (d : devs) (tb : table) (t : ty) (v : value) {struct t} : bool :=
  match t with
  | TAny => true
  | TUnion ts => existsb (fun o => inhabitsF d tb o v) ts
  | TTuple ts =>
      match v with
      | VTuple vs => forall2b (inhabitsF d tb) ts vs
      | VColl KTupleOf vs =>
          if d_tuplecall_len d then forallb (fun a => forallb (inhabitsF d tb a) vs) ts
          else forall2b (inhabitsF d tb) ts vs
      | _ => false
      end
  | TCallable args ret =>
      match v with
      | VFunc mand opt star => func_match mand opt star (length args)
      | VClass k =>
          (d_class_callable_args d || class_arity_ok k (length args)) &&
          match rep k with Some r => inhabitsF d tb ret r | None => false end
      | _ => false
      end
  | TCallableAny ret =>
      match v with
      | VFunc _ _ _ => true
      | VClass k => match rep k with Some r => inhabitsF d tb ret r | None => false end
      | _ => false
      end
  | TCls (CU k) _ => user_member d tb v k
  | TCls (CB h) args =>
      if bname_beq h B_object then true else
      match v with
      | VClass k =>
          if bname_beq h B_type then
            match args with
            | u :: _ => match rep k with Some r => inhabitsF d tb u r | None => false end
            | [] => true
            end
          else bname_beq h B_t_Callable
      | VFunc _ _ _ => bname_beq h B_t_Callable
      | VInst _ => false
      | _ =>
          if noniter_str_hit d v t then false
          else match vclass v with
               | CB c => match reachF d c h with
                         | Some pm => lockstep d (inhabitsF d tb) v args pm
                         | None => false
                         end
               | CU _ => false
               end
      end
  end.

Definition inhabits (tb : table) (v : value) (t : ty) : bool := inhabitsF pep484 tb t v.

(* ------------------------------------------------------------------------------------------------ *)
(* monomorphic slices of a value: the concrete counterpart of views *)

Definition coll_slices (mk : list value -> value) (ss : list value) : list value :=
  match ss with [] => [mk []] | _ => map (fun s => mk [s]) ss end.

Definition opt_slices (ss : list value) : list (list value) :=
  match ss with [] => [[]] | _ => map (fun s => [s]) ss end.

Fixpoint slices (v : value) : list value :=
  match v with
  | VColl k vs => map (VColl k) (opt_slices (flat_map slices vs))
  | VTuple vs => map VTuple (list_prod (map slices vs))
  | VDict ks vs =>
      flat_map (fun k1 => map (fun v1 => VDict k1 v1) (opt_slices (flat_map slices vs)))
               (opt_slices (flat_map slices ks))
  | _ => [v]
  end.

(* the view of a slice *)
Fixpoint abs1 (v : value) : mono :=
  match v with
  | VScalar s => MInst (CB (scalar_cls s)) None None
  | VColl k vs => MInst (CB (ckind_cls k)) (match vs with [] => None | e :: _ => Some (abs1 e) end) None
  | VTuple vs => MTuple (map abs1 vs)
  | VDict ks vs => MInst (CB B_dict) (match ks with [] => None | e :: _ => Some (abs1 e) end)
                                     (match vs with [] => None | e :: _ => Some (abs1 e) end)
  | VInst c => MInst (CU c) None None
  | VClass c => MClass c
  | VFunc m o s => MFunc m o s
  end.

(* a value in which every non-display container holds at most one element *)
Fixpoint is_slice (v : value) : bool :=
  match v with
  | VColl _ vs => (length vs <=? 1) && forallb is_slice vs
  | VTuple vs => forallb is_slice vs
  | VDict ks vs => (length ks <=? 1) && (length vs <=? 1) && forallb is_slice ks && forallb is_slice vs
  | _ => true
  end.

(* ------------------------------------------------------------------------------------------------ *)
(* well-formedness: the fragment the theorems speak about *)

(* builtin formals of the fragment.  Excluded on purpose: Collection, MutableMapping, Hashable, Reversible,
   Iterator, Supports* -- for those a builtin value can reach _match_against_protocol with every attribute
   present, after which pytype matches method signatures with type variables. *)
Definition heads : list bname :=
  [B_int; B_float; B_complex; B_bool; B_str; B_bytes; B_bytearray; B_NoneType; B_object; B_list; B_tuple; B_set;
   B_frozenset; B_dict; B_type; B_t_Sequence; B_t_MutableSequence; B_t_Iterable; B_t_Container; B_t_Mapping;
   B_t_AbstractSet; B_t_MutableSet; B_t_Sized; B_t_Callable].

(* builtin classes values (and class objects, and functions) are instances of *)
Definition vclasses : list bname :=
  [B_int; B_float; B_complex; B_bool; B_str; B_bytes; B_bytearray; B_NoneType; B_list; B_tuple; B_set;
   B_frozenset; B_dict; B_type; B_t_Callable].

Definition head_arity (h : bname) : nat :=
  match h with
  | B_list | B_tuple | B_set | B_frozenset | B_type | B_t_Sequence | B_t_MutableSequence | B_t_Iterable
  | B_t_Container | B_t_AbstractSet | B_t_MutableSet => 1
  | B_dict | B_t_Mapping => 2
  | _ => 0
  end.

Fixpoint wf_ty (tb : table) (t : ty) : bool :=
  match t with
  | TAny => true
  | TUnion ts => forallb (wf_ty tb) ts
  | TCls (CB h) args =>
      bmem h heads && (match args with [] => true | _ => Nat.eqb (length args) (head_arity h) end) &&
      forallb (wf_ty tb) args
  | TCls (CU k) args => (k <? length (t_u tb)) && match args with [] => true | _ => false end
  | TTuple ts => forallb (wf_ty tb) ts
  | TCallable _ ret => wf_ty tb ret
  | TCallableAny ret => wf_ty tb ret
  end.

Fixpoint wf_val (tb : table) (v : value) : bool :=
  match v with
  | VColl _ vs => forallb (wf_val tb) vs
  | VTuple vs => forallb (wf_val tb) vs
  | VDict ks vs => forallb (wf_val tb) ks && forallb (wf_val tb) vs
  | VInst c => c <? length (t_u tb)
  | VClass (CU c) => c <? length (t_u tb)
  | VClass (CB b) => match rep (CB b) with Some _ => true | None => false end
  | _ => true
  end.

(* generated classes: MRO entries and attribute ids are in range is not needed; what is needed is that no
   generated class is a protocol class and a value class at once is not needed either.  The only requirement:
   every class id mentioned is in range (so that nth's default is never consulted). *)
Definition wf_utable (tb : table) : bool :=
  forallb (fun u => forallb (fun k => k <? length (t_u tb)) (u_mro u)) (t_u tb).

(* What the proofs need from the regenerated builtin table; checked by computation on every run. *)
Definition is_AB (a : attr) : bool := match a with AB _ => true | AU _ => false end.

Definition parg_eqb (p q : parg) : bool :=
  match p, q with
  | PIdx i, PIdx j => Nat.eqb i j
  | PInst c, PInst c' => cid_eqb c c'
  | PEmpty, PEmpty => true
  | _, _ => false
  end.

Definition opm_eqb (x y : option (list parg)) : bool :=
  match x, y with
  | None, None => true
  | Some l1, Some l2 => forall2b parg_eqb l1 l2
  | _, _ => false
  end.

Definition cset_eqb (l1 l2 : list cid) : bool :=
  forallb (fun c => cmem c l2) l1 && forallb (fun c => cmem c l1) l2.

Definition btable_ok (tb : table) : bool :=
  (* S1: through the MRO + compat pairs, value class c reaches head h exactly as at run time, save the two
     compat deviations *)
  forallb (fun c => forallb (fun h => opm_eqb (reach tb (CB c) (CB h)) (reachF pytype_devs c h)) heads) vclasses
  (* builtin MROs never mention generated classes *)
  && forallb (fun c => forallb (fun e => match fst e with CB _ => true | CU _ => false end) (mro tb (CB c))) vclasses
  (* S2: among the heads, is_protocol = has_protocol_base *)
  && forallb (fun h => Bool.eqb (is_protocol tb (CB h)) (has_protocol_base tb (CB h))) heads
  (* S3: a head no MRO entry matches is either not a protocol, or rejected by the Sequence/Mapping rule, or lacks
     an attribute *)
  && forallb (fun c => forallb (fun h =>
       match reach tb (CB c) (CB h) with
       | Some _ => true
       | None => negb (is_protocol tb (CB h))
                 || negb (protocol_match tb (inst0 (CB c)) (CB h))
       end) heads) vclasses
  (* S4: every protocol head requires a builtin attribute that object does not provide, and (unless a class
     object matches it outright) that type does not provide either *)
  && forallb (fun h => negb (is_protocol tb (CB h)) ||
       existsb (fun a => is_AB a && negb (amem a (attrs tb (CB B_object)))) (pattrs tb (CB h))) heads
  && forallb (fun h => negb (is_protocol tb (CB h)) || cmem (CB h) (bt_class_accept (t_b tb)) ||
       existsb (fun a => is_AB a && negb (amem a (attrs tb (CB B_type)))) (pattrs tb (CB h))) heads
  (* S5: builtin attribute lists only name builtin attributes *)
  && forallb (fun c => forallb is_AB (attrs tb (CB c))) (B_object :: vclasses)
  && forallb (fun h => Nat.eqb (arity tb (CB h)) (head_arity h) || bname_beq h B_t_Callable) heads
  (* S6: the special-cased name lists *)
  && cset_eqb (bt_noniter_abcs (t_b tb)) [CB B_t_Iterable; CB B_t_Sequence; CB B_t_Collection; CB B_t_Container]
  && cset_eqb (bt_str_types (t_b tb)) [CB B_str]
  && cset_eqb (bt_class_accept (t_b tb)) [CB B_type; CB B_object; CB B_t_Callable; CB B_t_Hashable]
  && cid_eqb (bt_function_type (t_b tb)) (CB B_t_Callable)
  (* S7: object's MRO is itself *)
  && (match mro tb (CB B_object) with [(CB B_object, [])] => true | _ => false end)
  (* S8: compat pairs relate builtin classes only, and object is compatible with nothing *)
  && forallb (fun p => match fst p, snd p with
                       | CB a, CB _ => negb (bname_beq a B_object)
                       | _, _ => false
                       end) (bt_compat (t_b tb)).

Definition table_ok (tb : table) : bool := btable_ok tb && wf_utable tb.

(* a union in which at most one option looks inside the value (so that matching slice by slice cannot pick
   different options for different slices) *)
Definition shallow (t : ty) : bool :=
  match t with
  | TAny => true
  | TCls _ [] => true
  | _ => false
  end.

Fixpoint union_simple (t : ty) : bool :=
  match t with
  | TAny => true
  | TUnion ts => (length (filter (fun o => negb (shallow o)) ts) <=? 1) && forallb union_simple ts
                 && forallb (fun o => match o with TUnion _ => false | _ => true end) ts
  | TCls _ args => forallb union_simple args
  | TTuple ts => forallb union_simple ts
  | TCallable _ ret => union_simple ret
  | TCallableAny ret => union_simple ret
  end.

Fixpoint tupleof_free (v : value) : bool :=
  match v with
  | VColl KTupleOf _ => false
  | VColl _ vs => forallb tupleof_free vs
  | VTuple vs => forallb tupleof_free vs
  | VDict ks vs => forallb tupleof_free ks && forallb tupleof_free vs
  | _ => true
  end.
