(* C02 proofs over Match/Model.v.
   Main results:
     views_abs             views (abs v) = map abs1 (slices v)
     matchm_slice          on a monomorphic slice the table-driven matcher equals membership-with-deviations
     matches_all_char      matches_all (abs v) t = forallb (inhabitsF pytype_devs t) (slices v)
     matches_any_char      matches_any (abs v) t = existsb ...
     exact_partial         matches (abs v) t = inhabits v t  when no deviation changes a slice verdict and
                           membership of v is decided slice-wise *)
From Coq Require Import List Arith Bool Lia.
From PV Require Import Match.Model.
Import ListNotations.

(* ------------------------------------------------------------------------------------------------ *)
(* induction principles for the nested inductives *)

Section TyInd.
  Variable P : ty -> Prop.
  Hypothesis HAny : P TAny.
  Hypothesis HUnion : forall ts, Forall P ts -> P (TUnion ts).
  Hypothesis HCls : forall c args, Forall P args -> P (TCls c args).
  Hypothesis HTuple : forall ts, Forall P ts -> P (TTuple ts).
  Hypothesis HCallable : forall args ret, P ret -> P (TCallable args ret).
  Hypothesis HCallableAny : forall ret, P ret -> P (TCallableAny ret).
  Fixpoint ty_ind' (t : ty) : P t :=
    match t with
    | TAny => HAny
    | TUnion ts => HUnion ts ((fix go (l : list ty) : Forall P l :=
                                match l with [] => Forall_nil P | x :: l' => Forall_cons x (ty_ind' x) (go l') end) ts)
    | TCls c args => HCls c args ((fix go (l : list ty) : Forall P l :=
                                match l with [] => Forall_nil P | x :: l' => Forall_cons x (ty_ind' x) (go l') end) args)
    | TTuple ts => HTuple ts ((fix go (l : list ty) : Forall P l :=
                                match l with [] => Forall_nil P | x :: l' => Forall_cons x (ty_ind' x) (go l') end) ts)
    | TCallable args ret => HCallable args ret (ty_ind' ret)
    | TCallableAny ret => HCallableAny ret (ty_ind' ret)
    end.
End TyInd.

Section ValInd.
  Variable P : value -> Prop.
  Hypothesis HScalar : forall s, P (VScalar s).
  Hypothesis HColl : forall k vs, Forall P vs -> P (VColl k vs).
  Hypothesis HTuple : forall vs, Forall P vs -> P (VTuple vs).
  Hypothesis HDict : forall ks vs, Forall P ks -> Forall P vs -> P (VDict ks vs).
  Hypothesis HInst : forall c, P (VInst c).
  Hypothesis HClass : forall c, P (VClass c).
  Hypothesis HFunc : forall m o s, P (VFunc m o s).
  Fixpoint value_ind' (v : value) : P v :=
    let go := fix go (l : list value) : Forall P l :=
      match l with [] => Forall_nil P | x :: l' => Forall_cons x (value_ind' x) (go l') end in
    match v with
    | VScalar s => HScalar s
    | VColl k vs => HColl k vs (go vs)
    | VTuple vs => HTuple vs (go vs)
    | VDict ks vs => HDict ks vs (go ks) (go vs)
    | VInst c => HInst c
    | VClass c => HClass c
    | VFunc m o s => HFunc m o s
    end.
End ValInd.

(* ------------------------------------------------------------------------------------------------ *)
(* generic list lemmas *)

Lemma flat_map_map {A B C} (f : B -> list C) (g : A -> B) l :
  flat_map f (map g l) = flat_map (fun x => f (g x)) l.
Proof. induction l; simpl; congruence. Qed.

Lemma flat_map_ext_Forall {A B} (f g : A -> list B) l :
  Forall (fun x => f x = g x) l -> flat_map f l = flat_map g l.
Proof. induction 1; simpl; congruence. Qed.

Lemma map_flat_map {A B C} (f : B -> C) (g : A -> list B) l :
  map f (flat_map g l) = flat_map (fun x => map f (g x)) l.
Proof. induction l; simpl; [reflexivity|]. rewrite map_app. congruence. Qed.

Lemma flat_map_singleton {A B} (f : A -> B) l : flat_map (fun x => [f x]) l = map f l.
Proof. induction l; simpl; congruence. Qed.

Lemma list_prod_map {A B} (f : A -> B) (ls : list (list A)) :
  list_prod (map (map f) ls) = map (map f) (list_prod ls).
Proof.
  induction ls as [|l ls IH]; simpl; [reflexivity|].
  rewrite flat_map_map, map_flat_map. apply flat_map_ext_Forall.
  apply Forall_forall. intros x _. rewrite IH, !map_map. reflexivity.
Qed.

Lemma map_ext_Forall {A B} (f g : A -> B) l : Forall (fun x => f x = g x) l -> map f l = map g l.
Proof. induction 1; simpl; congruence. Qed.

Lemma forallb_ext_Forall {A} (f g : A -> bool) l : Forall (fun x => f x = g x) l -> forallb f l = forallb g l.
Proof. induction 1; simpl; congruence. Qed.

Lemma existsb_ext_Forall {A} (f g : A -> bool) l : Forall (fun x => f x = g x) l -> existsb f l = existsb g l.
Proof. induction 1; simpl; congruence. Qed.

Lemma forallb_map {A B} (f : B -> bool) (g : A -> B) l : forallb f (map g l) = forallb (fun x => f (g x)) l.
Proof. induction l; simpl; congruence. Qed.

Lemma existsb_map {A B} (f : B -> bool) (g : A -> B) l : existsb f (map g l) = existsb (fun x => f (g x)) l.
Proof. induction l; simpl; congruence. Qed.

Lemma forallb_Forall {A} (f : A -> bool) l : forallb f l = true <-> Forall (fun x => f x = true) l.
Proof.
  induction l; simpl; split; intro H; auto.
  - apply andb_true_iff in H as [H1 H2]. constructor; [assumption|]. apply IHl; assumption.
  - inversion H; subst. apply andb_true_iff. split; [assumption|]. apply IHl; assumption.
Qed.

(* ------------------------------------------------------------------------------------------------ *)
(* views of abs = abs1 of slices *)

Lemma var_views_map_abs1 (ss : list value) :
  var_views (map abs1 ss) = map (fun o => option_map abs1 o) (match ss with [] => [None] | _ => map Some ss end).
Proof. destruct ss; simpl; [reflexivity|]. f_equal. rewrite !map_map. reflexivity. Qed.

Theorem views_abs : forall v, views (abs v) = map abs1 (slices v).
Proof.
  induction v using value_ind'; simpl; try reflexivity.
  - (* VColl *)
    rewrite flat_map_map.
    rewrite (flat_map_ext_Forall (fun x => views (abs x)) (fun x => map abs1 (slices x)) vs H).
    rewrite <- map_flat_map.
    unfold opt_slices. destruct (flat_map slices vs) as [|s0 ss]; simpl; [reflexivity|].
    f_equal. rewrite flat_map_singleton. rewrite !map_map. reflexivity.
  - (* VTuple *)
    rewrite map_map.
    rewrite (map_ext_Forall (fun x => views (abs x)) (fun x => map abs1 (slices x)) vs H).
    rewrite <- (map_map slices (map abs1)). rewrite list_prod_map. rewrite !map_map. reflexivity.
  - (* VDict *)
    rewrite !flat_map_map.
    rewrite (flat_map_ext_Forall (fun x => views (abs x)) (fun x => map abs1 (slices x)) ks H).
    rewrite (flat_map_ext_Forall (fun x => views (abs x)) (fun x => map abs1 (slices x)) vs H0).
    rewrite <- !map_flat_map.
    unfold opt_slices.
    destruct (flat_map slices ks) as [|k0 kk]; destruct (flat_map slices vs) as [|v0 vv]; simpl; try reflexivity.
    + f_equal. rewrite !map_map. reflexivity.
    + f_equal. rewrite !flat_map_map. simpl.
      rewrite map_flat_map. apply flat_map_ext_Forall. apply Forall_forall. intros; reflexivity.
    + f_equal.
      * f_equal. rewrite !map_map. reflexivity.
      * rewrite !flat_map_map. rewrite map_flat_map. apply flat_map_ext_Forall. apply Forall_forall.
        intros x _. simpl. f_equal. rewrite !map_map. reflexivity.
Qed.
