(* C02 proofs over Match/Model.v.
   Main results:
     views_abs             views (abs v) = map abs1 (slices v)
     matchm_slice          on a monomorphic slice the table-driven matcher equals membership-with-deviations
     matches_all_char      matches_all (abs v) t = forallb (inhabitsF pytype_devs t) (slices v)
     matches_any_char      matches_any (abs v) t = existsb ...
     exact_partial         matches (abs v) t = inhabits v t  when no deviation changes a slice verdict and
                           membership of v is decided slice-wise *)
From Coq Require Import List Arith Bool Lia.
From PV Require Import Match.Model.
Import ListNotations.

(* ------------------------------------------------------------------------------------------------ *)
(* induction principles for the nested inductives *)

Section TyInd.
  Variable P : ty -> Prop.
  Hypothesis HAny : P TAny.
  Hypothesis HUnion : forall ts, Forall P ts -> P (TUnion ts).
  Hypothesis HCls : forall c args, Forall P args -> P (TCls c args).
  Hypothesis HTuple : forall ts, Forall P ts -> P (TTuple ts).
  Hypothesis HCallable : forall args ret, P ret -> P (TCallable args ret).
  Hypothesis HCallableAny : forall ret, P ret -> P (TCallableAny ret).
  Fixpoint ty_ind' (t : ty) : P t :=
    match t with
    | TAny => HAny
    | TUnion ts => HUnion ts ((fix go (l : list ty) : Forall P l :=
                                match l with [] => Forall_nil P | x :: l' => Forall_cons x (ty_ind' x) (go l') end) ts)
    | TCls c args => HCls c args ((fix go (l : list ty) : Forall P l :=
                                match l with [] => Forall_nil P | x :: l' => Forall_cons x (ty_ind' x) (go l') end) args)
    | TTuple ts => HTuple ts ((fix go (l : list ty) : Forall P l :=
                                match l with [] => Forall_nil P | x :: l' => Forall_cons x (ty_ind' x) (go l') end) ts)
    | TCallable args ret => HCallable args ret (ty_ind' ret)
    | TCallableAny ret => HCallableAny ret (ty_ind' ret)
    end.
End TyInd.

Section ValInd.
  Variable P : value -> Prop.
  Hypothesis HScalar : forall s, P (VScalar s).
  Hypothesis HColl : forall k vs, Forall P vs -> P (VColl k vs).
  Hypothesis HTuple : forall vs, Forall P vs -> P (VTuple vs).
  Hypothesis HDict : forall ks vs, Forall P ks -> Forall P vs -> P (VDict ks vs).
  Hypothesis HInst : forall c, P (VInst c).
  Hypothesis HClass : forall c, P (VClass c).
  Hypothesis HFunc : forall m o s, P (VFunc m o s).
  Fixpoint value_ind' (v : value) : P v :=
    let go := fix go (l : list value) : Forall P l :=
      match l with [] => Forall_nil P | x :: l' => Forall_cons x (value_ind' x) (go l') end in
    match v with
    | VScalar s => HScalar s
    | VColl k vs => HColl k vs (go vs)
    | VTuple vs => HTuple vs (go vs)
    | VDict ks vs => HDict ks vs (go ks) (go vs)
    | VInst c => HInst c
    | VClass c => HClass c
    | VFunc m o s => HFunc m o s
    end.
End ValInd.

(* ------------------------------------------------------------------------------------------------ *)
(* generic list lemmas *)

Lemma flat_map_map {A B C} (f : B -> list C) (g : A -> B) l :
  flat_map f (map g l) = flat_map (fun x => f (g x)) l.
Proof. induction l; simpl; congruence. Qed.

Lemma flat_map_ext_Forall {A B} (f g : A -> list B) l :
  Forall (fun x => f x = g x) l -> flat_map f l = flat_map g l.
Proof. induction 1; simpl; congruence. Qed.

Lemma map_flat_map {A B C} (f : B -> C) (g : A -> list B) l :
  map f (flat_map g l) = flat_map (fun x => map f (g x)) l.
Proof. induction l; simpl; [reflexivity|]. rewrite map_app. congruence. Qed.

Lemma flat_map_singleton {A B} (f : A -> B) l : flat_map (fun x => [f x]) l = map f l.
Proof. induction l; simpl; congruence. Qed.

Lemma list_prod_map {A B} (f : A -> B) (ls : list (list A)) :
  list_prod (map (map f) ls) = map (map f) (list_prod ls).
Proof.
  induction ls as [|l ls IH]; simpl; [reflexivity|].
  rewrite flat_map_map, map_flat_map. apply flat_map_ext_Forall.
  apply Forall_forall. intros x _. rewrite IH, !map_map. reflexivity.
Qed.

Lemma map_ext_Forall {A B} (f g : A -> B) l : Forall (fun x => f x = g x) l -> map f l = map g l.
Proof. induction 1; simpl; congruence. Qed.

Lemma forallb_ext_Forall {A} (f g : A -> bool) l : Forall (fun x => f x = g x) l -> forallb f l = forallb g l.
Proof. induction 1; simpl; congruence. Qed.

Lemma existsb_ext_Forall {A} (f g : A -> bool) l : Forall (fun x => f x = g x) l -> existsb f l = existsb g l.
Proof. induction 1; simpl; congruence. Qed.

Lemma forallb_map {A B} (f : B -> bool) (g : A -> B) l : forallb f (map g l) = forallb (fun x => f (g x)) l.
Proof. induction l; simpl; congruence. Qed.

Lemma existsb_map {A B} (f : B -> bool) (g : A -> B) l : existsb f (map g l) = existsb (fun x => f (g x)) l.
Proof. induction l; simpl; congruence. Qed.

Lemma forallb_Forall {A} (f : A -> bool) l : forallb f l = true <-> Forall (fun x => f x = true) l.
Proof.
  induction l; simpl; split; intro H; auto.
  - apply andb_true_iff in H as [H1 H2]. constructor; [assumption|]. apply IHl; assumption.
  - inversion H; subst. apply andb_true_iff. split; [assumption|]. apply IHl; assumption.
Qed.

(* ------------------------------------------------------------------------------------------------ *)
(* views of abs = abs1 of slices *)

Definition hd_abs1 (l : list value) : option mono :=
  match l with [] => None | e :: _ => Some (abs1 e) end.

Lemma var_views_map_abs1 (ss : list value) :
  var_views (map abs1 ss) = map hd_abs1 (opt_slices ss).
Proof. destruct ss; simpl; [reflexivity|]. f_equal. rewrite !map_map. reflexivity. Qed.

Theorem views_abs : forall v, views (abs v) = map abs1 (slices v).
Proof.
  induction v using value_ind'; simpl; try reflexivity.
  - (* VColl *)
    rewrite flat_map_map.
    rewrite (flat_map_ext_Forall (fun x => views (abs x)) (fun x => map abs1 (slices x)) vs H).
    rewrite <- map_flat_map. rewrite var_views_map_abs1.
    rewrite flat_map_map. rewrite flat_map_singleton. rewrite map_map. reflexivity.
  - (* VTuple *)
    rewrite map_map.
    rewrite (map_ext_Forall (fun x => views (abs x)) (fun x => map abs1 (slices x)) vs H).
    rewrite <- (map_map slices (map abs1)). rewrite list_prod_map. rewrite !map_map. reflexivity.
  - (* VDict *)
    rewrite !flat_map_map.
    rewrite (flat_map_ext_Forall (fun x => views (abs x)) (fun x => map abs1 (slices x)) ks H).
    rewrite (flat_map_ext_Forall (fun x => views (abs x)) (fun x => map abs1 (slices x)) vs H0).
    rewrite <- !map_flat_map. rewrite !var_views_map_abs1.
    rewrite flat_map_map. rewrite map_flat_map.
    apply flat_map_ext_Forall. apply Forall_forall. intros k1 _.
    rewrite !map_map. reflexivity.
Qed.

(* ------------------------------------------------------------------------------------------------ *)
(* slices are slices, and stay well-formed *)

Lemma Forall_flat_map {A B} (Q : B -> Prop) (f : A -> list B) l :
  Forall (fun x => Forall Q (f x)) l -> Forall Q (flat_map f l).
Proof. induction 1; simpl; [constructor|]. apply Forall_app. split; assumption. Qed.

Lemma Forall_list_prod {A} (Q : A -> Prop) (ls : list (list A)) :
  Forall (Forall Q) ls -> Forall (Forall Q) (list_prod ls).
Proof.
  induction 1 as [|l ls Hl Hls IH]; simpl; [repeat constructor|].
  apply Forall_flat_map. apply Forall_forall. intros x Hx.
  apply Forall_forall. intros y Hy. apply in_map_iff in Hy as [z [<- Hz]].
  constructor.
  - rewrite Forall_forall in Hl. apply Hl; assumption.
  - rewrite Forall_forall in IH. apply IH; assumption.
Qed.

Lemma Forall_opt_slices (Q : value -> Prop) ss :
  Forall Q ss -> Forall (fun l => Forall Q l /\ length l <= 1) (opt_slices ss).
Proof.
  intros H. unfold opt_slices. destruct ss as [|s0 ss']; [repeat constructor|].
  apply Forall_forall. intros l Hl. apply in_map_iff in Hl as [s [<- Hs]].
  split; [|simpl; lia]. constructor; [|constructor]. rewrite Forall_forall in H. apply H; assumption.
Qed.

Lemma slices_good (Q : value -> bool)
  (QColl : forall k l, Q (VColl k l) = forallb Q l)
  (QTuple : forall l, Q (VTuple l) = forallb Q l)
  (QDict : forall l1 l2, Q (VDict l1 l2) = forallb Q l1 && forallb Q l2) :
  forall v, Q v = true -> Forall (fun s => Q s = true /\ is_slice s = true) (slices v).
Proof.
  induction v using value_ind'; simpl; intros Hq; try (repeat constructor; assumption).
  - rewrite QColl in Hq. apply forallb_Forall in Hq.
    assert (HS : Forall (fun s => Q s = true /\ is_slice s = true) (flat_map slices vs)).
    { apply Forall_flat_map. rewrite Forall_forall in *. intros x Hx. apply H; auto. }
    apply Forall_opt_slices in HS. apply Forall_forall. intros s Hs.
    apply in_map_iff in Hs as [l [<- Hl]]. rewrite Forall_forall in HS. destruct (HS l Hl) as [Hf Hlen].
    rewrite QColl. simpl. split.
    + apply forallb_Forall. eapply Forall_impl; [|exact Hf]. simpl. tauto.
    + apply andb_true_iff. split; [apply Nat.leb_le; assumption|].
      apply forallb_Forall. eapply Forall_impl; [|exact Hf]. simpl. tauto.
  - rewrite QTuple in Hq. apply forallb_Forall in Hq.
    assert (HS : Forall (Forall (fun s => Q s = true /\ is_slice s = true)) (map slices vs)).
    { apply Forall_forall. intros l Hl. apply in_map_iff in Hl as [x [<- Hx]].
      rewrite Forall_forall in H, Hq. apply H; auto. }
    apply Forall_list_prod in HS. apply Forall_forall. intros s Hs.
    apply in_map_iff in Hs as [l [<- Hl]]. rewrite Forall_forall in HS. specialize (HS l Hl).
    rewrite QTuple. simpl. split; apply forallb_Forall; eapply Forall_impl; try exact HS; simpl; tauto.
  - rewrite QDict in Hq. apply andb_true_iff in Hq as [Hq1 Hq2].
    apply forallb_Forall in Hq1, Hq2.
    assert (HS1 : Forall (fun s => Q s = true /\ is_slice s = true) (flat_map slices ks)).
    { apply Forall_flat_map. rewrite Forall_forall in *. intros x Hx. apply H; auto. }
    assert (HS2 : Forall (fun s => Q s = true /\ is_slice s = true) (flat_map slices vs)).
    { apply Forall_flat_map. rewrite Forall_forall in *. intros x Hx. apply H0; auto. }
    apply Forall_opt_slices in HS1, HS2.
    apply Forall_flat_map. apply Forall_forall. intros l1 Hl1.
    apply Forall_forall. intros s Hs. apply in_map_iff in Hs as [l2 [<- Hl2]].
    rewrite Forall_forall in HS1, HS2. destruct (HS1 l1 Hl1) as [Hf1 Hlen1]. destruct (HS2 l2 Hl2) as [Hf2 Hlen2].
    rewrite QDict. simpl. split.
    + apply andb_true_iff. split; apply forallb_Forall; [eapply Forall_impl; [|exact Hf1]|eapply Forall_impl; [|exact Hf2]]; simpl; tauto.
    + repeat (apply andb_true_iff; split); try (apply Nat.leb_le; assumption);
        apply forallb_Forall; [eapply Forall_impl; [|exact Hf1]|eapply Forall_impl; [|exact Hf2]]; simpl; tauto.
Qed.

Lemma slices_wf tb v : wf_val tb v = true ->
  Forall (fun s => wf_val tb s = true /\ is_slice s = true) (slices v).
Proof. apply (slices_good (wf_val tb)); reflexivity. Qed.

(* ------------------------------------------------------------------------------------------------ *)
(* decidable equalities *)

Lemma bname_of_idx_idx b : bname_of_idx (bname_idx b) = b.
Proof. destruct b; reflexivity. Qed.

Lemma battr_of_idx_idx a : battr_of_idx (battr_idx a) = a.
Proof. destruct a; reflexivity. Qed.

Lemma bname_beq_eq a b : bname_beq a b = true <-> a = b.
Proof.
  unfold bname_beq. split; intro H.
  - apply Nat.eqb_eq in H. rewrite <- (bname_of_idx_idx a), <- (bname_of_idx_idx b), H. reflexivity.
  - subst. apply Nat.eqb_refl.
Qed.

Lemma battr_beq_eq a b : battr_beq a b = true <-> a = b.
Proof.
  unfold battr_beq. split; intro H.
  - apply Nat.eqb_eq in H. rewrite <- (battr_of_idx_idx a), <- (battr_of_idx_idx b), H. reflexivity.
  - subst. apply Nat.eqb_refl.
Qed.

Lemma bname_beq_refl a : bname_beq a a = true.
Proof. apply bname_beq_eq; reflexivity. Qed.

Lemma cid_eqb_eq x y : cid_eqb x y = true <-> x = y.
Proof.
  destruct x, y; simpl; split; intro H; try discriminate; try congruence.
  - apply bname_beq_eq in H. congruence.
  - apply bname_beq_eq. congruence.
  - apply Nat.eqb_eq in H. congruence.
  - apply Nat.eqb_eq. congruence.
Qed.

Lemma cid_eqb_refl x : cid_eqb x x = true.
Proof. apply cid_eqb_eq; reflexivity. Qed.

Lemma cid_eqb_neq x y : x <> y -> cid_eqb x y = false.
Proof. intro H. destruct (cid_eqb x y) eqn:E; [apply cid_eqb_eq in E; contradiction | reflexivity]. Qed.

Lemma attr_eqb_eq x y : attr_eqb x y = true <-> x = y.
Proof.
  destruct x, y; simpl; split; intro H; try discriminate; try congruence.
  - apply battr_beq_eq in H. congruence.
  - apply battr_beq_eq. congruence.
  - apply Nat.eqb_eq in H. congruence.
  - apply Nat.eqb_eq. congruence.
Qed.

Lemma amem_In a l : amem a l = true <-> In a l.
Proof.
  unfold amem. rewrite existsb_exists. split.
  - intros [x [Hx He]]. apply attr_eqb_eq in He. subst. assumption.
  - intros H. exists a. split; [assumption | apply attr_eqb_eq; reflexivity].
Qed.

Lemma cmem_In c l : cmem c l = true <-> In c l.
Proof.
  unfold cmem. rewrite existsb_exists. split.
  - intros [x [Hx He]]. apply cid_eqb_eq in He. subst. assumption.
  - intros H. exists c. split; [assumption | apply cid_eqb_eq; reflexivity].
Qed.

Lemma nmem_In n l : nmem n l = true <-> In n l.
Proof.
  unfold nmem. rewrite existsb_exists. split.
  - intros [x [Hx He]]. apply Nat.eqb_eq in He. subst. assumption.
  - intros H. exists n. split; [assumption | apply Nat.eqb_refl].
Qed.

Lemma bmem_In b l : bmem b l = true <-> In b l.
Proof.
  unfold bmem. rewrite existsb_exists. split.
  - intros [x [Hx He]]. apply bname_beq_eq in He. subst. assumption.
  - intros H. exists b. split; [assumption | apply bname_beq_refl].
Qed.

Lemma parg_eqb_eq p q : parg_eqb p q = true -> p = q.
Proof.
  destruct p, q; simpl; intro H; try discriminate; try reflexivity.
  - apply Nat.eqb_eq in H. congruence.
  - apply cid_eqb_eq in H. congruence.
Qed.

Lemma forall2b_parg_eq l1 : forall l2, forall2b parg_eqb l1 l2 = true -> l1 = l2.
Proof.
  induction l1 as [|x l1 IH]; destruct l2 as [|y l2]; simpl; intro H; try discriminate; [reflexivity|].
  apply andb_true_iff in H as [H1 H2]. apply parg_eqb_eq in H1. apply IH in H2. congruence.
Qed.

Lemma opm_eqb_eq x y : opm_eqb x y = true -> x = y.
Proof.
  destruct x, y; simpl; intro H; try discriminate; [|reflexivity].
  apply forall2b_parg_eq in H. congruence.
Qed.

Lemma cset_eqb_cmem l1 l2 : cset_eqb l1 l2 = true -> forall c, cmem c l1 = cmem c l2.
Proof.
  unfold cset_eqb. intros H c. apply andb_true_iff in H as [H1 H2].
  rewrite forallb_forall in H1, H2.
  destruct (cmem c l1) eqn:E1; destruct (cmem c l2) eqn:E2; try reflexivity.
  - apply cmem_In in E1. apply H1 in E1. congruence.
  - apply cmem_In in E2. apply H2 in E2. congruence.
Qed.

(* ------------------------------------------------------------------------------------------------ *)
(* what table_ok provides *)

Record tok (tb : table) : Prop := {
  tok_reach : forall c h, In c vclasses -> In h heads -> reach tb (CB c) (CB h) = reachF pytype_devs c h;
  tok_mro_cb : forall c, In c vclasses -> forall e, In e (mro tb (CB c)) -> exists b, fst e = CB b;
  tok_proto_base : forall h, In h heads -> is_protocol tb (CB h) = has_protocol_base tb (CB h);
  tok_fallback : forall c h, In c vclasses -> In h heads -> reach tb (CB c) (CB h) = None ->
                 is_protocol tb (CB h) = true -> protocol_match tb (inst0 (CB c)) (CB h) = false;
  tok_attr_obj : forall h, In h heads -> is_protocol tb (CB h) = true ->
                 exists a, In (AB a) (pattrs tb (CB h)) /\ amem (AB a) (attrs tb (CB B_object)) = false;
  tok_attr_type : forall h, In h heads -> is_protocol tb (CB h) = true ->
                 cmem (CB h) (bt_class_accept (t_b tb)) = false ->
                 exists a, In (AB a) (pattrs tb (CB h)) /\ amem (AB a) (attrs tb (CB B_type)) = false;
  tok_ab : forall c, In c (B_object :: vclasses) -> forall a, In a (attrs tb (CB c)) -> is_AB a = true;
  tok_noniter : forall c, cmem c (bt_noniter_abcs (t_b tb)) =
                          cmem c [CB B_t_Iterable; CB B_t_Sequence; CB B_t_Collection; CB B_t_Container];
  tok_str : forall c, cmem c (bt_str_types (t_b tb)) = cmem c [CB B_str];
  tok_accept : forall c, cmem c (bt_class_accept (t_b tb)) =
                         cmem c [CB B_type; CB B_object; CB B_t_Callable; CB B_t_Hashable];
  tok_ft : bt_function_type (t_b tb) = CB B_t_Callable;
  tok_obj : mro tb (CB B_object) = [(CB B_object, [])];
  tok_compat : forall x y, compat tb x y = true -> exists a b, x = CB a /\ y = CB b /\ a <> B_object;
  tok_u : forall c k, In k (u_mro (uinfo_of tb c)) -> True
}.

Lemma existsb_AB_exists (f : attr -> bool) l :
  existsb (fun a => is_AB a && f a) l = true -> exists a, In (AB a) l /\ f (AB a) = true.
Proof.
  intro H. apply existsb_exists in H as [x [Hx Hf]]. apply andb_true_iff in Hf as [Hab Hf].
  destruct x as [a|n]; [|discriminate]. exists a. auto.
Qed.

Lemma table_ok_tok tb : table_ok tb = true -> tok tb.
Proof.
  unfold table_ok, btable_ok. intro H.
  repeat rewrite andb_true_iff in H.
  destruct H as [[[[[[[[[[[[[[H1 H2] H3] H4] H5] H6] H7] H8] H9] H10] H11] H12] H13] H14] Hu].
  constructor.
  - intros c h Hc Hh. rewrite forallb_forall in H1. specialize (H1 c Hc).
    rewrite forallb_forall in H1. apply opm_eqb_eq. apply H1; assumption.
  - intros c Hc e He. rewrite forallb_forall in H2. specialize (H2 c Hc).
    rewrite forallb_forall in H2. specialize (H2 e He). destruct (fst e); [eauto|discriminate].
  - intros h Hh. rewrite forallb_forall in H3. specialize (H3 h Hh). apply eqb_prop in H3. assumption.
  - intros c h Hc Hh Hr Hp. rewrite forallb_forall in H4. specialize (H4 c Hc).
    rewrite forallb_forall in H4. specialize (H4 h Hh). rewrite Hr, Hp in H4. simpl in H4.
    apply negb_true_iff in H4. assumption.
  - intros h Hh Hp. rewrite forallb_forall in H5. specialize (H5 h Hh). rewrite Hp in H5. simpl in H5.
    apply existsb_AB_exists in H5 as [a [Ha Hf]]. exists a. split; [assumption|].
    apply negb_true_iff in Hf. assumption.
  - intros h Hh Hp Hacc. rewrite forallb_forall in H6. specialize (H6 h Hh). rewrite Hp, Hacc in H6. simpl in H6.
    apply existsb_AB_exists in H6 as [a [Ha Hf]]. exists a. split; [assumption|].
    apply negb_true_iff in Hf. assumption.
  - intros c Hc a Ha. rewrite forallb_forall in H7. specialize (H7 c Hc). rewrite forallb_forall in H7. auto.
  - apply cset_eqb_cmem; assumption.
  - apply cset_eqb_cmem; assumption.
  - apply cset_eqb_cmem; assumption.
  - apply cid_eqb_eq; assumption.
  - destruct (mro tb (CB B_object)) as [|[[[]|] [|]] [|]]; try discriminate. reflexivity.
  - intros x y Hxy. unfold compat in Hxy. apply existsb_exists in Hxy as [p [Hp Hq]].
    rewrite forallb_forall in H14. specialize (H14 p Hp).
    apply andb_true_iff in Hq as [Hq1 Hq2]. apply cid_eqb_eq in Hq1, Hq2. subst.
    destruct (fst p) as [a|]; [|discriminate]. destruct (snd p) as [b|]; [|discriminate].
    exists a, b. repeat split; try reflexivity. intro E. subst. simpl in H14. discriminate.
  - auto.
Qed.

(* ------------------------------------------------------------------------------------------------ *)
(* the class table seen from a generated class *)

Lemma instance_match_reach tb rec m t :
  instance_match tb rec m t =
  if negb (satisfies_noniterable_str tb (cls_of tb m) t) then false
  else match reach tb (cls_of tb m) (head t) with
       | Some pm => base_match rec m pm t
       | None => if is_protocol tb (head t) then protocol_match tb m (head t)
                 else has_protocol_base tb (head t)
       end.
Proof.
  unfold instance_match, reach. destruct (negb _); [reflexivity|].
  destruct (find_base tb (cls_of tb m) (head t)) as [[b pm]|]; reflexivity.
Qed.

Lemma compat_CU_l tb k h : tok tb -> compat tb (CU k) h = false.
Proof.
  intros T. destruct (compat tb (CU k) h) eqn:E; [|reflexivity].
  apply (tok_compat tb T) in E as [a [b [E1 _]]]. discriminate.
Qed.

Lemma compat_CU_r tb x k : tok tb -> compat tb x (CU k) = false.
Proof.
  intros T. destruct (compat tb x (CU k)) eqn:E; [|reflexivity].
  apply (tok_compat tb T) in E as [a [b [_ [E2 _]]]]. discriminate.
Qed.

Lemma compat_obj_l tb h : tok tb -> compat tb (CB B_object) h = false.
Proof.
  intros T. destruct (compat tb (CB B_object) h) eqn:E; [|reflexivity].
  apply (tok_compat tb T) in E as [a [b [E1 [_ N]]]]. congruence.
Qed.

Lemma reach_user tb c h : tok tb ->
  reach tb (CU c) h =
  match h with
  | CU p => if nmem p (u_mro (uinfo_of tb c)) then Some [] else None
  | CB b => if bname_beq b B_object then Some [] else None
  end.
Proof.
  intros T. unfold reach, find_base, mro.
  induction (u_mro (uinfo_of tb c)) as [|k l IH]; cbn [map app find fst snd].
  - rewrite (compat_obj_l tb h T), orb_false_r.
    destruct h as [b|p]; cbn [cid_eqb]; [|reflexivity].
    destruct (bname_beq b B_object) eqn:E.
    + apply bname_beq_eq in E. subst. rewrite bname_beq_refl. reflexivity.
    + destruct (bname_beq B_object b) eqn:E'; [|reflexivity].
      apply bname_beq_eq in E'. subst. rewrite bname_beq_refl in E. discriminate.
  - rewrite (compat_CU_l tb k h T), orb_false_r.
    destruct h as [b|p]; cbn [cid_eqb].
    + exact IH.
    + cbn [nmem existsb]. rewrite (Nat.eqb_sym p k). destruct (Nat.eqb k p); cbn [orb]; [reflexivity|]. exact IH.
Qed.

Lemma reach_builtin_user tb c p : tok tb -> In c vclasses -> reach tb (CB c) (CU p) = None.
Proof.
  intros T Hc. unfold reach, find_base.
  assert (H : forall e, In e (mro tb (CB c)) -> (cid_eqb (fst e) (CU p) || compat tb (fst e) (CU p)) = false).
  { intros e He. destruct (tok_mro_cb tb T c Hc e He) as [b Hb]. rewrite Hb. simpl.
    apply compat_CU_r; assumption. }
  induction (mro tb (CB c)) as [|e l IH]; simpl; [reflexivity|].
  rewrite (H e (or_introl eq_refl)). apply IH. intros e' He'. apply H. right; assumption.
Qed.

(* attributes *)
Lemma amem_app a l1 l2 : amem a (l1 ++ l2) = amem a l1 || amem a l2.
Proof. unfold amem. apply existsb_app. Qed.

Lemma amem_map_AU n l : amem (AU n) (map AU l) = nmem n l.
Proof. unfold amem, nmem. rewrite existsb_map. reflexivity. Qed.

Lemma amem_AB_map_AU a l : amem (AB a) (map AU l) = false.
Proof. unfold amem. rewrite existsb_map. simpl. induction l; simpl; auto. Qed.

Lemma amem_AU_allAB n l : (forall a, In a l -> is_AB a = true) -> amem (AU n) l = false.
Proof.
  intros H. destruct (amem (AU n) l) eqn:E; [|reflexivity].
  apply amem_In in E. apply H in E. discriminate.
Qed.

Definition implicit_iter (l : list attr) : list attr :=
  if amem (AB A_getitem) l then AB A_iter :: l else l.

Lemma amem_implicit_AU n l : amem (AU n) (implicit_iter l) = amem (AU n) l.
Proof. unfold implicit_iter. destruct (amem (AB A_getitem) l); reflexivity. Qed.

Lemma attrs_user tb c : tok tb ->
  attrs tb (CU c) = implicit_iter (map AU (uattrs tb c) ++ own_attrs tb (CB B_object)).
Proof.
  intros T. unfold attrs, mro, implicit_iter.
  rewrite flat_map_app. simpl. rewrite app_nil_r. rewrite flat_map_map. simpl.
  unfold uattrs. rewrite map_flat_map. reflexivity.
Qed.

Lemma attrs_object tb : tok tb -> attrs tb (CB B_object) = implicit_iter (own_attrs tb (CB B_object)).
Proof.
  intros T. unfold attrs. rewrite (tok_obj tb T). simpl. rewrite app_nil_r. reflexivity.
Qed.

Lemma amem_implicit a l :
  amem a (implicit_iter l) = (amem (AB A_getitem) l && attr_eqb a (AB A_iter)) || amem a l.
Proof.
  unfold implicit_iter. destruct (amem (AB A_getitem) l); cbn [andb orb]; [|reflexivity].
  unfold amem. cbn [existsb]. reflexivity.
Qed.

Lemma amem_AB_attrs_user tb c a : tok tb ->
  amem (AB a) (attrs tb (CU c)) = amem (AB a) (attrs tb (CB B_object)).
Proof.
  intros T. rewrite attrs_user, attrs_object by assumption.
  rewrite !amem_implicit, !amem_app, !amem_AB_map_AU. reflexivity.
Qed.

Lemma amem_AU_attrs_user tb c n : tok tb -> amem (AU n) (attrs tb (CU c)) = nmem n (uattrs tb c).
Proof.
  intros T. rewrite attrs_user by assumption. rewrite amem_implicit_AU, amem_app, amem_map_AU.
  assert (H : amem (AU n) (own_attrs tb (CB B_object)) = false).
  { destruct (amem (AU n) (own_attrs tb (CB B_object))) eqn:E; [|reflexivity].
    assert (E' : amem (AU n) (attrs tb (CB B_object)) = true).
    { rewrite attrs_object by assumption. rewrite amem_implicit_AU. assumption. }
    apply amem_In in E'. apply (tok_ab tb T B_object (or_introl eq_refl)) in E'. discriminate. }
  rewrite H, orb_false_r. reflexivity.
Qed.

Lemma asubset_AU ps L :
  (forall n, amem (AU n) L = false) -> asubset (map AU ps) L = nsubset ps [].
Proof.
  intros H. unfold asubset, nsubset. rewrite forallb_map.
  apply forallb_ext_Forall. apply Forall_forall. intros n _. rewrite H. reflexivity.
Qed.

Lemma asubset_has_missing (P L : list attr) a : In a P -> amem a L = false -> asubset P L = false.
Proof.
  intros Hin Hm. unfold asubset. destruct (forallb (fun a0 => amem a0 L) P) eqn:E; [|reflexivity].
  rewrite forallb_forall in E. rewrite (E a Hin) in Hm. discriminate.
Qed.

Lemma nsubset_nil ps : nsubset ps [] = match ps with [] => true | _ => false end.
Proof. destruct ps; reflexivity. Qed.

(* the protocol fall-back for a formal that is a generated class *)
Definition structural (tb : table) (k : nat) (have : list nat) : bool :=
  u_pbase (uinfo_of tb k) && nsubset (u_pattrs (uinfo_of tb k)) have.

Lemma user_fallback tb m p have :
  (forall n, amem (AU n) (attrs_of tb m) = nmem n have) ->
  (if is_protocol tb (CU p) then protocol_match tb m (CU p) else has_protocol_base tb (CU p))
  = structural tb p have.
Proof.
  intros H. unfold is_protocol, has_protocol_base, protocol_match, structural. simpl.
  assert (S : asubset (map AU (u_pattrs (uinfo_of tb p))) (attrs_of tb m)
              = nsubset (u_pattrs (uinfo_of tb p)) have).
  { unfold asubset, nsubset. rewrite forallb_map. apply forallb_ext_Forall. apply Forall_forall.
    intros n _. apply H. }
  unfold pattrs. rewrite S.
  destruct (u_pbase (uinfo_of tb p)); simpl; [|reflexivity].
  destruct (u_pattrs (uinfo_of tb p)); reflexivity.
Qed.

(* ------------------------------------------------------------------------------------------------ *)
(* builtin-instance values *)

Definition bcls (s : value) : option bname :=
  match s with
  | VScalar sc => Some (scalar_cls sc)
  | VColl k _ => Some (ckind_cls k)
  | VTuple _ => Some B_tuple
  | VDict _ _ => Some B_dict
  | _ => None
  end.

Lemma bcls_vclasses s c : bcls s = Some c -> In c vclasses.
Proof.
  destruct s as [sc|k vs|vs|ks vs|n|k|m o st]; simpl; intro H; inversion H; subst; clear H.
  - destruct sc; simpl; tauto.
  - destruct k; simpl; tauto.
  - simpl; tauto.
  - simpl; tauto.
Qed.

Lemma bcls_cls_of tb s c : bcls s = Some c -> cls_of tb (abs1 s) = CB c /\ vclass s = CB c.
Proof. destruct s; simpl; intro H; inversion H; subst; auto. Qed.

Lemma bcls_attrs_of tb s c : bcls s = Some c -> attrs_of tb (abs1 s) = attrs tb (CB c).
Proof. destruct s; simpl; intro H; inversion H; subst; auto. Qed.

Definition all_bnames : list bname :=
  [B_int; B_float; B_complex; B_bool; B_str; B_bytes; B_bytearray; B_memoryview; B_NoneType; B_object;
   B_list; B_tuple; B_set; B_frozenset; B_dict; B_type;
   B_t_Sequence; B_t_MutableSequence; B_t_Iterable; B_t_Collection; B_t_Container; B_t_Mapping;
   B_t_MutableMapping; B_t_AbstractSet; B_t_MutableSet; B_t_Sized; B_t_Callable; B_t_Hashable;
   B_t_Reversible; B_t_Iterator; B_t_Generic; B_t_Protocol; B_t_List; B_t_Dict; B_t_Set; B_t_FrozenSet;
   B_t_Tuple; B_t_Type; B_t_SupportsInt; B_t_SupportsFloat; B_t_SupportsAbs; B_t_SupportsComplex;
   B_t_SupportsIndex; B_t_SupportsRound; B_t_SupportsBytes].

Lemma all_bnames_complete b : In b all_bnames.
Proof. destruct b; simpl; tauto. Qed.

(* every constant-instance parameter of the run-time table is str or int *)
Definition pgood (p : parg) : bool :=
  match p with
  | PInst (CB B_str) | PInst (CB B_int) => true
  | PInst _ => false
  | _ => true
  end.

Lemma reachF_pgood_all :
  forallb (fun c => forallb (fun h => match reachF pytype_devs c h with
                                      | Some pm => forallb pgood pm
                                      | None => true
                                      end) all_bnames) all_bnames = true.
Proof. vm_compute. reflexivity. Qed.

Lemma reachF_pgood c h pm : reachF pytype_devs c h = Some pm -> forallb pgood pm = true.
Proof.
  intro H. pose proof reachF_pgood_all as A. rewrite forallb_forall in A.
  specialize (A c (all_bnames_complete c)). rewrite forallb_forall in A.
  specialize (A h (all_bnames_complete h)). rewrite H in A. exact A.
Qed.

(* a tuple reaches a parameterised head through its single parameter *)
Lemma reachF_tuple_all :
  forallb (fun h => match reachF pytype_devs B_tuple h with
                    | Some pm => Nat.eqb (head_arity h) 0 || (Nat.eqb (head_arity h) 1 &&
                                 match pm with [PIdx 0] => true | _ => false end)
                    | None => true
                    end) all_bnames = true.
Proof. vm_compute. reflexivity. Qed.

Lemma reachF_tuple h pm : reachF pytype_devs B_tuple h = Some pm ->
  head_arity h = 0 \/ (head_arity h = 1 /\ pm = [PIdx 0]).
Proof.
  intro H. pose proof reachF_tuple_all as A. rewrite forallb_forall in A.
  specialize (A h (all_bnames_complete h)). rewrite H in A.
  apply orb_true_iff in A as [A|A].
  - left. apply Nat.eqb_eq; assumption.
  - right. apply andb_true_iff in A as [A1 A2]. apply Nat.eqb_eq in A1. split; [assumption|].
    destruct pm as [|[[|[|i]]|k|] [|q pm']]; try discriminate. reflexivity.
Qed.

Section Slice.
  Variable tb : table.
  Hypothesis T : tok tb.
  Let rec := matchm tb.
  Let inh := inhabitsF pytype_devs tb.

  (* the induction hypothesis for one formal *)
  Definition agree (a : ty) : Prop :=
    forall s, is_slice s = true -> wf_val tb s = true -> rec a (abs1 s) = inh a s.

  Lemma rep_str_int k r : pgood (PInst k) = true -> rep k = Some r ->
    abs1 r = inst0 k /\ is_slice r = true /\ wf_val tb r = true.
  Proof.
    destruct k as [[]|]; simpl; try discriminate; intros _ H; inversion H; subst; simpl; auto.
  Qed.

  Lemma pgood_rep k : pgood (PInst k) = true -> exists r, rep k = Some r.
  Proof. destruct k as [[]|]; simpl; try discriminate; eauto. Qed.

  Lemma param_agree s a p :
    agree a -> is_slice s = true -> wf_val tb s = true -> pgood p = true ->
    (forall vs, s <> VTuple vs) ->
    match_var rec (resolve (abs1 s) p) a =
    match p with
    | PIdx i => forallb (inh a) (vparam s i)
    | PInst c => match rep c with Some r => inh a r | None => true end
    | PEmpty => true
    end.
  Proof.
    intros IH Hs Hw Hp Hnt. destruct p as [i|k|].
    - destruct s as [sc|k vs|vs|ks vs|n|k|m o st]; try (destruct i as [|[|i]]; reflexivity).
      + (* VColl *)
        simpl in Hs, Hw. apply andb_true_iff in Hs as [Hl Hs].
        destruct i as [|[|i]]; try reflexivity.
        destruct vs as [|e [|e' vs]]; simpl; try reflexivity.
        * simpl in Hs, Hw. apply andb_true_iff in Hs as [Hs _]. apply andb_true_iff in Hw as [Hw _].
          rewrite andb_true_r. apply IH; assumption.
        * simpl in Hl. discriminate.
      + exfalso. eapply Hnt; reflexivity.
      + (* VDict *)
        simpl in Hs, Hw. repeat (apply andb_true_iff in Hs as [Hs ?]).
        apply andb_true_iff in Hw as [Hw1 Hw2].
        destruct i as [|[|i]]; try reflexivity.
        * destruct ks as [|e [|e' ks]]; simpl; try reflexivity.
          -- simpl in *. rewrite andb_true_r.
             apply andb_true_iff in H0 as [H0 _]. apply andb_true_iff in Hw1 as [Hw1 _]. apply IH; assumption.
          -- simpl in Hs. discriminate.
        * destruct vs as [|e [|e' vs]]; simpl; try reflexivity.
          -- simpl in *. rewrite andb_true_r.
             apply andb_true_iff in H as [H _]. apply andb_true_iff in Hw2 as [Hw2 _]. apply IH; assumption.
          -- simpl in H1. discriminate.
    - destruct (pgood_rep k Hp) as [r Hr]. rewrite Hr.
      destruct (rep_str_int k r Hp Hr) as [E [Hs' Hw']].
      simpl. rewrite <- E. apply IH; assumption.
    - reflexivity.
  Qed.

  Lemma lockstep_agree s : is_slice s = true -> wf_val tb s = true -> (forall vs, s <> VTuple vs) ->
    forall args pm, Forall agree args -> forallb pgood pm = true ->
    match_params rec (abs1 s) args pm = lockstep pytype_devs inh s args pm.
  Proof.
    intros Hs Hw Hnt args. induction args as [|a args IH]; intros pm HF Hp; [destruct pm; reflexivity|].
    destruct pm as [|p pm]; [reflexivity|].
    inversion HF; subst. simpl in Hp. apply andb_true_iff in Hp as [Hp1 Hp2].
    cbn [match_params lockstep].
    change (match_var rec (resolve (abs1 s) p) a && match_params rec (abs1 s) args pm =
            match p with
            | PIdx i => forallb (inh a) (vparam s i)
            | PInst c => match rep c with Some r => inh a r | None => true end
            | PEmpty => true
            end && lockstep pytype_devs inh s args pm).
    rewrite (param_agree s a p) by assumption. rewrite IH by assumption. reflexivity.
  Qed.
End Slice.

(* ------------------------------------------------------------------------------------------------ *)
(* the matcher on a slice = membership with pytype's deviations *)

Lemma noniter_lists_eq hb :
  cmem (CB hb) [CB B_t_Iterable; CB B_t_Sequence; CB B_t_Collection; CB B_t_Container]
  = bmem hb [B_t_Sequence; B_t_Iterable; B_t_Collection; B_t_Container].
Proof. destruct hb; reflexivity. Qed.

Lemma cmem_str c : cmem (CB c) [CB B_str] = bname_beq c B_str.
Proof. unfold cmem. simpl. apply orb_false_r. Qed.

Section Main.
  Variable tb : table.
  Hypothesis T : tok tb.
  Let rec := matchm tb.
  Let inh := inhabitsF pytype_devs tb.

  Lemma sat_noniter s c hb args : bcls s = Some c ->
    satisfies_noniterable_str tb (CB c) (TCls (CB hb) args)
    = negb (noniter_str_hit pytype_devs s (TCls (CB hb) args)).
  Proof.
    intro Hb. unfold satisfies_noniterable_str, noniter_str_hit.
    cbn [head d_noniter_str pytype_devs andb].
    rewrite (tok_noniter tb T), (tok_str tb T), noniter_lists_eq, cmem_str.
    destruct (bname_beq c B_str) eqn:Ec.
    - apply bname_beq_eq in Ec. subst c.
      assert (s = VScalar SStr).
      { destruct s as [sc|k vs|vs|ks vs|n|k|m o st]; simpl in Hb; inversion Hb.
        - destruct sc; try discriminate; reflexivity.
        - destruct k; discriminate. }
      subst s. rewrite andb_true_r.
      destruct (bmem hb [B_t_Sequence; B_t_Iterable; B_t_Collection; B_t_Container]); [|destruct args as [|[] ?]; try reflexivity; destruct c as [[]|]; reflexivity].
      destruct args as [|a args]; [reflexivity|].
      destruct a as [|ts|[b|n] l|ts|l r|r]; cbn [first_arg_cls]; rewrite ?(tok_str tb T); try reflexivity.
      + rewrite cmem_str. destruct b; reflexivity.
    - rewrite andb_false_r.
      destruct s as [sc|k vs|vs|ks vs|n|k|m o st]; try reflexivity.
      destruct sc; try reflexivity. simpl in Hb. inversion Hb; subst. simpl in Ec. discriminate.
  Qed.

  Lemma inh_cls_binst s c hb args : bcls s = Some c ->
    inh (TCls (CB hb) args) s =
    if bname_beq hb B_object then true
    else if noniter_str_hit pytype_devs s (TCls (CB hb) args) then false
    else match reachF pytype_devs c hb with
         | Some pm => lockstep pytype_devs inh s args pm
         | None => false
         end.
  Proof.
    intro Hb. unfold inh. cbn [inhabitsF].
    destruct (bname_beq hb B_object); [reflexivity|].
    destruct s; simpl in Hb; inversion Hb; subst; reflexivity.
  Qed.

  Lemma none_case_binst m c hb :
    In c vclasses -> In hb heads -> cls_of tb m = CB c -> attrs_of tb m = attrs tb (CB c) ->
    reach tb (CB c) (CB hb) = None ->
    (if is_protocol tb (CB hb) then protocol_match tb m (CB hb) else has_protocol_base tb (CB hb)) = false.
  Proof.
    intros Hc Hh Ecls Eattrs Hr.
    destruct (is_protocol tb (CB hb)) eqn:Ep.
    - pose proof (tok_fallback tb T c hb Hc Hh Hr Ep) as F.
      unfold protocol_match in *. rewrite Ecls, Eattrs. simpl in F. exact F.
    - rewrite <- (tok_proto_base tb T hb Hh). assumption.
  Qed.

  Lemma base_match_inst c o1 o2 pm h args :
    base_match rec (MInst c o1 o2) pm (TCls h args) = match_params rec (MInst c o1 o2) args pm.
  Proof. reflexivity. Qed.

  Lemma abs1_binst_shape s c : bcls s = Some c ->
    (exists vs, s = VTuple vs) \/ (exists o1 o2, abs1 s = MInst (CB c) o1 o2 /\ forall vs, s <> VTuple vs).
  Proof.
    destruct s; simpl; intro H; inversion H; subst; try (right; eexists; eexists; split; [reflexivity|intros; discriminate]).
    left. eauto.
  Qed.

  Lemma wf_args_len (hb : bname) (args : list ty) :
    (match args with [] => true | _ => Nat.eqb (length args) (head_arity hb) end) = true ->
    args = [] \/ length args = head_arity hb.
  Proof. destruct args; [auto|]. intro H. right. apply Nat.eqb_eq; assumption. Qed.

  Lemma cls_binst s c hb args :
    bcls s = Some c -> In hb heads ->
    (args = [] \/ length args = head_arity hb) ->
    Forall (agree tb) args -> is_slice s = true -> wf_val tb s = true ->
    rec (TCls (CB hb) args) (abs1 s) = inh (TCls (CB hb) args) s.
  Proof.
    intros Hb Hh Hlen HF Hs Hw.
    pose proof (bcls_vclasses s c Hb) as Hc.
    destruct (bcls_cls_of tb s c Hb) as [Ecls Evc].
    assert (L : rec (TCls (CB hb) args) (abs1 s) = instance_match tb rec (abs1 s) (TCls (CB hb) args)).
    { destruct s; simpl in Hb; inversion Hb; reflexivity. }
    rewrite L, instance_match_reach, Ecls. cbn [head].
    rewrite (sat_noniter s c hb args Hb), negb_involutive.
    rewrite (tok_reach tb T c hb Hc Hh).
    rewrite (inh_cls_binst s c hb args Hb).
    assert (Hobj : bname_beq hb B_object = true -> noniter_str_hit pytype_devs s (TCls (CB hb) args) = false
                   /\ reachF pytype_devs c hb = Some [] /\ args = []).
    { intro E. apply bname_beq_eq in E. subst hb. repeat split.
      - unfold noniter_str_hit. destruct s as [[]| | | | | |]; try reflexivity. destruct args as [|[|?|[[]|] ?|?|? ?|?] ?]; reflexivity.
      - destruct c; reflexivity.
      - destruct Hlen as [E|E]; [assumption|]. simpl in E. destruct args; [reflexivity|discriminate]. }
    destruct (noniter_str_hit pytype_devs s (TCls (CB hb) args)) eqn:Ehit.
    { destruct (bname_beq hb B_object) eqn:Eo; [|reflexivity].
      destruct (Hobj eq_refl) as [X _]. discriminate. }
    destruct (reachF pytype_devs c hb) as [pm|] eqn:Er.
    - pose proof (reachF_pgood c hb pm Er) as Hpg.
      assert (G : base_match rec (abs1 s) pm (TCls (CB hb) args) = lockstep pytype_devs inh s args pm).
      { destruct (abs1_binst_shape s c Hb) as [[vs E]|[o1 [o2 [E Hnt]]]].
        - subst s. simpl in Hb. inversion Hb; subst c. cbn [abs1].
          destruct args as [|a rest]; [destruct pm; reflexivity|].
          destruct (reachF_tuple hb pm Er) as [A0|[A1 Epm]].
          + destruct Hlen as [E|E]; [discriminate|]. rewrite A0 in E. discriminate.
          + destruct Hlen as [E|E]; [discriminate|]. rewrite A1 in E. destruct rest; [|discriminate].
            subst pm. cbn [base_match lockstep vparam]. rewrite andb_true_r, forallb_map.
            inversion HF; subst. simpl in Hs, Hw.
            apply forallb_ext_Forall. apply Forall_forall. intros e He.
            rewrite forallb_forall in Hs, Hw. apply H1; auto.
        - rewrite E, base_match_inst, <- E. apply lockstep_agree; assumption. }
      rewrite G. destruct (bname_beq hb B_object) eqn:Eo; [|reflexivity].
      destruct (Hobj eq_refl) as [_ [E1 E2]]. inversion E1; subst. reflexivity.
    - rewrite (none_case_binst (abs1 s) c hb Hc Hh Ecls (bcls_attrs_of tb s c Hb)).
      + destruct (bname_beq hb B_object) eqn:Eo; [|reflexivity].
        destruct (Hobj eq_refl) as [_ [E1 _]]. discriminate.
      + rewrite (tok_reach tb T c hb Hc Hh). assumption.
  Qed.
End Main.

(* computed facts about the run-time table *)
Lemma reachF_type_all :
  forallb (fun h => match reachF pytype_devs B_type h with
                    | Some _ => bname_beq h B_object || bname_beq h B_type || bname_beq h B_t_Callable
                    | None => true end) all_bnames = true.
Proof. vm_compute. reflexivity. Qed.

Lemma reachF_callable_all :
  forallb (fun h => match reachF pytype_devs B_t_Callable h with
                    | Some _ => bname_beq h B_object || bname_beq h B_t_Callable
                    | None => true end) all_bnames = true.
Proof. vm_compute. reflexivity. Qed.

Lemma reachF_to_tuple_all :
  forallb (fun c => match reachF pytype_devs c B_tuple with
                    | Some pm => bname_beq c B_tuple && match pm with [PIdx 0] => true | _ => false end
                    | None => true end) all_bnames = true.
Proof. vm_compute. reflexivity. Qed.

Lemma reachF_to_callable_all :
  forallb (fun c => match reachF pytype_devs c B_t_Callable with
                    | Some _ => bname_beq c B_type || bname_beq c B_t_Callable
                    | None => true end) all_bnames = true.
Proof. vm_compute. reflexivity. Qed.

Lemma reachF_type hb : bname_beq hb B_object = false -> bname_beq hb B_type = false ->
  bname_beq hb B_t_Callable = false -> reachF pytype_devs B_type hb = None.
Proof.
  intros E1 E2 E3. pose proof reachF_type_all as A. rewrite forallb_forall in A.
  specialize (A hb (all_bnames_complete hb)). destruct (reachF pytype_devs B_type hb); [|reflexivity].
  rewrite E1, E2, E3 in A. discriminate.
Qed.

Lemma reachF_callable hb : bname_beq hb B_object = false -> bname_beq hb B_t_Callable = false ->
  reachF pytype_devs B_t_Callable hb = None.
Proof.
  intros E1 E3. pose proof reachF_callable_all as A. rewrite forallb_forall in A.
  specialize (A hb (all_bnames_complete hb)). destruct (reachF pytype_devs B_t_Callable hb); [|reflexivity].
  rewrite E1, E3 in A. discriminate.
Qed.

Lemma reachF_to_tuple c : bname_beq c B_tuple = false -> reachF pytype_devs c B_tuple = None.
Proof.
  intros E. pose proof reachF_to_tuple_all as A. rewrite forallb_forall in A.
  specialize (A c (all_bnames_complete c)). destruct (reachF pytype_devs c B_tuple); [|reflexivity].
  rewrite E in A. discriminate.
Qed.

Lemma reachF_to_callable c : bname_beq c B_type = false -> bname_beq c B_t_Callable = false ->
  reachF pytype_devs c B_t_Callable = None.
Proof.
  intros E1 E2. pose proof reachF_to_callable_all as A. rewrite forallb_forall in A.
  specialize (A c (all_bnames_complete c)). destruct (reachF pytype_devs c B_t_Callable); [|reflexivity].
  rewrite E1, E2 in A. discriminate.
Qed.

Lemma forall2b_agree {A B} (f : ty -> A -> bool) (g : ty -> B -> bool) (h : B -> A) ts :
  forall l, Forall (fun a => forall x, In x l -> f a (h x) = g a x) ts ->
  forall2b f ts (map h l) = forall2b g ts l.
Proof.
  induction ts as [|a ts IH]; intros l HF; destruct l as [|x l]; try reflexivity.
  inversion HF; subst. cbn [map forall2b]. f_equal.
  - apply H1. left; reflexivity.
  - apply IH. eapply Forall_impl; [|exact H2]. intros a' Ha x' Hx'. apply Ha. right; assumption.
Qed.

Section Main2.
  Variable tb : table.
  Hypothesis T : tok tb.
  Let rec := matchm tb.
  Let inh := inhabitsF pytype_devs tb.

  Lemma sat_nonstr c t : bname_beq c B_str = false -> satisfies_noniterable_str tb (CB c) t = true.
  Proof.
    intro E. unfold satisfies_noniterable_str. rewrite (tok_str tb T), cmem_str, E, andb_false_r. reflexivity.
  Qed.

  Lemma sat_user c t : satisfies_noniterable_str tb (CU c) t = true.
  Proof.
    unfold satisfies_noniterable_str. rewrite (tok_str tb T). cbn [cmem existsb cid_eqb orb].
    rewrite andb_false_r. reflexivity.
  Qed.

  Lemma sat_head t : cmem (head t) [CB B_t_Iterable; CB B_t_Sequence; CB B_t_Collection; CB B_t_Container] = false ->
    forall c, satisfies_noniterable_str tb c t = true.
  Proof. intros E c. unfold satisfies_noniterable_str. rewrite (tok_noniter tb T), E. reflexivity. Qed.

  Lemma inst_match_none m c hb t :
    head t = CB hb -> In c vclasses -> In hb heads -> cls_of tb m = CB c -> attrs_of tb m = attrs tb (CB c) ->
    reachF pytype_devs c hb = None -> instance_match tb rec m t = false.
  Proof.
    intros Hh Hc Hhb Ecls Eattrs Hr. rewrite instance_match_reach.
    destruct (negb (satisfies_noniterable_str tb (cls_of tb m) t)); [reflexivity|].
    rewrite Ecls, Hh, (tok_reach tb T c hb Hc Hhb), Hr.
    apply (none_case_binst tb T m c hb); try assumption.
    rewrite (tok_reach tb T c hb Hc Hhb). assumption.
  Qed.

  (* a formal that is a generated class, against a value that is not one of its instances/class objects *)
  Lemma inst_match_user m c p args have :
    In c vclasses -> cls_of tb m = CB c ->
    (forall n, amem (AU n) (attrs_of tb m) = nmem n have) ->
    instance_match tb rec m (TCls (CU p) args) = structural tb p have.
  Proof.
    intros Hc Ecls Hattrs. rewrite instance_match_reach.
    rewrite (sat_head (TCls (CU p) args) eq_refl). cbn [negb head].
    rewrite Ecls, (reach_builtin_user tb c p T Hc).
    apply user_fallback. assumption.
  Qed.

  Lemma AU_not_in_builtin c n : In c vclasses -> amem (AU n) (attrs tb (CB c)) = false.
  Proof. intro Hc. apply amem_AU_allAB. apply (tok_ab tb T c). right; assumption. Qed.

  (* ---------- builtin-instance values against the remaining formals ---------- *)
  Lemma matchm_binst s c t : bcls s = Some c ->
    match t with TAny | TUnion _ => False | _ => True end ->
    rec t (abs1 s) = instance_match tb rec (abs1 s) t.
  Proof. destruct s; simpl; intro H; inversion H; destruct t; simpl; tauto. Qed.

  Lemma cu_binst s c p args : bcls s = Some c -> rec (TCls (CU p) args) (abs1 s) = inh (TCls (CU p) args) s.
  Proof.
    intro Hb. rewrite (matchm_binst s c (TCls (CU p) args) Hb I).
    destruct (bcls_cls_of tb s c Hb) as [Ecls _].
    rewrite (inst_match_user (abs1 s) c p args [] (bcls_vclasses s c Hb) Ecls).
    - destruct s; simpl in Hb; inversion Hb; reflexivity.
    - intro n. rewrite (bcls_attrs_of tb s c Hb). apply AU_not_in_builtin. eapply bcls_vclasses; eassumption.
  Qed.

  Lemma tuple_in_heads : In B_tuple heads. Proof. simpl; tauto. Qed.
  Lemma callable_in_heads : In B_t_Callable heads. Proof. simpl; tauto. Qed.

  Lemma ttuple_binst s c ts : bcls s = Some c -> Forall (agree tb) ts ->
    is_slice s = true -> wf_val tb s = true ->
    rec (TTuple ts) (abs1 s) = inh (TTuple ts) s.
  Proof.
    intros Hb HF Hs Hw. rewrite (matchm_binst s c (TTuple ts) Hb I).
    pose proof (bcls_vclasses s c Hb) as Hc.
    destruct (bcls_cls_of tb s c Hb) as [Ecls _].
    destruct (bname_beq c B_tuple) eqn:Ec.
    - apply bname_beq_eq in Ec. subst c.
      rewrite instance_match_reach. rewrite (sat_head (TTuple ts) eq_refl). cbn [negb head].
      rewrite Ecls, (tok_reach tb T B_tuple B_tuple Hc tuple_in_heads).
      change (reachF pytype_devs B_tuple B_tuple) with (Some [PIdx 0]).
      destruct s as [sc|k vs|vs|ks vs|n|k|m o st]; simpl in Hb; inversion Hb.
      + destruct sc; discriminate.
      + destruct k; try discriminate. cbn [abs1 ckind_cls base_match].
        unfold inh. cbn [inhabitsF d_tuplecall_len pytype_devs].
        apply forallb_ext_Forall. eapply Forall_impl; [|exact HF]. intros a Ha.
        change (match_var rec (resolve (abs1 (VColl KTupleOf vs)) (PIdx 0)) a = forallb (inh a) (vparam (VColl KTupleOf vs) 0)).
        apply (param_agree tb (VColl KTupleOf vs) a (PIdx 0)); auto. intros; discriminate.
      + cbn [abs1 base_match]. unfold inh. cbn [inhabitsF]. apply forall2b_agree.
        eapply Forall_impl; [|exact HF]. intros a Ha x Hx. simpl in Hs, Hw.
        rewrite forallb_forall in Hs, Hw. apply Ha; auto.
    - rewrite (inst_match_none (abs1 s) c B_tuple (TTuple ts) eq_refl Hc tuple_in_heads Ecls
                 (bcls_attrs_of tb s c Hb) (reachF_to_tuple c Ec)).
      destruct s as [sc|k vs|vs|ks vs|n|k|m o st]; simpl in Hb; inversion Hb; subst; try reflexivity.
      + destruct k; try reflexivity. simpl in Ec. discriminate.
      + simpl in Ec. discriminate.
  Qed.

  Lemma binst_not_type_callable s c : bcls s = Some c ->
    bname_beq c B_type = false /\ bname_beq c B_t_Callable = false.
  Proof.
    destruct s as [sc|k vs|vs|ks vs|n|k|m o st]; simpl; intro H; inversion H; subst.
    - destruct sc; auto.
    - destruct k; auto.
    - auto.
    - auto.
  Qed.

  Lemma callable_binst s c t : bcls s = Some c ->
    (exists args ret, t = TCallable args ret) \/ (exists ret, t = TCallableAny ret) ->
    rec t (abs1 s) = inh t s.
  Proof.
    intros Hb Ht.
    assert (Hh : head t = CB B_t_Callable) by (destruct Ht as [[a [r E]]|[r E]]; subst; reflexivity).
    assert (Hn : match t with TAny | TUnion _ => False | _ => True end)
      by (destruct Ht as [[a [r E]]|[r E]]; subst; exact I).
    rewrite (matchm_binst s c t Hb Hn).
    destruct (bcls_cls_of tb s c Hb) as [Ecls _].
    destruct (binst_not_type_callable s c Hb) as [E1 E2].
    rewrite (inst_match_none (abs1 s) c B_t_Callable t Hh (bcls_vclasses s c Hb) callable_in_heads Ecls
               (bcls_attrs_of tb s c Hb) (reachF_to_callable c E1 E2)).
    destruct Ht as [[a [r E]]|[r E]]; subst; destruct s; simpl in Hb; inversion Hb; reflexivity.
  Qed.
End Main2.

Lemma wf_ty_cls_cb tb hb args : wf_ty tb (TCls (CB hb) args) = true ->
  In hb heads /\ (args = [] \/ length args = head_arity hb) /\ forallb (wf_ty tb) args = true.
Proof.
  intro H.
  change (bmem hb heads && (match args with [] => true | _ => Nat.eqb (length args) (head_arity hb) end)
          && forallb (wf_ty tb) args = true) in H.
  apply andb_true_iff in H as [H H3]. apply andb_true_iff in H as [H1 H2].
  apply bmem_In in H1. repeat split; try assumption.
  destruct args; [auto|]. right. apply Nat.eqb_eq. assumption.
Qed.

Section Main3.
  Variable tb : table.
  Hypothesis T : tok tb.
  Let rec := matchm tb.
  Let inh := inhabitsF pytype_devs tb.

  (* ---------- instances of generated classes ---------- *)
  Lemma no_mapping_in_user_mro c :
    existsb (fun e => cid_eqb (fst e) (CB B_t_Mapping)) (mro tb (CU c)) = false.
  Proof.
    unfold mro. rewrite existsb_app. cbn [existsb fst cid_eqb orb].
    replace (bname_beq B_object B_t_Mapping) with false by reflexivity. rewrite orb_false_r.
    rewrite existsb_map. cbn [fst cid_eqb]. induction (u_mro (uinfo_of tb c)); simpl; auto.
  Qed.

  Lemma vinst_builtin_head c t hb :
    head t = CB hb -> In hb heads -> bname_beq hb B_object = false ->
    instance_match tb rec (MInst (CU c) None None) t = false.
  Proof.
    intros Hh Hhb Eo. rewrite instance_match_reach. cbn [cls_of]. rewrite sat_user by assumption. cbn [negb].
    rewrite Hh, reach_user by assumption. rewrite Eo.
    destruct (is_protocol tb (CB hb)) eqn:Ep.
    - unfold protocol_match. cbn [cls_of]. rewrite no_mapping_in_user_mro, andb_false_r.
      destruct (tok_attr_obj tb T hb Hhb Ep) as [a [Ha Hm]].
      apply (asubset_has_missing _ _ (AB a) Ha). cbn [attrs_of cls_of].
      rewrite amem_AB_attrs_user; assumption.
    - rewrite <- (tok_proto_base tb T hb Hhb). assumption.
  Qed.

  Lemma vinst_user_head c p args :
    instance_match tb rec (MInst (CU c) None None) (TCls (CU p) args) = inh (TCls (CU p) args) (VInst c).
  Proof.
    rewrite instance_match_reach. cbn [cls_of head]. rewrite sat_user by assumption. cbn [negb].
    rewrite reach_user by assumption. unfold inh. cbn [inhabitsF user_member].
    destruct (nmem p (u_mro (uinfo_of tb c))); cbn [orb].
    - cbn [base_match]. destruct args; reflexivity.
    - apply user_fallback. intro n. cbn [attrs_of cls_of]. apply amem_AU_attrs_user; assumption.
  Qed.

  Lemma vinst_all c t : wf_ty tb t = true ->
    match t with TAny | TUnion _ => False | _ => True end ->
    rec t (MInst (CU c) None None) = inh t (VInst c).
  Proof.
    intros Hwf Hn.
    assert (L : rec t (MInst (CU c) None None) = instance_match tb rec (MInst (CU c) None None) t)
      by (destruct t; simpl in Hn; try tauto; reflexivity).
    rewrite L. destruct t as [|ts|[hb|p] args|ts|args ret|ret]; try tauto.
    - apply wf_ty_cls_cb in Hwf as [Hh [Hlen _]]. unfold inh. cbn [inhabitsF].
      destruct (bname_beq hb B_object) eqn:Eo.
      + apply bname_beq_eq in Eo. subst hb.
        rewrite instance_match_reach. cbn [cls_of head]. rewrite sat_user by assumption. cbn [negb].
        rewrite reach_user by assumption. cbn [bname_beq base_match]. destruct args; reflexivity.
      + apply (vinst_builtin_head c (TCls (CB hb) args) hb eq_refl Hh Eo).
    - apply vinst_user_head.
    - apply (vinst_builtin_head c (TTuple ts) B_tuple eq_refl); [simpl; tauto | reflexivity].
    - apply (vinst_builtin_head c (TCallable args ret) B_t_Callable eq_refl); [simpl; tauto | reflexivity].
    - apply (vinst_builtin_head c (TCallableAny ret) B_t_Callable eq_refl); [simpl; tauto | reflexivity].
  Qed.

  (* ---------- class objects ---------- *)
  Lemma accept_mem hb :
    cmem (CB hb) (bt_class_accept (t_b tb)) =
    bname_beq hb B_type || bname_beq hb B_object || bname_beq hb B_t_Callable || bname_beq hb B_t_Hashable.
  Proof. rewrite (tok_accept tb T). unfold cmem. cbn [existsb cid_eqb]. rewrite orb_false_r, !orb_assoc. reflexivity. Qed.

  Lemma accept_user p : cmem (CU p) (bt_class_accept (t_b tb)) = false.
  Proof. rewrite (tok_accept tb T). reflexivity. Qed.

  Definition class_have (k : cid) : list nat :=
    match k with CU n => u_own (uinfo_of tb n) | CB _ => [] end.

  Lemma classobj_attrs_AU k n : amem (AU n) (attrs_of tb (MClass k)) = nmem n (class_have k).
  Proof.
    assert (Ht : In B_type vclasses) by (simpl; tauto).
    destruct k as [b|m]; cbn [attrs_of cls_of class_have].
    - apply AU_not_in_builtin; assumption.
    - rewrite amem_app. cbn [own_attrs]. rewrite amem_map_AU, (AU_not_in_builtin tb T B_type n Ht), orb_false_r.
      reflexivity.
  Qed.

  Lemma classobj_builtin_head k t hb :
    head t = CB hb -> In hb heads ->
    bname_beq hb B_object = false -> bname_beq hb B_type = false -> bname_beq hb B_t_Callable = false ->
    instance_match tb rec (MClass k) t = false.
  Proof.
    intros Hh Hhb E1 E2 E3.
    assert (Ht : In B_type vclasses) by (simpl; tauto).
    rewrite instance_match_reach. cbn [cls_of].
    rewrite (sat_nonstr tb T B_type t eq_refl). cbn [negb].
    rewrite Hh, (tok_reach tb T B_type hb Ht Hhb), (reachF_type hb E1 E2 E3).
    destruct (is_protocol tb (CB hb)) eqn:Ep.
    - unfold protocol_match.
      destruct (cid_eqb (CB hb) (CB B_t_Sequence) && _); [reflexivity|].
      assert (Hacc : cmem (CB hb) (bt_class_accept (t_b tb)) = false).
      { rewrite accept_mem, E1, E2, E3. cbn [orb].
        destruct (bname_beq hb B_t_Hashable) eqn:EH; [|reflexivity].
        apply bname_beq_eq in EH. subst hb. simpl in Hhb. repeat (destruct Hhb as [X|Hhb]; [discriminate|]). contradiction. }
      destruct (tok_attr_type tb T hb Hhb Ep Hacc) as [a [Ha Hm]].
      apply (asubset_has_missing _ _ (AB a) Ha).
      destruct k as [b|m]; cbn [attrs_of cls_of]; [assumption|].
      rewrite amem_app. cbn [own_attrs]. rewrite amem_AB_map_AU. assumption.
    - rewrite <- (tok_proto_base tb T hb Hhb). assumption.
  Qed.

  Lemma classobj_user_head k p args :
    instance_match tb rec (MClass k) (TCls (CU p) args) = inh (TCls (CU p) args) (VClass k).
  Proof.
    assert (Ht : In B_type vclasses) by (simpl; tauto). unfold rec.
    rewrite (inst_match_user tb T (MClass k) B_type p args (class_have k) Ht eq_refl (classobj_attrs_AU k)).
    destruct k; reflexivity.
  Qed.

  Lemma rep_props k r : rep k = Some r -> wf_val tb (VClass k) = true ->
    abs1 r = inst0 k /\ is_slice r = true /\ wf_val tb r = true.
  Proof.
    destruct k as [[]|n]; simpl; intros H Hw; inversion H; subst; simpl; auto.
  Qed.

  Lemma wf_class_rep k : wf_val tb (VClass k) = true -> exists r, rep k = Some r.
  Proof.
    destruct k as [b|n]; cbn [wf_val]; intro H; [|simpl; eauto].
    destruct (rep (CB b)); [eauto|discriminate].
  Qed.

  Lemma vclass_all k t : wf_ty tb t = true -> wf_val tb (VClass k) = true ->
    match t with TAny | TUnion _ => False | _ => True end ->
    (forall u, match t with
               | TCls (CB B_type) (u' :: _) => u = u'
               | TCallable _ r | TCallableAny r => u = r
               | _ => False end -> agree tb u) ->
    rec t (MClass k) = inh t (VClass k).
  Proof.
    intros Hwf Hw Hn IH.
    destruct (wf_class_rep k Hw) as [r Hr]. destruct (rep_props k r Hr Hw) as [Er [Hsr Hwr]].
    destruct t as [|ts|[hb|p] args|ts|args ret|ret]; try tauto.
    - apply wf_ty_cls_cb in Hwf as [Hh [Hlen _]]. unfold inh. cbn [inhabitsF].
      destruct (bname_beq hb B_object) eqn:Eo.
      { apply bname_beq_eq in Eo. subst hb. unfold rec. cbn [matchm cid_eqb]. rewrite accept_mem. cbn.
        destruct args; reflexivity. }
      destruct (bname_beq hb B_type) eqn:Et.
      { apply bname_beq_eq in Et. subst hb. unfold rec. cbn [matchm cid_eqb]. rewrite accept_mem.
        destruct args as [|u args]; [reflexivity|]. cbn [bname_beq]. rewrite Hr, <- Er.
        apply (IH u eq_refl); assumption. }
      destruct (bname_beq hb B_t_Callable) eqn:Ec.
      { apply bname_beq_eq in Ec. subst hb. unfold rec. cbn [matchm cid_eqb]. rewrite accept_mem. cbn.
        destruct args; reflexivity. }
      assert (Hacc : cmem (CB hb) (bt_class_accept (t_b tb)) = false).
      { rewrite accept_mem, Eo, Et, Ec. cbn [orb].
        destruct (bname_beq hb B_t_Hashable) eqn:EH; [|reflexivity].
        apply bname_beq_eq in EH. subst hb. simpl in Hh. repeat (destruct Hh as [X|Hh]; [discriminate|]). contradiction. }
      assert (L : rec (TCls (CB hb) args) (MClass k) = instance_match tb rec (MClass k) (TCls (CB hb) args)).
      { unfold rec. cbn [matchm cid_eqb]. rewrite Et, Hacc. destruct args; reflexivity. }
      rewrite L. apply (classobj_builtin_head k (TCls (CB hb) args) hb eq_refl Hh Eo Et Ec).
    - assert (L : rec (TCls (CU p) args) (MClass k) = instance_match tb rec (MClass k) (TCls (CU p) args)).
      { unfold rec. cbn [matchm cid_eqb]. rewrite accept_user. destruct args; reflexivity. }
      rewrite L. apply classobj_user_head.
    - change (rec (TTuple ts) (MClass k)) with (instance_match tb rec (MClass k) (TTuple ts)).
      apply (classobj_builtin_head k (TTuple ts) B_tuple eq_refl); [simpl; tauto | reflexivity | reflexivity | reflexivity].
    - unfold rec, inh. cbn [matchm inhabitsF d_class_callable_args pytype_devs orb andb]. rewrite Hr, <- Er.
      apply (IH ret eq_refl); assumption.
    - unfold rec, inh. cbn [matchm inhabitsF]. rewrite Hr, <- Er. apply (IH ret eq_refl); assumption.
  Qed.

  (* ---------- functions ---------- *)
  Lemma vfunc_all m o st t : wf_ty tb t = true ->
    match t with TAny | TUnion _ => False | _ => True end ->
    rec t (MFunc m o st) = inh t (VFunc m o st).
  Proof.
    intros Hwf Hn.
    assert (Hc : In B_t_Callable vclasses) by (simpl; tauto).
    assert (Eft := tok_ft tb T).
    destruct t as [|ts|[hb|p] args|ts|args ret|ret]; try tauto.
    - apply wf_ty_cls_cb in Hwf as [Hh [Hlen _]]. unfold rec, inh. cbn [matchm inhabitsF cid_eqb].
      destruct (bname_beq hb B_object) eqn:Eo; [reflexivity|].
      destruct (bname_beq hb B_t_Callable) eqn:Ec; [reflexivity|]. cbn [orb].
      rewrite Eft.
      apply (inst_match_none tb T (inst0 (CB B_t_Callable)) B_t_Callable hb (TCls (CB hb) args) eq_refl Hc Hh eq_refl eq_refl
               (reachF_callable hb Eo Ec)).
    - unfold rec, inh. cbn [matchm inhabitsF cid_eqb orb]. rewrite Eft.
      rewrite (inst_match_user tb T (inst0 (CB B_t_Callable)) B_t_Callable p args [] Hc eq_refl).
      + reflexivity.
      + intro n. cbn [attrs_of inst0 cls_of]. apply AU_not_in_builtin; assumption.
    - unfold rec, inh. cbn [matchm inhabitsF]. rewrite Eft.
      apply (inst_match_none tb T (inst0 (CB B_t_Callable)) B_t_Callable B_tuple (TTuple ts) eq_refl Hc); try reflexivity.
      simpl; tauto.
  Qed.
End Main3.

(* ------------------------------------------------------------------------------------------------ *)
(* main theorem on slices *)

Lemma wf_forall_agree tb (ts : list ty) :
  Forall (fun t => wf_ty tb t = true -> agree tb t) ts -> forallb (wf_ty tb) ts = true -> Forall (agree tb) ts.
Proof.
  intros H Hw. apply forallb_Forall in Hw. rewrite Forall_forall in *. intros t Ht. apply H; auto.
Qed.

Lemma bcls_none s : bcls s = None ->
  (exists c, s = VInst c) \/ (exists k, s = VClass k) \/ (exists m o st, s = VFunc m o st).
Proof. destruct s; simpl; intro H; try discriminate; eauto 6. Qed.

Theorem matchm_slice tb : tok tb -> forall t, wf_ty tb t = true -> agree tb t.
Proof.
  intros T. induction t using ty_ind'; intros Hwf s Hs Hw.
  - reflexivity.
  - cbn [matchm inhabitsF]. cbn [wf_ty] in Hwf. pose proof (wf_forall_agree tb ts H Hwf) as HA.
    apply existsb_ext_Forall. eapply Forall_impl; [|exact HA]. intros a Ha. apply Ha; assumption.
  - destruct (bcls s) as [c'|] eqn:Eb.
    + destruct c as [hb|p].
      * destruct (wf_ty_cls_cb tb hb args Hwf) as [Hh [Hlen Hargs]].
        apply (cls_binst tb T s c' hb args Eb Hh Hlen (wf_forall_agree tb args H Hargs) Hs Hw).
      * apply (cu_binst tb T s c' p args Eb).
    + destruct (bcls_none s Eb) as [[n E]|[[k E]|[m [o [st E]]]]]; subst s.
      * apply (vinst_all tb T n _ Hwf I).
      * apply (vclass_all tb T k _ Hwf Hw I). intros u Hu.
        destruct c as [[]|]; try contradiction. destruct args as [|u' args]; [contradiction|]. subst u'.
        destruct (wf_ty_cls_cb tb B_type (u :: args) Hwf) as [_ [_ Hargs]].
        pose proof (wf_forall_agree tb _ H Hargs) as HA. inversion HA; assumption.
      * apply (vfunc_all tb T m o st _ Hwf I).
  - destruct (bcls s) as [c'|] eqn:Eb.
    + cbn [wf_ty] in Hwf. apply (ttuple_binst tb T s c' ts Eb (wf_forall_agree tb ts H Hwf) Hs Hw).
    + destruct (bcls_none s Eb) as [[n E]|[[k E]|[m [o [st E]]]]]; subst s.
      * apply (vinst_all tb T n _ Hwf I).
      * apply (vclass_all tb T k _ Hwf Hw I). intros u Hu. contradiction.
      * apply (vfunc_all tb T m o st _ Hwf I).
  - destruct (bcls s) as [c'|] eqn:Eb.
    + apply (callable_binst tb T s c' _ Eb). left; eauto.
    + destruct (bcls_none s Eb) as [[n E]|[[k E]|[m [o [st E]]]]]; subst s.
      * apply (vinst_all tb T n _ Hwf I).
      * apply (vclass_all tb T k _ Hwf Hw I). intros u Hu. subst u. apply IHt. exact Hwf.
      * apply (vfunc_all tb T m o st _ Hwf I).
  - destruct (bcls s) as [c'|] eqn:Eb.
    + apply (callable_binst tb T s c' _ Eb). right; eauto.
    + destruct (bcls_none s Eb) as [[n E]|[[k E]|[m [o [st E]]]]]; subst s.
      * apply (vinst_all tb T n _ Hwf I).
      * apply (vclass_all tb T k _ Hwf Hw I). intros u Hu. subst u. apply IHt. exact Hwf.
      * apply (vfunc_all tb T m o st _ Hwf I).
Qed.

(* ------------------------------------------------------------------------------------------------ *)
(* characterisation of the two matching modes *)

Theorem matches_all_char tb v t :
  table_ok tb = true -> wf_ty tb t = true -> wf_val tb v = true ->
  matches_all tb (abs v) t = forallb (inhabitsF pytype_devs tb t) (slices v).
Proof.
  intros Hok Hwt Hwv. pose proof (table_ok_tok tb Hok) as T.
  unfold matches_all. rewrite views_abs, forallb_map.
  apply forallb_ext_Forall. eapply Forall_impl; [|exact (slices_wf tb v Hwv)].
  intros s [Hw Hs]. apply (matchm_slice tb T t Hwt s Hs Hw).
Qed.

Theorem matches_any_char tb v t :
  table_ok tb = true -> wf_ty tb t = true -> wf_val tb v = true ->
  matches_any tb (abs v) t = existsb (inhabitsF pytype_devs tb t) (slices v).
Proof.
  intros Hok Hwt Hwv. pose proof (table_ok_tok tb Hok) as T.
  unfold matches_any. rewrite views_abs, existsb_map.
  apply existsb_ext_Forall. eapply Forall_impl; [|exact (slices_wf tb v Hwv)].
  intros s [Hw Hs]. apply (matchm_slice tb T t Hwt s Hs Hw).
Qed.

(* exactness, away from the deviations *)
Theorem exact_partial tb v t :
  table_ok tb = true -> wf_ty tb t = true -> wf_val tb v = true ->
  (forall s, In s (slices v) -> inhabitsF pytype_devs tb t s = inhabits tb s t) ->
  forallb (fun s => inhabits tb s t) (slices v) = inhabits tb v t ->
  matches tb (abs v) t = inhabits tb v t.
Proof.
  intros Hok Hwt Hwv Hdev Hsl. unfold matches. rewrite matches_all_char by assumption.
  rewrite <- Hsl. apply forallb_ext_Forall. apply Forall_forall. exact Hdev.
Qed.

Theorem sites_partial tb v t :
  table_ok tb = true -> wf_ty tb t = true -> wf_val tb v = true ->
  (forall s, In s (slices v) -> inhabitsF pytype_devs tb t s = inhabits tb s t) ->
  forallb (fun s => inhabits tb s t) (slices v) = inhabits tb v t ->
  err_ret tb v t = negb (inhabits tb v t) /\
  (is_none v = false -> err_assign tb v t = negb (inhabits tb v t)) /\
  (slices v = [v] -> err_arg tb v t = negb (inhabits tb v t)).
Proof.
  intros Hok Hwt Hwv Hdev Hsl.
  pose proof (exact_partial tb v t Hok Hwt Hwv Hdev Hsl) as E. unfold matches in E.
  repeat split.
  - unfold err_ret. rewrite E. reflexivity.
  - intro Hn. unfold err_assign. rewrite Hn, E. reflexivity.
  - intro Hs. unfold err_arg. rewrite matches_any_char by assumption. rewrite Hs. cbn [existsb].
    rewrite orb_false_r. rewrite Hdev by (rewrite Hs; left; reflexivity). reflexivity.
Qed.
