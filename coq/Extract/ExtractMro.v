(* Extraction of the C10 model for the correspondence check.  ExtrOcamlBasic only: bool, option,
   list, prod, unit, sumbool map to OCaml's; nat stays the extracted inductive. *)
From Coq Require Import Extraction ExtrOcamlBasic.
From PV Require Import Mro.Model.
Extraction Language OCaml.
Extraction "mro_model.ml" merge_py_gen mem merge_c mros_py mros_c get_bases_in_mro class_mro_py class_mro_c
                          lookup_py lookup_c.
