(* Extraction of the C10 model for the correspondence check.  ExtrOcamlBasic only: bool, option,
   list, prod, unit, sumbool map to OCaml's; nat stays the extracted inductive. *)
From Coq Require Import Extraction ExtrOcamlBasic.
From PV Require Import Mro.Model Mro.Attr.
Extraction Language OCaml.
Extraction "mro_model.ml" merge_py_gen mem merge_c mros_py mros_c get_bases_in_mro class_mro_py class_mro_c
                          lookup_py lookup_c
                          super_py super_c read_inst_py read_inst_c gmros_py gmros_c gmros_c_py_reading gproject
                          same_reading_table super_chain_py super_chain_c mro_of table_mros.
