(* Extraction of the C09 model for the correspondence check.  ExtrOcamlBasic only: bool, option,
   list, prod, unit, sumbool map to OCaml's; nat, N, positive stay the extracted inductives. *)
From Coq Require Import Extraction ExtrOcamlBasic.
From PV Require Import Typegraph.Reach.
Extraction Language OCaml.
Extraction "reach_model.ml" prog_empty step is_reachable nodes.
