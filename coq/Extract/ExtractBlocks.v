(* Extraction of the C16 model for the correspondence check.  ExtrOcamlBasic only: bool, option,
   list, prod, unit, sumbool map to OCaml's; nat, N, positive stay the extracted inductives. *)
From Coq Require Import Extraction ExtrOcamlBasic.
From PV Require Import Blocks.Model Blocks.Apbt.
Extraction Language OCaml.
Extraction "blocks_model.ml" compute_order compute_predecessors build_ops wf_opsb anext_okb plainb merge_simpleb add_setup_except wf_excb add_pop_block_targets apbt_okb.
