(* Extraction of the C05 declaration model (coq/Print/Decl.v over coq/Print/Model.v) for the correspondence check.
   ExtrOcamlBasic only: bool, option, list, prod, unit, sumbool map to OCaml's; nat, N, Z, positive stay the
   extracted inductives. *)
From Coq Require Import Extraction ExtrOcamlBasic.
From PV Require Import Print.Model Print.Decl Print.Imports.
Extraction Language OCaml.
Extraction "decl_model.ml" print_unit parse_unit norm_unit wf_unit stable_unit print_fsig parse_fsig norm_fsig wf_fsig mkCtx
  import_lines typing_events wf_imports parse_text print_text norm_iunit mkNT mkIU net.
