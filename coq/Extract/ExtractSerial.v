(* Extraction of the C12 model (with the regenerated schema) for the correspondence check.
   ExtrOcamlBasic + ExtrOcamlString: bool, option, list, prod map to OCaml's, ascii/string to char / char list;
   Z, positive, nat stay the extracted inductives. *)
From Coq Require Import Extraction ExtrOcamlBasic ExtrOcamlString ZArith List String.
From PV Require Import Serial.Model Serial.Grammar Generated.C12_Schema.
Extraction Language OCaml.
Definition z_zero : Z := 0%Z.
Definition z_ten : Z := 10%Z.
Definition z_digit (n : nat) : Z := Z.of_nat n.
Definition field_fty (c f : string) : option fty :=
  match lookup pytd_schema c with
  | Some si => match find_field f (s_fields si) with Some fd => Some (fd_ty fd) | None => None end
  | None => None
  end.
Extraction "serial_model.ml" pytd_schema root conforms encode decode veqb node_eqb hk toks_eqb
  members_hash_distinct members_hash_sorted in_G hooks_all field_fty
  z_zero z_ten z_digit Z.add Z.mul Z.opp.
