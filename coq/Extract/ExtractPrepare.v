(* Extraction of the C12 preparation model (Serial/Prepare.v over the regenerated schema and the C04 model of
   CanonicalOrderingVisitor) for the correspondence check.  Same conventions as ExtractSerial.v. *)
From Coq Require Import Extraction ExtrOcamlBasic ExtrOcamlString ZArith List String.
From PV Require Import Serial.Model Serial.Grammar Serial.Ast Serial.Prepare Generated.C12_Schema.
From PV Require Canon.Model.
Import ListNotations.
Extraction Language OCaml.
Definition pz_zero : Z := 0%Z.
Definition pz_ten : Z := 10%Z.
Definition pz_digit (n : nat) : Z := Z.of_nat n.
Definition x_prepare (R : reprs) (u : value) (src : option string) (md : list string) : value :=
  prepare R pytd_schema u src md.
(* = PrepareFacts.unit_ok (repeated here so that the proof files stay out of the extraction) *)
Definition x_unit_ok (R : reprs) (hv : hvariant) (u : value) : bool :=
  gen_b pytd_grammar (clear_ptrs u) (GNt NUnit) && hooks_all pytd_schema hv (clear_ptrs u) &&
  sets_okb R pytd_schema hv (clear_ptrs u).
Definition x_veqb (a b : value) : bool := Serial.Model.veqb a b.
Definition x_tables : list (list string) := [ccp_names; cd_names; clc_names; PV.Canon.Model.visit_class_names].
Definition x_relink (ok : string -> bool) (v : value) : option value :=
  relink (fun n => if ok n then Some (VStr n) else None) v.
Definition x_clear (v : value) : value := clear_ptrs v.
Extraction "prepare_model.ml" x_prepare x_unit_ok x_veqb x_tables x_relink x_clear mkReprs
  pz_zero pz_ten pz_digit Z.add Z.mul Z.opp.
