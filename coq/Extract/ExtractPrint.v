(* Extraction of the C05 model for the correspondence check.  ExtrOcamlBasic only: bool, option, list, prod,
   unit, sumbool map to OCaml's; nat, N, Z, positive stay the extracted inductives. *)
From Coq Require Import Extraction ExtrOcamlBasic.
From PV Require Import Print.Model.
Extraction Language OCaml.
Extraction "print_model.ml" print_ty parse_ty norm wf stable eq_stable verify_ty ty_eq unqual
  print_sig parse_sig norm_sig wf_sig stable_sig mkCtx.
