(* Extraction of the C09 Prune model (Typegraph/Prune.v) for the correspondence check.
   ExtrOcamlBasic only: bool, option, list, prod map to OCaml's; nat stays the extracted inductive. *)
From Coq Require Import Extraction ExtrOcamlBasic.
From PV Require Import Typegraph.Reach Typegraph.Prune.
Extraction Language OCaml.
Extraction "prune_model.ml" pstate0 py_step py_wf_op py_is_reachable prune prune_general prune_data
  filter_model nodes ps_prog ps_vars all_bindings get_var.
