(* Extraction of the C07 solver model for the correspondence check.  ExtrOcamlBasic only: bool, option,
   list, prod, unit map to OCaml's; nat stays the extracted inductive. *)
From Coq Require Import Extraction ExtrOcamlBasic.
From PV Require Import Typegraph.Graph Typegraph.Solver.
Extraction Language OCaml.
Extraction "solver_model.ml" mkGraph mkNode mkBinding mkOrigin sstate_empty solve var_filter
  can_have_combination wf_graph acyclicb no_conditions remove_finished_goals
  find_node_backwards_compute.
