(* Extraction of the C13 models for the correspondence check.  ExtrOcamlBasic only: bool, option,
   list, prod, unit, sum map to OCaml's; nat stays the extracted inductive. *)
From Coq Require Import Extraction ExtrOcamlBasic.
From PV Require Import Bind.Model Bind.PytdModel Bind.SplatModel Bind.FormsModel.
Extraction Language OCaml.
Extraction "bind_model.ml" bind_py bind_py_fixed bind_c bind_pytd lookup_all all_names wf_sigb nodupb
  site_items bind_px_gen call_at_depth frames_at_call
  call_form_py call_form_c argcount_src argcount_pytd ctor_py ctor_c call_overloaded.
