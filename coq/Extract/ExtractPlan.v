(* Extraction of the C19 model for the correspondence check.  ExtrOcamlBasic only: bool, option,
   list, prod, unit map to OCaml's; nat, N, positive stay the extracted inductives. *)
From Coq Require Import Extraction ExtrOcamlBasic.
From PV Require Import Plan.Model.
Extraction Language OCaml.
Extraction "plan_model.ml" setup_build store_get wfb deps_from_import_graph escape lex_path lex_value
  parse_build render eval_toks yield_sorted_modules.
