(* Extraction of the C19 model for the correspondence check.  ExtrOcamlBasic only: bool, option,
   list, prod, unit map to OCaml's; nat, N, positive stay the extracted inductives. *)
From Coq Require Import Extraction ExtrOcamlBasic.
From PV Require Import Plan.Model Plan.Text.
Extraction Language OCaml.
Extraction "plan_model.ml" setup_build store_get wfb deps_from_import_graph escape lex_path lex_value
  parse_build render eval_toks yield_sorted_modules
  write_imports read_from_file build_from_file splitext dirname basename join2
  command_words render_rule parse_rule edge_command shell_escape ninja_shell_safe sh_words
  path_to_module_name infer_module module_to_output_path resolved_file_to_module loader_path loader_init_path.
