(* Extraction of the C11 model for the correspondence check.  ExtrOcamlBasic only: bool, option, list,
   prod map to OCaml's; nat stays the extracted inductive (ids are small). *)
From Coq Require Import Extraction ExtrOcamlBasic.
From PV Require Import Opt.Syntax Generated.C11_Passes Opt.Model Opt.Spec Opt.SecondRun.
Extraction Language OCaml.
Extraction "opt_model.ml" opt opt_ty passes sc_collapse_single default_max_union stable_unit second_run_stable.
