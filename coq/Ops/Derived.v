(* C14 model, extension: user classes DERIVING FROM A BUILTIN head (class M(int), class L(list), class D(dict) ...,
   with and without overriding dunders).  Definitions only (no proofs).

   A derived class u has linearisation  us ++ [B; object]  (us: user classes, B: a builtin head other than object)
   and lookup chain  us ++ [B]  -- the regenerated row of B is flattened (it already contains what B inherits).
   The dispatchers are those of Ops/Model.v, unchanged: binop_py (vm_utils._call_binop_on_bindings with the
   _overrides test, which stops at supercls in subcls.mro) and binop_c (binary_op1 with the subclass-priority
   rule of SLOT1BINFULL / method_is_overloaded).  What changes is the class table:

   * pytype side (matcher._match_type_against_type -> _match_instance_against_type walks the MRO of the
     argument's class) and run-time side (PyObject_TypeCheck in the slot implementations) both accept an
     instance of a class derived from B wherever an instance of B is accepted; the structural acceptance of
     a user class (uacc, regenerated: protocols such as SupportsIndex / Iterable matched through dunders the USER
     part of the chain defines) is kept next to it.  entry_of_d = Model.entry_of + that base term.
   * base_of: the builtin head a class derives from = the last class of its lookup chain (object for the plain
     user classes of Ops/Model.v, for which the base term is switched off: entry_of_d = entry_of on them). *)
From Coq Require Import List Bool PeanoNat.
From PV Require Import Ops.Model.
Import ListNotations.

Definition base_of (U : table) (a : cls) : cls := last (ci_look (U a)) 0.

(* acceptance of an argument of class a by a builtin dunder *)
Definition acc_d (nb : nat) (U : table) (b : bentry) (a : cls) : bool :=
  if a <? nb then mem a (be_acc b)
  else ((0 <? base_of U a) && (base_of U a <? nb) && mem (base_of U a) (be_acc b))
       || uacc_ok nb U (be_uacc b) a.

Definition entry_of_d (nb : nat) (U : table) (b : bentry) : entry :=
  mk_entry (be_owner b) (be_call0 b) (acc_d nb U b).

Definition row_info_d (nb : nat) (U : table) (c : cls) (r : brow) : clsinfo :=
  mk_cls (br_mro r) [c] (fun n => option_map (entry_of_d nb U) (find_entry r n)) None.

Definition mk_table_d (rows : list brow) (U : table) : table :=
  fun c => match nth_error rows c with
           | Some r => row_info_d (length rows) U c r
           | None => U c
           end.

(* user rows as written by the harness: linearisation and lookup chain given separately *)
Definition user_cls_d (c : cls) (mro look : list cls) (own : list (name * (bool * (cls -> bool)))) : clsinfo :=
  mk_cls mro look
         (fun n => option_map (fun p => mk_entry c (fst p) (snd p)) (assoc n own))
         None.

(* one option of the dispatch succeeds *)
Definition succ_b (T : table) (l r : cls) (n : name) : bool :=
  match try_call1 T l r n with Some _ => true | None => false end.

Definition rsucc_b (T : table) (l r : cls) (n : name) : bool :=
  match rname n with Some rn => succ_b T l r rn | None => false end.

(* Closed obligation over the regenerated rows: on two builtin heads, when NEITHER option of pytype's dispatch
   succeeds, neither option succeeds at run time -- without CPython's same-type shortcut (an instance of a class
   derived from B and an instance of B have different types, so B's reflected dunder IS tried on them) and
   without the `None | None` union fallback (NoneType cannot be derived from). *)
Definition dpair_faithful (rowsT rowsR : list brow) : bool :=
  forallb (fun x => forallb (fun y => forallb (fun n =>
    excl_fp_bin x n y ||
    implb (negb (succ_b (mk_table rowsT no_users) x y n) && negb (rsucc_b (mk_table rowsT no_users) y x n))
          (negb (succ_b (mk_table rowsR no_users) x y n) && negb (rsucc_b (mk_table rowsR no_users) y x n)))
    binop_names) (heads rowsT)) (heads rowsT).
