(* C14 extension: the closed obligations of Ops/Ext.v over this run's REGENERATED builtin rows, native-comparison
   table and hard in-place table (vm_compute), and the lemmas of Ops/ExtProofs.v instantiated on them. *)
From Coq Require Import List Bool PeanoNat.
From PV Require Import Ops.Model Generated.C14_Builtins Ops.Proofs Ops.Closed Ops.Ext Ops.ExtProofs.
Import ListNotations.

Lemma cmp_pair_faithful_holds : cmp_pair_faithful py_rows rt_rows native_tbl = true.
Proof. vm_compute. reflexivity. Qed.

Lemma iop_pair_faithful_holds : iop_pair_faithful py_rows rt_rows rt_hard = true.
Proof. vm_compute. reflexivity. Qed.

Lemma in_pair_faithful_holds : in_pair_faithful py_rows rt_rows = true.
Proof. vm_compute. reflexivity. Qed.

Lemma store_pair_faithful_holds : store_pair_faithful py_rows rt_rows = true.
Proof. vm_compute. reflexivity. Qed.

Lemma un_faithful_holds : un_faithful py_rows rt_rows = true.
Proof. vm_compute. reflexivity. Qed.

Lemma ucol2_faithful_holds : ucol2_faithful py_rows rt_rows = true.
Proof. vm_compute. reflexivity. Qed.

Lemma rt_cmp_rejects_users_holds : rt_cmp_rejects_users rt_rows = true.
Proof. vm_compute. reflexivity. Qed.

Lemma native_user_ok_holds : native_user_ok native_tbl (length py_rows) = true.
Proof. vm_compute. reflexivity. Qed.

Lemma py_cmp_accepts_users_holds : py_cmp_accepts_users py_rows = true.
Proof. vm_compute. reflexivity. Qed.

Lemma contains_presence_holds : contains_presence py_rows rt_rows = true.
Proof. vm_compute. reflexivity. Qed.

Definition NATIVE : cls -> name -> cls -> option bool := native_of native_tbl c14_nb.
Definition HARD : cls -> name -> bool := hard_of rt_hard.

Lemma cmp_reported_is_real_inst : forall (UT UR : table) x n y,
  user_class_ok UR UT x -> user_class_ok UR UT y -> In n cmp_names ->
  (c14_nb <= x -> c14_nb <= y -> succ (RT UR) y x (swapped n) = false) ->
  cmp_py (PY UT) NATIVE x n y = Err -> cmp_c (RT UR) x n y = Err.
Proof.
  intros UT UR x n y Hx Hy Hn Hr H.
  exact (cmp_reported_is_real_lemma py_rows rt_rows native_tbl UT UR x n y shape_ok_holds cmp_pair_faithful_holds
           ucol2_faithful_holds obj_faithful_holds rt_cmp_rejects_users_holds native_user_ok_holds
           py_cmp_accepts_users_holds Hx Hy Hn Hr H).
Qed.

Lemma cmp_eqne_inst : forall (UT : table) x n y,
  In n cmp_names -> is_eqne n = true -> is_err (cmp_py (PY UT) NATIVE x n y) = false.
Proof.
  intros UT x n y Hn He.
  exact (cmp_eqne_lemma py_rows rt_rows native_tbl UT x n y shape_ok_holds cmp_pair_faithful_holds
           native_user_ok_holds Hn He).
Qed.

Lemma one_lt_nb : 1 < length py_rows.
Proof. vm_compute. repeat constructor. Qed.

Lemma in_reported_is_real_inst : forall (UT UR : table) i q,
  user_class_ok UR UT i -> user_class_ok UR UT q ->
  in_py (PY UT) i q = Err -> in_c (RT UR) i q = Err.
Proof.
  intros UT UR i q Hi Hq H.
  exact (in_reported_is_real_lemma py_rows rt_rows UT UR i q shape_ok_holds in_pair_faithful_holds
           ucol2_faithful_holds obj_faithful_holds obj_complete_holds contains_presence_holds one_lt_nb Hi Hq H).
Qed.

Lemma inplace_reported_is_real_inst : forall (UT UR : table) x n y,
  user_class_ok UR UT x -> user_class_ok UR UT y -> In n arith_names -> excl_fp_iop x n y = false ->
  ((x <? c14_nb) && (y <? c14_nb) = false -> lookup (PY UT) x (iname n) <> None -> binop_c (RT UR) x n y = Err) ->
  inplace_py (PY UT) x n y = Err -> inplace_c (RT UR) HARD x n y = Err.
Proof.
  intros UT UR x n y Hx Hy Hn Hex Hf H.
  exact (inplace_reported_is_real_lemma py_rows rt_rows rt_hard UT UR x n y shape_ok_holds pair_faithful_holds
           ucol_faithful_holds obj_faithful_holds iop_pair_faithful_holds ucol2_faithful_holds Hx Hy Hn Hex Hf H).
Qed.

Lemma un_reported_is_real_inst : forall (UT UR : table) x n,
  user_class_ok UR UT x -> In n un_names -> call0 (PY UT) x n = Err -> call0 (RT UR) x n = Err.
Proof.
  intros UT UR x n Hx Hn H.
  exact (un_reported_is_real_lemma py_rows rt_rows UT UR x n shape_ok_holds un_faithful_holds obj_faithful_holds
           Hx Hn H).
Qed.

Lemma store_reported_is_real_inst : forall (UT UR : table) x n k,
  user_class_ok UR UT x -> user_class_ok UR UT k -> In n store_names -> excl_fp_store x n = false ->
  store_py (PY UT) x n k = Err -> store_c (RT UR) x n k = Err.
Proof.
  intros UT UR x n k Hx Hk Hn Hex H.
  exact (store_reported_is_real_lemma py_rows rt_rows UT UR x n k shape_ok_holds store_pair_faithful_holds
           ucol2_faithful_holds obj_faithful_holds Hx Hk Hn Hex H).
Qed.
