(* C14 lemmas about the dispatch models, for ARBITRARY builtin rows and user parts (independent of the
   regenerated table; the closed obligations over this run's rows are discharged in Ops/Closed.v). *)
From Coq Require Import List Bool PeanoNat.
From PV Require Import Ops.Model.
Import ListNotations.

(* ------------------------------------------------------------------------------------------ *)
(* relations between a run-time table R and a pytype-side table T on the user classes *)

Definition entry_le (er et : entry) : Prop :=
  (e_call0 er = true -> e_call0 et = true) /\ (forall a, e_call1 er a = true -> e_call1 et a = true).

Definition entry_le_for (a : cls) (er et : entry) : Prop :=
  (e_call0 er = true -> e_call0 et = true) /\ (e_call1 er a = true -> e_call1 et a = true).

Definition opt_sim (r t : option entry) : Prop :=
  match r, t with
  | Some er, Some et => entry_le er et
  | None, None => True
  | _, _ => False
  end.

Definition own_sim (UR UT : table) (u : cls) : Prop :=
  forall n, opt_sim (ci_own (UR u) n) (ci_own (UT u) n).

Definition inst_sim (UR UT : table) (u : cls) : Prop :=
  match ci_inst (UR u), ci_inst (UT u) with
  | Some lr, Some lt => forall n, opt_sim (assoc n lr) (assoc n lt)
  | None, None => True
  | _, _ => False
  end.

(* same class definitions on both sides (same lookup chain, same defined names, same __init__ assignments),
   every chain made of user classes followed by object; the run-time behaviour of a user definition is at most
   as permissive as pytype's view of it (an unannotated def accepts everything) *)
Definition user_ok (nb : nat) (UR UT : table) (u : cls) : Prop :=
  nb <= u ->
    ci_look (UR u) = ci_look (UT u) /\
    (exists us, ci_look (UR u) = us ++ [0] /\ Forall (fun k => nb <= k) us) /\
    (forall k, In k (ci_look (UR u)) -> nb <= k -> own_sim UR UT k /\ inst_sim UR UT k).

(* what the argument class of a builtin dunder must satisfy: same chain, same defined names (implied by user_ok) *)
Definition arg_ok (nb : nat) (UR UT : table) (a : cls) : Prop :=
  nb <= a ->
    ci_look (UR a) = ci_look (UT a) /\
    (forall k, In k (ci_look (UR a)) -> nb <= k ->
       forall n, ci_own (UR k) n = None <-> ci_own (UT k) n = None).

Lemma entry_le_for_of : forall a er et, entry_le er et -> entry_le_for a er et.
Proof. intros a er et [H0 H1]. split; [exact H0|apply H1]. Qed.

Lemma user_ok_arg_ok : forall nb UR UT a, user_ok nb UR UT a -> arg_ok nb UR UT a.
Proof.
  intros nb UR UT a H Ha. destruct (H Ha) as [Hl [_ Hk]]. split; [exact Hl|].
  intros k Hin Hkn n. destruct (Hk k Hin Hkn) as [Ho _]. specialize (Ho n). unfold opt_sim in Ho.
  destruct (ci_own (UR k) n); destruct (ci_own (UT k) n); try contradiction; split; auto; discriminate.
Qed.

Lemma existsb_ext_in : forall (f g : nat -> bool) l, (forall k, In k l -> f k = g k) -> existsb f l = existsb g l.
Proof.
  intros f g l. induction l as [|h t IH]; intros H; [reflexivity|]. simpl.
  rewrite (H h (or_introl eq_refl)). rewrite IH; [reflexivity|]. intros k Hk. apply H. right. exact Hk.
Qed.

Lemma user_has_eq : forall nb UR UT a n, nb <= a -> arg_ok nb UR UT a ->
  user_has nb UR a n = user_has nb UT a n.
Proof.
  intros nb UR UT a n Ha H. destruct (H Ha) as [Hl Hk]. unfold user_has. rewrite <- Hl.
  apply existsb_ext_in. intros k Hin. destruct (nb <=? k) eqn:L; [|reflexivity]. simpl.
  apply Nat.leb_le in L. destruct (Hk k Hin L n) as [H1 H2].
  destruct (ci_own (UR k) n) eqn:E1; destruct (ci_own (UT k) n) eqn:E2; try reflexivity.
  - specialize (H2 eq_refl). discriminate.
  - specialize (H1 eq_refl). discriminate.
Qed.

Lemma uacc_le_sound : forall nb UR UT a ur ut, nb <= a -> arg_ok nb UR UT a ->
  uacc_le ur ut = true -> uacc_ok nb UR ur a = true -> uacc_ok nb UT ut a = true.
Proof.
  intros nb UR UT a ur ut Ha Hok Hle H.
  destruct ur as [| |lr]; destruct ut as [| |lt]; simpl in *; try discriminate; try reflexivity.
  apply existsb_exists in H. destruct H as [n [Hn Hu]].
  rewrite forallb_forall in Hle. specialize (Hle n Hn). unfold mem in Hle.
  apply existsb_exists in Hle. destruct Hle as [m [Hm Hnm]]. apply Nat.eqb_eq in Hnm. subst m.
  apply existsb_exists. exists n. split; [exact Hm|].
  rewrite <- (user_has_eq nb UR UT a n Ha Hok). exact Hu.
Qed.

Definition succ (T : table) (l r : cls) (n : name) : bool :=
  match try_call1 T l r n with Some _ => true | None => false end.

(* ------------------------------------------------------------------------------------------ *)
(* Err-ness of the two dispatchers does not depend on the order of the options *)

Lemma try_call1_not_err : forall T l r n v, try_call1 T l r n = Some v -> is_err v = false.
Proof.
  intros T l r n v. unfold try_call1. destruct (lookup T l n) as [e|]; [|discriminate].
  destruct (e_call1 e r); [|discriminate]. intros H. inversion H. reflexivity.
Qed.

Lemma first_ok2_err : forall T a b c d e f,
  is_err (first_ok [try_call1 T a b c; try_call1 T d e f]) = negb (succ T a b c) && negb (succ T d e f).
Proof.
  intros. unfold succ. simpl.
  destruct (try_call1 T a b c) eqn:H1.
  - simpl. apply (try_call1_not_err _ _ _ _ _ H1).
  - destruct (try_call1 T d e f) eqn:H2; simpl.
    + apply (try_call1_not_err _ _ _ _ _ H2).
    + reflexivity.
Qed.

Lemma first_ok1_err : forall T a b c,
  is_err (first_ok [try_call1 T a b c]) = negb (succ T a b c).
Proof.
  intros. unfold succ. simpl. destruct (try_call1 T a b c) eqn:H1; simpl.
  - apply (try_call1_not_err _ _ _ _ _ H1).
  - reflexivity.
Qed.

Definition union_quirk (x : cls) (n : name) (y : cls) : bool := (n =? N_OR) && (x =? C_NONE) && (y =? C_NONE).

Lemma binop_py_err : forall T x n y,
  is_err (binop_py T x n y) =
  negb (union_quirk x n y) &&
  match rname n with
  | Some r => negb (succ T x y n) && negb (succ T y x r)
  | None => negb (succ T x y n)
  end.
Proof.
  intros. unfold binop_py, union_quirk.
  set (r0 := match rname n with
             | Some r => if overrides T y x r then first_ok [try_call1 T y x r; try_call1 T x y n]
                         else first_ok [try_call1 T x y n; try_call1 T y x r]
             | None => first_ok [try_call1 T x y n] end).
  assert (E : is_err r0 = match rname n with
                          | Some r => negb (succ T x y n) && negb (succ T y x r)
                          | None => negb (succ T x y n) end).
  { unfold r0. destruct (rname n) as [r|].
    - destruct (overrides T y x r); rewrite first_ok2_err; [apply andb_comm|reflexivity].
    - apply first_ok1_err. }
  rewrite <- E. clear E.
  destruct (is_err r0) eqn:Er; destruct (n =? N_OR); destruct (x =? C_NONE); destruct (y =? C_NONE);
    simpl; try rewrite Er; reflexivity.
Qed.

Lemma binop_c_err : forall R x n y,
  is_err (binop_c R x n y) =
  match rname n with
  | Some r => negb (succ R x y n) && ((x =? y) || negb (succ R y x r))
  | None => negb (succ R x y n)
  end.
Proof.
  intros. unfold binop_c. destruct (rname n) as [r|].
  - destruct (x =? y).
    + rewrite first_ok1_err. simpl. rewrite andb_true_r. reflexivity.
    + destruct (existsb (Nat.eqb x) (ci_mro (R y)) && overloaded R y x r)%bool;
        rewrite first_ok2_err; simpl; [apply andb_comm|reflexivity].
  - apply first_ok1_err.
Qed.

(* ------------------------------------------------------------------------------------------ *)
(* builtin rows of mk_table do not depend on the user part *)

Lemma nth_error_heads : forall (rows : list brow) c, c < length rows -> exists r, nth_error rows c = Some r.
Proof.
  intros rows c H. destruct (nth_error rows c) eqn:E; [eauto|].
  apply nth_error_None in E. exfalso. apply (Nat.lt_irrefl c). eapply Nat.lt_le_trans; eassumption.
Qed.

Lemma mk_table_builtin : forall rows U c r, nth_error rows c = Some r ->
  mk_table rows U c = row_info (length rows) U c r.
Proof. intros. unfold mk_table. rewrite H. reflexivity. Qed.

Lemma mk_table_user : forall rows U c, length rows <= c -> mk_table rows U c = U c.
Proof.
  intros. unfold mk_table. destruct (nth_error rows c) eqn:E; [|reflexivity].
  assert (c < length rows) by (apply nth_error_Some; congruence).
  exfalso. apply (Nat.lt_irrefl c). eapply Nat.lt_le_trans; eassumption.
Qed.

Lemma lookup_builtin : forall rows U c r n, nth_error rows c = Some r ->
  lookup (mk_table rows U) c n = option_map (entry_of (length rows) U) (find_entry r n).
Proof.
  intros. unfold lookup. rewrite (mk_table_builtin _ _ _ _ H). simpl.
  rewrite (mk_table_builtin _ _ _ _ H). simpl.
  destruct (option_map (entry_of (length rows) U) (find_entry r n)); reflexivity.
Qed.

Lemma getattr_builtin : forall rows U c r n, nth_error rows c = Some r ->
  getattr (mk_table rows U) c n = option_map (entry_of (length rows) U) (find_entry r n).
Proof.
  intros. unfold getattr.
  assert (E : inst_chain (mk_table rows U) (ci_look (mk_table rows U c)) = []).
  { rewrite (mk_table_builtin _ _ _ _ H). simpl. rewrite (mk_table_builtin _ _ _ _ H). reflexivity. }
  rewrite E. simpl. apply lookup_builtin. exact H.
Qed.

Lemma succ_builtin_indep : forall rows U U' l r n, l < length rows -> r < length rows ->
  succ (mk_table rows U) l r n = succ (mk_table rows U') l r n.
Proof.
  intros rows U U' l r n H Hr. destruct (nth_error_heads _ _ H) as [row E].
  unfold succ, try_call1. rewrite (lookup_builtin _ U _ _ _ E), (lookup_builtin _ U' _ _ _ E).
  destruct (find_entry row n) as [b|]; [|reflexivity]. simpl.
  apply Nat.ltb_lt in Hr. rewrite Hr. reflexivity.
Qed.

Lemma binop_py_builtin_indep : forall rows U U' x n y, x < length rows -> y < length rows ->
  is_err (binop_py (mk_table rows U) x n y) = is_err (binop_py (mk_table rows U') x n y).
Proof.
  intros. rewrite !binop_py_err.
  rewrite (succ_builtin_indep rows U U' x y n H H0).
  destruct (rname n) as [r|]; [rewrite (succ_builtin_indep rows U U' y x r H0 H)|]; reflexivity.
Qed.

Lemma binop_c_builtin_indep : forall rows U U' x n y, x < length rows -> y < length rows ->
  is_err (binop_c (mk_table rows U) x n y) = is_err (binop_c (mk_table rows U') x n y).
Proof.
  intros. rewrite !binop_c_err.
  rewrite (succ_builtin_indep rows U U' x y n H H0).
  destruct (rname n) as [r|]; [rewrite (succ_builtin_indep rows U U' y x r H0 H)|]; reflexivity.
Qed.

(* ------------------------------------------------------------------------------------------ *)
(* reflection of the closed booleans *)

Lemma in_heads : forall (rows : list brow) c, c < length rows -> In c (heads rows).
Proof. intros. unfold heads. apply in_seq. split; [apply Nat.le_0_l|exact H]. Qed.

Lemma find_entry_some : forall r n b, find_entry r n = Some b -> In b (br_entries r) /\ be_name b = n.
Proof.
  intros r n b H. unfold find_entry in H. apply find_some in H. destruct H as [H1 H2].
  split; [exact H1|]. apply Nat.eqb_eq. exact H2.
Qed.

Lemma bentry_le_sound : forall nb UR UT a br bt, bentry_le nb br bt = true -> arg_ok nb UR UT a ->
  entry_le_for a (entry_of nb UR br) (entry_of nb UT bt).
Proof.
  intros nb UR UT a br bt H Hok. unfold bentry_le in H.
  apply andb_prop in H. destruct H as [H H3]. apply andb_prop in H. destruct H as [H1 H2].
  split; simpl.
  - intros E. rewrite E in H1. exact H1.
  - intros Ha. destruct (a <? nb) eqn:L.
    + apply Nat.ltb_lt in L. rewrite forallb_forall in H2.
      specialize (H2 a). rewrite Ha in H2. apply H2. apply in_seq. split; [apply Nat.le_0_l|exact L].
    + apply Nat.ltb_ge in L. apply (uacc_le_sound nb UR UT a _ _ L Hok H3 Ha).
Qed.

(* ------------------------------------------------------------------------------------------ *)
(* lookups of user classes under user_rel *)

Section Sim.
  Variables rowsT rowsR : list brow.
  Variables UT UR : table.
  Let nb := length rowsT.
  Let T := mk_table rowsT UT.
  Let R := mk_table rowsR UR.
  Hypothesis Hlen : length rowsT = length rowsR.
  Hypothesis Hpos : 0 < length rowsT.

  Lemma own_row0 : forall a n,
    arg_ok nb UR UT a ->
    obj_faithful rowsT rowsR = true ->
    forall er, ci_own (R 0) n = Some er -> exists et, ci_own (T 0) n = Some et /\ entry_le_for a er et.
  Proof.
    intros a n Hok Hobj er Her. unfold obj_faithful in Hobj.
    destruct (nth_error rowsT 0) as [rt|] eqn:ET; [|discriminate].
    destruct (nth_error rowsR 0) as [rr|] eqn:ER; [|discriminate].
    unfold R in Her. rewrite (mk_table_builtin _ _ _ _ ER) in Her. simpl in Her.
    destruct (find_entry rr n) as [br|] eqn:F; [|discriminate]. simpl in Her. inversion Her; subst er.
    destruct (find_entry_some _ _ _ F) as [Hin Hn].
    rewrite forallb_forall in Hobj. specialize (Hobj br Hin). rewrite Hn in Hobj.
    destruct (find_entry rt n) as [bt|] eqn:FT; [|discriminate].
    exists (entry_of nb UT bt). split.
    - unfold T. rewrite (mk_table_builtin _ _ _ _ ET). simpl. rewrite FT. reflexivity.
    - rewrite <- Hlen. apply bentry_le_sound; assumption.
  Qed.

  Lemma own_row0_conv : forall n,
    obj_complete rowsT rowsR = true ->
    forall et, ci_own (T 0) n = Some et -> exists er, ci_own (R 0) n = Some er.
  Proof.
    intros n Hobj et Het. unfold obj_complete in Hobj.
    destruct (nth_error rowsT 0) as [rt|] eqn:ET; [|discriminate].
    destruct (nth_error rowsR 0) as [rr|] eqn:ER; [|discriminate].
    unfold T in Het. rewrite (mk_table_builtin _ _ _ _ ET) in Het. simpl in Het.
    destruct (find_entry rt n) as [bt|] eqn:F; [|discriminate].
    destruct (find_entry_some _ _ _ F) as [Hin Hn].
    rewrite forallb_forall in Hobj. specialize (Hobj bt Hin). rewrite Hn in Hobj.
    destruct (find_entry rr n) as [br|] eqn:FR; [|discriminate].
    exists (entry_of (length rowsR) UR br).
    unfold R. rewrite (mk_table_builtin _ _ _ _ ER). simpl. rewrite FR. reflexivity.
  Qed.

  Lemma user_row : forall k, nb <= k -> T k = UT k /\ R k = UR k.
  Proof.
    intros k Hk. split; [apply mk_table_user; exact Hk|].
    apply mk_table_user. rewrite <- Hlen. exact Hk.
  Qed.

  (* along a chain of user classes ending in object *)
  Lemma chain_sim : forall a us n,
    arg_ok nb UR UT a ->
    obj_faithful rowsT rowsR = true ->
    Forall (fun k => nb <= k) us ->
    (forall k, In k us -> own_sim UR UT k) ->
    forall er, lookup_chain R (us ++ [0]) n = Some er ->
    exists et, lookup_chain T (us ++ [0]) n = Some et /\ entry_le_for a er et.
  Proof.
    intros a us n Hok Hobj. induction us as [|k us IH]; intros Hall Hsim er Her.
    - simpl in *. destruct (ci_own (R 0) n) as [e|] eqn:E; [|discriminate].
      inversion Her; subst e. destruct (own_row0 a n Hok Hobj er E) as [et [E1 E2]].
      exists et. rewrite E1. split; [reflexivity|exact E2].
    - inversion Hall; subst. destruct (user_row k H1) as [TK RK].
      simpl in *. rewrite RK in Her. rewrite TK.
      pose proof (Hsim k (or_introl eq_refl) n) as S. unfold opt_sim in S.
      destruct (ci_own (UR k) n) as [e1|]; destruct (ci_own (UT k) n) as [e2|]; try contradiction.
      + inversion Her; subst e1. exists e2. split; [reflexivity|apply entry_le_for_of; exact S].
      + apply IH; [exact H2|intros k' Hk'; apply Hsim; right; exact Hk'|exact Her].
  Qed.

  Lemma chain_sim_conv : forall us n,
    obj_complete rowsT rowsR = true ->
    Forall (fun k => nb <= k) us ->
    (forall k, In k us -> own_sim UR UT k) ->
    forall et, lookup_chain T (us ++ [0]) n = Some et ->
    exists er, lookup_chain R (us ++ [0]) n = Some er.
  Proof.
    intros us n Hobj. induction us as [|k us IH]; intros Hall Hsim et Het.
    - simpl in *. destruct (ci_own (T 0) n) as [e|] eqn:E; [|discriminate].
      destruct (own_row0_conv n Hobj e E) as [er E1]. exists er. rewrite E1. reflexivity.
    - inversion Hall; subst. destruct (user_row k H1) as [TK RK].
      simpl in *. rewrite TK in Het. rewrite RK.
      pose proof (Hsim k (or_introl eq_refl) n) as S. unfold opt_sim in S.
      destruct (ci_own (UR k) n) as [e1|]; destruct (ci_own (UT k) n) as [e2|]; try contradiction.
      + exists e1. reflexivity.
      + apply IH with (et := et); [exact H2|intros k' Hk'; apply Hsim; right; exact Hk'|exact Het].
  Qed.

  Lemma inst_sim_chain : forall us n,
    Forall (fun k => nb <= k) us ->
    (forall k, In k us -> inst_sim UR UT k) ->
    opt_sim (assoc n (inst_chain R (us ++ [0]))) (assoc n (inst_chain T (us ++ [0]))).
  Proof.
    intros us n. induction us as [|k us IH]; intros Hall Hsim.
    - simpl. destruct (nth_error_heads rowsT 0 Hpos) as [rt ET].
      assert (Hpos' : 0 < length rowsR) by (rewrite <- Hlen; exact Hpos).
      destruct (nth_error_heads rowsR 0 Hpos') as [rr ER].
      unfold T, R. rewrite (mk_table_builtin _ _ _ _ ET), (mk_table_builtin _ _ _ _ ER). simpl. exact I.
    - inversion Hall; subst. destruct (user_row k H1) as [TK RK].
      simpl. rewrite TK, RK. pose proof (Hsim k (or_introl eq_refl)) as S. unfold inst_sim in S.
      destruct (ci_inst (UR k)) as [lr|]; destruct (ci_inst (UT k)) as [lt|]; try contradiction.
      + apply S.
      + apply IH; [exact H2|intros k' Hk'; apply Hsim; right; exact Hk'].
  Qed.

  Lemma user_chain : forall u, nb <= u -> user_ok nb UR UT u ->
    exists us, ci_look (R u) = us ++ [0] /\ ci_look (T u) = us ++ [0] /\
               Forall (fun k => nb <= k) us /\
               (forall k, In k us -> own_sim UR UT k) /\ (forall k, In k us -> inst_sim UR UT k).
  Proof.
    intros u Hu Hrel. destruct (Hrel Hu) as [Hl [[us [Hus Hall]] Hk]].
    destruct (user_row u Hu) as [TU RU].
    exists us. rewrite TU, RU, <- Hl, Hus. repeat split; try exact Hall.
    - intros k Hin. apply Hk; [rewrite Hus; apply in_or_app; left; exact Hin|].
      rewrite Forall_forall in Hall. apply Hall. exact Hin.
    - intros k Hin. apply Hk; [rewrite Hus; apply in_or_app; left; exact Hin|].
      rewrite Forall_forall in Hall. apply Hall. exact Hin.
  Qed.

  Lemma lookup_user_sim : forall a u n, nb <= u -> user_ok nb UR UT u -> arg_ok nb UR UT a ->
    obj_faithful rowsT rowsR = true ->
    forall er, lookup R u n = Some er -> exists et, lookup T u n = Some et /\ entry_le_for a er et.
  Proof.
    intros a u n Hu Hrel Hok Hobj er Her. destruct (user_chain u Hu Hrel) as [us [HR [HT [Hall [Hown _]]]]].
    unfold lookup in *. rewrite HR in Her. rewrite HT. apply chain_sim; assumption.
  Qed.

  Lemma lookup_user_conv : forall u n, nb <= u -> user_ok nb UR UT u -> obj_complete rowsT rowsR = true ->
    forall et, lookup T u n = Some et -> exists er, lookup R u n = Some er.
  Proof.
    intros u n Hu Hrel Hobj et Het. destruct (user_chain u Hu Hrel) as [us [HR [HT [Hall [Hown _]]]]].
    unfold lookup in *. rewrite HT in Het. rewrite HR. apply chain_sim_conv with (et := et); assumption.
  Qed.

  Lemma getattr_user_sim : forall a u n, nb <= u -> user_ok nb UR UT u -> arg_ok nb UR UT a ->
    obj_faithful rowsT rowsR = true ->
    forall er, getattr R u n = Some er -> exists et, getattr T u n = Some et /\ entry_le_for a er et.
  Proof.
    intros a u n Hu Hrel Hok Hobj er Her. destruct (user_chain u Hu Hrel) as [us [HR [HT [Hall [Hown Hinst]]]]].
    unfold getattr in *. rewrite HR in Her. rewrite HT.
    pose proof (inst_sim_chain us n Hall Hinst) as S. unfold opt_sim in S.
    destruct (assoc n (inst_chain R (us ++ [0]))) as [e1|];
      destruct (assoc n (inst_chain T (us ++ [0]))) as [e2|]; try contradiction.
    - inversion Her; subst e1. exists e2. split; [reflexivity|apply entry_le_for_of; exact S].
    - unfold lookup in *. rewrite HR in Her. rewrite HT. apply chain_sim; assumption.
  Qed.

  Lemma getattr_user_conv : forall u n, nb <= u -> user_ok nb UR UT u -> obj_complete rowsT rowsR = true ->
    forall et, getattr T u n = Some et -> exists er, getattr R u n = Some er.
  Proof.
    intros u n Hu Hrel Hobj et Het. destruct (user_chain u Hu Hrel) as [us [HR [HT [Hall [Hown Hinst]]]]].
    unfold getattr in *. rewrite HT in Het. rewrite HR.
    pose proof (inst_sim_chain us n Hall Hinst) as S. unfold opt_sim in S.
    destruct (assoc n (inst_chain R (us ++ [0]))) as [e1|];
      destruct (assoc n (inst_chain T (us ++ [0]))) as [e2|]; try contradiction.
    - exists e1. reflexivity.
    - unfold lookup in *. rewrite HT in Het. rewrite HR. apply chain_sim_conv with (et := et); assumption.
  Qed.

  (* success of one option transfers from the run-time table to the pytype table, unless both operands are
     builtin heads (that case is decided by pair_faithful) *)
  Lemma succ_transfer_user_left : forall l r n, nb <= l -> user_ok nb UR UT l -> arg_ok nb UR UT r ->
    obj_faithful rowsT rowsR = true ->
    succ R l r n = true -> succ T l r n = true.
  Proof.
    intros l r n Hl Hrel Hok Hobj H. unfold succ, try_call1 in *.
    destruct (lookup R l n) as [er|] eqn:E; [|discriminate].
    destruct (e_call1 er r) eqn:C; [|discriminate].
    destruct (lookup_user_sim r l n Hl Hrel Hok Hobj er E) as [et [E1 [_ E2]]].
    rewrite E1. rewrite (E2 C). reflexivity.
  Qed.

  Lemma succ_transfer_user_right : forall l r n, l < nb -> nb <= r -> arg_ok nb UR UT r ->
    In n dunder1_names ->
    excl_fp_bin l n nb = false ->
    ucol_faithful rowsT rowsR = true ->
    succ R l r n = true -> succ T l r n = true.
  Proof.
    intros l r n Hl Hr Hok Hn Hex Hu H.
    destruct (nth_error_heads rowsT l Hl) as [rt ET].
    assert (Hl' : l < length rowsR) by (rewrite <- Hlen; exact Hl).
    destruct (nth_error_heads rowsR l Hl') as [rr ER].
    unfold succ, try_call1 in *. unfold T, R in *.
    rewrite (lookup_builtin _ _ _ _ _ ER) in H. rewrite (lookup_builtin _ _ _ _ _ ET).
    unfold ucol_faithful in Hu. rewrite forallb_forall in Hu.
    specialize (Hu l (in_heads _ _ Hl)). rewrite forallb_forall in Hu. specialize (Hu n Hn).
    fold nb in Hu. rewrite Hex in Hu. rewrite orb_false_l in Hu.
    unfold uacc_of in Hu. rewrite ET, ER in Hu.
    destruct (find_entry rr n) as [br|]; [|discriminate]. simpl in H.
    assert (Lr : (r <? length rowsR) = false) by (apply Nat.ltb_ge; rewrite <- Hlen; exact Hr).
    rewrite Lr in H.
    destruct (uacc_ok (length rowsR) UR (be_uacc br) r) eqn:A; [|discriminate].
    destruct (find_entry rt n) as [bt|].
    - simpl. assert (Lt : (r <? length rowsT) = false) by (apply Nat.ltb_ge; exact Hr).
      rewrite Lt. rewrite <- Hlen in A.
      pose proof (uacc_le_sound nb UR UT r _ _ Hr Hok Hu A) as Q. unfold nb in Q. rewrite Q. reflexivity.
    - destruct (be_uacc br); simpl in *; discriminate.
  Qed.
End Sim.

(* ------------------------------------------------------------------------------------------ *)
(* main lemmas, for arbitrary builtin rows satisfying the closed booleans and arbitrary user parts *)

Lemma rname_dunder1 : forall n r, In n binop_names -> rname n = Some r -> In r dunder1_names.
Proof.
  intros n r Hn Hr. unfold binop_names in Hn. simpl in Hn.
  repeat (destruct Hn as [Hn|Hn]; [subst n; vm_compute in Hr; inversion Hr; subst r; vm_compute; tauto|]).
  contradiction.
Qed.

Lemma binop_dunder1 : forall n, In n binop_names -> In n dunder1_names.
Proof.
  intros n Hn. unfold binop_names in Hn. simpl in Hn.
  repeat (destruct Hn as [Hn|Hn]; [subst n; vm_compute; tauto|]). contradiction.
Qed.

Lemma rname_not_getitem : forall n r, rname n = Some r -> (r =? N_GETITEM) = false.
Proof.
  intros n r H. unfold rname in H. destruct ((n <? 24) && Nat.even n)%bool eqn:E; [|discriminate].
  inversion H; subst r. apply andb_prop in E. destruct E as [E E2]. apply Nat.ltb_lt in E.
  apply Nat.eqb_neq. unfold N_GETITEM. intros C. injection C as C. subst n. discriminate E2.
Qed.

Lemma reported_is_real_lemma : forall (rowsT rowsR : list brow) (UT UR : table) x n y,
  shape_ok rowsT rowsR = true -> pair_faithful rowsT rowsR = true ->
  ucol_faithful rowsT rowsR = true -> obj_faithful rowsT rowsR = true ->
  user_ok (length rowsT) UR UT x -> user_ok (length rowsT) UR UT y ->
  In n binop_names -> excl_fp_bin x n y = false ->
  binop_py (mk_table rowsT UT) x n y = Err -> binop_c (mk_table rowsR UR) x n y = Err.
Proof.
  intros rowsT rowsR UT UR x n y Hshape Hpair Hucol Hobj Hrx Hry Hn Hex Hpy.
  unfold shape_ok in Hshape. apply andb_prop in Hshape. destruct Hshape as [Hs _].
  apply andb_prop in Hs. destruct Hs as [Hlen Hpos].
  apply Nat.eqb_eq in Hlen. apply Nat.ltb_lt in Hpos.
  set (nb := length rowsT) in *.
  assert (Epy : is_err (binop_py (mk_table rowsT UT) x n y) = true) by (rewrite Hpy; reflexivity).
  assert (G : is_err (binop_c (mk_table rowsR UR) x n y) = true).
  2:{ destruct (binop_c (mk_table rowsR UR) x n y); try discriminate; reflexivity. }
  destruct (x <? nb) eqn:Lx; destruct (y <? nb) eqn:Ly.
  - (* both builtin: the finite check *)
    apply Nat.ltb_lt in Lx. apply Nat.ltb_lt in Ly.
    unfold pair_faithful in Hpair. rewrite forallb_forall in Hpair.
    specialize (Hpair x (in_heads _ _ Lx)). rewrite forallb_forall in Hpair.
    specialize (Hpair y (in_heads _ _ Ly)). rewrite forallb_forall in Hpair.
    specialize (Hpair n Hn). rewrite Hex in Hpair. simpl in Hpair.
    rewrite (binop_py_builtin_indep rowsT UT no_users x n y Lx Ly) in Epy.
    rewrite Epy in Hpair. simpl in Hpair.
    rewrite (binop_c_builtin_indep rowsR UR no_users x n y); [exact Hpair| |]; rewrite <- Hlen; assumption.
  - (* x builtin, y user *)
    apply Nat.ltb_lt in Lx. apply Nat.ltb_ge in Ly.
    rewrite binop_py_err in Epy. rewrite binop_c_err.
    apply andb_prop in Epy. destruct Epy as [_ Epy].
    assert (Hex' : excl_fp_bin x n nb = false) by exact Hex.
    assert (S1 : succ (mk_table rowsT UT) x y n = false -> succ (mk_table rowsR UR) x y n = false).
    { intros F. destruct (succ (mk_table rowsR UR) x y n) eqn:S; [|reflexivity].
      rewrite (succ_transfer_user_right rowsT rowsR UT UR Hlen x y n Lx Ly (user_ok_arg_ok _ _ _ _ Hry) (binop_dunder1 n Hn) Hex' Hucol S) in F.
      discriminate. }
    destruct (rname n) as [r|] eqn:Er.
    + apply andb_prop in Epy. destruct Epy as [E1 E2].
      apply negb_true_iff in E1. apply negb_true_iff in E2.
      rewrite (S1 E1). simpl.
      destruct (succ (mk_table rowsR UR) y x r) eqn:S; [|apply orb_true_r].
      rewrite (succ_transfer_user_left rowsT rowsR UT UR Hlen y x r Ly Hry (user_ok_arg_ok _ _ _ _ Hrx) Hobj S) in E2. discriminate.
    + apply negb_true_iff in Epy. rewrite (S1 Epy). reflexivity.
  - (* x user, y builtin *)
    apply Nat.ltb_ge in Lx. apply Nat.ltb_lt in Ly.
    rewrite binop_py_err in Epy. rewrite binop_c_err.
    apply andb_prop in Epy. destruct Epy as [_ Epy].
    assert (S1 : succ (mk_table rowsT UT) x y n = false -> succ (mk_table rowsR UR) x y n = false).
    { intros F. destruct (succ (mk_table rowsR UR) x y n) eqn:S; [|reflexivity].
      rewrite (succ_transfer_user_left rowsT rowsR UT UR Hlen x y n Lx Hrx (user_ok_arg_ok _ _ _ _ Hry) Hobj S) in F. discriminate. }
    destruct (rname n) as [r|] eqn:Er.
    + apply andb_prop in Epy. destruct Epy as [E1 E2].
      apply negb_true_iff in E1. apply negb_true_iff in E2.
      rewrite (S1 E1). simpl.
      destruct (succ (mk_table rowsR UR) y x r) eqn:S; [|apply orb_true_r].
      assert (Hexr : excl_fp_bin y r nb = false).
      { unfold excl_fp_bin. rewrite (rname_not_getitem n r Er). apply andb_false_r. }
      rewrite (succ_transfer_user_right rowsT rowsR UT UR Hlen y x r Ly Lx (user_ok_arg_ok _ _ _ _ Hrx) (rname_dunder1 n r Hn Er) Hexr Hucol S) in E2.
      discriminate.
    + apply negb_true_iff in Epy. rewrite (S1 Epy). reflexivity.
  - (* both user *)
    apply Nat.ltb_ge in Lx. apply Nat.ltb_ge in Ly.
    rewrite binop_py_err in Epy. rewrite binop_c_err.
    apply andb_prop in Epy. destruct Epy as [_ Epy].
    assert (S1 : forall l r m, nb <= l -> user_ok nb UR UT l -> user_ok nb UR UT r ->
                                succ (mk_table rowsT UT) l r m = false ->
                                succ (mk_table rowsR UR) l r m = false).
    { intros l r m Hl Hrl Hrr F. destruct (succ (mk_table rowsR UR) l r m) eqn:S; [|reflexivity].
      rewrite (succ_transfer_user_left rowsT rowsR UT UR Hlen l r m Hl Hrl (user_ok_arg_ok _ _ _ _ Hrr) Hobj S) in F.
      discriminate. }
    destruct (rname n) as [r|] eqn:Er.
    + apply andb_prop in Epy. destruct Epy as [E1 E2].
      apply negb_true_iff in E1. apply negb_true_iff in E2.
      rewrite (S1 x y n Lx Hrx Hry E1), (S1 y x r Ly Hry Hrx E2). simpl. apply orb_true_r.
    + apply negb_true_iff in Epy. rewrite (S1 x y n Lx Hrx Hry Epy). reflexivity.
Qed.

(* attribute access / method call / unary minus / call: pytype error => run-time error *)
Definition in_scope_fp (rowsR : list brow) (x : cls) (n : name) : bool :=
  (length rowsR <=? x) ||
  ((N_NEG <=? n) && negb (is_new n) && negb (excl_fp_mcall (rt_owner rowsR x n) n)).

Lemma builtin_entry_transfer : forall rowsT rowsR x n,
  length rowsT = length rowsR -> x < length rowsT ->
  unary_faithful rowsT rowsR = true ->
  (N_NEG <=? n) = true -> is_new n = false ->
  forall rr br, nth_error rowsR x = Some rr -> find_entry rr n = Some br ->
  exists rt, nth_error rowsT x = Some rt /\
    match find_entry rt n with
    | Some bt => excl_fp_mcall (be_owner br) n = true \/ (be_call0 br = true -> be_call0 bt = true)
    | None => excl_fp_attr (be_owner br) n = true
    end.
Proof.
  intros rowsT rowsR x n Hlen Hx Hun Hn Hnew rr br ER F.
  destruct (nth_error_heads rowsT x Hx) as [rt ET]. exists rt. split; [exact ET|].
  unfold unary_faithful in Hun. rewrite forallb_forall in Hun. specialize (Hun x (in_heads _ _ Hx)).
  rewrite ET, ER in Hun. rewrite forallb_forall in Hun.
  destruct (find_entry_some _ _ _ F) as [Hin Hnm]. specialize (Hun br Hin). rewrite Hnm in Hun.
  assert (Lt : (n <? N_NEG) = false) by (apply Nat.ltb_ge; apply Nat.leb_le; exact Hn).
  rewrite Lt, Hnew in Hun. simpl in Hun.
  destruct (find_entry rt n) as [bt|].
  - apply orb_prop in Hun. destruct Hun as [Hun|Hun]; [left; exact Hun|right].
    intros C. rewrite C in Hun. exact Hun.
  - exact Hun.
Qed.

Lemma unary_reported_is_real_lemma : forall (rowsT rowsR : list brow) (UT UR : table) x n,
  shape_ok rowsT rowsR = true -> unary_faithful rowsT rowsR = true -> obj_faithful rowsT rowsR = true ->
  user_ok (length rowsT) UR UT x ->
  in_scope_fp rowsR x n = true ->
  (attr (mk_table rowsT UT) x n = Err -> attr (mk_table rowsR UR) x n = Err) /\
  (mcall (mk_table rowsT UT) x n = Err -> mcall (mk_table rowsR UR) x n = Err) /\
  (call0 (mk_table rowsT UT) x n = Err -> call0 (mk_table rowsR UR) x n = Err).
Proof.
  intros rowsT rowsR UT UR x n Hshape Hun Hobj Hrel Hscope.
  unfold shape_ok in Hshape. apply andb_prop in Hshape. destruct Hshape as [Hs _].
  apply andb_prop in Hs. destruct Hs as [Hlen Hpos].
  apply Nat.eqb_eq in Hlen. apply Nat.ltb_lt in Hpos.
  destruct (x <? length rowsT) eqn:Lx.
  - (* builtin head *)
    apply Nat.ltb_lt in Lx.
    assert (Lx' : x < length rowsR) by (rewrite <- Hlen; exact Lx).
    unfold in_scope_fp in Hscope.
    assert (Lge : (length rowsR <=? x) = false) by (apply Nat.leb_gt; exact Lx').
    rewrite Lge in Hscope. simpl in Hscope. apply andb_prop in Hscope. destruct Hscope as [Hn Hexc].
    apply andb_prop in Hn. destruct Hn as [Hn Hnew]. apply negb_true_iff in Hnew.
    apply negb_true_iff in Hexc.
    destruct (nth_error_heads rowsR x Lx') as [rr ER].
    unfold attr, mcall, call0.
    rewrite (getattr_builtin _ UR _ _ n ER), (lookup_builtin _ UR _ _ n ER).
    destruct (find_entry rr n) as [br|] eqn:F; simpl.
    2:{ repeat split; reflexivity. }
    destruct (builtin_entry_transfer rowsT rowsR x n Hlen Lx Hun Hn Hnew rr br ER F) as [rt [ET HT]].
    rewrite (getattr_builtin _ UT _ _ n ET), (lookup_builtin _ UT _ _ n ET).
    unfold rt_owner in Hexc. rewrite ER, F in Hexc.
    destruct (find_entry rt n) as [bt|]; simpl.
    + destruct HT as [HT|HT]; [rewrite HT in Hexc; discriminate|].
      repeat split; try discriminate;
        destruct (be_call0 br) eqn:C; try reflexivity; rewrite (HT eq_refl); discriminate.
    + unfold excl_fp_mcall in Hexc. rewrite HT in Hexc. discriminate.
  - (* user class *)
    apply Nat.ltb_ge in Lx.
    set (T := mk_table rowsT UT). set (R := mk_table rowsR UR).
    assert (A0 : arg_ok (length rowsT) UR UT 0) by (intros C; exfalso; apply (Nat.lt_irrefl 0); eapply Nat.lt_le_trans; eassumption).
    assert (GA : forall er, getattr R x n = Some er -> exists et, getattr T x n = Some et /\ entry_le_for 0 er et)
      by (apply (getattr_user_sim rowsT rowsR UT UR Hlen Hpos 0 x n Lx Hrel A0 Hobj)).
    assert (LK : forall er, lookup R x n = Some er -> exists et, lookup T x n = Some et /\ entry_le_for 0 er et)
      by (apply (lookup_user_sim rowsT rowsR UT UR Hlen 0 x n Lx Hrel A0 Hobj)).
    unfold attr, mcall, call0. repeat split.
    + destruct (getattr R x n) as [er|]; [|reflexivity].
      destruct (GA er eq_refl) as [et [E _]]. rewrite E. discriminate.
    + destruct (getattr R x n) as [er|]; [|reflexivity].
      destruct (GA er eq_refl) as [et [E [E0 _]]]. rewrite E.
      destruct (e_call0 er); [rewrite (E0 eq_refl); discriminate|reflexivity].
    + destruct (lookup R x n) as [er|]; [|reflexivity].
      destruct (LK er eq_refl) as [et [E [E0 _]]]. rewrite E.
      destruct (e_call0 er); [rewrite (E0 eq_refl); discriminate|reflexivity].
Qed.

(* the advertised mistakes between builtin heads *)
Lemma mistake_caught_lemma : forall (rowsT rowsR : list brow) (UT UR : table) x n y,
  shape_ok rowsT rowsR = true -> pair_caught rowsT rowsR = true ->
  x < length rowsT -> y < length rowsT -> In n advertised_names -> excl_mc_bin x n y = false ->
  binop_c (mk_table rowsR UR) x n y = Err -> binop_py (mk_table rowsT UT) x n y = Err.
Proof.
  intros rowsT rowsR UT UR x n y Hshape Hpair Lx Ly Hn Hex Hc.
  unfold shape_ok in Hshape. apply andb_prop in Hshape. destruct Hshape as [Hs _].
  apply andb_prop in Hs. destruct Hs as [Hlen _]. apply Nat.eqb_eq in Hlen.
  assert (Ec : is_err (binop_c (mk_table rowsR UR) x n y) = true) by (rewrite Hc; reflexivity).
  assert (G : is_err (binop_py (mk_table rowsT UT) x n y) = true).
  2:{ destruct (binop_py (mk_table rowsT UT) x n y); try discriminate; reflexivity. }
  unfold pair_caught in Hpair. rewrite forallb_forall in Hpair.
  specialize (Hpair x (in_heads _ _ Lx)). rewrite forallb_forall in Hpair.
  specialize (Hpair y (in_heads _ _ Ly)). rewrite forallb_forall in Hpair.
  specialize (Hpair n Hn). rewrite Hex in Hpair. simpl in Hpair.
  rewrite (binop_c_builtin_indep rowsR UR no_users x n y) in Ec; [| rewrite <- Hlen; assumption ..].
  rewrite Ec in Hpair. simpl in Hpair.
  rewrite (binop_py_builtin_indep rowsT UT no_users x n y Lx Ly). exact Hpair.
Qed.

(* missing attribute / method, non-callable: run-time error => pytype error *)
Lemma presence_caught_lemma : forall (rowsT rowsR : list brow) (UT UR : table) x n,
  shape_ok rowsT rowsR = true -> presence_caught rowsT rowsR = true -> obj_complete rowsT rowsR = true ->
  user_ok (length rowsT) UR UT x ->
  (length rowsT <=? x) || ((N_NEG <=? n) && negb (is_new n)) = true ->
  (attr (mk_table rowsR UR) x n = Err -> attr (mk_table rowsT UT) x n = Err) /\
  (getattr (mk_table rowsR UR) x n = None -> mcall (mk_table rowsT UT) x n = Err) /\
  (lookup (mk_table rowsR UR) x n = None -> call0 (mk_table rowsT UT) x n = Err).
Proof.
  intros rowsT rowsR UT UR x n Hshape Hpres Hobj Hrel Hscope.
  unfold shape_ok in Hshape. apply andb_prop in Hshape. destruct Hshape as [Hs _].
  apply andb_prop in Hs. destruct Hs as [Hlen Hpos].
  apply Nat.eqb_eq in Hlen. apply Nat.ltb_lt in Hpos.
  destruct (x <? length rowsT) eqn:Lx.
  - apply Nat.ltb_lt in Lx.
    assert (Lx' : x < length rowsR) by (rewrite <- Hlen; exact Lx).
    assert (Lge : (length rowsT <=? x) = false) by (apply Nat.leb_gt; exact Lx).
    rewrite Lge in Hscope. rewrite orb_false_l in Hscope.
    apply andb_prop in Hscope. destruct Hscope as [Hscope Hnew]. apply negb_true_iff in Hnew.
    assert (Lt : (n <? N_NEG) = false) by (apply Nat.ltb_ge; apply Nat.leb_le; exact Hscope).
    destruct (nth_error_heads rowsT x Lx) as [rt ET]. destruct (nth_error_heads rowsR x Lx') as [rr ER].
    unfold presence_caught in Hpres. rewrite forallb_forall in Hpres. specialize (Hpres x (in_heads _ _ Lx)).
    rewrite ET, ER in Hpres. rewrite forallb_forall in Hpres.
    unfold attr, mcall, call0.
    rewrite (getattr_builtin _ UR _ _ n ER), (lookup_builtin _ UR _ _ n ER).
    rewrite (getattr_builtin _ UT _ _ n ET), (lookup_builtin _ UT _ _ n ET).
    destruct (find_entry rt n) as [bt|] eqn:F.
    2:{ simpl. repeat split; reflexivity. }
    destruct (find_entry_some _ _ _ F) as [Hin Hnm]. specialize (Hpres bt Hin). rewrite Hnm in Hpres.
    rewrite Lt, Hnew in Hpres. simpl in Hpres.
    destruct (find_entry rr n) as [br|] eqn:FR; [|discriminate]. simpl.
    repeat split; discriminate.
  - apply Nat.ltb_ge in Lx.
    set (T := mk_table rowsT UT). set (R := mk_table rowsR UR).
    assert (GA : forall et, getattr T x n = Some et -> exists er, getattr R x n = Some er)
      by (apply (getattr_user_conv rowsT rowsR UT UR Hlen Hpos x n Lx Hrel Hobj)).
    assert (LK : forall et, lookup T x n = Some et -> exists er, lookup R x n = Some er)
      by (apply (lookup_user_conv rowsT rowsR UT UR Hlen x n Lx Hrel Hobj)).
    unfold attr, mcall, call0. repeat split.
    + destruct (getattr T x n) as [et|]; [|reflexivity].
      destruct (GA et eq_refl) as [er E]. rewrite E. discriminate.
    + intros N. destruct (getattr T x n) as [et|]; [|reflexivity].
      destruct (GA et eq_refl) as [er E]. rewrite E in N. discriminate.
    + intros N. destruct (lookup T x n) as [et|]; [|reflexivity].
      destruct (LK et eq_refl) as [er E]. rewrite E in N. discriminate.
Qed.

(* unary minus on a builtin head *)
Lemma neg_caught_lemma : forall (rowsT rowsR : list brow) (UT UR : table) x,
  shape_ok rowsT rowsR = true -> presence_caught rowsT rowsR = true ->
  x < length rowsT ->
  neg (mk_table rowsR UR) x = Err -> neg (mk_table rowsT UT) x = Err.
Proof.
  intros rowsT rowsR UT UR x Hshape Hpres Lx.
  unfold shape_ok in Hshape. apply andb_prop in Hshape. destruct Hshape as [Hs _].
  apply andb_prop in Hs. destruct Hs as [Hlen _]. apply Nat.eqb_eq in Hlen.
  assert (Lx' : x < length rowsR) by (rewrite <- Hlen; exact Lx).
  destruct (nth_error_heads rowsT x Lx) as [rt ET]. destruct (nth_error_heads rowsR x Lx') as [rr ER].
  unfold presence_caught in Hpres. rewrite forallb_forall in Hpres. specialize (Hpres x (in_heads _ _ Lx)).
  rewrite ET, ER in Hpres. rewrite forallb_forall in Hpres.
  unfold neg, call0.
  rewrite (lookup_builtin _ UR _ _ N_NEG ER), (lookup_builtin _ UT _ _ N_NEG ET).
  destruct (find_entry rt N_NEG) as [bt|] eqn:F; [|reflexivity].
  destruct (find_entry_some _ _ _ F) as [Hin Hnm]. specialize (Hpres bt Hin). rewrite Hnm in Hpres.
  change (N_NEG <? N_NEG) with false in Hpres. change (is_new N_NEG) with false in Hpres. rewrite !orb_false_l in Hpres.
  destruct (find_entry rr N_NEG) as [br|] eqn:FR; [|discriminate].
  change (negb (N_NEG =? N_NEG)) with false in Hpres. rewrite orb_false_l in Hpres.
  simpl. destruct (be_call0 bt); [|reflexivity]. simpl in Hpres. rewrite Hpres. discriminate.
Qed.

