(* C14 model: operator / subscript / attribute / call dispatch on GROUND operands.

   pytype side  (binop_py, overrides):  pytype/vm_utils.py  _call_binop_on_bindings, _overrides,
       call_binary_operator (incl. the `__or__` -> typing.Union fallback, _maybe_union);
       pytype/vm.py byte_BINARY_OP / byte_BINARY_SUBSCR (= binary_operator "__getitem__"),
       unary_operator (= _call: load_attr + call), byte_LOAD_ATTR (load_attr), byte_CALL;
       pytype/attribute.py _get_attribute (instance members first, then the class MRO).
   CPython side (binop_c, overloaded):   Objects/abstract.c binary_op1 + Objects/typeobject.c
       SLOT1BINFULL / method_is_overloaded, read at the level of the data model ("the reflected method of
       the right operand is tried when the operand types differ; first if the right operand's type is a
       proper subclass that provides a different implementation"), object.__getattribute__.

   A class table maps a class id to its linearisation, its lookup chain and its own definitions.  Rows of
   builtin value heads are REGENERATED on every run (coq/Generated/C14_Builtins.v): they are flattened (the
   row already contains what the class inherits, each entry remembering the class that defines it), so their
   lookup chain is the class itself; rows of generated user classes are walked along the MRO by the model.

   This file contains definitions only (no proofs). *)
From Coq Require Import List Bool PeanoNat.
Import ListNotations.

Definition cls := nat.
Definition name := nat.

(* ---- name ids (harness/props/c14_gen.py FIXED_NAMES): binary operator i: forward 2i, reflected 2i+1 ---- *)
Definition N_ADD := 0.  Definition N_SUB := 2.  Definition N_MUL := 4.  Definition N_TRUEDIV := 6.
Definition N_OR := 20.
Definition N_GETITEM := 24.
Definition N_NEG := 25.
Definition N_CALL := 26.
Definition N_INIT := 27.
Definition N_AS_INTEGER_RATIO := 28.
Definition N_TO_BYTES := 29.
(* C14x extension (model in Ops/Ext.v): 30..35 __lt__ __le__ __gt__ __ge__ __eq__ __ne__, 36 __contains__,
   37+i the in-place dunder of binary operator i, 49 __pos__, 50 __invert__, 51 __bool__, 52 __len__, 53 __iter__,
   54 __setitem__, 55 __delitem__.
   They are dunders, not attribute names: the attribute / method-call statements of this file skip them. *)
Definition N_NEW := 30.
Definition N_NEW_END := 56.
Definition is_new (n : name) : bool := (N_NEW <=? n) && (n <? N_NEW_END).

(* slots.REVERSE_NAME_MAPPING: __add__ -> __radd__ ...; __getitem__ has no reverse *)
Definition rname (n : name) : option name :=
  if (n <? 24) && Nat.even n then Some (S n) else None.

(* the 12 binary operators + - * / // % ** << >> & | ^  and the subscript *)
Definition binop_names : list name := [0; 2; 4; 6; 8; 10; 12; 14; 16; 18; 20; 22; 24].
(* every dunder that takes one argument: forward, reflected, __getitem__ *)
Definition dunder1_names : list name := seq 0 25.
(* the mistakes pytype advertises: + - * /  and subscript *)
Definition advertised_names : list name := [0; 2; 4; 6; 24].

(* ---- builtin head ids (harness/props/c14_gen.py HEADS) ---- *)
Definition C_OBJECT := 0.  Definition C_INT := 1.  Definition C_BOOL := 2.  Definition C_FLOAT := 3.
Definition C_COMPLEX := 4. Definition C_STR := 5.  Definition C_BYTES := 6. Definition C_NONE := 7.
Definition C_LIST := 8.    Definition C_TUPLE := 9. Definition C_DICT := 10. Definition C_SET := 11.
Definition C_FROZENSET := 12. Definition C_FUNCTION := 13.

(* ---- class tables ---- *)
(* what one definition (method or attribute value) does when called: with no argument / with one argument of
   class a.  pytype side: "the call is accepted" (stub signature matched, or any unannotated user def);
   run-time side: "neither NotImplemented nor TypeError". *)
Record entry := mk_entry { e_owner : cls; e_call0 : bool; e_call1 : cls -> bool }.

Record clsinfo := mk_cls {
  ci_mro : list cls;                           (* linearisation, the class itself first *)
  ci_look : list cls;                          (* lookup chain: the MRO for user classes, [c] for flattened rows *)
  ci_own : name -> option entry;               (* definitions in this row *)
  ci_inst : option (list (name * entry))       (* Some l: the class body defines __init__, which assigns l *)
}.

Definition table := cls -> clsinfo.

(* OkPlain: a value that no dunder produced (a natively computed comparison, the default ==/!=, `not x`) *)
Inductive res := Err | Ok (owner : cls) (n : name) | OkUnion | OkPlain.

Definition is_err (r : res) : bool := match r with Err => true | _ => false end.

Fixpoint assoc {A} (n : name) (l : list (name * A)) : option A :=
  match l with
  | [] => None
  | (k, v) :: t => if k =? n then Some v else assoc n t
  end.

(* attribute._lookup_from_mro / CPython _PyType_Lookup *)
Fixpoint lookup_chain (T : table) (chain : list cls) (n : name) : option entry :=
  match chain with
  | [] => None
  | k :: rest => match ci_own (T k) n with
                 | Some e => Some e
                 | None => lookup_chain T rest n
                 end
  end.

Definition lookup (T : table) (c : cls) (n : name) : option entry := lookup_chain T (ci_look (T c)) n.

(* the instance attributes: assigned by the first __init__ found on the MRO *)
Fixpoint inst_chain (T : table) (chain : list cls) : list (name * entry) :=
  match chain with
  | [] => []
  | k :: rest => match ci_inst (T k) with
                 | Some l => l
                 | None => inst_chain T rest
                 end
  end.

(* attribute._get_attribute: instance members first, then the class; object.__getattribute__ likewise
   (data descriptors are outside the grammar) *)
Definition getattr (T : table) (c : cls) (n : name) : option entry :=
  match assoc n (inst_chain T (ci_look (T c))) with
  | Some e => Some e
  | None => lookup T c n
  end.

(* one option of _call_binop_on_bindings: get_attribute on the left operand, then call_function with the right
   operand; None = attribute missing or FailedFunctionCall (resp. missing / NotImplemented / TypeError) *)
Definition try_call1 (T : table) (l r : cls) (n : name) : option res :=
  match lookup T l n with
  | Some e => if e_call1 e r then Some (Ok (e_owner e) n) else None
  | None => None
  end.

Fixpoint first_ok (l : list (option res)) : res :=
  match l with
  | [] => Err
  | Some r :: _ => r
  | None :: t => first_ok t
  end.

Fixpoint before (sup : cls) (mro : list cls) : list cls :=
  match mro with
  | [] => []
  | k :: t => if k =? sup then [] else k :: before sup t
  end.

Definition defines (T : table) (k : cls) (n : name) : bool :=
  match ci_own (T k) n with
  | Some e => e_owner e =? k
  | None => false
  end.

(* vm_utils._overrides(subcls, supercls, attr): supercls in subcls.mro and a class before it defines attr *)
Definition overrides (T : table) (sub sup : cls) (n : name) : bool :=
  existsb (Nat.eqb sup) (ci_mro (T sub)) &&
  existsb (fun k => defines T k n) (before sup (ci_mro (T sub))).

(* vm_utils._call_binop_on_bindings + call_binary_operator on two ground bindings *)
Definition binop_py (T : table) (x : cls) (n : name) (y : cls) : res :=
  let r0 :=
    match rname n with
    | Some r =>
        if overrides T y x r
        then first_ok [try_call1 T y x r; try_call1 T x y n]      (* options.reverse() *)
        else first_ok [try_call1 T x y n; try_call1 T y x r]
    | None => first_ok [try_call1 T x y n]
    end in
  (* python >= 3.10: a failing `|` whose operands are both valid annotations is a typing.Union;
     the only ground value that is a valid annotation is None *)
  if is_err r0 && (n =? N_OR) && (x =? C_NONE) && (y =? C_NONE) then OkUnion else r0.

(* typeobject.c method_is_overloaded(left, right, rop): right's type looks rop up to something else than left's *)
Definition overloaded (R : table) (sub sup : cls) (n : name) : bool :=
  match lookup R sub n with
  | None => false
  | Some es => match lookup R sup n with
               | None => true
               | Some ep => negb (e_owner es =? e_owner ep)
               end
  end.

(* abstract.c binary_op1 / binary_op (+ sq_concat, sq_repeat, mp_subscript fall-backs, which the type exposes
   as the same dunders) *)
Definition binop_c (R : table) (x : cls) (n : name) (y : cls) : res :=
  match rname n with
  | None => first_ok [try_call1 R x y n]
  | Some r =>
      if x =? y then first_ok [try_call1 R x y n]                  (* same type: the reflected slot is skipped *)
      else if existsb (Nat.eqb x) (ci_mro (R y)) && overloaded R y x r
      then first_ok [try_call1 R y x r; try_call1 R x y n]         (* proper subclass overriding rop: first *)
      else first_ok [try_call1 R x y n; try_call1 R y x r]
  end.

(* -x : vm.unary_operator (_call "__neg__") / nb_negative;   x() : byte_CALL / tp_call.  Dunders of the
   generated classes are never assigned on instances, so both sides see the class-level definition. *)
Definition call0 (T : table) (x : cls) (n : name) : res :=
  match lookup T x n with
  | Some e => if e_call0 e then Ok (e_owner e) n else Err
  | None => Err
  end.

Definition neg (T : table) (x : cls) : res := call0 T x N_NEG.
Definition call (T : table) (x : cls) : res := call0 T x N_CALL.

(* x.n : vm.load_attr / PyObject_GetAttr *)
Definition attr (T : table) (x : cls) (n : name) : res :=
  match getattr T x n with
  | Some e => Ok (e_owner e) n
  | None => Err
  end.

(* x.n() *)
Definition mcall (T : table) (x : cls) (n : name) : res :=
  match getattr T x n with
  | Some e => if e_call0 e then Ok (e_owner e) n else Err
  | None => Err
  end.

(* ---- builtin rows as regenerated ---- *)
(* does a builtin dunder accept an instance of a USER class as its argument?  never / always (object, Any,
   unannotated) / when the class has one of the listed dunders (structural protocol: e.g. pytype matches a
   class with __getitem__ against Iterable; str.__mod__ treats it as a mapping at run time) *)
Inductive uacc := UNone | UAll | UHasAny (l : list name).

Record bentry := mk_bentry {
  be_name : name; be_owner : cls; be_call0 : bool;
  be_acc : list cls;            (* builtin heads accepted as the single argument *)
  be_uacc : uacc                (* user-class instances accepted as the single argument *)
}.
Record brow := mk_brow { br_mro : list cls; br_entries : list bentry }.

Definition mem (a : nat) (l : list nat) : bool := existsb (Nat.eqb a) l.

(* a user class of the chain of a defines n *)
Definition user_has (nb : nat) (U : table) (a : cls) (n : name) : bool :=
  existsb (fun k => (nb <=? k) && match ci_own (U k) n with Some _ => true | None => false end)
          (ci_look (U a)).

Definition uacc_ok (nb : nat) (U : table) (u : uacc) (a : cls) : bool :=
  match u with
  | UNone => false
  | UAll => true
  | UHasAny l => existsb (user_has nb U a) l
  end.

Definition entry_of (nb : nat) (U : table) (b : bentry) : entry :=
  mk_entry (be_owner b) (be_call0 b)
           (fun a => if a <? nb then mem a (be_acc b) else uacc_ok nb U (be_uacc b) a).

Definition find_entry (r : brow) (n : name) : option bentry :=
  find (fun b => be_name b =? n) (br_entries r).

Definition row_info (nb : nat) (U : table) (c : cls) (r : brow) : clsinfo :=
  mk_cls (br_mro r) [c] (fun n => option_map (entry_of nb U) (find_entry r n)) None.

(* builtin rows below length rows, user classes above *)
Definition mk_table (rows : list brow) (U : table) : table :=
  fun c => match nth_error rows c with
           | Some r => row_info (length rows) U c r
           | None => U c
           end.

Definition empty_cls : clsinfo := mk_cls [] [] (fun _ => None) None.
Definition no_users : table := fun _ => empty_cls.

(* ---- user rows as written by the harness ---- *)
Definition acc_all : cls -> bool := fun _ => true.
Definition acc_only (l : list cls) : cls -> bool := fun a => mem a l.

Definition user_cls (c : cls) (mro : list cls) (own : list (name * (bool * (cls -> bool))))
           (inst : option (list name)) : clsinfo :=
  mk_cls mro mro
         (fun n => option_map (fun p => mk_entry c (fst p) (snd p)) (assoc n own))
         (option_map (map (fun a => (a, mk_entry c false (fun _ => false)))) inst).

Definition user_table (nb : nat) (l : list clsinfo) : table := fun c => nth (c - nb) l empty_cls.

(* ---- statements (for the correspondence runner) ---- *)
Inductive stmt :=
| SBin (x : cls) (n : name) (y : cls)
| SNeg (x : cls)
| SCall (x : cls)
| SAttr (x : cls) (n : name)
| SMcall (x : cls) (n : name).

Definition run_py (T : table) (s : stmt) : res :=
  match s with
  | SBin x n y => binop_py T x n y
  | SNeg x => neg T x
  | SCall x => call T x
  | SAttr x n => attr T x n
  | SMcall x n => mcall T x n
  end.

Definition run_c (R : table) (s : stmt) : res :=
  match s with
  | SBin x n y => binop_c R x n y
  | SNeg x => neg R x
  | SCall x => call R x
  | SAttr x n => attr R x n
  | SMcall x n => mcall R x n
  end.

(* compact printing: 0 = Err, 1 = OkUnion, 2 = OkPlain, 3 + 256*owner + name *)
Definition code (r : res) : nat :=
  match r with Err => 0 | OkUnion => 1 | OkPlain => 2 | Ok o n => 3 + 256 * o + n end.

(* ---- closed obligations over the regenerated builtin rows ---- *)
(* Explicit exclusions: places where the regenerated tables of the UNCHANGED tree disagree; each is a listed
   finding reproduced by the oracle on real pytype vs CPython (see harness/props/c14.py FINDINGS). *)

(* no-false-positive direction *)
Definition excl_fp_bin (x : cls) (n : name) (y : cls) : bool :=
  (* F1: d[k] with k's class not the dict's key class: pytype unsupported-operands, CPython KeyError *)
  (x =? C_DICT) && (n =? N_GETITEM).
Definition excl_fp_attr (o : cls) (n : name) : bool :=
  (* F3: int.as_integer_ratio (3.8+) is missing from builtins.pytd *)
  (o =? C_INT) && (n =? N_AS_INTEGER_RATIO).
Definition excl_fp_mcall (o : cls) (n : name) : bool :=
  (* F2: int.to_bytes() has defaults since 3.11; the stub requires both arguments *)
  excl_fp_attr o n || ((o =? C_INT) && (n =? N_TO_BYTES)).

(* mistake-caught direction *)
Definition excl_mc_bin (x : cls) (n : name) (y : cls) : bool :=
  (* F4: set.__sub__(self, y: Iterable) accepts any iterable; CPython wants a set *)
  ((x =? C_SET) && (n =? N_SUB) && mem y [C_STR; C_BYTES; C_LIST; C_TUPLE; C_DICT]) ||
  (* F5: float defines __index__ in builtins.pytd, so list.__getitem__(SupportsIndex) accepts a float *)
  ((x =? C_LIST) && (n =? N_GETITEM) && (y =? C_FLOAT)).

Definition heads (rows : list brow) : list cls := seq 0 (length rows).

Definition row_names (r : brow) : list name := map be_name (br_entries r).

Definition rt_owner (rowsR : list brow) (c : cls) (n : name) : cls :=
  match nth_error rowsR c with
  | Some r => match find_entry r n with Some b => be_owner b | None => c end
  | None => c
  end.

(* every error of the pytype dispatch on two builtin heads is an error of the CPython dispatch *)
Definition pair_faithful (rowsT rowsR : list brow) : bool :=
  forallb (fun x => forallb (fun y => forallb (fun n =>
    excl_fp_bin x n y ||
    implb (is_err (binop_py (mk_table rowsT no_users) x n y))
          (is_err (binop_c (mk_table rowsR no_users) x n y)))
    binop_names) (heads rowsT)) (heads rowsT).

Definition uacc_of (rows : list brow) (c : cls) (n : name) : uacc :=
  match nth_error rows c with
  | Some r => match find_entry r n with Some b => be_uacc b | None => UNone end
  | None => UNone
  end.

Definition uacc_le (r t : uacc) : bool :=
  match r, t with
  | UNone, _ => true
  | _, UAll => true
  | UHasAny lr, UHasAny lt => forallb (fun n => mem n lt) lr
  | _, _ => false
  end.

(* a builtin dunder that accepts a user-class instance at run time also accepts it in the stub *)
Definition ucol_faithful (rowsT rowsR : list brow) : bool :=
  forallb (fun c => forallb (fun n =>
    excl_fp_bin c n (length rowsT) || uacc_le (uacc_of rowsR c n) (uacc_of rowsT c n))
    dunder1_names) (heads rowsT).

Definition bentry_le (nb : nat) (br bt : bentry) : bool :=
  implb (be_call0 br) (be_call0 bt) &&
  forallb (fun a => implb (mem a (be_acc br)) (mem a (be_acc bt))) (seq 0 nb) &&
  uacc_le (be_uacc br) (be_uacc bt).

(* object's row (the tail of every user lookup chain): whatever exists at run time exists, at least as
   permissive, in the stub *)
Definition obj_faithful (rowsT rowsR : list brow) : bool :=
  match nth_error rowsT 0, nth_error rowsR 0 with
  | Some rt, Some rr =>
      forallb (fun br => match find_entry rt (be_name br) with
                         | Some bt => bentry_le (length rowsT) br bt
                         | None => false
                         end) (br_entries rr)
  | _, _ => false
  end.

(* ... and the converse on presence (for missing_attr_caught on user instances) *)
Definition obj_complete (rowsT rowsR : list brow) : bool :=
  match nth_error rowsT 0, nth_error rowsR 0 with
  | Some rt, Some rr =>
      forallb (fun bt => match find_entry rr (be_name bt) with Some _ => true | None => false end)
              (br_entries rt)
  | _, _ => false
  end.

(* attribute / method call / unary minus / call on a builtin head: run-time success implies stub success *)
Definition unary_faithful (rowsT rowsR : list brow) : bool :=
  forallb (fun c =>
    match nth_error rowsT c, nth_error rowsR c with
    | Some rt, Some rr =>
        forallb (fun br =>
          let n := be_name br in
          (n <? N_NEG) ||                    (* dunders taking an argument: covered by pair_faithful *)
          is_new n ||                        (* the dunders of Ops/Ext.v: covered there *)
          match find_entry rt n with
          | Some bt => excl_fp_mcall (be_owner br) n || implb (be_call0 br) (be_call0 bt)
          | None => excl_fp_attr (be_owner br) n
          end) (br_entries rr)
    | _, _ => false
    end) (heads rowsT).

(* the advertised mistakes between builtin heads are caught *)
Definition pair_caught (rowsT rowsR : list brow) : bool :=
  forallb (fun x => forallb (fun y => forallb (fun n =>
    excl_mc_bin x n y ||
    implb (is_err (binop_c (mk_table rowsR no_users) x n y))
          (is_err (binop_py (mk_table rowsT no_users) x n y)))
    advertised_names) (heads rowsT)) (heads rowsT).

(* refl_closed: pytype tries the reflected dunder even when both operands have the same class, CPython does
   not; on the builtin heads that never turns a run-time error into a pytype success *)
Definition refl_closed (rowsT : list brow) : bool :=
  forallb (fun c => forallb (fun n =>
    match rname n with
    | Some r => implb (match try_call1 (mk_table rowsT no_users) c c r with Some _ => true | None => false end)
                      (match try_call1 (mk_table rowsT no_users) c c n with Some _ => true | None => false end)
    | None => true
    end) advertised_names) (heads rowsT).

(* presence: a name the stub row has exists at run time (missing attribute / method, non-callable, unary minus) *)
Definition presence_caught (rowsT rowsR : list brow) : bool :=
  forallb (fun c =>
    match nth_error rowsT c, nth_error rowsR c with
    | Some rt, Some rr =>
        forallb (fun bt => (be_name bt <? N_NEG) || is_new (be_name bt) ||
                           match find_entry rr (be_name bt) with
                           | Some br => (negb (be_name bt =? N_NEG)) || implb (be_call0 bt) (be_call0 br)
                           | None => false
                           end) (br_entries rt)
    | _, _ => false
    end) (heads rowsT).

Fixpoint list_eqb (a b : list nat) : bool :=
  match a, b with
  | [], [] => true
  | x :: a', y :: b' => (x =? y) && list_eqb a' b'
  | _, _ => false
  end.

(* both generators agree on the shape: same number of heads, same linearisation restricted to the heads *)
Definition shape_ok (rowsT rowsR : list brow) : bool :=
  (length rowsT =? length rowsR) && (0 <? length rowsT) &&
  forallb (fun c => match nth_error rowsT c, nth_error rowsR c with
                    | Some rt, Some rr => list_eqb (br_mro rt) (br_mro rr)
                    | _, _ => false
                    end) (heads rowsT).
