(* C14 model, extension: comparison operators, membership tests, in-place operators, the other unary operators,
   on GROUND operands.  Definitions only (no proofs).

   pytype side:
     cmp_py      vm.py _compare_op / _cmp_rel: compare.cmp_rel first (primitive constants and constant tuples are
                 compared NATIVELY by the host interpreter, CmpTypeError => unsupported-operands; the answers are
                 observed on the real VM and regenerated into native_tbl), otherwise
                 vm_utils.call_binary_operator "__lt__"... -- slots.REVERSE_NAME_MAPPING has NO entry for the
                 comparison dunders, so there is exactly one option: no reflected comparison; report_errors is
                 False for == and != and slots.CMP_ALWAYS_SUPPORTED gives them a bool whatever happens.
     in_py       vm.py _cmp_in: __contains__ if the attribute loads (call_binary_operator, one option), else
                 _get_iter: __iter__() if it loads, else __getitem__(int), else unsupported-operands.
     inplace_py  vm_utils.call_inplace_operator: if __iop__ loads it is called and a FailedFunctionCall is
                 REPORTED (no fall-back to the binary operator); only when it does not load: call_binary_operator.
     pos / invert   vm.unary_operator (= Model.call0);   not_py: byte_UNARY_NOT never calls anything.
   CPython side:
     cmp_c       object.c do_richcompare: reflected (swapped) comparison of the right operand first when its
                 type is a PROPER SUBCLASS of the left operand's (no "overrides" condition, unlike binary_op1);
                 otherwise forward then swapped -- also when both operands have the same type; == and != fall
                 back to identity.  (object.__ne__ delegating to __eq__ is not modelled: it cannot fail.)
     in_c        abstract.c PySequence_Contains: sq_contains (__contains__), else _PySequence_IterSearch:
                 tp_iter (__iter__) else the __getitem__ sequence protocol, else TypeError.
     inplace_c   abstract.c binary_iop1: the in-place slot; NotImplemented => binary_op1.  A builtin in-place slot
                 that RAISES TypeError ends the operation (rt_hard, observed: dict.__ior__); sequence in-place
                 slots (list += / *=) are tried after binary_op1, which is the same set of attempts.
     not_c       object.c PyObject_IsTrue: __bool__ (must return a bool), else __len__ (an int), else true. *)
From Coq Require Import List Bool PeanoNat.
From PV Require Import Ops.Model.
Import ListNotations.

Definition N_LT := 30.  Definition N_LE := 31.  Definition N_GT := 32.  Definition N_GE := 33.
Definition N_EQ := 34.  Definition N_NE := 35.
Definition N_CONTAINS := 36.
Definition N_IOP0 := 37.
Definition N_POS := 49. Definition N_INVERT := 50. Definition N_BOOL := 51. Definition N_LEN := 52.
Definition N_ITER := 53.
Definition N_SETITEM := 54. Definition N_DELITEM := 55.

Definition cmp_names : list name := [30; 31; 32; 33; 34; 35].
Definition ord_names : list name := [30; 31; 32; 33].
Definition is_eqne (n : name) : bool := (n =? N_EQ) || (n =? N_NE).
(* object.c _Py_SwappedOp *)
Definition swapped (n : name) : name :=
  if n =? N_LT then N_GT else if n =? N_LE then N_GE else if n =? N_GT then N_LT else if n =? N_GE then N_LE else n.

(* the 12 binary operators that have an in-place form; iname: __add__ -> __iadd__ ... *)
Definition arith_names : list name := [0; 2; 4; 6; 8; 10; 12; 14; 16; 18; 20; 22].
Definition iname (n : name) : name := N_IOP0 + Nat.div2 n.
Definition inplace_names : list name := seq 37 12.
(* every new dunder that takes one argument *)
Definition arg1_names : list name := seq 30 19 ++ [N_SETITEM; N_DELITEM].
Definition store_names : list name := [N_SETITEM; N_DELITEM].
Definition un_names : list name := [N_POS; N_INVERT].

(* ---- compare.cmp_rel, as observed ---- *)
Fixpoint native_find (l : list (cls * name * cls * bool)) (x : cls) (n : name) (y : cls) : option bool :=
  match l with
  | [] => None
  | (x', n', y', b) :: t => if (x' =? x) && (n' =? n) && (y' =? y) then Some b else native_find t x n y
  end.

(* an instance of a user class on the left is never answered natively; on the right it is one column (nb) *)
Definition native_of (l : list (cls * name * cls * bool)) (nb : nat) (x : cls) (n : name) (y : cls) : option bool :=
  if nb <=? x then None else native_find l x n (if nb <=? y then nb else y).

Definition no_err (r : res) : res := match r with Err => OkPlain | _ => r end.

Definition cmp_py (T : table) (native : cls -> name -> cls -> option bool) (x : cls) (n : name) (y : cls) : res :=
  match native x n y with
  | Some true => Err                                   (* CmpTypeError: unsupported_operands *)
  | Some false => OkPlain                              (* a bool, no dunder involved *)
  | None =>
      let r := first_ok [try_call1 T x y n] in         (* no reverse mapping for comparison dunders *)
      if is_eqne n then no_err r else r                (* report_errors=False, CMP_ALWAYS_SUPPORTED *)
  end.

Definition cmp_c (R : table) (x : cls) (n : name) (y : cls) : res :=
  let r := if negb (x =? y) && mem x (ci_mro (R y))
           then first_ok [try_call1 R y x (swapped n); try_call1 R x y n]
           else first_ok [try_call1 R x y n; try_call1 R y x (swapped n)] in
  if is_eqne n then no_err r else r.

(* ---- item in seq ---- *)
Definition in_disp (T : table) (item seq : cls) : res :=
  match lookup T seq N_CONTAINS with
  | Some e => if e_call1 e item then Ok (e_owner e) N_CONTAINS else Err
  | None =>
      match lookup T seq N_ITER with
      | Some e => if e_call0 e then Ok (e_owner e) N_ITER else Err
      | None => match lookup T seq N_GETITEM with
                | Some e => if e_call1 e C_INT then Ok (e_owner e) N_GETITEM else Err
                | None => Err
                end
      end
  end.
Definition in_py := in_disp.
Definition in_c := in_disp.

(* ---- x op= y   (n: the forward dunder of the binary operator) ---- *)
Definition inplace_py (T : table) (x : cls) (n : name) (y : cls) : res :=
  match lookup T x (iname n) with
  | Some e => if e_call1 e y then Ok (e_owner e) (iname n) else Err
  | None => binop_py T x n y
  end.

Definition hard_of (l : list (cls * name)) (x : cls) (n : name) : bool :=
  existsb (fun p => (fst p =? x) && (snd p =? n)) l.

Definition inplace_c (R : table) (hard : cls -> name -> bool) (x : cls) (n : name) (y : cls) : res :=
  match lookup R x (iname n) with
  | Some e => if e_call1 e y then Ok (e_owner e) (iname n)
              else if hard x (iname n) then Err else binop_c R x n y
  | None => binop_c R x n y
  end.

(* ---- +x  ~x  not x ---- *)
Definition not_py (T : table) (x : cls) : res := OkPlain.

Definition not_c (R : table) (x : cls) : res :=
  match lookup R x N_BOOL with
  | Some e => if e_call0 e then Ok (e_owner e) N_BOOL else Err
  | None => match lookup R x N_LEN with
            | Some e => if e_call0 e then Ok (e_owner e) N_LEN else Err
            | None => OkPlain
            end
  end.

(* ---- x[k] = v  (v an int literal),  del x[k]:  vm.store_subscr / _delete_item = _call "__setitem__" /
   "__delitem__" (load_attr + call);  abstract.c PyObject_SetItem / PyObject_DelItem: mp_ass_subscript, then
   sq_ass_item, which a class exposes as the same two dunders.  One option on both sides. ---- *)
Definition store_disp (T : table) (x : cls) (n : name) (k : cls) : res := first_ok [try_call1 T x k n].
Definition store_py := store_disp.
Definition store_c := store_disp.

(* ---- statements (for the correspondence runner) ---- *)
Inductive stmt2 :=
| SCmp (x : cls) (n : name) (y : cls)
| SIn (item seq : cls)
| SIop (x : cls) (n : name) (y : cls)
| SUn (x : cls) (n : name)
| SNot (x : cls)
| SStore (x : cls) (n : name) (k : cls).

Definition run_py2 (T : table) (native : cls -> name -> cls -> option bool) (s : stmt2) : res :=
  match s with
  | SCmp x n y => cmp_py T native x n y
  | SIn i q => in_py T i q
  | SIop x n y => inplace_py T x n y
  | SUn x n => call0 T x n
  | SNot x => not_py T x
  | SStore x n k => store_py T x n k
  end.

Definition run_c2 (R : table) (hard : cls -> name -> bool) (s : stmt2) : res :=
  match s with
  | SCmp x n y => cmp_c R x n y
  | SIn i q => in_c R i q
  | SIop x n y => inplace_c R hard x n y
  | SUn x n => call0 R x n
  | SNot x => not_c R x
  | SStore x n k => store_c R x n k
  end.

(* ---- closed obligations over the regenerated builtin rows ---- *)
(* builtin x builtin: the dispatchers themselves, on every pair of heads *)
Definition cmp_pair_faithful (rowsT rowsR : list brow) (ntbl : list (cls * name * cls * bool)) : bool :=
  forallb (fun x => forallb (fun y => forallb (fun n =>
    implb (is_err (cmp_py (mk_table rowsT no_users) (native_of ntbl (length rowsT)) x n y))
          (is_err (cmp_c (mk_table rowsR no_users) x n y)))
    cmp_names) (heads rowsT)) (heads rowsT).

(* F7: `d |= "a"`: the stub rejects a str, CPython raises ValueError (not a TypeError/AttributeError) *)
Definition excl_fp_iop (x : cls) (n : name) (y : cls) : bool :=
  (x =? C_DICT) && (n =? N_OR) && (y =? C_STR).

Definition iop_pair_faithful (rowsT rowsR : list brow) (hard : list (cls * name)) : bool :=
  forallb (fun x => forallb (fun y => forallb (fun n =>
    excl_fp_iop x n y ||
    implb (is_err (inplace_py (mk_table rowsT no_users) x n y))
          (is_err (inplace_c (mk_table rowsR no_users) (hard_of hard) x n y)))
    arith_names) (heads rowsT)) (heads rowsT).

Definition in_pair_faithful (rowsT rowsR : list brow) : bool :=
  forallb (fun q => forallb (fun i =>
    implb (is_err (in_py (mk_table rowsT no_users) i q)) (is_err (in_c (mk_table rowsR no_users) i q)))
    (heads rowsT)) (heads rowsT).

(* F12: `del d[k]` with k's class not the dict's key class: the stub's dict.__delitem__(self, y: _K) rejects the
   key, CPython raises KeyError (not a TypeError/AttributeError) -- the deletion twin of F1 *)
Definition excl_fp_store (x : cls) (n : name) : bool := (x =? C_DICT) && (n =? N_DELITEM).

Definition store_pair_faithful (rowsT rowsR : list brow) : bool :=
  forallb (fun x => forallb (fun k => forallb (fun n =>
    excl_fp_store x n ||
    implb (is_err (store_py (mk_table rowsT no_users) x n k)) (is_err (store_c (mk_table rowsR no_users) x n k)))
    store_names) (heads rowsT)) (heads rowsT).

Definition un_faithful (rowsT rowsR : list brow) : bool :=
  forallb (fun x => forallb (fun n =>
    implb (is_err (call0 (mk_table rowsT no_users) x n)) (is_err (call0 (mk_table rowsR no_users) x n)))
    un_names) (heads rowsT).

(* builtin x user: a new one-argument dunder of a builtin head that accepts a user-class instance at run time
   also accepts it in the stub (absent entry = UNone) *)
Definition ucol2_faithful (rowsT rowsR : list brow) : bool :=
  forallb (fun c => forallb (fun n => excl_fp_store c n || uacc_le (uacc_of rowsR c n) (uacc_of rowsT c n))
                            arg1_names) (heads rowsT).

(* no comparison dunder of a builtin head answers a user-class instance at run time (they return NotImplemented) *)
Definition rt_cmp_rejects_users (rowsR : list brow) : bool :=
  forallb (fun c => forallb (fun n => match uacc_of rowsR c n with UNone => true | _ => false end) cmp_names)
          (heads rowsR).

(* every comparison dunder the stubs give a builtin head (in fact object's) accepts an instance of any user class *)
Definition py_cmp_accepts_users (rowsT : list brow) : bool :=
  forallb (fun c => forallb (fun n => match uacc_of rowsT c n with UAll => true | _ => false end) cmp_names)
          (heads rowsT).

(* compare.cmp_rel never raises when the right operand is an instance of a user class *)
Definition native_user_ok (ntbl : list (cls * name * cls * bool)) (nb : nat) : bool :=
  forallb (fun p => match p with (_, _, y, b) => negb ((nb <=? y) && b) end) ntbl.

Definition has_entry (rows : list brow) (c : cls) (n : name) : bool :=
  match nth_error rows c with
  | Some r => match find_entry r n with Some _ => true | None => false end
  | None => false
  end.

(* __contains__ is present in the stub row of a head iff it is present at run time *)
Definition contains_presence (rowsT rowsR : list brow) : bool :=
  forallb (fun c => Bool.eqb (has_entry rowsT c N_CONTAINS) (has_entry rowsR c N_CONTAINS)) (heads rowsT).
