(* C14d: the closed obligation over this run's REGENERATED builtin rows (vm_compute), and the derived-class lemma
   instantiated on them. *)
From Coq Require Import List Bool PeanoNat.
From PV Require Import Ops.Model Generated.C14_Builtins Ops.Proofs Ops.Closed Ops.Derived Ops.DerivedProofs.
Import ListNotations.

Lemma dpair_faithful_holds : dpair_faithful py_rows rt_rows = true.
Proof. vm_compute. reflexivity. Qed.

Definition PYD (UT : table) : table := mk_table_d py_rows UT.
Definition RTD (UR : table) : table := mk_table_d rt_rows UR.
Definition derived_class_ok (UR UT : table) (u : cls) : Prop := derived_ok c14_nb UR UT u.

Lemma derived_reported_is_real_inst : forall (UT UR : table) x n y,
  py_total UT -> derived_class_ok UR UT x -> derived_class_ok UR UT y ->
  In n binop_names -> excl_fp_bin (dbase c14_nb UT x) n (dbase c14_nb UT y) = false ->
  binop_py (PYD UT) x n y = Err -> binop_c (RTD UR) x n y = Err.
Proof.
  intros UT UR x n y Ht Hx Hy. unfold derived_class_ok in *. rewrite <- nb_is in *.
  apply derived_reported_is_real_lemma; auto using shape_ok_holds, dpair_faithful_holds, ucol_faithful_holds.
Qed.

Lemma own_sim_refl : forall U k, own_sim U U k.
Proof.
  intros U k n. unfold opt_sim. destruct (ci_own (U k) n); [|exact I]. split; auto.
Qed.
