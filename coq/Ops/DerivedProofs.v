(* C14d lemmas: binary operators / subscript on operands that are builtin values or instances of user classes
   DERIVING FROM a builtin head, for arbitrary builtin rows and arbitrary user parts. *)
From Coq Require Import List Bool PeanoNat Lia.
From PV Require Import Ops.Model Ops.Proofs Ops.Derived.
Import ListNotations.

(* u is a class whose lookup chain is  us ++ [B]:  user classes, then the builtin head B (not object) *)
Definition dshape (nb : nat) (U : table) (u : cls) (us : list cls) (B : cls) : Prop :=
  ci_look (U u) = us ++ [B] /\ Forall (fun k => nb <= k) us /\ 0 < B /\ B < nb.

(* same class definition on both sides; run-time behaviour of a user definition at most as permissive as pytype's *)
Definition derived_ok (nb : nat) (UR UT : table) (u : cls) : Prop :=
  nb <= u -> exists us B, dshape nb UR u us B /\ dshape nb UT u us B /\ (forall k, In k us -> own_sim UR UT k).

(* every dunder written in a user class is an unannotated def: pytype accepts any argument *)
Definition py_total (UT : table) : Prop :=
  forall k n e a, ci_own (UT k) n = Some e -> e_call1 e a = true.

Definition dbase (nb : nat) (U : table) (x : cls) : cls := if x <? nb then x else base_of U x.

(* ---- membership / structural parts of the acceptance by a builtin dunder ---- *)
Definition memacc (rows : list brow) (B : cls) (m : name) (a : cls) : bool :=
  match nth_error rows B with
  | Some r => match find_entry r m with Some b => mem a (be_acc b) | None => false end
  | None => false
  end.

Definition bsucc (rows : list brow) (U : table) (B : cls) (m : name) (a : cls) : bool :=
  match nth_error rows B with
  | Some r => match find_entry r m with Some b => acc_d (length rows) U b a | None => false end
  | None => false
  end.

Lemma succ_b_eq : forall T l r n, succ_b T l r n = succ T l r n.
Proof. reflexivity. Qed.

Lemma mk_table_d_builtin : forall rows U c r, nth_error rows c = Some r ->
  mk_table_d rows U c = row_info_d (length rows) U c r.
Proof. intros. unfold mk_table_d. rewrite H. reflexivity. Qed.

Lemma mk_table_d_user : forall rows U c, length rows <= c -> mk_table_d rows U c = U c.
Proof.
  intros. unfold mk_table_d. destruct (nth_error rows c) eqn:E; [|reflexivity].
  assert (c < length rows) by (apply nth_error_Some; congruence). lia.
Qed.

Lemma lookup_chain_app : forall T a b m,
  lookup_chain T (a ++ b) m = match lookup_chain T a m with Some e => Some e | None => lookup_chain T b m end.
Proof.
  intros T a b m. induction a as [|k a IH]; [reflexivity|]. simpl.
  destruct (ci_own (T k) m); [reflexivity|exact IH].
Qed.

Lemma lookup_chain_users : forall rows U us m, Forall (fun k => length rows <= k) us ->
  lookup_chain (mk_table_d rows U) us m = lookup_chain U us m.
Proof.
  intros rows U us m H. induction H as [|k us Hk _ IH]; [reflexivity|]. simpl.
  rewrite (mk_table_d_user rows U k Hk). rewrite IH. reflexivity.
Qed.

Lemma own_d_builtin : forall rows U B m, B < length rows ->
  ci_own (mk_table_d rows U B) m =
  match nth_error rows B with
  | Some r => option_map (entry_of_d (length rows) U) (find_entry r m)
  | None => None
  end.
Proof.
  intros rows U B m H. destruct (nth_error_heads _ _ H) as [r E].
  rewrite (mk_table_d_builtin _ _ _ _ E), E. reflexivity.
Qed.

(* success of one option when the left operand is a builtin head *)
Lemma succ_d_builtin : forall rows U x y m, x < length rows ->
  succ (mk_table_d rows U) x y m = bsucc rows U x m y.
Proof.
  intros rows U x y m H. destruct (nth_error_heads _ _ H) as [r E].
  unfold succ, try_call1, lookup, bsucc. rewrite (mk_table_d_builtin _ _ _ _ E), E. simpl.
  rewrite (mk_table_d_builtin _ _ _ _ E). simpl.
  destruct (find_entry r m) as [b|]; simpl; [|reflexivity].
  destruct (acc_d (length rows) U b y); reflexivity.
Qed.

(* ... and when it is an instance of a derived class *)
Lemma succ_d_derived : forall rows U x us B y m, length rows <= x -> dshape (length rows) U x us B ->
  succ (mk_table_d rows U) x y m =
  match lookup_chain U us m with
  | Some e => e_call1 e y
  | None => bsucc rows U B m y
  end.
Proof.
  intros rows U x us B y m Hx [Hl [Hus [HB0 HB]]].
  unfold succ, try_call1, lookup. rewrite (mk_table_d_user _ _ _ Hx), Hl, lookup_chain_app.
  rewrite (lookup_chain_users rows U us m Hus).
  destruct (lookup_chain U us m) as [e|].
  - destruct (e_call1 e y); reflexivity.
  - simpl. rewrite (own_d_builtin rows U B m HB). unfold bsucc.
    destruct (nth_error rows B) as [r|]; [|reflexivity].
    destruct (find_entry r m) as [b|]; simpl; [|reflexivity].
    destruct (acc_d (length rows) U b y); reflexivity.
Qed.

Lemma base_of_shape : forall nb U u us B, dshape nb U u us B -> base_of U u = B.
Proof. intros nb U u us B [Hl _]. unfold base_of. rewrite Hl. apply last_last. Qed.

(* the acceptance splits into the membership of the base head and the structural part *)
Lemma bsucc_split : forall rows U B m a Ba,
  (a < length rows /\ Ba = a) \/ (length rows <= a /\ base_of U a = Ba /\ 0 < Ba /\ Ba < length rows) ->
  bsucc rows U B m a =
  memacc rows B m Ba || ((length rows <=? a) && uacc_ok (length rows) U (uacc_of rows B m) a).
Proof.
  intros rows U B m a Ba H. unfold bsucc, memacc, uacc_of.
  destruct (nth_error rows B) as [r|]; [|destruct (length rows <=? a); reflexivity].
  destruct (find_entry r m) as [b|]; [|destruct (length rows <=? a); reflexivity].
  unfold acc_d. destruct H as [[Ha E]|[Ha [E [H0 H1]]]].
  - subst Ba. assert (L : (a <? length rows) = true) by (apply Nat.ltb_lt; exact Ha). rewrite L.
    assert (L2 : (length rows <=? a) = false) by (apply Nat.leb_gt; exact Ha). rewrite L2.
    simpl. rewrite orb_false_r. reflexivity.
  - assert (L : (a <? length rows) = false) by (apply Nat.ltb_ge; exact Ha). rewrite L.
    assert (L2 : (length rows <=? a) = true) by (apply Nat.leb_le; exact Ha). rewrite L2.
    rewrite E. assert (G0 : (0 <? Ba) = true) by (apply Nat.ltb_lt; exact H0).
    assert (G1 : (Ba <? length rows) = true) by (apply Nat.ltb_lt; exact H1). rewrite G0, G1. reflexivity.
Qed.

Lemma succ0_memacc : forall rows B m a, B < length rows -> a < length rows ->
  succ (mk_table rows no_users) B a m = memacc rows B m a.
Proof.
  intros rows B m a HB Ha. destruct (nth_error_heads _ _ HB) as [r E].
  unfold succ, try_call1, memacc. rewrite (lookup_builtin _ _ _ _ _ E), E.
  destruct (find_entry r m) as [b|]; simpl; [|reflexivity].
  assert (L : (a <? length rows) = true) by (apply Nat.ltb_lt; exact Ha). rewrite L.
  destruct (mem a (be_acc b)); reflexivity.
Qed.

(* the user part of a chain defines the same names on both sides *)
Lemma chain_none : forall UR UT us m, (forall k, In k us -> own_sim UR UT k) ->
  lookup_chain UT us m = None -> lookup_chain UR us m = None.
Proof.
  intros UR UT us m. induction us as [|k us IH]; intros Hs H; [reflexivity|]. simpl in *.
  pose proof (Hs k (or_introl eq_refl) m) as S. unfold opt_sim in S.
  destruct (ci_own (UT k) m) as [e|]; [discriminate|].
  destruct (ci_own (UR k) m) as [e'|]; [contradiction|].
  apply IH; [intros k' Hk'; apply Hs; right; exact Hk'|exact H].
Qed.

Lemma chain_total : forall UT us m e a, py_total UT -> lookup_chain UT us m = Some e -> e_call1 e a = true.
Proof.
  intros UT us m e a Ht. induction us as [|k us IH]; intros H; [discriminate|]. simpl in H.
  destruct (ci_own (UT k) m) as [e'|] eqn:E; [|exact (IH H)].
  inversion H; subst e'. exact (Ht k m e a E).
Qed.

Lemma derived_arg_ok : forall nb UR UT a, derived_ok nb UR UT a -> arg_ok nb UR UT a.
Proof.
  intros nb UR UT a H Ha. destruct (H Ha) as [us [B [[HlR [HusR [_ HBR]]] [[HlT _] Hs]]]].
  split; [rewrite HlR, HlT; reflexivity|].
  intros k Hin Hk n. rewrite HlR in Hin. apply in_app_or in Hin. destruct Hin as [Hin|[Hin|[]]]; [|subst k; lia].
  pose proof (Hs k Hin n) as S. unfold opt_sim in S.
  destruct (ci_own (UR k) n); destruct (ci_own (UT k) n); try contradiction; split; auto; discriminate.
Qed.

(* a class is a builtin head (us = [], B = itself) or derived *)
Section Main.
  Variables rowsT rowsR : list brow.
  Variables UT UR : table.
  Let nb := length rowsT.
  Let T := mk_table_d rowsT UT.
  Let R := mk_table_d rowsR UR.
  Hypothesis Hlen : length rowsT = length rowsR.
  Hypothesis Hucol : ucol_faithful rowsT rowsR = true.
  Hypothesis Htot : py_total UT.

  (* what a failing option of pytype says, and what makes an option fail at run time *)
  Lemma py_fail : forall l r m, derived_ok nb UR UT l -> derived_ok nb UR UT r ->
    succ T l r m = false ->
    memacc rowsT (dbase nb UT l) m (dbase nb UT r) = false /\
    ((nb <=? r) && uacc_ok nb UT (uacc_of rowsT (dbase nb UT l) m) r = false) /\
    (nb <= l -> exists us B, dshape nb UR l us B /\ dshape nb UT l us B /\ lookup_chain UR us m = None).
  Proof.
    intros l r m Hl Hr H.
    assert (Hsplit : forall B, bsucc rowsT UT B m r = false ->
              memacc rowsT B m (dbase nb UT r) = false /\ (nb <=? r) && uacc_ok nb UT (uacc_of rowsT B m) r = false).
    { intros B Hb. rewrite (bsucc_split rowsT UT B m r (dbase nb UT r)) in Hb.
      - apply orb_false_elim in Hb. exact Hb.
      - unfold dbase. destruct (r <? nb) eqn:L.
        + left. apply Nat.ltb_lt in L. split; [exact L|reflexivity].
        + right. apply Nat.ltb_ge in L. destruct (Hr L) as [us [B' [_ [HT _]]]].
          pose proof (base_of_shape _ _ _ _ _ HT) as E. destruct HT as [_ [_ [H0 H1]]].
          split; [exact L|]. split; [reflexivity|]. rewrite E. split; assumption. }
    unfold dbase at 1 3. destruct (l <? nb) eqn:L.
    - apply Nat.ltb_lt in L. unfold T in H. rewrite (succ_d_builtin rowsT UT l r m L) in H.
      destruct (Hsplit l H) as [A B]. split; [exact A|]. split; [exact B|]. intros C. lia.
    - apply Nat.ltb_ge in L. destruct (Hl L) as [us [B [HR [HT Hs]]]].
      unfold T in H. rewrite (succ_d_derived rowsT UT l us B r m L HT) in H.
      rewrite (base_of_shape _ _ _ _ _ HT).
      destruct (lookup_chain UT us m) as [e|] eqn:E.
      + rewrite (chain_total UT us m e r Htot E) in H. discriminate.
      + destruct (Hsplit B H) as [A B']. split; [exact A|]. split; [exact B'|].
        intros _. exists us, B. split; [exact HR|]. split; [exact HT|]. apply (chain_none UR UT us m Hs E).
  Qed.

  Lemma rt_fail : forall l r m, derived_ok nb UR UT l -> derived_ok nb UR UT r ->
    In m dunder1_names -> excl_fp_bin (dbase nb UT l) m nb = false ->
    memacc rowsR (dbase nb UT l) m (dbase nb UT r) = false ->
    (nb <=? r) && uacc_ok nb UT (uacc_of rowsT (dbase nb UT l) m) r = false ->
    (nb <= l -> exists us B, dshape nb UR l us B /\ dshape nb UT l us B /\ lookup_chain UR us m = None) ->
    dbase nb UT l < nb ->
    succ R l r m = false.
  Proof.
    intros l r m Hl Hr Hm Hex Hmem Hu Hch HB.
    assert (Hb : bsucc rowsR UR (dbase nb UT l) m r = false).
    { rewrite (bsucc_split rowsR UR (dbase nb UT l) m r (dbase nb UT r)).
      - rewrite Hmem. simpl. rewrite <- Hlen. fold nb.
        destruct (nb <=? r) eqn:L; [|reflexivity]. simpl in *. apply Nat.leb_le in L.
        destruct (uacc_ok nb UR (uacc_of rowsR (dbase nb UT l) m) r) eqn:A; [|reflexivity].
        unfold ucol_faithful in Hucol. rewrite forallb_forall in Hucol.
        specialize (Hucol (dbase nb UT l) (in_heads _ _ HB)). rewrite forallb_forall in Hucol.
        specialize (Hucol m Hm). fold nb in Hucol. rewrite Hex in Hucol. simpl in Hucol.
        rewrite (uacc_le_sound nb UR UT r _ _ L (derived_arg_ok nb UR UT r Hr) Hucol A) in Hu. discriminate.
      - rewrite <- Hlen. fold nb. unfold dbase. destruct (r <? nb) eqn:L.
        + left. apply Nat.ltb_lt in L. split; [exact L|reflexivity].
        + right. apply Nat.ltb_ge in L. destruct (Hr L) as [us [B' [HRs [HT _]]]].
          rewrite (base_of_shape _ _ _ _ _ HT), (base_of_shape _ _ _ _ _ HRs).
          destruct HT as [_ [_ [H0 H1]]]. split; [exact L|]. split; [reflexivity|]. split; assumption. }
    unfold dbase in Hb, Hch. destruct (l <? nb) eqn:L.
    - apply Nat.ltb_lt in L. unfold R. rewrite (succ_d_builtin rowsR UR l r m); [exact Hb|rewrite <- Hlen; exact L].
    - apply Nat.ltb_ge in L. destruct (Hch L) as [us [B [HR [HT E]]]].
      assert (L' : length rowsR <= l) by (rewrite <- Hlen; exact L).
      assert (HR' : dshape (length rowsR) UR l us B) by (rewrite <- Hlen; exact HR).
      unfold R. rewrite (succ_d_derived rowsR UR l us B r m L' HR'). rewrite E.
      rewrite (base_of_shape _ _ _ _ _ HT) in Hb. exact Hb.
  Qed.

  Lemma dbase_lt : forall x, derived_ok nb UR UT x -> dbase nb UT x < nb.
  Proof.
    intros x Hx. unfold dbase. destruct (x <? nb) eqn:L; [apply Nat.ltb_lt; exact L|].
    apply Nat.ltb_ge in L. destruct (Hx L) as [us [B [_ [HT _]]]].
    rewrite (base_of_shape _ _ _ _ _ HT). destruct HT as [_ [_ [_ H1]]]. exact H1.
  Qed.
End Main.

Lemma excl_fp_bin_indep : forall x n y y', excl_fp_bin x n y = excl_fp_bin x n y'.
Proof. reflexivity. Qed.

Lemma derived_reported_is_real_lemma : forall (rowsT rowsR : list brow) (UT UR : table) x n y,
  shape_ok rowsT rowsR = true -> dpair_faithful rowsT rowsR = true -> ucol_faithful rowsT rowsR = true ->
  py_total UT ->
  derived_ok (length rowsT) UR UT x -> derived_ok (length rowsT) UR UT y ->
  In n binop_names ->
  excl_fp_bin (dbase (length rowsT) UT x) n (dbase (length rowsT) UT y) = false ->
  binop_py (mk_table_d rowsT UT) x n y = Err -> binop_c (mk_table_d rowsR UR) x n y = Err.
Proof.
  intros rowsT rowsR UT UR x n y Hshape Hpair Hucol Htot Hx Hy Hn Hex Hpy.
  unfold shape_ok in Hshape. apply andb_prop in Hshape. destruct Hshape as [Hs _].
  apply andb_prop in Hs. destruct Hs as [Hlen _]. apply Nat.eqb_eq in Hlen.
  set (nb := length rowsT) in *.
  assert (Epy : is_err (binop_py (mk_table_d rowsT UT) x n y) = true) by (rewrite Hpy; reflexivity).
  assert (G : is_err (binop_c (mk_table_d rowsR UR) x n y) = true).
  2:{ destruct (binop_c (mk_table_d rowsR UR) x n y); try discriminate; reflexivity. }
  rewrite binop_py_err in Epy. rewrite binop_c_err.
  apply andb_prop in Epy. destruct Epy as [_ Epy].
  pose proof (dbase_lt rowsT UT UR x Hx) as Bx. pose proof (dbase_lt rowsT UT UR y Hy) as By.
  fold nb in Bx, By.
  unfold dpair_faithful in Hpair. rewrite forallb_forall in Hpair.
  specialize (Hpair _ (in_heads _ _ Bx)). rewrite forallb_forall in Hpair.
  specialize (Hpair _ (in_heads _ _ By)). rewrite forallb_forall in Hpair.
  specialize (Hpair n Hn). fold nb in Hpair. rewrite Hex in Hpair. simpl in Hpair.
  unfold rsucc_b in Hpair. change succ_b with succ in Hpair.
  assert (BxR : dbase nb UT x < length rowsR) by (rewrite <- Hlen; exact Bx).
  assert (ByR : dbase nb UT y < length rowsR) by (rewrite <- Hlen; exact By).
  rewrite (succ0_memacc rowsT _ n _ Bx By), (succ0_memacc rowsR _ n _ BxR ByR) in Hpair.
  destruct (rname n) as [r|] eqn:Er.
  - rewrite (succ0_memacc rowsT _ r _ By Bx), (succ0_memacc rowsR _ r _ ByR BxR) in Hpair.
    apply andb_prop in Epy. destruct Epy as [E1 E2].
    apply negb_true_iff in E1. apply negb_true_iff in E2.
    destruct (py_fail rowsT rowsR UT UR Hlen Htot x y n Hx Hy E1) as [M1 [U1 C1]].
    destruct (py_fail rowsT rowsR UT UR Hlen Htot y x r Hy Hx E2) as [M2 [U2 C2]].
    fold nb in M1, M2, U1, U2, C1, C2. rewrite M1, M2 in Hpair. simpl in Hpair.
    apply andb_prop in Hpair. destruct Hpair as [P1 P2].
    apply negb_true_iff in P1. apply negb_true_iff in P2.
    assert (Hexr : excl_fp_bin (dbase nb UT y) r nb = false).
    { unfold excl_fp_bin. rewrite (rname_not_getitem n r Er). apply andb_false_r. }
    rewrite (rt_fail rowsT rowsR UT UR Hlen Hucol x y n Hx Hy (binop_dunder1 n Hn) Hex P1 U1 C1 Bx).
    rewrite (rt_fail rowsT rowsR UT UR Hlen Hucol y x r Hy Hx (rname_dunder1 n r Hn Er) Hexr P2 U2 C2 By).
    simpl. apply orb_true_r.
  - apply negb_true_iff in Epy.
    destruct (py_fail rowsT rowsR UT UR Hlen Htot x y n Hx Hy Epy) as [M1 [U1 C1]].
    fold nb in M1, U1, C1. rewrite M1 in Hpair. simpl in Hpair.
    rewrite andb_true_r in Hpair. apply negb_true_iff in Hpair.
    rewrite (rt_fail rowsT rowsR UT UR Hlen Hucol x y n Hx Hy (binop_dunder1 n Hn) Hex Hpair U1 C1 Bx).
    reflexivity.
Qed.
