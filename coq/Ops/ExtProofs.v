(* C14 extension: lemmas about the comparison / membership / in-place / unary dispatch models of Ops/Ext.v, for
   ARBITRARY builtin rows and user parts (the closed obligations over this run's rows are in Ops/ExtClosed.v). *)
From Coq Require Import List Bool PeanoNat.
From PV Require Import Ops.Model Ops.Proofs Ops.Ext.
Import ListNotations.

(* ------------------------------------------------------------------------------------------ *)
(* Err-ness of the dispatchers *)

Lemma is_err_no_err : forall r, is_err (no_err r) = false.
Proof. intros r. destruct r; reflexivity. Qed.

Lemma is_err_eq : forall r, is_err r = true -> r = Err.
Proof. intros r H. destruct r; try discriminate; reflexivity. Qed.

Lemma cmp_c_err : forall R x n y,
  is_err (cmp_c R x n y) =
  negb (is_eqne n) && (negb (succ R x y n) && negb (succ R y x (swapped n))).
Proof.
  intros. unfold cmp_c.
  set (r := if negb (x =? y) && mem x (ci_mro (R y))
            then first_ok [try_call1 R y x (swapped n); try_call1 R x y n]
            else first_ok [try_call1 R x y n; try_call1 R y x (swapped n)]).
  assert (E : is_err r = negb (succ R x y n) && negb (succ R y x (swapped n))).
  { unfold r. destruct (negb (x =? y) && mem x (ci_mro (R y))); rewrite first_ok2_err;
      [apply andb_comm|reflexivity]. }
  destruct (is_eqne n); simpl; [apply is_err_no_err|exact E].
Qed.

Lemma cmp_py_err : forall T nat x n y,
  is_err (cmp_py T nat x n y) =
  match nat x n y with
  | Some b => b
  | None => negb (is_eqne n) && negb (succ T x y n)
  end.
Proof.
  intros. unfold cmp_py. destruct (nat x n y) as [[|]|]; try reflexivity.
  destruct (is_eqne n); simpl; [apply is_err_no_err|apply first_ok1_err].
Qed.

Lemma inplace_py_err : forall T x n y,
  is_err (inplace_py T x n y) =
  match lookup T x (iname n) with
  | Some e => negb (e_call1 e y)
  | None => is_err (binop_py T x n y)
  end.
Proof.
  intros. unfold inplace_py. destruct (lookup T x (iname n)) as [e|]; [|reflexivity].
  destruct (e_call1 e y); reflexivity.
Qed.

Lemma inplace_c_err : forall R hard x n y,
  is_err (inplace_c R hard x n y) =
  match lookup R x (iname n) with
  | Some e => negb (e_call1 e y) && (hard x (iname n) || is_err (binop_c R x n y))
  | None => is_err (binop_c R x n y)
  end.
Proof.
  intros. unfold inplace_c. destruct (lookup R x (iname n)) as [e|]; [|reflexivity].
  destruct (e_call1 e y); [reflexivity|]. destruct (hard x (iname n)); reflexivity.
Qed.

(* ------------------------------------------------------------------------------------------ *)
(* on two builtin heads the dispatchers do not depend on the user part *)

Lemma cmp_py_builtin_indep : forall rows nat U U' x n y, x < length rows -> y < length rows ->
  is_err (cmp_py (mk_table rows U) nat x n y) = is_err (cmp_py (mk_table rows U') nat x n y).
Proof.
  intros. rewrite !cmp_py_err. rewrite (succ_builtin_indep rows U U' x y n H H0). reflexivity.
Qed.

Lemma cmp_c_builtin_indep : forall rows U U' x n y, x < length rows -> y < length rows ->
  is_err (cmp_c (mk_table rows U) x n y) = is_err (cmp_c (mk_table rows U') x n y).
Proof.
  intros. rewrite !cmp_c_err.
  rewrite (succ_builtin_indep rows U U' x y n H H0), (succ_builtin_indep rows U U' y x (swapped n) H0 H).
  reflexivity.
Qed.

Lemma e_call1_builtin : forall nb U U' b a, a < nb ->
  e_call1 (entry_of nb U b) a = e_call1 (entry_of nb U' b) a.
Proof. intros. simpl. apply Nat.ltb_lt in H. rewrite H. reflexivity. Qed.

Lemma inplace_py_builtin_indep : forall rows U U' x n y, x < length rows -> y < length rows ->
  is_err (inplace_py (mk_table rows U) x n y) = is_err (inplace_py (mk_table rows U') x n y).
Proof.
  intros rows U U' x n y Hx Hy. rewrite !inplace_py_err.
  destruct (nth_error_heads _ _ Hx) as [row E].
  rewrite (lookup_builtin _ U _ _ _ E), (lookup_builtin _ U' _ _ _ E).
  destruct (find_entry row (iname n)) as [b|]; simpl.
  - apply Nat.ltb_lt in Hy. rewrite Hy. reflexivity.
  - apply binop_py_builtin_indep; assumption.
Qed.

Lemma inplace_c_builtin_indep : forall rows hard U U' x n y, x < length rows -> y < length rows ->
  is_err (inplace_c (mk_table rows U) hard x n y) = is_err (inplace_c (mk_table rows U') hard x n y).
Proof.
  intros rows hard U U' x n y Hx Hy. rewrite !inplace_c_err.
  destruct (nth_error_heads _ _ Hx) as [row E].
  rewrite (lookup_builtin _ U _ _ _ E), (lookup_builtin _ U' _ _ _ E).
  rewrite (binop_c_builtin_indep rows U U' x n y Hx Hy).
  destruct (find_entry row (iname n)) as [b|]; simpl; [|reflexivity].
  apply Nat.ltb_lt in Hy. rewrite Hy. reflexivity.
Qed.

Lemma call0_builtin_indep : forall rows U U' x n, x < length rows ->
  call0 (mk_table rows U) x n = call0 (mk_table rows U') x n.
Proof.
  intros rows U U' x n Hx. unfold call0. destruct (nth_error_heads _ _ Hx) as [row E].
  rewrite (lookup_builtin _ U _ _ _ E), (lookup_builtin _ U' _ _ _ E).
  destruct (find_entry row n) as [b|]; reflexivity.
Qed.

Lemma in_builtin_indep : forall rows U U' i q, q < length rows -> i < length rows -> 1 < length rows ->
  in_disp (mk_table rows U) i q = in_disp (mk_table rows U') i q.
Proof.
  intros rows U U' i q Hq Hi H1. unfold in_disp. destruct (nth_error_heads _ _ Hq) as [row E].
  rewrite !(lookup_builtin _ U _ _ _ E), !(lookup_builtin _ U' _ _ _ E).
  apply Nat.ltb_lt in Hi. apply Nat.ltb_lt in H1.
  destruct (find_entry row N_CONTAINS) as [b|]; simpl.
  - rewrite Hi. reflexivity.
  - destruct (find_entry row N_ITER) as [b1|]; simpl; [reflexivity|].
    destruct (find_entry row N_GETITEM) as [b2|]; simpl; [|reflexivity].
    unfold C_INT. rewrite H1. reflexivity.
Qed.

(* when the sequence has no __contains__ the item plays no role *)
Lemma in_disp_no_contains : forall T i i' q, lookup T q N_CONTAINS = None -> in_disp T i q = in_disp T i' q.
Proof. intros T i i' q H. unfold in_disp. rewrite H. reflexivity. Qed.

Lemma in_disp_contains : forall T i q e, lookup T q N_CONTAINS = Some e ->
  is_err (in_disp T i q) = negb (succ T q i N_CONTAINS).
Proof.
  intros T i q e H. unfold in_disp, succ, try_call1. rewrite H. destruct (e_call1 e i); reflexivity.
Qed.

(* ------------------------------------------------------------------------------------------ *)
(* success of one option transfers from the run-time table to the pytype table (new one-argument dunders) *)

Lemma succ_transfer_user_right_gen : forall rowsT rowsR UT UR, length rowsT = length rowsR ->
  forall l r n, l < length rowsT -> length rowsT <= r -> arg_ok (length rowsT) UR UT r ->
  uacc_le (uacc_of rowsR l n) (uacc_of rowsT l n) = true ->
  succ (mk_table rowsR UR) l r n = true -> succ (mk_table rowsT UT) l r n = true.
Proof.
  intros rowsT rowsR UT UR Hlen l r n Hl Hr Hok Hu H.
  destruct (nth_error_heads rowsT l Hl) as [rt ET].
  assert (Hl' : l < length rowsR) by (rewrite <- Hlen; exact Hl).
  destruct (nth_error_heads rowsR l Hl') as [rr ER].
  unfold succ, try_call1 in *.
  rewrite (lookup_builtin _ _ _ _ _ ER) in H. rewrite (lookup_builtin _ _ _ _ _ ET).
  unfold uacc_of in Hu. rewrite ET, ER in Hu.
  destruct (find_entry rr n) as [br|]; [|discriminate]. simpl in H.
  assert (Lr : (r <? length rowsR) = false) by (apply Nat.ltb_ge; rewrite <- Hlen; exact Hr).
  rewrite Lr in H.
  destruct (uacc_ok (length rowsR) UR (be_uacc br) r) eqn:A; [|discriminate].
  destruct (find_entry rt n) as [bt|].
  - simpl. assert (Lt : (r <? length rowsT) = false) by (apply Nat.ltb_ge; exact Hr).
    rewrite Lt. rewrite <- Hlen in A.
    pose proof (uacc_le_sound (length rowsT) UR UT r _ _ Hr Hok Hu A) as Q. rewrite Q. reflexivity.
  - destruct (be_uacc br); simpl in *; discriminate.
Qed.

Lemma ucol2_at : forall rowsT rowsR l n, ucol2_faithful rowsT rowsR = true -> l < length rowsT ->
  In n arg1_names -> excl_fp_store l n = false -> uacc_le (uacc_of rowsR l n) (uacc_of rowsT l n) = true.
Proof.
  intros rowsT rowsR l n H Hl Hn Hex. unfold ucol2_faithful in H. rewrite forallb_forall in H.
  specialize (H l (in_heads _ _ Hl)). rewrite forallb_forall in H. specialize (H n Hn).
  rewrite Hex in H. exact H.
Qed.

Lemma excl_store_other : forall l n, (n =? N_DELITEM) = false -> excl_fp_store l n = false.
Proof. intros l n H. unfold excl_fp_store. rewrite H. apply andb_false_r. Qed.

(* at least one operand is an instance of a user class *)
Lemma succ_transfer_new : forall rowsT rowsR UT UR l r n,
  length rowsT = length rowsR ->
  ucol2_faithful rowsT rowsR = true -> obj_faithful rowsT rowsR = true ->
  user_ok (length rowsT) UR UT l -> user_ok (length rowsT) UR UT r ->
  In n arg1_names -> excl_fp_store l n = false -> (l <? length rowsT) && (r <? length rowsT) = false ->
  succ (mk_table rowsR UR) l r n = true -> succ (mk_table rowsT UT) l r n = true.
Proof.
  intros rowsT rowsR UT UR l r n Hlen Hu Hobj Hl Hr Hn Hex Hmix S.
  destruct (l <? length rowsT) eqn:Ll.
  - simpl in Hmix. apply Nat.ltb_lt in Ll. apply Nat.ltb_ge in Hmix.
    apply (succ_transfer_user_right_gen rowsT rowsR UT UR Hlen l r n Ll Hmix (user_ok_arg_ok _ _ _ _ Hr)
             (ucol2_at _ _ _ _ Hu Ll Hn Hex) S).
  - apply Nat.ltb_ge in Ll.
    apply (succ_transfer_user_left rowsT rowsR UT UR Hlen l r n Ll Hl (user_ok_arg_ok _ _ _ _ Hr) Hobj S).
Qed.

(* a builtin comparison dunder never answers an instance of a user class at run time *)
Lemma rt_cmp_rejects : forall rowsR UR c x m,
  rt_cmp_rejects_users rowsR = true -> c < length rowsR -> length rowsR <= x -> In m cmp_names ->
  succ (mk_table rowsR UR) c x m = false.
Proof.
  intros rowsR UR c x m H Hc Hx Hm. unfold rt_cmp_rejects_users in H. rewrite forallb_forall in H.
  specialize (H c (in_heads _ _ Hc)). rewrite forallb_forall in H. specialize (H m Hm).
  destruct (nth_error_heads rowsR c Hc) as [rr ER].
  unfold succ, try_call1. rewrite (lookup_builtin _ _ _ _ _ ER).
  unfold uacc_of in H. rewrite ER in H.
  destruct (find_entry rr m) as [br|]; [|reflexivity]. simpl.
  assert (Lx : (x <? length rowsR) = false) by (apply Nat.ltb_ge; exact Hx). rewrite Lx.
  destruct (be_uacc br); try discriminate. reflexivity.
Qed.

Lemma py_cmp_accepts : forall rowsT UT c y m,
  py_cmp_accepts_users rowsT = true -> c < length rowsT -> length rowsT <= y -> In m cmp_names ->
  succ (mk_table rowsT UT) c y m = true.
Proof.
  intros rowsT UT c y m H Hc Hy Hm. unfold py_cmp_accepts_users in H. rewrite forallb_forall in H.
  specialize (H c (in_heads _ _ Hc)). rewrite forallb_forall in H. specialize (H m Hm).
  destruct (nth_error_heads rowsT c Hc) as [rt ET].
  unfold succ, try_call1. rewrite (lookup_builtin _ _ _ _ _ ET).
  unfold uacc_of in H. rewrite ET in H.
  destruct (find_entry rt m) as [bt|]; [|discriminate]. simpl.
  assert (Ly : (y <? length rowsT) = false) by (apply Nat.ltb_ge; exact Hy). rewrite Ly.
  destruct (be_uacc bt); try discriminate. reflexivity.
Qed.

Lemma native_find_user : forall l nb x n, native_user_ok l nb = true -> native_find l x n nb <> Some true.
Proof.
  intros l nb x n. induction l as [|[[[x' n'] y'] b] t IH]; intros H; simpl; [discriminate|].
  simpl in H. apply andb_prop in H. destruct H as [H1 H2].
  destruct ((x' =? x) && (n' =? n) && (y' =? nb)) eqn:E; [|apply IH; exact H2].
  apply andb_prop in E. destruct E as [_ E]. apply Nat.eqb_eq in E. subst y'.
  rewrite Nat.leb_refl in H1. simpl in H1. destruct b; [discriminate|discriminate].
Qed.

Lemma native_mixed : forall l nb x n y, native_user_ok l nb = true -> (x <? nb) && (y <? nb) = false ->
  native_of l nb x n y <> Some true.
Proof.
  intros l nb x n y H Hmix. unfold native_of. destruct (nb <=? x) eqn:Lx; [discriminate|].
  apply Nat.leb_gt in Lx. apply Nat.ltb_lt in Lx. rewrite Lx in Hmix. simpl in Hmix.
  apply Nat.ltb_ge in Hmix. apply Nat.leb_le in Hmix. rewrite Hmix. apply native_find_user. exact H.
Qed.

Lemma shape_len : forall rowsT rowsR, shape_ok rowsT rowsR = true ->
  length rowsT = length rowsR /\ 0 < length rowsT.
Proof.
  intros rowsT rowsR H. unfold shape_ok in H. apply andb_prop in H. destruct H as [H _].
  apply andb_prop in H. destruct H as [H1 H2]. apply Nat.eqb_eq in H1. apply Nat.ltb_lt in H2. split; assumption.
Qed.

(* ------------------------------------------------------------------------------------------ *)
(* comparisons *)

Lemma cmp_in_arg1 : forall n, In n cmp_names -> In n arg1_names.
Proof. intros n H. unfold cmp_names in H. simpl in H.
  repeat (destruct H as [H|H]; [subst n; vm_compute; tauto|]). contradiction. Qed.

Lemma cmp_not_del : forall n, In n cmp_names -> (n =? N_DELITEM) = false.
Proof. intros n H. unfold cmp_names in H. simpl in H.
  repeat (destruct H as [H|H]; [subst n; reflexivity|]). contradiction. Qed.

Lemma swapped_cmp : forall n, In n cmp_names -> In (swapped n) cmp_names.
Proof. intros n H. unfold cmp_names in H. simpl in H.
  repeat (destruct H as [H|H]; [subst n; vm_compute; tauto|]). contradiction. Qed.

Lemma cmp_reported_is_real_lemma : forall rowsT rowsR ntbl UT UR x n y,
  shape_ok rowsT rowsR = true -> cmp_pair_faithful rowsT rowsR ntbl = true ->
  ucol2_faithful rowsT rowsR = true -> obj_faithful rowsT rowsR = true ->
  rt_cmp_rejects_users rowsR = true -> native_user_ok ntbl (length rowsT) = true ->
  py_cmp_accepts_users rowsT = true ->
  user_ok (length rowsT) UR UT x -> user_ok (length rowsT) UR UT y ->
  In n cmp_names ->
  (length rowsT <= x -> length rowsT <= y -> succ (mk_table rowsR UR) y x (swapped n) = false) ->
  cmp_py (mk_table rowsT UT) (native_of ntbl (length rowsT)) x n y = Err ->
  cmp_c (mk_table rowsR UR) x n y = Err.
Proof.
  intros rowsT rowsR ntbl UT UR x n y Hshape Hpair Hucol Hobj Hrej Hnat Hacc Hrx Hry Hn Hrefl Hpy.
  destruct (shape_len _ _ Hshape) as [Hlen Hpos].
  apply is_err_eq.
  assert (Epy : is_err (cmp_py (mk_table rowsT UT) (native_of ntbl (length rowsT)) x n y) = true)
    by (rewrite Hpy; reflexivity).
  destruct ((x <? length rowsT) && (y <? length rowsT)) eqn:Mix.
  - apply andb_prop in Mix. destruct Mix as [Lx Ly]. apply Nat.ltb_lt in Lx. apply Nat.ltb_lt in Ly.
    unfold cmp_pair_faithful in Hpair. rewrite forallb_forall in Hpair.
    specialize (Hpair x (in_heads _ _ Lx)). rewrite forallb_forall in Hpair.
    specialize (Hpair y (in_heads _ _ Ly)). rewrite forallb_forall in Hpair. specialize (Hpair n Hn).
    rewrite (cmp_py_builtin_indep rowsT _ UT no_users x n y Lx Ly) in Epy. rewrite Epy in Hpair. simpl in Hpair.
    rewrite (cmp_c_builtin_indep rowsR UR no_users x n y); [exact Hpair| |]; rewrite <- Hlen; assumption.
  - rewrite cmp_py_err in Epy. rewrite cmp_c_err.
    pose proof (native_mixed ntbl (length rowsT) x n y Hnat Mix) as Hnm.
    destruct (native_of ntbl (length rowsT) x n y) as [b|].
    + subst b. exfalso. apply Hnm. reflexivity.
    + apply andb_prop in Epy. destruct Epy as [E0 E1]. rewrite E0. simpl.
      apply negb_true_iff in E1.
      assert (S1 : succ (mk_table rowsR UR) x y n = false).
      { destruct (succ (mk_table rowsR UR) x y n) eqn:S; [|reflexivity].
        rewrite (succ_transfer_new rowsT rowsR UT UR x y n Hlen Hucol Hobj Hrx Hry (cmp_in_arg1 n Hn)
                   (excl_store_other x n (cmp_not_del n Hn)) Mix S) in E1.
        discriminate. }
      rewrite S1. simpl.
      destruct (y <? length rowsT) eqn:Ly.
      * (* y builtin, hence x an instance of a user class *)
        apply Nat.ltb_lt in Ly. rewrite andb_true_r in Mix. apply Nat.ltb_ge in Mix.
        rewrite (rt_cmp_rejects rowsR UR y x (swapped n) Hrej); [reflexivity| | |apply swapped_cmp; exact Hn];
          rewrite <- Hlen; assumption.
      * apply Nat.ltb_ge in Ly.
        destruct (x <? length rowsT) eqn:Lx.
        -- (* builtin x, user y: the stub's comparison dunder accepts every user class *)
           apply Nat.ltb_lt in Lx. rewrite (py_cmp_accepts rowsT UT x y n Hacc Lx Ly Hn) in E1. discriminate.
        -- apply Nat.ltb_ge in Lx. rewrite (Hrefl Lx Ly). reflexivity.
Qed.

(* == and != are never reported (and never fail at run time) *)
Lemma cmp_c_eqne : forall R x n y, is_eqne n = true -> is_err (cmp_c R x n y) = false.
Proof. intros R x n y H. rewrite cmp_c_err. rewrite H. reflexivity. Qed.

Lemma cmp_eqne_lemma : forall rowsT rowsR ntbl UT x n y,
  shape_ok rowsT rowsR = true -> cmp_pair_faithful rowsT rowsR ntbl = true ->
  native_user_ok ntbl (length rowsT) = true ->
  In n cmp_names -> is_eqne n = true ->
  is_err (cmp_py (mk_table rowsT UT) (native_of ntbl (length rowsT)) x n y) = false.
Proof.
  intros rowsT rowsR ntbl UT x n y Hshape Hpair Hnat Hn He.
  destruct ((x <? length rowsT) && (y <? length rowsT)) eqn:Mix.
  - apply andb_prop in Mix. destruct Mix as [Lx Ly]. apply Nat.ltb_lt in Lx. apply Nat.ltb_lt in Ly.
    unfold cmp_pair_faithful in Hpair. rewrite forallb_forall in Hpair.
    specialize (Hpair x (in_heads _ _ Lx)). rewrite forallb_forall in Hpair.
    specialize (Hpair y (in_heads _ _ Ly)). rewrite forallb_forall in Hpair. specialize (Hpair n Hn).
    rewrite (cmp_c_eqne _ x n y He) in Hpair.
    rewrite (cmp_py_builtin_indep rowsT _ UT no_users x n y Lx Ly).
    destruct (is_err (cmp_py (mk_table rowsT no_users) (native_of ntbl (length rowsT)) x n y));
      [discriminate|reflexivity].
  - rewrite cmp_py_err. pose proof (native_mixed ntbl (length rowsT) x n y Hnat Mix) as Hnm.
    destruct (native_of ntbl (length rowsT) x n y) as [[|]|]; [exfalso; apply Hnm; reflexivity|reflexivity|].
    rewrite He. reflexivity.
Qed.

(* ------------------------------------------------------------------------------------------ *)
(* membership *)

Lemma lookup_has : forall rows U c r n, nth_error rows c = Some r ->
  (has_entry rows c n = true <-> lookup (mk_table rows U) c n <> None).
Proof.
  intros rows U c r n E. rewrite (lookup_builtin _ _ _ _ _ E). unfold has_entry. rewrite E.
  destruct (find_entry r n); simpl; split; intros H; try discriminate; try reflexivity.
  exfalso. apply H. reflexivity.
Qed.

Section UserLook.
  Variables rowsT rowsR : list brow.
  Variables UT UR : table.
  Hypothesis Hlen : length rowsT = length rowsR.
  Hypothesis Hobj : obj_faithful rowsT rowsR = true.
  Hypothesis Hcomp : obj_complete rowsT rowsR = true.

  (* the two lookups of a user class agree on presence, and the run-time entry is at most as permissive *)
  Lemma look_rel : forall a u n, length rowsT <= u -> user_ok (length rowsT) UR UT u ->
    arg_ok (length rowsT) UR UT a ->
    match lookup (mk_table rowsR UR) u n, lookup (mk_table rowsT UT) u n with
    | Some er, Some et => entry_le_for a er et
    | None, None => True
    | _, _ => False
    end.
  Proof.
    intros a u n Hu Hrel Hok.
    destruct (lookup (mk_table rowsR UR) u n) as [er|] eqn:ER.
    - destruct (lookup_user_sim rowsT rowsR UT UR Hlen a u n Hu Hrel Hok Hobj er ER) as [et [E1 E2]].
      rewrite E1. exact E2.
    - destruct (lookup (mk_table rowsT UT) u n) as [et|] eqn:ET; [|exact I].
      destruct (lookup_user_conv rowsT rowsR UT UR Hlen u n Hu Hrel Hcomp et ET) as [er E]. rewrite E in ER.
      discriminate.
  Qed.
End UserLook.

Lemma arg_ok_builtin : forall nb UR UT a, a < nb -> arg_ok nb UR UT a.
Proof. intros nb UR UT a H C. exfalso. apply (Nat.lt_irrefl a). eapply Nat.lt_le_trans; eassumption. Qed.

Lemma in_reported_is_real_lemma : forall rowsT rowsR UT UR i q,
  shape_ok rowsT rowsR = true -> in_pair_faithful rowsT rowsR = true ->
  ucol2_faithful rowsT rowsR = true -> obj_faithful rowsT rowsR = true -> obj_complete rowsT rowsR = true ->
  contains_presence rowsT rowsR = true -> 1 < length rowsT ->
  user_ok (length rowsT) UR UT i -> user_ok (length rowsT) UR UT q ->
  in_py (mk_table rowsT UT) i q = Err -> in_c (mk_table rowsR UR) i q = Err.
Proof.
  intros rowsT rowsR UT UR i q Hshape Hpair Hucol Hobj Hcomp Hpres H1 Hri Hrq Hpy.
  destruct (shape_len _ _ Hshape) as [Hlen Hpos].
  assert (H1' : 1 < length rowsR) by (rewrite <- Hlen; exact H1).
  unfold in_py, in_c in *.
  assert (PAIR : forall i0, i0 < length rowsT -> q < length rowsT ->
            in_disp (mk_table rowsT UT) i0 q = Err -> in_disp (mk_table rowsR UR) i0 q = Err).
  { intros i0 Li Lq Hp.
    unfold in_pair_faithful in Hpair. rewrite forallb_forall in Hpair.
    specialize (Hpair q (in_heads _ _ Lq)). rewrite forallb_forall in Hpair.
    specialize (Hpair i0 (in_heads _ _ Li)). unfold in_py, in_c in Hpair.
    rewrite (in_builtin_indep rowsT UT no_users i0 q Lq Li H1) in Hp. rewrite Hp in Hpair. simpl in Hpair.
    apply is_err_eq. rewrite (in_builtin_indep rowsR UR no_users i0 q); [exact Hpair| | |exact H1'];
      rewrite <- Hlen; assumption. }
  destruct (q <? length rowsT) eqn:Lq.
  - apply Nat.ltb_lt in Lq.
    destruct (i <? length rowsT) eqn:Li.
    + apply Nat.ltb_lt in Li. apply PAIR; assumption.
    + (* builtin sequence, item an instance of a user class *)
      apply Nat.ltb_ge in Li.
      assert (Lq' : q < length rowsR) by (rewrite <- Hlen; exact Lq).
      destruct (nth_error_heads rowsT q Lq) as [rt ET]. destruct (nth_error_heads rowsR q Lq') as [rr ER].
      unfold contains_presence in Hpres. rewrite forallb_forall in Hpres.
      specialize (Hpres q (in_heads _ _ Lq)). apply eqb_prop in Hpres.
      pose proof (lookup_has rowsT UT q rt N_CONTAINS ET) as HT.
      pose proof (lookup_has rowsR UR q rr N_CONTAINS ER) as HR.
      destruct (lookup (mk_table rowsT UT) q N_CONTAINS) as [et|] eqn:LT.
      * assert (HasT : has_entry rowsT q N_CONTAINS = true) by (apply HT; discriminate).
        rewrite HasT in Hpres. symmetry in Hpres. apply HR in Hpres.
        destruct (lookup (mk_table rowsR UR) q N_CONTAINS) as [er|] eqn:LR; [|exfalso; apply Hpres; reflexivity].
        apply is_err_eq. rewrite (in_disp_contains _ i q er LR).
        assert (Ep : is_err (in_disp (mk_table rowsT UT) i q) = true) by (rewrite Hpy; reflexivity).
        rewrite (in_disp_contains _ i q et LT) in Ep. apply negb_true_iff in Ep.
        destruct (succ (mk_table rowsR UR) q i N_CONTAINS) eqn:S; [|reflexivity].
        assert (InC : In N_CONTAINS arg1_names) by (vm_compute; tauto).
        rewrite (succ_transfer_user_right_gen rowsT rowsR UT UR Hlen q i N_CONTAINS Lq Li
                   (user_ok_arg_ok _ _ _ _ Hri) (ucol2_at _ _ _ _ Hucol Lq InC (excl_store_other q N_CONTAINS eq_refl)) S)
          in Ep. discriminate.
      * assert (HasT : has_entry rowsT q N_CONTAINS = false).
        { destruct (has_entry rowsT q N_CONTAINS) eqn:Hh; [|reflexivity].
          exfalso. apply (proj1 HT); reflexivity. }
        rewrite HasT in Hpres.
        assert (LR : lookup (mk_table rowsR UR) q N_CONTAINS = None).
        { destruct (lookup (mk_table rowsR UR) q N_CONTAINS) eqn:L; [|reflexivity].
          assert (Hh : has_entry rowsR q N_CONTAINS = true) by (apply HR; discriminate).
          rewrite Hh in Hpres. discriminate. }
        rewrite (in_disp_no_contains _ i 0 q LR). apply (PAIR 0 Hpos Lq).
        rewrite <- (in_disp_no_contains _ i 0 q LT). exact Hpy.
  - (* the sequence is an instance of a user class *)
    apply Nat.ltb_ge in Lq.
    pose proof (look_rel rowsT rowsR UT UR Hlen Hobj Hcomp i q N_CONTAINS Lq Hrq (user_ok_arg_ok _ _ _ _ Hri)) as RC.
    pose proof (look_rel rowsT rowsR UT UR Hlen Hobj Hcomp C_INT q N_ITER Lq Hrq
                  (arg_ok_builtin _ UR UT C_INT H1)) as RI.
    pose proof (look_rel rowsT rowsR UT UR Hlen Hobj Hcomp C_INT q N_GETITEM Lq Hrq
                  (arg_ok_builtin _ UR UT C_INT H1)) as RG.
    unfold in_disp in *.
    destruct (lookup (mk_table rowsR UR) q N_CONTAINS) as [erc|];
      destruct (lookup (mk_table rowsT UT) q N_CONTAINS) as [etc|]; try contradiction.
    + destruct RC as [_ RC]. destruct (e_call1 erc i); [|reflexivity]. rewrite (RC eq_refl) in Hpy. discriminate.
    + destruct (lookup (mk_table rowsR UR) q N_ITER) as [eri|];
        destruct (lookup (mk_table rowsT UT) q N_ITER) as [eti|]; try contradiction.
      * destruct RI as [RI _]. destruct (e_call0 eri); [|reflexivity]. rewrite (RI eq_refl) in Hpy. discriminate.
      * destruct (lookup (mk_table rowsR UR) q N_GETITEM) as [erg|];
          destruct (lookup (mk_table rowsT UT) q N_GETITEM) as [etg|]; try contradiction; [|reflexivity].
        destruct RG as [_ RG]. destruct (e_call1 erg C_INT); [|reflexivity]. rewrite (RG eq_refl) in Hpy. discriminate.
Qed.

(* ------------------------------------------------------------------------------------------ *)
(* in-place operators *)

Lemma arith_binop : forall n, In n arith_names -> In n binop_names.
Proof. intros n H. unfold arith_names in H. simpl in H.
  repeat (destruct H as [H|H]; [subst n; vm_compute; tauto|]). contradiction. Qed.

Lemma arith_iname : forall n, In n arith_names -> In (iname n) arg1_names.
Proof. intros n H. unfold arith_names in H. simpl in H.
  repeat (destruct H as [H|H]; [subst n; vm_compute; tauto|]). contradiction. Qed.

Lemma arith_iname_not_del : forall n, In n arith_names -> (iname n =? N_DELITEM) = false.
Proof. intros n H. unfold arith_names in H. simpl in H.
  repeat (destruct H as [H|H]; [subst n; reflexivity|]). contradiction. Qed.

Lemma arith_not_getitem : forall n x y, In n arith_names -> excl_fp_bin x n y = false.
Proof. intros n x y H. unfold excl_fp_bin. unfold arith_names in H. simpl in H.
  repeat (destruct H as [H|H]; [subst n; apply andb_false_r|]). contradiction. Qed.

Lemma succ_lookup_none : forall T l r n, lookup T l n = None -> succ T l r n = false.
Proof. intros T l r n H. unfold succ, try_call1. rewrite H. reflexivity. Qed.

Lemma succ_lookup_some : forall T l r n e, lookup T l n = Some e -> succ T l r n = e_call1 e r.
Proof. intros T l r n e H. unfold succ, try_call1. rewrite H. destruct (e_call1 e r); reflexivity. Qed.

Lemma inplace_reported_is_real_lemma : forall rowsT rowsR hard UT UR x n y,
  shape_ok rowsT rowsR = true -> pair_faithful rowsT rowsR = true ->
  ucol_faithful rowsT rowsR = true -> obj_faithful rowsT rowsR = true ->
  iop_pair_faithful rowsT rowsR hard = true -> ucol2_faithful rowsT rowsR = true ->
  user_ok (length rowsT) UR UT x -> user_ok (length rowsT) UR UT y ->
  In n arith_names -> excl_fp_iop x n y = false ->
  ((x <? length rowsT) && (y <? length rowsT) = false ->
   lookup (mk_table rowsT UT) x (iname n) <> None -> binop_c (mk_table rowsR UR) x n y = Err) ->
  inplace_py (mk_table rowsT UT) x n y = Err -> inplace_c (mk_table rowsR UR) (hard_of hard) x n y = Err.
Proof.
  intros rowsT rowsR hard UT UR x n y Hshape Hpf Huc Hobj Hpair Hucol Hrx Hry Hn Hex Hfall Hpy.
  destruct (shape_len _ _ Hshape) as [Hlen Hpos].
  apply is_err_eq.
  assert (Epy : is_err (inplace_py (mk_table rowsT UT) x n y) = true) by (rewrite Hpy; reflexivity).
  destruct ((x <? length rowsT) && (y <? length rowsT)) eqn:Mix.
  - apply andb_prop in Mix. destruct Mix as [Lx Ly]. apply Nat.ltb_lt in Lx. apply Nat.ltb_lt in Ly.
    unfold iop_pair_faithful in Hpair. rewrite forallb_forall in Hpair.
    specialize (Hpair x (in_heads _ _ Lx)). rewrite forallb_forall in Hpair.
    specialize (Hpair y (in_heads _ _ Ly)). rewrite forallb_forall in Hpair. specialize (Hpair n Hn).
    rewrite Hex in Hpair. simpl in Hpair.
    rewrite (inplace_py_builtin_indep rowsT UT no_users x n y Lx Ly) in Epy. rewrite Epy in Hpair. simpl in Hpair.
    rewrite (inplace_c_builtin_indep rowsR _ UR no_users x n y); [exact Hpair| |]; rewrite <- Hlen; assumption.
  - rewrite inplace_py_err in Epy. rewrite inplace_c_err.
    assert (TR : succ (mk_table rowsR UR) x y (iname n) = true -> succ (mk_table rowsT UT) x y (iname n) = true)
      by (apply (succ_transfer_new rowsT rowsR UT UR x y (iname n) Hlen Hucol Hobj Hrx Hry (arith_iname n Hn)
                   (excl_store_other x _ (arith_iname_not_del n Hn)) Mix)).
    destruct (lookup (mk_table rowsT UT) x (iname n)) as [et|] eqn:LT.
    + (* pytype found __iop__ and its call failed: reported without trying the binary operator *)
      assert (BC : binop_c (mk_table rowsR UR) x n y = Err) by (apply (Hfall eq_refl); discriminate).
      apply negb_true_iff in Epy.
      destruct (lookup (mk_table rowsR UR) x (iname n)) as [er|] eqn:LR; [|rewrite BC; reflexivity].
      destruct (e_call1 er y) eqn:C.
      * rewrite (succ_lookup_some _ x y _ er LR), (succ_lookup_some _ x y _ et LT) in TR.
        rewrite (TR C) in Epy. discriminate.
      * rewrite BC. simpl. apply orb_true_r.
    + (* no __iop__ for pytype: the binary operator *)
      assert (BC : binop_c (mk_table rowsR UR) x n y = Err).
      { apply (reported_is_real_lemma rowsT rowsR UT UR x n y Hshape Hpf Huc Hobj Hrx Hry (arith_binop n Hn)
                 (arith_not_getitem n x y Hn)). apply is_err_eq. exact Epy. }
      destruct (lookup (mk_table rowsR UR) x (iname n)) as [er|] eqn:LR; [|rewrite BC; reflexivity].
      destruct (e_call1 er y) eqn:C.
      * rewrite (succ_lookup_some _ x y _ er LR), (succ_lookup_none _ x y _ LT) in TR.
        specialize (TR C). discriminate.
      * rewrite BC. simpl. apply orb_true_r.
Qed.

(* ------------------------------------------------------------------------------------------ *)
(* item assignment and deletion *)

Lemma store_in_arg1 : forall n, In n store_names -> In n arg1_names.
Proof. intros n H. unfold store_names in H. simpl in H.
  repeat (destruct H as [H|H]; [subst n; vm_compute; tauto|]). contradiction. Qed.

Lemma store_reported_is_real_lemma : forall rowsT rowsR UT UR x n k,
  shape_ok rowsT rowsR = true -> store_pair_faithful rowsT rowsR = true ->
  ucol2_faithful rowsT rowsR = true -> obj_faithful rowsT rowsR = true ->
  user_ok (length rowsT) UR UT x -> user_ok (length rowsT) UR UT k -> In n store_names ->
  excl_fp_store x n = false ->
  store_py (mk_table rowsT UT) x n k = Err -> store_c (mk_table rowsR UR) x n k = Err.
Proof.
  intros rowsT rowsR UT UR x n k Hshape Hpair Hucol Hobj Hrx Hrk Hn Hex Hpy.
  destruct (shape_len _ _ Hshape) as [Hlen Hpos].
  apply is_err_eq. unfold store_py, store_c, store_disp in *.
  assert (Epy : is_err (first_ok [try_call1 (mk_table rowsT UT) x k n]) = true) by (rewrite Hpy; reflexivity).
  rewrite first_ok1_err in *. apply negb_true_iff in Epy. apply negb_true_iff.
  destruct ((x <? length rowsT) && (k <? length rowsT)) eqn:Mix.
  - apply andb_prop in Mix. destruct Mix as [Lx Lk]. apply Nat.ltb_lt in Lx. apply Nat.ltb_lt in Lk.
    unfold store_pair_faithful in Hpair. rewrite forallb_forall in Hpair.
    specialize (Hpair x (in_heads _ _ Lx)). rewrite forallb_forall in Hpair.
    specialize (Hpair k (in_heads _ _ Lk)). rewrite forallb_forall in Hpair. specialize (Hpair n Hn).
    rewrite Hex in Hpair. simpl in Hpair.
    unfold store_py, store_c, store_disp in Hpair. rewrite !first_ok1_err in Hpair.
    rewrite (succ_builtin_indep rowsT UT no_users x k n Lx Lk) in Epy. rewrite Epy in Hpair. simpl in Hpair.
    apply negb_true_iff in Hpair.
    rewrite (succ_builtin_indep rowsR UR no_users x k n); [exact Hpair| |]; rewrite <- Hlen; assumption.
  - destruct (succ (mk_table rowsR UR) x k n) eqn:S; [|reflexivity].
    rewrite (succ_transfer_new rowsT rowsR UT UR x k n Hlen Hucol Hobj Hrx Hrk (store_in_arg1 n Hn) Hex Mix S) in Epy.
    discriminate.
Qed.

(* ------------------------------------------------------------------------------------------ *)
(* +x, ~x *)

Lemma un_reported_is_real_lemma : forall rowsT rowsR UT UR x n,
  shape_ok rowsT rowsR = true -> un_faithful rowsT rowsR = true -> obj_faithful rowsT rowsR = true ->
  user_ok (length rowsT) UR UT x -> In n un_names ->
  call0 (mk_table rowsT UT) x n = Err -> call0 (mk_table rowsR UR) x n = Err.
Proof.
  intros rowsT rowsR UT UR x n Hshape Hun Hobj Hrx Hn Hpy.
  destruct (shape_len _ _ Hshape) as [Hlen Hpos].
  destruct (x <? length rowsT) eqn:Lx.
  - apply Nat.ltb_lt in Lx.
    unfold un_faithful in Hun. rewrite forallb_forall in Hun. specialize (Hun x (in_heads _ _ Lx)).
    rewrite forallb_forall in Hun. specialize (Hun n Hn).
    rewrite (call0_builtin_indep rowsT UT no_users x n Lx) in Hpy. rewrite Hpy in Hun. simpl in Hun.
    apply is_err_eq. rewrite (call0_builtin_indep rowsR UR no_users x n); [exact Hun|].
    rewrite <- Hlen. exact Lx.
  - apply Nat.ltb_ge in Lx. unfold call0 in *.
    destruct (lookup (mk_table rowsR UR) x n) as [er|] eqn:ER; [|reflexivity].
    destruct (lookup_user_sim rowsT rowsR UT UR Hlen 0 x n Lx Hrx (arg_ok_builtin _ UR UT 0 Hpos) Hobj er ER)
      as [et [E1 [E2 _]]].
    rewrite E1 in Hpy. destruct (e_call0 er); [|reflexivity]. rewrite (E2 eq_refl) in Hpy. discriminate.
Qed.
