(* C14: the closed obligations over this run's REGENERATED builtin rows, discharged by vm_compute (so a changed
   line of builtins.pytd re-proves or breaks them on the next run), and the property lemmas instantiated on them. *)
From Coq Require Import List Bool PeanoNat.
From PV Require Import Ops.Model Generated.C14_Builtins Ops.Proofs.
Import ListNotations.

(* ------------------------------------------------------------------------------------------ *)
(* the closed obligations on this run's regenerated rows *)

Lemma shape_ok_holds : shape_ok py_rows rt_rows = true.
Proof. vm_compute. reflexivity. Qed.

Lemma pair_faithful_holds : pair_faithful py_rows rt_rows = true.
Proof. vm_compute. reflexivity. Qed.

Lemma ucol_faithful_holds : ucol_faithful py_rows rt_rows = true.
Proof. vm_compute. reflexivity. Qed.

Lemma obj_faithful_holds : obj_faithful py_rows rt_rows = true.
Proof. vm_compute. reflexivity. Qed.

Lemma obj_complete_holds : obj_complete py_rows rt_rows = true.
Proof. vm_compute. reflexivity. Qed.

Lemma unary_faithful_holds : unary_faithful py_rows rt_rows = true.
Proof. vm_compute. reflexivity. Qed.

Lemma pair_caught_holds : pair_caught py_rows rt_rows = true.
Proof. vm_compute. reflexivity. Qed.

Lemma refl_closed_holds : refl_closed py_rows = true.
Proof. vm_compute. reflexivity. Qed.

Lemma presence_caught_holds : presence_caught py_rows rt_rows = true.
Proof. vm_compute. reflexivity. Qed.

Lemma nb_is : length py_rows = c14_nb.
Proof. vm_compute. reflexivity. Qed.

(* ------------------------------------------------------------------------------------------ *)
(* the property statements on this run's tables, for every user part *)

Definition PY (UT : table) : table := mk_table py_rows UT.
Definition RT (UR : table) : table := mk_table rt_rows UR.
Definition user_class_ok (UR UT : table) (u : cls) : Prop := user_ok c14_nb UR UT u.

Lemma reported_is_real_inst : forall (UT UR : table) x n y,
  user_class_ok UR UT x -> user_class_ok UR UT y ->
  In n binop_names -> excl_fp_bin x n y = false ->
  binop_py (PY UT) x n y = Err -> binop_c (RT UR) x n y = Err.
Proof.
  intros UT UR x n y Hx Hy. unfold user_class_ok in *. rewrite <- nb_is in *.
  apply reported_is_real_lemma; auto using shape_ok_holds, pair_faithful_holds, ucol_faithful_holds,
    obj_faithful_holds.
Qed.

Lemma attr_reported_is_real_inst : forall (UT UR : table) x n,
  user_class_ok UR UT x -> in_scope_fp rt_rows x n = true ->
  (attr (PY UT) x n = Err -> attr (RT UR) x n = Err) /\
  (mcall (PY UT) x n = Err -> mcall (RT UR) x n = Err).
Proof.
  intros UT UR x n Hx Hs. unfold user_class_ok in *. rewrite <- nb_is in *.
  destruct (unary_reported_is_real_lemma py_rows rt_rows UT UR x n shape_ok_holds unary_faithful_holds
              obj_faithful_holds Hx Hs) as [A [B _]].
  split; assumption.
Qed.

Lemma excl_fp_mcall_neg : forall o, excl_fp_mcall o N_NEG = false.
Proof. intros o. unfold excl_fp_mcall, excl_fp_attr. destruct (o =? C_INT); reflexivity. Qed.

Lemma excl_fp_mcall_call : forall o, excl_fp_mcall o N_CALL = false.
Proof. intros o. unfold excl_fp_mcall, excl_fp_attr. destruct (o =? C_INT); reflexivity. Qed.

Lemma call_reported_is_real_inst : forall (UT UR : table) x,
  user_class_ok UR UT x ->
  (call (PY UT) x = Err -> call (RT UR) x = Err) /\ (neg (PY UT) x = Err -> neg (RT UR) x = Err).
Proof.
  intros UT UR x Hx. unfold user_class_ok in *. rewrite <- nb_is in *. split.
  - assert (Hs : in_scope_fp rt_rows x N_CALL = true).
    { unfold in_scope_fp. rewrite excl_fp_mcall_call. apply orb_true_r. }
    destruct (unary_reported_is_real_lemma py_rows rt_rows UT UR x N_CALL shape_ok_holds unary_faithful_holds
                obj_faithful_holds Hx Hs) as [_ [_ C]]. exact C.
  - assert (Hs : in_scope_fp rt_rows x N_NEG = true).
    { unfold in_scope_fp. rewrite excl_fp_mcall_neg. apply orb_true_r. }
    destruct (unary_reported_is_real_lemma py_rows rt_rows UT UR x N_NEG shape_ok_holds unary_faithful_holds
                obj_faithful_holds Hx Hs) as [_ [_ C]]. exact C.
Qed.

Lemma mistake_caught_inst : forall (UT UR : table) x n y,
  x < c14_nb -> y < c14_nb -> In n advertised_names -> excl_mc_bin x n y = false ->
  binop_c (RT UR) x n y = Err -> binop_py (PY UT) x n y = Err.
Proof.
  intros UT UR x n y Hx Hy. rewrite <- nb_is in *.
  apply mistake_caught_lemma; auto using shape_ok_holds, pair_caught_holds.
Qed.

Lemma neg_mistake_caught_inst : forall (UT UR : table) x,
  x < c14_nb -> neg (RT UR) x = Err -> neg (PY UT) x = Err.
Proof.
  intros UT UR x Hx. rewrite <- nb_is in *.
  apply neg_caught_lemma; auto using shape_ok_holds, presence_caught_holds.
Qed.

Lemma missing_attr_caught_inst : forall (UT UR : table) x n,
  user_class_ok UR UT x -> (c14_nb <=? x) || ((N_NEG <=? n) && negb (is_new n)) = true ->
  attr (RT UR) x n = Err -> attr (PY UT) x n = Err /\ mcall (PY UT) x n = Err.
Proof.
  intros UT UR x n Hx Hs Ha. unfold user_class_ok in *. rewrite <- nb_is in *.
  destruct (presence_caught_lemma py_rows rt_rows UT UR x n shape_ok_holds presence_caught_holds
              obj_complete_holds Hx Hs) as [A [B _]].
  split; [apply A; exact Ha|apply B].
  unfold RT, attr in Ha. destruct (getattr (mk_table rt_rows UR) x n); [discriminate|reflexivity].
Qed.

Lemma noncallable_caught_inst : forall (UT UR : table) x,
  user_class_ok UR UT x -> lookup (RT UR) x N_CALL = None -> call (PY UT) x = Err.
Proof.
  intros UT UR x Hx Hn. unfold user_class_ok in *. rewrite <- nb_is in *.
  assert (Hs : (length py_rows <=? x) || ((N_NEG <=? N_CALL) && negb (is_new N_CALL)) = true) by apply orb_true_r.
  destruct (presence_caught_lemma py_rows rt_rows UT UR x N_CALL shape_ok_holds presence_caught_holds
              obj_complete_holds Hx Hs) as [_ [_ C]].
  apply C. exact Hn.
Qed.
