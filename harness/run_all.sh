#!/bin/bash
# Runs every claimed check (quick by default) on /repo, N at a time, then validates manifest + evidence.
# usage: harness/run_all.sh [quick|thorough] [jobs]
cd "$(dirname "$0")/.."
tier="${1:-quick}"; jobs="${2:-4}"
mkdir -p _build/logs
ids=$(python3 -c "import json;print(' '.join(c['property_id'] for c in json.load(open('MANIFEST.json'))['checks']))")
unset VERIF_REPO
echo $ids | tr ' ' '\n' | xargs -P "$jobs" -I{} sh -c "harness/check {} --tier $tier > _build/logs/{}.$tier.log 2>&1; echo {} exit=\$? \$(grep -c '^VIOLATION' _build/logs/{}.$tier.log) violations \$(grep -c '^KNOWN-FINDING' _build/logs/{}.$tier.log) known; tail -1 _build/logs/{}.$tier.log"
python3-vt harness/validate.py
