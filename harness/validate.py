#!/usr/bin/env python3
"""python3-vt harness/validate.py : validates MANIFEST.json and every evidence file against the schemas."""
import glob, json, sys
import jsonschema
ok = True
m = json.load(open('/verif/MANIFEST.json'))
try:
  jsonschema.validate(m, json.load(open('/root/.vp/MANIFEST.schema.json'))); print('MANIFEST ok')
except jsonschema.ValidationError as e:
  print('MANIFEST INVALID', e.message); ok = False
sch = json.load(open('/root/.vp/EVIDENCE.schema.json'))
for f in sorted(glob.glob('/verif/evidence/*.json')):
  try:
    jsonschema.validate(json.load(open(f)), sch); print(f, 'ok')
  except jsonschema.ValidationError as e:
    print(f, 'INVALID', e.message); ok = False
sys.exit(0 if ok else 1)
