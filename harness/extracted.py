"""Registry of extracted-OCaml model runners: name -> (extraction file, driver, modules)."""
RUNNERS = {
    "reach": ("Extract/ExtractReach.v", "reach_driver.ml", ["reach_model"]),
    "bind": ("Extract/ExtractBind.v", "bind_driver.ml", ["bind_model"]),
    "blocks": ("Extract/ExtractBlocks.v", "blocks_driver.ml", ["blocks_model"]),
    "serial": ("Extract/ExtractSerial.v", "serial_driver.ml", ["serial_model"]),
    "plan": ("Extract/ExtractPlan.v", "plan_driver.ml", ["plan_model"]),
    "solver": ("Extract/ExtractSolver.v", "solver_driver.ml", ["solver_model"]),
    "opt": ("Extract/ExtractOpt.v", "opt_driver.ml", ["opt_model"]),
    "print": ("Extract/ExtractPrint.v", "print_driver.ml", ["print_model"]),
    "mro": ("Extract/ExtractMro.v", "mro_driver.ml", ["mro_model"]),
}
