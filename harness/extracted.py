"""Registry of extracted-OCaml model runners: name -> (extraction file, driver, modules)."""
RUNNERS = {
    "reach": ("Extract/ExtractReach.v", "reach_driver.ml", ["reach_model"]),
}
