#!/bin/bash
# Runs every claimed quick check under several seeds on /repo (N at a time); prints only non-clean results.
# usage: harness/run_seeds.sh "1 2 3" [jobs]
cd "$(dirname "$0")/.."
seeds="${1:-1 2 3}"; jobs="${2:-4}"
mkdir -p _build/logs
ids="${IDS:-$(python3 -c "import json;print(' '.join(c['property_id'] for c in json.load(open('MANIFEST.json'))['checks']))")}"
unset VERIF_REPO
for s in $seeds; do for i in $ids; do echo "$s $i"; done; done | xargs -P "$jobs" -L1 sh -c 'VERIF_SEED=$0 harness/check $1 --tier quick > _build/logs/$1.seed$0.log 2>&1; rc=$?; v=$(grep -c "^VIOLATION" _build/logs/$1.seed$0.log); if [ $rc -ne 0 ] || [ $v -ne 0 ]; then echo "ALARM seed=$0 $1 exit=$rc violations=$v"; else echo "clean seed=$0 $1"; fi'
