#!/usr/bin/env python3
"""Confirms a candidate seeded change and files it under /verif/seeded/<name>/.

usage: verify_seeded.py <name> <property> <patch.diff> <demo.py> "<what it needs to manifest>" [--checks C09,C07] [--no-tests]

Steps (all in a scratch worktree /tmp/seedchk_<name>, removed at the end):
  1. patch applies to /repo HEAD;  2. pinned suite: same 171 passing tests;  3. demo fails with the change and passes
  on /repo;  4. each named check (default: the property's) runs with VERIF_REPO=<worktree>: caught iff exit 1 + VIOLATION.
"""
import argparse, json, os, re, shutil, subprocess, sys, time

ap = argparse.ArgumentParser()
ap.add_argument("name"); ap.add_argument("prop"); ap.add_argument("patch"); ap.add_argument("demo"); ap.add_argument("needs")
ap.add_argument("--checks", default=None); ap.add_argument("--no-tests", action="store_true")
ap.add_argument("--tier", default="quick")
a = ap.parse_args()
wt = f"/tmp/seedchk_{a.name}"
out = f"/verif/seeded/{a.name}"
subprocess.run(["git", "-C", "/repo", "worktree", "remove", "--force", wt], capture_output=True)
subprocess.check_call(["git", "-C", "/repo", "worktree", "add", "-q", wt, "HEAD"])
meta = {"property": a.prop, "needs_to_manifest": a.needs, "ran": []}
try:
  r = subprocess.run(["git", "-C", wt, "apply", os.path.abspath(a.patch)], capture_output=True, text=True)
  if r.returncode != 0:
    print("PATCH DOES NOT APPLY", r.stderr); sys.exit(2)
  meta["files_changed"] = subprocess.check_output(["git", "-C", wt, "diff", "--stat"], text=True).strip().split("\n")
  env = dict(os.environ, PYTHONDONTWRITEBYTECODE="1")
  def demo(tree):
    e = dict(env, PYTYPE_TREE=tree)
    cmd = ["bash", a.demo] if a.demo.endswith(".sh") else ["/venv/bin/python", a.demo]
    p = subprocess.run(cmd, capture_output=True, text=True, env=e, timeout=1800)
    return p.returncode, (p.stdout + p.stderr)[-800:]
  rc_m, out_m = demo(wt)
  rc_c, out_c = demo("/repo")
  meta["demo_with_change"] = {"exit": rc_m, "tail": out_m}
  meta["demo_without_change"] = {"exit": rc_c, "tail": out_c}
  meta["ran"].append("demo with PYTYPE_TREE=<worktree with patch> and PYTYPE_TREE=/repo")
  ok_demo = rc_m != 0 and rc_c == 0
  if not a.no_tests:
    p = subprocess.run("/venv/bin/python -m pytest -q -p no:cacheprovider --timeout=900 --continue-on-collection-errors 2>&1 | tail -3",
                       shell=True, cwd=wt, capture_output=True, text=True)
    m = re.search(r"(\d+) passed", p.stdout)
    meta["pinned_tests_with_change"] = p.stdout.strip().split("\n")[-1]
    ok_tests = bool(m) and int(m.group(1)) == 171 and " failed" not in p.stdout.split("\n")[-2:][0]
    meta["ran"].append("pinned suite in the worktree with the patch")
  else:
    ok_tests = None
  checks = (a.checks or a.prop).split(",")
  caught = {}
  for c in checks:
    t0 = time.time()
    p = subprocess.run(["/verif/harness/check", c, "--tier", a.tier], capture_output=True, text=True,
                       env=dict(os.environ, VERIF_REPO=wt), cwd="/verif")
    viol = [l for l in p.stdout.split("\n") if l.startswith("VIOLATION")]
    caught[c] = {"exit": p.returncode, "violation_lines": viol[:4], "wall_s": round(time.time() - t0, 1),
                 "caught": p.returncode == 1 and bool(viol),
                 "with_failing_input": any("no-failing-input-found" not in l for l in viol)}
    meta["ran"].append(f"VERIF_REPO=<worktree with patch> harness/check {c} --tier {a.tier}")
  meta["checks"] = caught
  meta["confirmed"] = {"demo_discriminates": ok_demo, "pinned_tests_unchanged": ok_tests}
  print(json.dumps(meta, indent=1))
  if ok_demo and ok_tests is not False:
    os.makedirs(out, exist_ok=True)
    shutil.copy(a.patch, os.path.join(out, "patch.diff"))
    shutil.copy(a.demo, os.path.join(out, os.path.basename(a.demo) if not a.demo.endswith(".py") else "demo.py"))
    json.dump(meta, open(os.path.join(out, "meta.json"), "w"), indent=1)
    print("KEPT", out)
  else:
    print("NOT KEPT (demo or tests not confirmed)")
finally:
  subprocess.run(["git", "-C", "/repo", "worktree", "remove", "--force", wt], capture_output=True)
  for d in os.listdir("/verif/_build/cfg") if os.path.isdir("/verif/_build/cfg") else []:
    pass
