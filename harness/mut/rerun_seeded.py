#!/usr/bin/env python3
"""Re-runs the quick check of every seeded change's property against a scratch worktree with the patch applied,
updates seeded/<id>/meta.json (key `checks`) and rewrites seeded/STATUS.md.

usage: rerun_seeded.py [--only C09,C08] [--jobs 4] [--status-only]
Properties run in parallel, the seeded changes of one property run sequentially (they share coq/Generated files).
"""
import argparse, concurrent.futures, glob, json, os, subprocess, time

SEEDED = "/verif/seeded"


def run_one(name):
  d = os.path.join(SEEDED, name)
  meta = json.load(open(os.path.join(d, "meta.json")))
  prop = meta["property"]
  wt = f"/tmp/seedrun_{name}"
  subprocess.run(["git", "-C", "/repo", "worktree", "remove", "--force", wt], capture_output=True)
  subprocess.check_call(["git", "-C", "/repo", "worktree", "add", "-q", wt, "HEAD"])
  try:
    r = subprocess.run(["git", "-C", wt, "apply", os.path.join(d, "patch.diff")], capture_output=True, text=True)
    if r.returncode != 0:
      meta["checks"] = {prop: {"error": "patch no longer applies to /repo HEAD: " + r.stderr[-300:]}}
    else:
      t0 = time.time()
      p = subprocess.run(["/verif/harness/check", prop, "--tier", "quick"], capture_output=True, text=True,
                         env=dict(os.environ, VERIF_REPO=wt), cwd="/verif")
      viol = [l for l in p.stdout.split("\n") if l.startswith("VIOLATION")]
      meta["checks"] = {prop: {"exit": p.returncode, "violation_lines": viol[:4], "wall_s": round(time.time() - t0, 1),
                               "caught": p.returncode == 1 and bool(viol),
                               "with_failing_input": any("no-failing-input-found" not in l for l in viol),
                               "repo_head": subprocess.check_output(["git", "-C", "/repo", "log", "-1", "--format=%h"], text=True).strip()}}
    json.dump(meta, open(os.path.join(d, "meta.json"), "w"), indent=1)
  finally:
    subprocess.run(["git", "-C", "/repo", "worktree", "remove", "--force", wt], capture_output=True)
  return name, meta["checks"]


def write_status():
  rows = []
  for mf in sorted(glob.glob(os.path.join(SEEDED, "*", "meta.json"))):
    name = os.path.basename(os.path.dirname(mf))
    m = json.load(open(mf))
    for chk, c in (m.get("checks") or {}).items():
      if "error" in c:
        st = "ERROR: " + c["error"][:60]
      elif c.get("caught") and c.get("with_failing_input"):
        st = "caught (concrete replay)"
      elif c.get("caught"):
        st = "caught (no-failing-input-found)"
      else:
        st = "MISSED"
      rows.append((name, m["property"], chk, st, m.get("needs_to_manifest", "")[:160].replace("|", "/")))
    if not m.get("checks"):
      rows.append((name, m["property"], "-", m.get("caught_by", ["?"])[0] if isinstance(m.get("caught_by"), list) else "?", m.get("needs_to_manifest", "")[:160]))
  with open(os.path.join(SEEDED, "STATUS.md"), "w") as f:
    f.write("# Seeded changes and the checks that catch them (quick tier)\n\n"
            "| seeded change | property | check run | result | needs, to manifest |\n|---|---|---|---|---|\n")
    for r in rows:
      f.write("| %s | %s | %s | %s | %s |\n" % r)
    n = len(rows)
    f.write("\n%d seeded changes; caught with a concrete replay: %d; caught without one: %d; missed: %d\n" % (
        n, sum("concrete" in r[3] for r in rows), sum("no-failing" in r[3] for r in rows), sum("MISSED" in r[3] for r in rows)))


def main():
  ap = argparse.ArgumentParser()
  ap.add_argument("--only", default=None); ap.add_argument("--jobs", type=int, default=4)
  ap.add_argument("--status-only", action="store_true")
  a = ap.parse_args()
  if not a.status_only:
    names = sorted(os.path.basename(os.path.dirname(m)) for m in glob.glob(os.path.join(SEEDED, "*", "meta.json")))
    by_prop = {}
    for n in names:
      prop = json.load(open(os.path.join(SEEDED, n, "meta.json")))["property"]
      if a.only and prop not in a.only.split(",") and n not in a.only.split(","):
        continue
      by_prop.setdefault(prop, []).append(n)
    def run_prop(ns):
      return [run_one(n) for n in ns]
    with concurrent.futures.ThreadPoolExecutor(a.jobs) as ex:
      for res in ex.map(run_prop, by_prop.values()):
        for name, chk in res:
          print(name, json.dumps(chk)[:300], flush=True)
  write_status()


if __name__ == "__main__":
  main()
