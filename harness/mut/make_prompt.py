#!/usr/bin/env python3
"""Prints the prompt given to an independent mutation sub-agent for one property (it gets nothing from /verif)."""
import json, sys
pid = sys.argv[1]
tag = sys.argv[2] if len(sys.argv) > 2 else "a"
hint = sys.argv[3] if len(sys.argv) > 3 else ""
p = [json.loads(l) for l in open('/verif/properties.jsonl') if json.loads(l)['id'] == pid][0]
wt = f"/tmp/mut_{pid}_{tag}"
print(f"""You are helping to evaluate a verification effort for the open-source project google/pytype (a Python static type inferencer). Your job is to play the adversary: write a realistic change to pytype's source that BREAKS the semantic property below while still compiling/importing and passing the project's existing test suite, so that we can see whether independent checking machinery catches it. You must NOT read or use anything under /verif (that is the machinery under evaluation; looking at it would spoil the experiment) and you must NOT modify /repo itself.

Setup: create your own scratch worktree and work only there:
  git -C /repo worktree add {wt} HEAD
Write your outputs to {wt}_out/ (create it): patch.diff, demo.py (or demo.sh), notes.md.

The property ({p['id']}: {p['title']}):
  Statement: {p['statement']}
  Quantified over: {p['quantifier']['text']}
  Why existing tests cannot settle it: {p['why_tests_cant']}
  Anchored in: {', '.join(p['anchors']['files'])}
  Mechanisms meant to make it hold: {json.dumps(p['anchors']['mechanism'])}

What to produce: up to TWO distinct changes (different sites/mechanisms; produce them as patch1.diff/demo1.py and patch2.diff/demo2.py if you manage two, otherwise patch.diff/demo.py). Each change must:
  * be a plausible-looking source edit (an optimisation, refactor, off-by-one, missing case, wrong operator, reordered calls, a cache not refreshed, ...) to non-test files of pytype, small (a few lines);
  * break the property for SOME inputs/histories but need something specific to manifest — a particular size or ordering, a multi-step sequence of operations, an unusual input shape, or two cooperating sites that each look fine alone — NOT something that ordinary use would expose at once (e.g. not "always return False");
  * still import/compile, and still pass the existing pinned test suite: run `cd {wt} && /venv/bin/python -m pytest -q -p no:cacheprovider --timeout=900 --continue-on-collection-errors 2>&1 | tail -5` — NOTE: in this sandbox only 171 tests can run (most test modules fail at collection because the C++ extension pytype/typegraph/cfg.so is not built and typeshed is absent; those collection errors are expected and identical with and without your change). What matters: the set of passing tests must be the same with and without your change (171 passed).
  * come with a demonstration: a small program/test that FAILS (non-zero exit, prints what went wrong) with the change applied and PASSES on the unmodified tree. The demo takes the tree to test from the environment variable PYTYPE_TREE (default your worktree) and must put that tree first on sys.path.

Environment facts: Python with pytype's dependencies is /venv/bin/python (3.12). The C++ typegraph extension is not prebuilt; to run anything that needs it (the solver, reachability, the whole VM / `pytype.io.generate_pyi`) build it for YOUR tree (about 15 s; rebuild after editing any .cc/.h):
  mkdir -p {wt}_out/cfgbuild && g++ -O1 -std=c++17 -shared -fPIC -I/root/.pyenv/versions/3.12.1/include/python3.12 -I/venv/lib/python3.12/site-packages/pybind11/include -I{wt}/pytype/typegraph {wt}/pytype/typegraph/{{cfg,cfg_logging,pylogging,reachable,solver,typegraph}}.cc -o {wt}_out/cfgbuild/cfg.so
and in Python, before importing anything else from pytype: `import sys; sys.path.insert(0, TREE); import pytype.typegraph; pytype.typegraph.__path__.append(CFGBUILD_DIR)`. Then e.g. `from pytype.typegraph import cfg` (cfg.Program(), NewCFGNode, ConnectTo/ConnectNew, NewVariable, AddBinding(data, source_set, where), HasCombination, IsVisible, is_reachable, ...) or `from pytype import io, config; ret, pyi = io.generate_pyi(src, config.Options.create(python_version=(3,12)))` (errors: `ret.context.errorlog`, each with .name .line .message). typeshed is absent: analysed programs must not import stdlib modules other than typing. No network. Your demo must build what it needs itself (it may shell out to g++ as above, into a directory next to the demo) so it can be run against either tree.
{hint}
When done, make sure patch files are produced with `git -C {wt} diff > ...` (one change at a time, relative to HEAD), restore the worktree to a clean state or leave the last patch applied (say which), and reply with: for each change — the file/function edited, why it breaks the property, what it needs to manifest, the demo's output with and without the change, and confirmation that the 171 pinned tests still pass with it.""")
