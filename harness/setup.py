"""Builds cfg.so (out of tree), the whole Coq development (full .vo) and the extracted model runners."""
import os
import sys
import time

import common

t0 = time.time()
d = common.build_cfg()
print("cfg.so:", d)
# regenerate coq/Generated/*.v (not committed) before building
import glob
import importlib
sys.path.insert(0, os.path.join(common.VERIF, "harness", "props"))
for f in sorted(glob.glob(os.path.join(common.VERIF, "harness", "props", "c[0-9][0-9].py"))):
  name = os.path.basename(f)[:-3]
  try:
    mod = importlib.import_module(name)
    if hasattr(mod, "generate"):
      mod.generate()
      print("generated tables for", name)
  except Exception as e:  # pylint: disable=broad-except
    print("generate() of", name, "failed:", repr(e))
import json
claimed = [c["property_id"] for c in json.load(open(os.path.join(common.VERIF, "MANIFEST.json")))["checks"]]
vos = ["Props/%s.vo" % p for p in claimed if os.path.exists(os.path.join(common.COQ, "Props", p + ".v"))]
ok, out = common.coq_make(vos)
print(out[-3000:] if not ok else "coq: closures of %d claimed property files built" % len(vos))
# extracted runners are (re)built lazily by the checks; build the known ones now to save time later
try:
  import extracted
  for name, (v, drv, mods) in extracted.RUNNERS.items():
    print("ocaml:", common.build_extracted(name, v, os.path.join(common.VERIF, "harness", "ocaml", drv), mods))
except common.BuildError as e:
  print("extraction build failed:", e)
  ok = False
print("setup wall %.1fs" % (time.time() - t0))
sys.exit(0 if ok else 1)
