(* Driver for the extracted C13 models.  One case per input line, all tokens integers:
     np p..  nq q..  nk k..  nd d..  va  kw  npos  nkws kws..  [va_annotated]
   (va / kw = -1 when the signature has no *args / **kwargs; va_annotated = 1 when a stub annotates
   *args, default 0; the stub mapper's placeholder names are argname i = 14 + i, the ids the harness
   gives to "_0", "_1", ...).  Output, one line per case:
     <wf> TAB <bind_py> TAB <bind_py_fixed> TAB <bind_c> TAB <bind_pytd>
   wf: 1/0 (wf_sigb && nodupb kws).  A result is  E:<kind>:<names joined by .>  or
   O:<v,v,...> with one value per name of all_names: Pi  Kk  D  Vi.j  Wk.l  - (unbound). *)
open Bind_model
let rec nat_of_int n = if n <= 0 then O else S (nat_of_int (n - 1))
let rec int_of_nat = function O -> 0 | S n -> 1 + int_of_nat n
let names l = String.concat "." (List.map (fun n -> string_of_int (int_of_nat n)) l)
let value = function
  | Pos i -> "P" ^ string_of_int (int_of_nat i)
  | Kw k -> "K" ^ string_of_int (int_of_nat k)
  | Default -> "D"
  | VarArgs l -> "V" ^ names l
  | KwArgs l -> "W" ^ names l
  | AnyV -> "A"
  | Elem j -> "E" ^ string_of_int (int_of_nat j)
  | StarV j -> "S" ^ string_of_int (int_of_nat j)
  | KwOpaque -> "WO"
let ok s r =
  match lookup_all s r with
  | Some l -> "O:" ^ String.concat "," (List.map (function Some v -> value v | None -> "-") l)
  | None -> "?"
let py s r =
  match r with
  | Ok _ -> ok s r
  | Err (EDuplicateKeyword l) -> "E:dup:" ^ names l
  | Err (EWrongKeywordArgs l) -> "E:wkw:" ^ names l
  | Err (EMissingParameter k) -> "E:miss:" ^ names [k]
  | Err EWrongArgCount -> "E:cnt:"
let c s r =
  match r with
  | Ok _ -> ok s r
  | Err (CMultipleValues k) -> "E:multi:" ^ names [k]
  | Err (CUnexpectedKeyword k) -> "E:unexp:" ^ names [k]
  | Err (CPosonlyAsKeyword l) -> "E:posonlykw:" ^ names l
  | Err CTooManyPositional -> "E:toomany:"
  | Err (CMissingPositional l) -> "E:misspos:" ^ names l
  | Err (CMissingKwonly l) -> "E:misskw:" ^ names l
let () =
  try
    while true do
      let line = input_line stdin in
      let tag = if String.length line > 0 && (match line.[0] with 'X' | 'F' | 'K' | 'V' -> true | _ -> false)
                then line.[0] else ' ' in
      let is_x = tag = 'X' in
      let line = if tag <> ' ' then String.sub line 1 (String.length line - 1) else line in
      let toks = Array.of_list (List.map int_of_string
                   (List.filter (fun s -> s <> "") (String.split_on_char ' ' line))) in
      let i = ref 0 in
      let next () = let v = toks.(!i) in incr i; v in
      let lst () = let n = next () in List.init n (fun _ -> nat_of_int (next ())) in
      let opt () = let v = next () in if v < 0 then None else Some (nat_of_int v) in
      let read_sig () =
        let p = lst () in let q = lst () in let k = lst () in let d = lst () in
        let va = opt () in let kw = opt () in
        { posonly = p; pos_or_kw = q; kwonly = k; defaults = d; varargs = va; kwargs = kw } in
      let argname k = nat_of_int (14 + int_of_nat k) in
      let vals s d = String.concat "," (List.map (fun p ->
                       match (let rec g = function [] -> None | (k, v) :: t -> if k = p then Some v else g t in g d) with
                       | Some v -> value v | None -> "-") (all_names s)) in
      if tag = 'K' then begin
        (* K-lines (constructors):  nclasses {0 | 1 <sig>}{0 | 1 <sig>} per class (its __new__, its __init__), most
           derived first;  npos  nkws kws..   Output: <wf> TAB <ctor_py, code before fix> TAB <ctor_py> TAB <ctor_c>;
           a result is E:<kind>:<names> / E:noargs: or O:<__new__ locals>|<__init__ locals> (- = not run) *)
        let nc = next () in
        let osig () = if next () = 1 then Some (read_sig ()) else None in
        let m = List.init nc (fun _ -> let n = osig () in let it = osig () in { c_new = n; c_init = it }) in
        let np = nat_of_int (next ()) in
        let ks = lst () in
        let sh = { npos = np; kws = ks } in
        let rec look sel = function [] -> None | k :: t -> (match sel k with Some s -> Some s | None -> look sel t) in
        let sn = look (fun k -> k.c_new) m and si = look (fun k -> k.c_init) m in
        let part os od = match os, od with Some s, Some d -> vals s d | _ -> "-" in
        let okr dn di = "O:" ^ part sn dn ^ "|" ^ part si di in
        let pyr = function
          | CtorErr e -> py { posonly = []; pos_or_kw = []; kwonly = []; defaults = []; varargs = None; kwargs = None } (Err e)
          | CtorOk (dn, di) -> okr dn di in
        let cr = function
          | CtorErr (CBind e) -> c { posonly = []; pos_or_kw = []; kwonly = []; defaults = []; varargs = None; kwargs = None } (Err e)
          | CtorErr CNoArguments -> "E:noargs:"
          | CtorOk (dn, di) -> okr dn di in
        let wfs = List.for_all (fun k -> (match k.c_new with Some s -> wf_sigb s | None -> true)
                                         && (match k.c_init with Some s -> wf_sigb s | None -> true)) m in
        let wf = if wfs && nodupb ks then "1" else "0" in
        print_endline (String.concat "\t" [wf; pyr (ctor_py bind_py argname m sh); pyr (ctor_py bind_py_fixed argname m sh);
                                           cr (ctor_c m sh)])
      end else if tag = 'V' then begin
        (* V-lines (overloaded stub function):  nsigs <sig>..  npos  nkws kws..  va_annotated
           Output: <wf> TAB <call_overloaded bind_pytd>: E:<kind>:<names> or O:<0/1 per signature: matched> *)
        let ns = next () in
        let sigs = List.init ns (fun _ -> read_sig ()) in
        let np = nat_of_int (next ()) in
        let ks = lst () in
        let sh = { npos = np; kws = ks } in
        let va_annot = next () = 1 in
        let wf = if List.for_all wf_sigb sigs && nodupb ks then "1" else "0" in
        let dummy = { posonly = []; pos_or_kw = []; kwonly = []; defaults = []; varargs = None; kwargs = None } in
        let r = match call_overloaded (bind_pytd va_annot argname) sigs sh with
          | OvErr e -> py dummy (Err e)
          | OvRaiseNone -> "E:none:"
          | OvOk matched ->
            let rec walk ss ms = match ss with
              | [] -> ""
              | s :: t -> (match ms with
                           | (s', _) :: mt when s' = s -> "1" ^ walk t mt
                           | _ -> "0" ^ walk t ms) in
            "O:" ^ walk sigs matched in
        print_endline (String.concat "\t" [wf; r])
      end else
      let s = read_sig () in
      if tag = 'F' then begin
        (* F-lines (call forms):  <sig> form(0..7, the constructors of FormsModel.form in order)  npos  nkws kws..  va_annotated
           Output: <wf> TAB <call_form_py bind_py> TAB <call_form_py bind_py_fixed> TAB <call_form_c> TAB <call_form_py bind_pytd> *)
        let f = match next () with
          | 0 -> FFunction | 1 -> FInstanceMethod | 2 -> FThroughClass | 3 -> FClassmethodOnClass
          | 4 -> FClassmethodOnInstance | 5 -> FStaticOnClass | 6 -> FStaticOnInstance | _ -> FCallableInstance in
        let np = nat_of_int (next ()) in
        let ks = lst () in
        let sh = { npos = np; kws = ks } in
        let va_annot = next () = 1 in
        let wf = if wf_sigb s && nodupb ks then "1" else "0" in
        print_endline (String.concat "\t" [wf; py s (call_form_py argcount_src bind_py f s sh);
                                           py s (call_form_py argcount_src bind_py_fixed f s sh);
                                           c s (call_form_c f s sh);
                                           py s (call_form_py argcount_pytd (bind_pytd va_annot argname) f s sh)])
      end else
      if is_x then begin
        (* X-lines (call sites with splats):  <sig> xnpos  nitems item..  nkws kws..  opaque  frames
           item: 0 plain argument, 1 indefinite splat, 2+n splat of a concrete tuple/list of n elements;
           frames = len(vm.frames) at the call (0 = not given).  Output:
           <wf> TAB <bind_px (code before fix)> TAB <bind_px> TAB <items after site_items: a / s> TAB <call_at_depth> *)
        let xnp = nat_of_int (next ()) in
        let nit = next () in
        let pits = List.init nit (fun _ -> let v = next () in
                     if v = 0 then PA else if v = 1 then PX else PT (nat_of_int (v - 2))) in
        let ks = lst () in
        let opq = next () = 1 in
        let frames = next () in
        let items = site_items pits in
        let xc = { x_npos = xnp; x_items = items; x_kws = ks; x_opaque = opq } in
        let wf = if wf_sigb s && nodupb ks then "1" else "0" in
        let its = String.concat "" (List.map (function IArg -> "a" | IStar -> "s") items) in
        let depth = match call_at_depth (nat_of_int 4) (nat_of_int frames) false s xc with
          | ORaise _ -> "raise" | OUnsolvable -> "U" | ORun _ -> "run" in
        print_endline (String.concat "\t" [wf; py s (bind_px_gen false s xc); py s (bind_px_gen true s xc); its; depth])
      end else
      let np = nat_of_int (next ()) in
      let ks = lst () in
      let sh = { npos = np; kws = ks } in
      let va_annot = !i < Array.length toks && next () = 1 in
      let argname k = nat_of_int (14 + int_of_nat k) in
      let wf = if wf_sigb s && nodupb ks then "1" else "0" in
      print_endline (String.concat "\t" [wf; py s (bind_py s sh); py s (bind_py_fixed s sh); c s (bind_c s sh);
                                         py s (bind_pytd va_annot argname s sh)])
    done
  with End_of_file -> ()
