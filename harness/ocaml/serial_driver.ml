(* Driver for the extracted C12 model.  One command per input line, tokens separated by blanks.

   values:  N | T | F | I<dec> | D<dec> | s<hex>
            ( t v* )  tuple      ( l v* )  list       ( S v* )  set      ( d (s<hex> v)* )  dict
            ( c s<class> v* )  struct   ( e s<enum> s<val> )  str enum   ( f s<enum> I<dec> )  flag
   mvals:   N | T | F | I<dec> | D<dec> | s<hex> | ( a m* ) | ( m (s<hex> m)* )
   type:    S:<Class>  |  F:<Class>.<field>
   hv:      o | x   (unchanged / fixed __hash__)

   C hv type value          -> conforms            prints 0/1
   E value mval             -> encode value = mval prints 0/1
   D hv type mval (value|!) -> decode; prints two chars: model succeeded (S/F), agrees with expectation (1/0)
   G value                  -> in_G                prints 0/1
   P n value*n              -> pool: line 1: per node  (distinct_o distinct_x sorted_o) as one digit 0..7
                                     then n lines of n hex digits: bit3 eqb_o, bit2 eqb_x, bit1 hk_o equal, bit0 hk_x equal *)
open Serial_model

let explode s = List.init (String.length s) (String.get s)
let unhex s =
  let n = String.length s / 2 in
  List.init n (fun i -> Char.chr (int_of_string ("0x" ^ String.sub s (2 * i) 2)))
let rec nat_of_int n = if n <= 0 then O else S (nat_of_int (n - 1))
let z_of_dec (s : string) : z =
  let neg = String.length s > 0 && s.[0] = '-' in
  let digits = if neg then String.sub s 1 (String.length s - 1) else s in
  let acc = ref z_zero in
  String.iter (fun ch -> acc := Z.add (Z.mul !acc z_ten) (z_digit (nat_of_int (Char.code ch - 48)))) digits;
  if neg then Z.opp !acc else !acc

exception Parse of string

let toks : string array ref = ref [||]
let pos = ref 0
let peek () = if !pos < Array.length !toks then !toks.(!pos) else raise (Parse "eof")
let next () = let t = peek () in incr pos; t
let tail t = String.sub t 1 (String.length t - 1)
let str_tok () = let t = next () in if t.[0] <> 's' then raise (Parse ("string expected: " ^ t)); unhex (tail t)
let int_tok () = let t = next () in if t.[0] <> 'I' then raise (Parse ("int expected: " ^ t)); z_of_dec (tail t)

let rec parse_value () : value =
  let t = next () in
  match t.[0] with
  | 'N' -> VNone
  | 'T' -> VBool true
  | 'F' -> VBool false
  | 'I' -> VInt (z_of_dec (tail t))
  | 'D' -> VFloat (z_of_dec (tail t))
  | 's' -> VStr (unhex (tail t))
  | '(' ->
    let k = next () in
    let rec many () = if peek () = ")" then (ignore (next ()); []) else let v = parse_value () in v :: many () in
    (match k with
     | "t" -> VTuple (many ())
     | "l" -> VList (many ())
     | "S" -> VSet (many ())
     | "d" ->
       let rec kvs () = if peek () = ")" then (ignore (next ()); ([], []))
         else let k = str_tok () in let v = parse_value () in let (ks, vs) = kvs () in (k :: ks, v :: vs) in
       let (ks, vs) = kvs () in VDict (ks, vs)
     | "c" -> let c = str_tok () in VStruct (c, many ())
     | "e" -> let e = str_tok () in let s = str_tok () in ignore (next ()); VEnumS (e, s)
     | "f" -> let e = str_tok () in let z = int_tok () in ignore (next ()); VEnumI (e, z)
     | _ -> raise (Parse ("bad value kind " ^ k)))
  | _ -> raise (Parse ("bad value token " ^ t))

let rec parse_mval () : mval =
  let t = next () in
  match t.[0] with
  | 'N' -> MNil
  | 'T' -> MBool true
  | 'F' -> MBool false
  | 'I' -> MInt (z_of_dec (tail t))
  | 'D' -> MFloat (z_of_dec (tail t))
  | 's' -> MStr (unhex (tail t))
  | '(' ->
    let k = next () in
    (match k with
     | "a" ->
       let rec many () = if peek () = ")" then (ignore (next ()); []) else let v = parse_mval () in v :: many () in
       MArr (many ())
     | "m" ->
       let rec kvs () = if peek () = ")" then (ignore (next ()); [])
         else let k = str_tok () in let v = parse_mval () in (k, v) :: kvs () in
       MMap (kvs ())
     | _ -> raise (Parse ("bad mval kind " ^ k)))
  | _ -> raise (Parse ("bad mval token " ^ t))

let parse_hv () = match next () with "o" -> HvOrig | "x" -> HvFixed | t -> raise (Parse ("bad hv " ^ t))

let parse_type () : fty =
  let t = next () in
  let body = String.sub t 2 (String.length t - 2) in
  if String.sub t 0 2 = "S:" then FStruct (explode body)
  else if String.sub t 0 2 = "F:" then begin
    match String.index_opt body '.' with
    | None -> raise (Parse ("bad field spec " ^ t))
    | Some i ->
      let c = String.sub body 0 i and f = String.sub body (i + 1) (String.length body - i - 1) in
      (match field_fty (explode c) (explode f) with
       | Some ft -> ft
       | None -> raise (Parse ("unknown field " ^ t)))
  end else raise (Parse ("bad type spec " ^ t))

let b2s b = if b then "1" else "0"

let () =
  try
    while true do
      let line = input_line stdin in
      toks := Array.of_list (List.filter (fun s -> s <> "") (String.split_on_char ' ' line));
      pos := 0;
      if Array.length !toks > 0 then begin
        (try
           match next () with
           | "C" ->
             let hv = parse_hv () in let ft = parse_type () in let v = parse_value () in
             print_endline (b2s (conforms pytd_schema hv v ft))
           | "E" ->
             let v = parse_value () in let m = parse_mval () in
             print_endline (b2s (encode pytd_schema v = m))
           | "D" ->
             let hv = parse_hv () in let ft = parse_type () in let m = parse_mval () in
             let r = decode pytd_schema hv ft m in
             if peek () = "!" then
               print_endline (match r with None -> "F1" | Some _ -> "S0")
             else begin
               let v = parse_value () in
               print_endline (match r with None -> "F0" | Some v' -> if veqb v' v then "S1" else "S0")
             end
           | "G" -> let v = parse_value () in print_endline (b2s (in_G v))
           | "P" ->
             let n = int_of_string (next ()) in
             let vs = Array.init n (fun _ -> parse_value ()) in
             let ko = Array.map (fun v -> hk pytd_schema HvOrig v) vs in
             let kx = Array.map (fun v -> hk pytd_schema HvFixed v) vs in
             let buf = Buffer.create (n + 1) in
             Array.iter (fun v ->
                 let d = (if members_hash_distinct pytd_schema HvOrig v then 4 else 0)
                         + (if members_hash_distinct pytd_schema HvFixed v then 2 else 0)
                         + (if members_hash_sorted pytd_schema HvOrig v then 1 else 0) in
                 Buffer.add_char buf (Char.chr (48 + d))) vs;
             print_endline (Buffer.contents buf);
             for i = 0 to n - 1 do
               let buf = Buffer.create (n + 1) in
               for j = 0 to n - 1 do
                 let d = (if node_eqb pytd_schema HvOrig vs.(i) vs.(j) then 8 else 0)
                         + (if node_eqb pytd_schema HvFixed vs.(i) vs.(j) then 4 else 0)
                         + (if ko.(i) = ko.(j) then 2 else 0)
                         + (if kx.(i) = kx.(j) then 1 else 0) in
                 Buffer.add_char buf "0123456789abcdef".[d]
               done;
               print_endline (Buffer.contents buf)
             done
           | t -> print_endline ("ERR bad command " ^ t)
         with Parse msg -> print_endline ("ERR " ^ msg)
            | Invalid_argument msg -> print_endline ("ERR invalid " ^ msg)
            | Failure msg -> print_endline ("ERR failure " ^ msg))
      end
    done
  with End_of_file -> ()
