(* Driver for the extracted C05 declaration model (coq/Print/Decl.v).  One case per input line, words separated
   by blanks.  Types, signatures and tokens as in print_driver.ml; in addition
     const  ::= name val type                       tparam ::= name lit k type*k (- | + type)
     fsig   ::= sig k type*k                        func   ::= name kind abs cor fin k deco*k n fsig*n
     cls    ::= name nb type*nb nk (kw type)*nk nd deco*nd (- | + n lit*n) ncls cls*ncls nconst const* nm func*
     unit   ::= ntp tparam* na (name type)*na nc const* ncl cls* nf func*
     stmts  ::= n stmt*n      stmt ::= L k token*k | B | K k token*k stmts
   Commands:
     U fixed unit    -> stmts(print_unit) | parse_unit(that) | norm_unit | wf_unit | stmts(print_unit(norm_unit)) | parse_unit(that) | stable_unit
                        (fixed = 0/1: the variant of VisitFunction the tree under test implements)
     P stmts         -> parse_unit
     F cls nm k env*k fsig -> tokens(print_fsig) | parse_fsig | norm_fsig | wf_fsig
     I fixed ntab imps unit -> lines(import_lines rich=0) | lines(rich=1) | wf_imports | parse_text(print_text rich=0) = Some(norm_iunit) 0/1
                        ntab ::= k (id nch prefix*nch lowlast rank)*k     imps ::= k (M m a | F m n a)*k
                        lines ::= k (L m a | F m nt (n a)*nt)*k
     R lines stmts   -> parse_text: NONE | imps "|" unit *)
open Decl_model

let rec pos_of_int n = if n = 1 then XH else if n land 1 = 1 then XI (pos_of_int (n lsr 1)) else XO (pos_of_int (n lsr 1))
let rec int_of_pos = function XH -> 1 | XI p -> 2 * int_of_pos p + 1 | XO p -> 2 * int_of_pos p
let n_of_int n = if n = 0 then N0 else Npos (pos_of_int n)
let int_of_n = function N0 -> 0 | Npos p -> int_of_pos p
let z_of_int n = if n = 0 then Z0 else if n > 0 then Zpos (pos_of_int n) else Zneg (pos_of_int (- n))
let int_of_z = function Z0 -> 0 | Zpos p -> int_of_pos p | Zneg p -> - (int_of_pos p)

(* ---- reading ---- *)
let words : string array ref = ref [||]
let pos = ref 0
let next () = let w = !words.(!pos) in incr pos; w
let next_int () = int_of_string (next ())
let next_n () = n_of_int (next_int ())
let rec times k f = if k <= 0 then [] else let x = f () in x :: times (k - 1) f

let read_name () =
  match next () with
  | "b" -> NB (next_n ()) | "t" -> NT (next_n ()) | "p" -> NP (next_n ())
  | w -> failwith ("bad name " ^ w)

let rec read_ty () =
  match next () with
  | "Nb" -> Named (NB (next_n ())) | "Nt" -> Named (NT (next_n ())) | "Np" -> Named (NP (next_n ()))
  | "A" -> AnyT | "Z" -> NothingT | "V" -> TParam (next_n ())
  | "Li" -> Lit (LInt (z_of_int (next_int ())))
  | "Lb" -> let c = next_int () in let b = next_int () in Lit (LBool (c <> 0, b <> 0))
  | "Ls" -> Lit (LStr (next_n ())) | "Le" -> Lit (LEnum (next_n ()))
  | "G" -> let b = read_name () in let k = next_int () in Generic (b, times k read_ty)
  | "Tu" -> let b = read_name () in let k = next_int () in TupleT (b, times k read_ty)
  | "Ca" -> let b = read_name () in let k = next_int () in CallableT (b, times k read_ty)
  | "U" -> let k = next_int () in Union (times k read_ty)
  | "An" -> let t = read_ty () in let k = next_int () in Annot (t, times k next_n)
  | w -> failwith ("bad type word " ^ w)

let read_token w =
  match w with
  | "None" -> TNone | "..." -> TEllipsis | "T" -> TBool true | "F" -> TBool false
  | "[" -> TLBr | "]" -> TRBr | "(" -> TLPar | ")" -> TRPar | "," -> TComma | ":" -> TColon
  | "=" -> TEq | "*" -> TStar | "**" -> TDStar | "/" -> TSlash | "->" -> TArrow | "NL" -> TNewline
  | _ ->
    let rest = String.sub w 1 (String.length w - 1) in
    (match w.[0] with
     | 'n' -> TName (n_of_int (int_of_string rest))
     | 'i' -> TInt (z_of_int (int_of_string rest))
     | 's' -> TStr (n_of_int (int_of_string rest))
     | _ -> failwith ("bad token " ^ w))

let read_tokens () =
  let l = ref [] in
  while !pos < Array.length !words do l := read_token (next ()) :: !l done;
  List.rev !l

let read_opt f = match next () with "-" -> None | "+" -> Some (f ()) | w -> failwith ("bad option " ^ w)
let read_cls_opt () = match next () with "-" -> None | w -> Some (n_of_int (int_of_string w))
let read_env () = let k = next_int () in times k next_n

let read_param () =
  let nm = next_n () in
  let kind = (match next_int () with 0 -> PosOnly | 1 -> Regular | _ -> KwOnly) in
  let opt = next_int () <> 0 in
  let t = read_ty () in
  let m = read_opt read_ty in
  { p_name = nm; p_ty = t; p_kind = kind; p_opt = opt; p_mut = m }

let read_sig () =
  let k = next_int () in
  let ps = times k read_param in
  let st = read_opt (fun () -> let nm = next_n () in let t = read_ty () in (nm, t)) in
  let sst = read_opt (fun () -> let nm = next_n () in let t = read_ty () in (nm, t)) in
  let ret = read_ty () in
  { s_params = ps; s_star = st; s_sstar = sst; s_ret = ret }

(* ---- writing ---- *)
let buf = Buffer.create 4096
let out s = Buffer.add_string buf s; Buffer.add_char buf ' '
let out_int i = out (string_of_int i)
let out_name = function
  | NB i -> out "b"; out_int (int_of_n i) | NT i -> out "t"; out_int (int_of_n i) | NP i -> out "p"; out_int (int_of_n i)
let rec out_ty = function
  | Named (NB i) -> out "Nb"; out_int (int_of_n i)
  | Named (NT i) -> out "Nt"; out_int (int_of_n i)
  | Named (NP i) -> out "Np"; out_int (int_of_n i)
  | AnyT -> out "A" | NothingT -> out "Z" | TParam i -> out "V"; out_int (int_of_n i)
  | Lit (LInt z) -> out "Li"; out_int (int_of_z z)
  | Lit (LBool (c, b)) -> out "Lb"; out_int (if c then 1 else 0); out_int (if b then 1 else 0)
  | Lit (LStr i) -> out "Ls"; out_int (int_of_n i)
  | Lit (LEnum i) -> out "Le"; out_int (int_of_n i)
  | Generic (b, ps) -> out "G"; out_name b; out_int (List.length ps); List.iter out_ty ps
  | TupleT (b, ps) -> out "Tu"; out_name b; out_int (List.length ps); List.iter out_ty ps
  | CallableT (b, ps) -> out "Ca"; out_name b; out_int (List.length ps); List.iter out_ty ps
  | Union ts -> out "U"; out_int (List.length ts); List.iter out_ty ts
  | Annot (t, a) -> out "An"; out_ty t; out_int (List.length a); List.iter (fun i -> out_int (int_of_n i)) a
let out_token = function
  | TName i -> out ("n" ^ string_of_int (int_of_n i)) | TNone -> out "None" | TEllipsis -> out "..."
  | TInt z -> out ("i" ^ string_of_int (int_of_z z)) | TStr i -> out ("s" ^ string_of_int (int_of_n i))
  | TBool b -> out (if b then "T" else "F")
  | TLBr -> out "[" | TRBr -> out "]" | TLPar -> out "(" | TRPar -> out ")" | TComma -> out ","
  | TColon -> out ":" | TEq -> out "=" | TStar -> out "*" | TDStar -> out "**" | TSlash -> out "/"
  | TArrow -> out "->" | TNewline -> out "NL"
let out_tokens l = List.iter out_token l
let out_opt f = function None -> out "-" | Some x -> out "+"; f x
let out_param p =
  out_int (int_of_n p.p_name);
  out_int (match p.p_kind with PosOnly -> 0 | Regular -> 1 | KwOnly -> 2);
  out_int (if p.p_opt then 1 else 0);
  out_ty p.p_ty;
  out_opt out_ty p.p_mut
let out_sig s =
  out_int (List.length s.s_params); List.iter out_param s.s_params;
  out_opt (fun (nm, t) -> out_int (int_of_n nm); out_ty t) s.s_star;
  out_opt (fun (nm, t) -> out_int (int_of_n nm); out_ty t) s.s_sstar;
  out_ty s.s_ret
let out_bool b = out (if b then "1" else "0")
let bar () = out "|"


let read_const () =
  let nm = next_n () in let v = next_int () <> 0 in let t = read_ty () in
  { k_name = nm; k_ty = t; k_val = v }
let read_tparam () =
  let nm = next_n () in let lit = next_n () in
  let k = next_int () in let cs = times k read_ty in
  let b = read_opt read_ty in
  { tp_name = nm; tp_lit = lit; tp_cons = cs; tp_bound = b }
let read_fsig () =
  let s = read_sig () in let k = next_int () in let ex = times k read_ty in
  { f_sig = s; f_exc = ex }
let read_kind () = match next_int () with 0 -> KMethod | 1 -> KStatic | 2 -> KClass | _ -> KProp
let read_func () =
  let nm = next_n () in let kind = read_kind () in
  let a = next_int () <> 0 in let c = next_int () <> 0 in let f = next_int () <> 0 in
  let k = next_int () in let ds = times k next_n in
  let n = next_int () in let sg = times n read_fsig in
  { fn_name = nm; fn_sigs = sg; fn_kind = kind; fn_abs = a; fn_cor = c; fn_fin = f; fn_decos = ds }
let rec read_cls () =
  let nm = next_n () in
  let nb = next_int () in let bs = times nb read_ty in
  let nk = next_int () in let kws = times nk (fun () -> let k = next_n () in let t = read_ty () in (k, t)) in
  let nd = next_int () in let ds = times nd next_n in
  let sl = read_opt (fun () -> let n = next_int () in times n next_n) in
  let nc = next_int () in let cs = times nc read_cls in
  let nk2 = next_int () in let ks = times nk2 read_const in
  let nm2 = next_int () in let ms = times nm2 read_func in
  MkCls (nm, bs, kws, ds, sl, cs, ks, ms)
let read_unit () =
  let n = next_int () in let tps = times n read_tparam in
  let n = next_int () in let als = times n (fun () -> let k = next_n () in let t = read_ty () in (k, t)) in
  let n = next_int () in let ks = times n read_const in
  let n = next_int () in let cs = times n read_cls in
  let n = next_int () in let fs = times n read_func in
  { u_tparams = tps; u_aliases = als; u_consts = ks; u_classes = cs; u_funcs = fs }
let read_ntokens () = let k = next_int () in times k (fun () -> read_token (next ()))
let rec read_stmts () = let n = next_int () in times n read_stmt
and read_stmt () =
  match next () with
  | "L" -> SLine (read_ntokens ())
  | "B" -> SBlank
  | "K" -> let h = read_ntokens () in let b = read_stmts () in SClass (h, b)
  | w -> failwith ("bad stmt " ^ w)

let out_n i = out_int (int_of_n i)
let out_list f l = out_int (List.length l); List.iter f l
let out_const k = out_n k.k_name; out_bool k.k_val; out_ty k.k_ty
let out_tparam t = out_n t.tp_name; out_n t.tp_lit; out_list out_ty t.tp_cons; out_opt out_ty t.tp_bound
let out_fsig f = out_sig f.f_sig; out_list out_ty f.f_exc
let out_func f =
  out_n f.fn_name; out_int (match f.fn_kind with KMethod -> 0 | KStatic -> 1 | KClass -> 2 | KProp -> 3);
  out_bool f.fn_abs; out_bool f.fn_cor; out_bool f.fn_fin; out_list out_n f.fn_decos; out_list out_fsig f.fn_sigs
let rec out_cls (MkCls (nm, bs, kws, ds, sl, cs, ks, ms)) =
  out_n nm; out_list out_ty bs; out_list (fun (k, t) -> out_n k; out_ty t) kws; out_list out_n ds;
  out_opt (fun l -> out_list out_n l) sl; out_list out_cls cs; out_list out_const ks; out_list out_func ms
let out_unit u =
  out_list out_tparam u.u_tparams; out_list (fun (k, t) -> out_n k; out_ty t) u.u_aliases;
  out_list out_const u.u_consts; out_list out_cls u.u_classes; out_list out_func u.u_funcs
let rec out_stmts l = out_list out_stmt l
and out_stmt = function
  | SLine ts -> out "L"; out_list out_token ts
  | SBlank -> out "B"
  | SClass (h, b) -> out "K"; out_list out_token h; out_stmts b
(* ---- the import block ---- *)
let read_ntab () =
  let k = next_int () in
  let tbl = Hashtbl.create 64 in
  let _ = times k (fun () ->
    let i = next_int () in
    let nch = next_int () in let ch = times nch next_n in
    let low = next_int () <> 0 in let rank = next_n () in
    Hashtbl.replace tbl i (ch, low, rank)) in
  let find i = try Some (Hashtbl.find tbl (int_of_n i)) with Not_found -> None in
  { nt_chain = (fun i -> match find i with Some (c, _, _) -> c | None -> []);
    nt_lowlast = (fun i -> match find i with Some (_, l, _) -> l | None -> false);
    nt_rank = (fun i -> match find i with Some (_, _, r) -> r | None -> n_of_int (1000000 + int_of_n i)) }
let read_imp () =
  match next () with
  | "M" -> let m = next_n () in let a = next_n () in IMod (m, a)
  | "F" -> let m = next_n () in let n = next_n () in let a = next_n () in IFrom (m, n, a)
  | w -> failwith ("bad imp " ^ w)
let read_imps () = let k = next_int () in times k read_imp
let out_imp = function
  | IMod (m, a) -> out "M"; out_n m; out_n a
  | IFrom (m, n, a) -> out "F"; out_n m; out_n n; out_n a
let out_line = function
  | LImport (m, a) -> out "L"; out_n m; out_n a
  | LFrom (m, tg) -> out "F"; out_n m; out_list (fun (n, a) -> out_n n; out_n a) tg
let read_line () =
  match next () with
  | "L" -> let m = next_n () in let a = next_n () in LImport (m, a)
  | "F" -> let m = next_n () in let k = next_int () in
           LFrom (m, times k (fun () -> let n = next_n () in let a = next_n () in (n, a)))
  | w -> failwith ("bad line " ^ w)

let out_unit_opt = function None -> out "NONE" | Some u -> out_unit u

let () =
  try
    while true do
      let line = input_line stdin in
      words := Array.of_list (List.filter (fun s -> s <> "") (String.split_on_char ' ' line));
      pos := 0;
      Buffer.clear buf;
      (try
        (match next () with
         | "U" ->
           let fixed = next_int () <> 0 in
           let print_unit = print_unit fixed in
           let norm_unit = norm_unit fixed in
           let wf_unit = wf_unit fixed in
           let stable_unit = stable_unit fixed in
           let u = read_unit () in
           let ss = print_unit u in
           out_stmts ss; bar ();
           out_unit_opt (parse_unit ss); bar ();
           let nu = norm_unit u in
           out_unit nu; bar ();
           out_bool (wf_unit u); bar ();
           let ss2 = print_unit nu in
           out_stmts ss2; bar ();
           out_unit_opt (parse_unit ss2); bar ();
           out_bool (stable_unit u)
         | "P" ->
           let ss = read_stmts () in
           out_unit_opt (parse_unit ss)
         | "I" ->
           let fixed = next_int () <> 0 in
           let t = read_ntab () in
           let imps = read_imps () in
           let u = read_unit () in
           let iu = { iu_imps = imps; iu_unit = u } in
           out_list out_line (import_lines t false iu); bar ();
           out_list out_line (import_lines t true iu); bar ();
           out_bool (wf_imports iu); bar ();
           (match parse_text (print_text t fixed false iu) with
            | None -> out "NONE"
            | Some iu2 -> out_bool (iu2 = norm_iunit t fixed false iu))
         | "R" ->
           let k = next_int () in let ls = times k read_line in
           let ss = read_stmts () in
           (match parse_text (ls, ss) with
            | None -> out "NONE"
            | Some iu2 -> out_list out_imp iu2.iu_imps; bar (); out_unit iu2.iu_unit)
         | "F" ->
           let cls = read_cls_opt () in
           let nm = next_n () in
           let env = read_env () in
           let f = read_fsig () in
           let c = { in_param = false; cls_name = cls } in
           let toks = print_fsig c f in
           out_tokens toks; bar ();
           (match parse_fsig env nm toks with None -> out "NONE" | Some f' -> out_fsig f'); bar ();
           out_fsig (norm_fsig c nm f); bar ();
           out_bool (wf_fsig env [] c f)
         | w -> failwith ("bad command " ^ w))
      with e -> Buffer.clear buf; Buffer.add_string buf ("ERROR " ^ Printexc.to_string e));
      print_endline (Buffer.contents buf)
    done
  with End_of_file -> ()
