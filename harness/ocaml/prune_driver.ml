(* Driver for the extracted C09 Prune model.  One history per input line; default_data is data id 0.
   Operations (o = node id or '-' for None):
     N            program.NewCFGNode()            K a        node_a.ConnectNew()
     C a b        node_a.ConnectTo(node_b)        V          program.NewVariable()
     W n k d1..dk program.NewVariable([d..], [], node_n)
     A v d o      var_v.AddBinding(d[, [], o])    O v b n    binding b (of var v).AddOrigin(node_n, [])
     T dst src b o   var_dst.PasteBinding(binding b of var src, o)
     U dst src o     var_dst.PasteVariable(var_src, o)
     G src o         var_src.AssignToNewVariable(o)
   Queries (each prints one ';'-terminated field):
     B v o        var_v.Bindings(o)  -> binding ids, comma separated       ('!' = model ran out of fuel)
     D v o        var_v.Data(o)      -> data ids
     L v n        the general walk alone (prune_general) -> binding ids
     F v n        var_v.Filter(node_n, strict=False) with an all-false solver (single-binding shortcut only)
     R a b        program.is_reachable(a, b) -> 0/1
     M            all ordered pairs of is_reachable, row-major
   Every operation is checked with py_wf_op first; an ill-formed one prints '?' and is skipped. *)
open Prune_model
let rec nat_of_int n = if n <= 0 then O else S (nat_of_int (n - 1))
let rec int_of_nat = function O -> 0 | S n -> 1 + int_of_nat n
let () =
  try
    while true do
      let line = input_line stdin in
      let toks = Array.of_list (List.filter (fun s -> s <> "") (String.split_on_char ' ' line)) in
      let buf = Buffer.create 1024 in
      let s = ref (pstate0 O) in
      let i = ref 0 in
      let n = Array.length toks in
      let num k = nat_of_int (int_of_string toks.(!i + k)) in
      let opt k = if toks.(!i + k) = "-" then None else Some (num k) in
      let apply o = if py_wf_op !s o then s := py_step !s o else Buffer.add_char buf '?' in
      let out_list = function
        | None -> Buffer.add_string buf "!;"
        | Some l -> Buffer.add_string buf (String.concat "," (List.map (fun x -> string_of_int (int_of_nat x)) l));
                    Buffer.add_char buf ';' in
      while !i < n do
        (match toks.(!i) with
         | "N" -> apply PNewCFGNode; incr i
         | "K" -> apply (PConnectNew (num 1)); i := !i + 2
         | "C" -> apply (PConnectTo (num 1, num 2)); i := !i + 3
         | "V" -> apply PNewVariable; incr i
         | "W" ->
           let nd = num 1 in
           let k = int_of_string toks.(!i + 2) in
           let ds = List.init k (fun j -> num (3 + j)) in
           apply (PNewVariableWith (ds, nd)); i := !i + 3 + k
         | "A" -> apply (PAddBinding (num 1, num 2, opt 3)); i := !i + 4
         | "O" -> apply (PAddOrigin (num 1, num 2, num 3)); i := !i + 4
         | "T" -> apply (PPasteBinding (num 1, num 2, num 3, opt 4)); i := !i + 5
         | "U" -> apply (PPasteVariable (num 1, num 2, opt 3)); i := !i + 4
         | "G" -> apply (PAssignToNewVariable (num 1, opt 2)); i := !i + 3
         | "B" -> out_list (prune !s (num 1) (opt 2)); i := !i + 3
         | "D" -> out_list (prune_data !s (num 1) (opt 2)); i := !i + 3
         | "L" -> out_list (prune_general !s (num 1) (num 2)); i := !i + 3
         | "F" -> out_list (Some (filter_model (fun _ _ -> false) !s (num 1) (num 2) false)); i := !i + 3
         | "R" -> Buffer.add_char buf (if py_is_reachable !s (num 1) (num 2) then '1' else '0');
                  Buffer.add_char buf ';'; i := !i + 3
         | "M" ->
           let k = int_of_nat (nodes (ps_prog !s)) in
           let ns = Array.init k nat_of_int in
           for a = 0 to k - 1 do for b = 0 to k - 1 do
             Buffer.add_char buf (if py_is_reachable !s ns.(a) ns.(b) then '1' else '0') done done;
           Buffer.add_char buf ';'; incr i
         | t -> failwith ("bad token " ^ t))
      done;
      print_endline (Buffer.contents buf)
    done
  with End_of_file -> ()
