(* Driver for the extracted C09 model.  One history per input line; tokens:
     N        new node            C a b    a.ConnectTo(b)
     Q        dump is_reachable for all ordered pairs (row-major, '0'/'1')
     P a b    print is_reachable a b *)
open Reach_model
let rec nat_of_int n = if n <= 0 then O else S (nat_of_int (n - 1))
let rec int_of_nat = function O -> 0 | S n -> 1 + int_of_nat n
let () =
  try
    while true do
      let line = input_line stdin in
      let toks = Array.of_list (List.filter (fun s -> s <> "") (String.split_on_char ' ' line)) in
      let buf = Buffer.create 1024 in
      let p = ref prog_empty in
      let i = ref 0 in
      let n = Array.length toks in
      while !i < n do
        (match toks.(!i) with
         | "N" -> p := step !p NewNode; incr i
         | "C" ->
           let a = int_of_string toks.(!i + 1) and b = int_of_string toks.(!i + 2) in
           p := step !p (Connect (nat_of_int a, nat_of_int b)); i := !i + 3
         | "Q" ->
           let k = int_of_nat (nodes !p) in
           let ns = Array.init k nat_of_int in
           for a = 0 to k - 1 do for b = 0 to k - 1 do
             Buffer.add_char buf (if is_reachable !p ns.(a) ns.(b) then '1' else '0') done done;
           Buffer.add_char buf '|'; incr i
         | "P" ->
           let a = int_of_string toks.(!i + 1) and b = int_of_string toks.(!i + 2) in
           Buffer.add_char buf (if is_reachable !p (nat_of_int a) (nat_of_int b) then '1' else '0');
           i := !i + 3
         | t -> failwith ("bad token " ^ t))
      done;
      print_endline (Buffer.contents buf)
    done
  with End_of_file -> ()
