(* Driver for the extracted C07 solver model.  One case per input line, all tokens space separated:
     <n_nodes> <n_bindings>
     per node:     <k> <incoming_1..k> <cond or -1>
     per binding:  <var> <n_origins>  then per origin: <where> <n_ssets>  then per source set: <k> <b_1..k>
   followed by queries, answered in order against ONE solver state (memo + path cache) that is
   threaded from query to query exactly like Program::solver_:
     H <node> <k> <b_1..k>    HasCombination      -> 0 | 1 | ? (fuel exhausted / model error)
     F <var> <node> <strict>  Variable.Filter     -> f:<ids joined by ,>
     C <node> <k> <b_1..k>    CanHaveCombination  -> 0 | 1
     R                        drop the solver (what InvalidateSolver does); prints nothing
     W                        wf_graph, acyclicb, no_conditions -> three 0/1 digits
   Output: one line per case, answers separated by one space. *)
open Solver_model

let nat_of_int n = let rec go acc k = if k <= 0 then acc else go (S acc) (k - 1) in go O n
let rec int_of_nat = function O -> 0 | S n -> 1 + int_of_nat n

let fuel = nat_of_int 2000000

let () =
  let nats = Array.init 4096 nat_of_int in
  let nat i = if i < 4096 then nats.(i) else nat_of_int i in
  try
    while true do
      let line = input_line stdin in
      let toks = Array.of_list (List.filter (fun s -> s <> "") (String.split_on_char ' ' line)) in
      let i = ref 0 in
      let next () = let t = toks.(!i) in incr i; t in
      let int () = int_of_string (next ()) in
      let rec times k f = if k <= 0 then [] else let x = f () in x :: times (k - 1) f in
      let nn = int () in
      let nb = int () in
      let nodes = times nn (fun () ->
        let k = int () in
        let inc = times k (fun () -> nat (int ())) in
        let c = int () in
        { n_incoming = inc; n_cond = (if c < 0 then None else Some (nat c)) }) in
      let bindings = times nb (fun () ->
        let v = int () in
        let no = int () in
        let os = times no (fun () ->
          let w = int () in
          let ns = int () in
          let ss = times ns (fun () -> let k = int () in times k (fun () -> nat (int ()))) in
          { o_where = nat w; o_ssets = ss }) in
        { b_var = nat v; b_origins = os }) in
      let g = { g_nodes = nodes; g_bindings = bindings } in
      let st = ref sstate_empty in
      let out = Buffer.create 256 in
      let emit s = if Buffer.length out > 0 then Buffer.add_char out ' '; Buffer.add_string out s in
      let n = Array.length toks in
      while !i < n do
        (match next () with
         | "H" ->
           let node = int () in
           let k = int () in
           let bs = times k (fun () -> nat (int ())) in
           (match solve fuel g !st bs (nat node) with
            | None -> emit "?"
            | Some (st', b) -> st := st'; emit (if b then "1" else "0"))
         | "F" ->
           let v = int () in
           let node = int () in
           let strict = int () in
           (match var_filter fuel g !st (nat v) (nat node) (strict <> 0) with
            | None -> emit "?"
            | Some (st', l) ->
              st := st';
              emit ("f:" ^ String.concat "," (List.map (fun b -> string_of_int (int_of_nat b)) l)))
         | "C" ->
           let node = int () in
           let k = int () in
           let bs = times k (fun () -> nat (int ())) in
           emit (if can_have_combination g bs (nat node) then "1" else "0")
         | "R" -> st := sstate_empty
         | "W" ->
           let d b = if b then "1" else "0" in
           emit (d (wf_graph g) ^ d (acyclicb g) ^ d (no_conditions g))
         | t -> failwith ("bad token " ^ t))
      done;
      print_endline (Buffer.contents out)
    done
  with End_of_file -> ()
