(* Driver for the extracted C12 preparation model (Serial/Prepare.v).  One command per line; values are written as in
   serial_driver.ml.

   T                                   -> the four visit_class_names tables (ClearClassPointers, CollectDependencies,
                                          ClearLookupCache, CanonicalOrderingVisitor), one line each, names joined by ","
   N s<enum> s<value> s<str> s<repr>   -> registers str()/repr() of a str-valued Enum member (no output)
   M s<enum> I<value> s<str> s<repr>   -> the same for a Flag member (no output)
   Q hv k (s<str> s<repr>)*k (N|s<src_path>) ( l s<meta>* ) input expected
                                       -> two digits: unit_ok, prepare(input) == expected
                                          (k strings of the input with CPython's repr; ints print in decimal)
   L k s<name>*k value (value|!)       -> relink with exactly the k names resolvable: 1/0 agrees with the expectation
   K value value                       -> clear_ptrs(first) == second: 1/0 *)
open Prepare_model

let explode s = List.init (String.length s) (String.get s)
let unhex s =
  let n = String.length s / 2 in
  List.init n (fun i -> Char.chr (int_of_string ("0x" ^ String.sub s (2 * i) 2)))
let rec nat_of_int n = if n <= 0 then O else S (nat_of_int (n - 1))
let z_of_dec (s : string) : z =
  let neg = String.length s > 0 && s.[0] = '-' in
  let digits = if neg then String.sub s 1 (String.length s - 1) else s in
  let acc = ref pz_zero in
  String.iter (fun ch -> acc := Z.add (Z.mul !acc pz_ten) (pz_digit (nat_of_int (Char.code ch - 48)))) digits;
  if neg then Z.opp !acc else !acc

exception Parse of string

let toks : string array ref = ref [||]
let pos = ref 0
let peek () = if !pos < Array.length !toks then !toks.(!pos) else raise (Parse "eof")
let next () = let t = peek () in incr pos; t
let tail t = String.sub t 1 (String.length t - 1)
let str_tok () = let t = next () in if t.[0] <> 's' then raise (Parse ("string expected: " ^ t)); unhex (tail t)
let int_tok () = let t = next () in if t.[0] <> 'I' then raise (Parse ("int expected: " ^ t)); z_of_dec (tail t)

let rec parse_value () : value =
  let t = next () in
  match t.[0] with
  | 'N' -> VNone
  | 'T' -> VBool true
  | 'F' -> VBool false
  | 'I' -> VInt (z_of_dec (tail t))
  | 'D' -> VFloat (z_of_dec (tail t))
  | 's' -> VStr (unhex (tail t))
  | '(' ->
    let k = next () in
    let rec many () = if peek () = ")" then (ignore (next ()); []) else let v = parse_value () in v :: many () in
    (match k with
     | "t" -> VTuple (many ())
     | "l" -> VList (many ())
     | "S" -> VSet (many ())
     | "d" ->
       let rec kvs () = if peek () = ")" then (ignore (next ()); ([], []))
         else let k = str_tok () in let v = parse_value () in let (ks, vs) = kvs () in (k :: ks, v :: vs) in
       let (ks, vs) = kvs () in VDict (ks, vs)
     | "c" -> let c = str_tok () in VStruct (c, many ())
     | "e" -> let e = str_tok () in let s = str_tok () in ignore (next ()); VEnumS (e, s)
     | "f" -> let e = str_tok () in let z = int_tok () in ignore (next ()); VEnumI (e, z)
     | _ -> raise (Parse ("bad value kind " ^ k)))
  | _ -> raise (Parse ("bad value token " ^ t))


let enum_tbl : (char list * char list, char list * char list) Hashtbl.t = Hashtbl.create 16
let flag_tbl : (char list * string, char list * char list) Hashtbl.t = Hashtbl.create 16
let rec z_to_int (z : z) : int =
  match z with
  | Z0 -> 0
  | Zpos p -> pos_to_int p
  | Zneg p -> - (pos_to_int p)
and pos_to_int p = match p with XH -> 1 | XO q -> 2 * pos_to_int q | XI q -> 2 * pos_to_int q + 1
(* decimal of an arbitrary Z (school division by ten on the binary representation is overkill here: ints
   in stubs that matter for ordering fit OCaml's 63 bits; larger ones are looked up in the per-case table) *)
let b2s b = if b then "1" else "0"

let () =
  try
    while true do
      let line = input_line stdin in
      toks := Array.of_list (List.filter (fun s -> s <> "") (String.split_on_char ' ' line));
      pos := 0;
      if Array.length !toks > 0 then begin
        (try
           match next () with
           | "T" -> List.iter (fun l -> print_endline (String.concat "," (List.map (fun n -> String.of_seq (List.to_seq n)) l))) x_tables
           | "N" -> let e = str_tok () in let v = str_tok () in let s = str_tok () in let r = str_tok () in
             Hashtbl.replace enum_tbl (e, v) (s, r)
           | "M" -> let e = str_tok () in let t = next () in let s = str_tok () in let r = str_tok () in
             Hashtbl.replace flag_tbl (e, tail t) (s, r)
           | "Q" ->
             let hv = (match next () with "o" -> HvOrig | "x" -> HvFixed | t -> raise (Parse ("bad hv " ^ t))) in
             let k = int_of_string (next ()) in
             let stbl : (char list, char list) Hashtbl.t = Hashtbl.create (2 * k + 1) in
             for _ = 1 to k do let s = str_tok () in let r = str_tok () in Hashtbl.replace stbl s r done;
             let itbl : (z, char list) Hashtbl.t = Hashtbl.create 16 in
             (* ints: remembered from the input tokens *)
             Array.iter (fun t -> if String.length t > 1 && t.[0] = 'I' then
                            (try Hashtbl.replace itbl (z_of_dec (tail t)) (explode (tail t)) with _ -> ())) !toks;
             let src = (if peek () = "N" then (ignore (next ()); None) else Some (str_tok ())) in
             let md = (match parse_value () with
                 | VList l -> List.map (function VStr s -> s | _ -> raise (Parse "metadata")) l
                 | _ -> raise (Parse "metadata list expected")) in
             let u = parse_value () in
             let expected = parse_value () in
             let q = explode "?" in
             let r = { r_str = (fun s -> try Hashtbl.find stbl s with Not_found -> raise (Parse "string without repr"));
                       r_int = (fun z -> try Hashtbl.find itbl z with Not_found -> raise (Parse "int without repr"));
                       r_enum = (fun e v -> try Hashtbl.find enum_tbl (e, v) with Not_found -> raise (Parse "unknown enum member"));
                       r_flag = (fun e z -> let key = (match (try Some (Hashtbl.find itbl z) with Not_found -> None) with
                                                      | Some d -> String.of_seq (List.to_seq d) | None -> string_of_int (z_to_int z)) in
                                  try Hashtbl.find flag_tbl (e, key) with Not_found -> raise (Parse ("unknown flag member " ^ key)));
                       r_ptr = (fun _ -> (q, q));
                       r_opaque = (fun _ -> ((q, q), q)) } in
             let ok = x_unit_ok r hv u in
             let got = x_prepare r u src md in
             print_endline (b2s ok ^ b2s (x_veqb got expected))
           | "L" ->
             let k = int_of_string (next ()) in
             let names = List.init k (fun _ -> str_tok ()) in
             let v = parse_value () in
             let res = x_relink (fun n -> List.mem n names) v in
             if peek () = "!" then print_endline (match res with None -> "1" | Some _ -> "0")
             else begin
               let e = parse_value () in
               print_endline (match res with None -> "0" | Some v' -> b2s (x_veqb v' e))
             end
           | "K" -> let a = parse_value () in let b = parse_value () in print_endline (b2s (x_veqb (x_clear a) b))
           | t -> print_endline ("ERR bad command " ^ t)
         with Parse msg -> print_endline ("ERR " ^ msg)
            | Invalid_argument msg -> print_endline ("ERR invalid " ^ msg)
            | Not_found -> print_endline "ERR not found"
            | Failure msg -> print_endline ("ERR failure " ^ msg))
      end
    done
  with End_of_file -> ()
