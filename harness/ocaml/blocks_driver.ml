(* Driver for the extracted C16 model.  One case per input line.
     O <v312:0|1> <n>  then n groups of 7 ints: opc target block_target eaft idx next prev   (-1 = None)
       -> "w<wf><anext_ok><plain><merge_simple> " followed by  "E<code>"  or
          "B<bid>:<i>,<i>..;<bid>:.. |E<a>-<b>,.. |O<bid>,.. |R<i>-<t>,.. |P<bid>:<p>,<p>..;.."
          (E = edge set sorted, R = retargets (latest first, raw), P = compute_predecessors of the final graph)
     M <minor> <n>     then n groups of 4 ints: off opc arg preset
       -> "E<code>" or "<idx>,<target>,<next>,<prev>;..."
     X <n_entries> <n_items>  then entries (start end target lasti) and items (key opc line preset)
       -> "E<code>" or "<key>,<opc>,<line>,<preset>;..."   (_add_setup_except / _add_exception_block) *)
open Blocks_model
let rec pos_of_int n = if n <= 1 then XH else if n land 1 = 0 then XO (pos_of_int (n lsr 1)) else XI (pos_of_int (n lsr 1))
let n_of_int n = if n <= 0 then N0 else Npos (pos_of_int n)
let rec int_of_pos = function XH -> 1 | XO p -> 2 * int_of_pos p | XI p -> 2 * int_of_pos p + 1
let int_of_n = function N0 -> 0 | Npos p -> int_of_pos p
let rec int_of_nat = function O -> 0 | S n -> 1 + int_of_nat n
let opt i = if i < 0 then None else Some (n_of_int i)
let sopt = function None -> "-1" | Some n -> string_of_int (int_of_n n)
let b2c b = if b then '1' else '0'
let join sep f l = String.concat sep (List.map f l)
let si n = string_of_int (int_of_n n)
let () =
  try
    while true do
      let line = input_line stdin in
      let toks = Array.of_list (List.filter (fun s -> s <> "") (String.split_on_char ' ' line)) in
      let geti k = int_of_string toks.(k) in
      let buf = Buffer.create 4096 in
      (match toks.(0) with
       | "O" ->
         let v312 = geti 1 = 1 in
         let n = geti 2 in
         let ops = List.init n (fun k ->
           let b = 3 + 7 * k in
           { opc = n_of_int (geti b); target = opt (geti (b+1)); block_target = opt (geti (b+2));
             eaft = opt (geti (b+3)); idx = n_of_int (geti (b+4)); next = opt (geti (b+5)); prev = opt (geti (b+6)) }) in
         Buffer.add_char buf 'w';
         Buffer.add_char buf (b2c (wf_opsb ops)); Buffer.add_char buf (b2c (anext_okb ops)); Buffer.add_char buf (b2c (plainb ops));
         Buffer.add_char buf (b2c (merge_simpleb ops));
         Buffer.add_char buf ' ';
         (match compute_order v312 ops with
          | Err c -> Buffer.add_string buf ("E" ^ string_of_int (int_of_nat c))
          | Ok r ->
            Buffer.add_string buf ("B" ^ join ";" (fun b -> si b.bid ^ ":" ^ join "," (fun o -> si o.idx) b.code) r.r_blocks);
            let es = List.sort_uniq compare (List.map (fun (a, b) -> (int_of_n a, int_of_n b)) r.r_edges) in
            Buffer.add_string buf (" |E" ^ join "," (fun (a, b) -> string_of_int a ^ "-" ^ string_of_int b) es);
            Buffer.add_string buf (" |O" ^ join "," si r.r_order);
            Buffer.add_string buf (" |R" ^ join "," (fun (a, b) -> si a ^ "-" ^ si b) r.r_retarget);
            (match compute_predecessors (List.map (fun b -> b.bid) r.r_blocks) r.r_edges with
             | Err c -> Buffer.add_string buf (" |PE" ^ string_of_int (int_of_nat c))
             | Ok pm -> Buffer.add_string buf (" |P" ^ join ";" (fun (n, ps) ->
                 si n ^ ":" ^ join "," string_of_int (List.sort compare (List.map int_of_n ps))) pm)))
       | "M" ->
         let minor = n_of_int (geti 1) in
         let n = geti 2 in
         let items = List.init n (fun k ->
           let b = 3 + 4 * k in
           { ioff = n_of_int (geti b); iopc = n_of_int (geti (b+1)); iarg = opt (geti (b+2)); ipreset = opt (geti (b+3)) }) in
         (match build_ops minor items with
          | Err c -> Buffer.add_string buf ("E" ^ string_of_int (int_of_nat c))
          | Ok ops -> Buffer.add_string buf (join ";" (fun o -> si o.idx ^ "," ^ sopt o.target ^ "," ^ sopt o.next ^ "," ^ sopt o.prev) ops))
       | "X" ->
         (* X <n_entries> <n_items>  entries: start end target lasti   items: key opc line preset *)
         let ne = geti 1 and ni = geti 2 in
         let entries = List.init ne (fun k ->
           let b = 3 + 4 * k in
           { e_start = n_of_int (geti b); e_end = n_of_int (geti (b+1)); e_target = n_of_int (geti (b+2));
             e_lasti = (geti (b+3) = 1) }) in
         let items = List.init ni (fun k ->
           let b = 3 + 4 * ne + 4 * k in
           { x_key = n_of_int (geti b); x_opc = n_of_int (geti (b+1)); x_line = n_of_int (geti (b+2));
             x_preset = opt (geti (b+3)) }) in
         Buffer.add_char buf 'w'; Buffer.add_char buf (b2c (wf_excb items entries)); Buffer.add_char buf ' ';
         (match add_setup_except entries items with
          | Err c -> Buffer.add_string buf ("E" ^ string_of_int (int_of_nat c))
          | Ok l -> Buffer.add_string buf (join ";" (fun x -> si x.x_key ^ "," ^ si x.x_opc ^ "," ^ si x.x_line ^ "," ^ sopt x.x_preset) l))
       | "C" ->
         (* C <minor> <n_entries> <n_items>  entries: start end target lasti   raw items: key opc line arg
            CPython's raw instructions + exception table -> add_setup_except -> build_ops *)
         let minor = n_of_int (geti 1) in
         let ne = geti 2 and ni = geti 3 in
         let entries = List.init ne (fun k ->
           let b = 4 + 4 * k in
           { e_start = n_of_int (geti b); e_end = n_of_int (geti (b+1)); e_target = n_of_int (geti (b+2));
             e_lasti = (geti (b+3) = 1) }) in
         let args = Hashtbl.create 64 in
         let items = List.init ni (fun k ->
           let b = 4 + 4 * ne + 4 * k in
           if geti (b+3) >= 0 then Hashtbl.replace args (geti b) (geti (b+3));
           { x_key = n_of_int (geti b); x_opc = n_of_int (geti (b+1)); x_line = n_of_int (geti (b+2)); x_preset = None }) in
         Buffer.add_char buf 'w'; Buffer.add_char buf (b2c (wf_excb items entries)); Buffer.add_char buf ' ';
         (match (if ne = 0 then Ok items else add_setup_except entries items) with
          | Err c -> Buffer.add_string buf ("E" ^ string_of_int (int_of_nat c))
          | Ok l ->
            let its = List.map (fun x ->
              let k = int_of_n x.x_key in
              { ioff = x.x_key; iopc = x.x_opc;
                iarg = (match x.x_preset with Some _ -> None | None -> (match Hashtbl.find_opt args k with Some a -> Some (n_of_int a) | None -> None));
                ipreset = x.x_preset }) l in
            (match build_ops minor its with
             | Err c -> Buffer.add_string buf ("E" ^ string_of_int (int_of_nat c))
             | Ok ops -> Buffer.add_string buf (join ";" (fun o -> si o.idx ^ "," ^ si o.opc ^ "," ^ sopt o.target ^ "," ^ sopt o.next ^ "," ^ sopt o.prev) ops)))
       | "A" ->
         (* A <n> <n_pxb>  then n groups of 7 ints (as for O) and n_pxb positions with push_exc_block
            -> "a<apbt_okb> E<code>"  or  "a<apbt_okb> <block_target>,<block_target>,..."   (add_pop_block_targets) *)
         let n = geti 1 and np = geti 2 in
         let ops = List.init n (fun k ->
           let b = 3 + 7 * k in
           { opc = n_of_int (geti b); target = opt (geti (b+1)); block_target = opt (geti (b+2));
             eaft = opt (geti (b+3)); idx = n_of_int (geti (b+4)); next = opt (geti (b+5)); prev = opt (geti (b+6)) }) in
         let pxb = List.init np (fun k -> n_of_int (geti (3 + 7 * n + k))) in
         Buffer.add_char buf 'a'; Buffer.add_char buf (b2c (apbt_okb ops pxb)); Buffer.add_char buf ' ';
         (match add_pop_block_targets ops pxb with
          | Err c -> Buffer.add_string buf ("E" ^ string_of_int (int_of_nat c))
          | Ok ops' -> Buffer.add_string buf (join "," (fun o -> sopt o.block_target) ops'))
       | t -> failwith ("bad token " ^ t));
      print_endline (Buffer.contents buf)
    done
  with End_of_file -> ()
