(* Driver for the extracted C05 model (coq/Print/Model.v).  One case per input line, words separated by
   blanks.  Types, signatures and token lists use the prefix encodings below (the same encodings are
   produced and parsed by harness/props/c05.py).
     type  ::= Nb i | Nt i | Np i | A | Z | V i | Li z | Lb c b | Ls i | Le i
             | G name k type*k | Tu name k type*k | Ca name k type*k | U k type*k | An type k i*k
     name  ::= b i | t i | p i
     token ::= n<i> | None | ... | i<z> | s<i> | T | F | [ | ] | ( | ) | , | : | = | * | ** | / | -> | NL
     sig   ::= k param*k star star type      param ::= name kind opt type mut     mut/star ::= - | + ...
   Commands:
     T ip cls k env*k type        -> tokens | parse | norm | wf stable eq_stable verify(norm) | tokens(norm) | ty_eq(norm, unqual)
     X k env*k token*             -> parse_ty
     S cls k env*k sig            -> tokens | parse_sig | norm_sig | tokens(norm_sig) | wf_sig stable_sig
     Y k env*k token*             -> parse_sig *)
open Print_model

let rec pos_of_int n = if n = 1 then XH else if n land 1 = 1 then XI (pos_of_int (n lsr 1)) else XO (pos_of_int (n lsr 1))
let rec int_of_pos = function XH -> 1 | XI p -> 2 * int_of_pos p + 1 | XO p -> 2 * int_of_pos p
let n_of_int n = if n = 0 then N0 else Npos (pos_of_int n)
let int_of_n = function N0 -> 0 | Npos p -> int_of_pos p
let z_of_int n = if n = 0 then Z0 else if n > 0 then Zpos (pos_of_int n) else Zneg (pos_of_int (- n))
let int_of_z = function Z0 -> 0 | Zpos p -> int_of_pos p | Zneg p -> - (int_of_pos p)

(* ---- reading ---- *)
let words : string array ref = ref [||]
let pos = ref 0
let next () = let w = !words.(!pos) in incr pos; w
let next_int () = int_of_string (next ())
let next_n () = n_of_int (next_int ())
let rec times k f = if k <= 0 then [] else let x = f () in x :: times (k - 1) f

let read_name () =
  match next () with
  | "b" -> NB (next_n ()) | "t" -> NT (next_n ()) | "p" -> NP (next_n ())
  | w -> failwith ("bad name " ^ w)

let rec read_ty () =
  match next () with
  | "Nb" -> Named (NB (next_n ())) | "Nt" -> Named (NT (next_n ())) | "Np" -> Named (NP (next_n ()))
  | "A" -> AnyT | "Z" -> NothingT | "V" -> TParam (next_n ())
  | "Li" -> Lit (LInt (z_of_int (next_int ())))
  | "Lb" -> let c = next_int () in let b = next_int () in Lit (LBool (c <> 0, b <> 0))
  | "Ls" -> Lit (LStr (next_n ())) | "Le" -> Lit (LEnum (next_n ()))
  | "G" -> let b = read_name () in let k = next_int () in Generic (b, times k read_ty)
  | "Tu" -> let b = read_name () in let k = next_int () in TupleT (b, times k read_ty)
  | "Ca" -> let b = read_name () in let k = next_int () in CallableT (b, times k read_ty)
  | "U" -> let k = next_int () in Union (times k read_ty)
  | "An" -> let t = read_ty () in let k = next_int () in Annot (t, times k next_n)
  | w -> failwith ("bad type word " ^ w)

let read_token w =
  match w with
  | "None" -> TNone | "..." -> TEllipsis | "T" -> TBool true | "F" -> TBool false
  | "[" -> TLBr | "]" -> TRBr | "(" -> TLPar | ")" -> TRPar | "," -> TComma | ":" -> TColon
  | "=" -> TEq | "*" -> TStar | "**" -> TDStar | "/" -> TSlash | "->" -> TArrow | "NL" -> TNewline
  | _ ->
    let rest = String.sub w 1 (String.length w - 1) in
    (match w.[0] with
     | 'n' -> TName (n_of_int (int_of_string rest))
     | 'i' -> TInt (z_of_int (int_of_string rest))
     | 's' -> TStr (n_of_int (int_of_string rest))
     | _ -> failwith ("bad token " ^ w))

let read_tokens () =
  let l = ref [] in
  while !pos < Array.length !words do l := read_token (next ()) :: !l done;
  List.rev !l

let read_opt f = match next () with "-" -> None | "+" -> Some (f ()) | w -> failwith ("bad option " ^ w)
let read_cls () = match next () with "-" -> None | w -> Some (n_of_int (int_of_string w))
let read_env () = let k = next_int () in times k next_n

let read_param () =
  let nm = next_n () in
  let kind = (match next_int () with 0 -> PosOnly | 1 -> Regular | _ -> KwOnly) in
  let opt = next_int () <> 0 in
  let t = read_ty () in
  let m = read_opt read_ty in
  { p_name = nm; p_ty = t; p_kind = kind; p_opt = opt; p_mut = m }

let read_sig () =
  let k = next_int () in
  let ps = times k read_param in
  let st = read_opt (fun () -> let nm = next_n () in let t = read_ty () in (nm, t)) in
  let sst = read_opt (fun () -> let nm = next_n () in let t = read_ty () in (nm, t)) in
  let ret = read_ty () in
  { s_params = ps; s_star = st; s_sstar = sst; s_ret = ret }

(* ---- writing ---- *)
let buf = Buffer.create 4096
let out s = Buffer.add_string buf s; Buffer.add_char buf ' '
let out_int i = out (string_of_int i)
let out_name = function
  | NB i -> out "b"; out_int (int_of_n i) | NT i -> out "t"; out_int (int_of_n i) | NP i -> out "p"; out_int (int_of_n i)
let rec out_ty = function
  | Named (NB i) -> out "Nb"; out_int (int_of_n i)
  | Named (NT i) -> out "Nt"; out_int (int_of_n i)
  | Named (NP i) -> out "Np"; out_int (int_of_n i)
  | AnyT -> out "A" | NothingT -> out "Z" | TParam i -> out "V"; out_int (int_of_n i)
  | Lit (LInt z) -> out "Li"; out_int (int_of_z z)
  | Lit (LBool (c, b)) -> out "Lb"; out_int (if c then 1 else 0); out_int (if b then 1 else 0)
  | Lit (LStr i) -> out "Ls"; out_int (int_of_n i)
  | Lit (LEnum i) -> out "Le"; out_int (int_of_n i)
  | Generic (b, ps) -> out "G"; out_name b; out_int (List.length ps); List.iter out_ty ps
  | TupleT (b, ps) -> out "Tu"; out_name b; out_int (List.length ps); List.iter out_ty ps
  | CallableT (b, ps) -> out "Ca"; out_name b; out_int (List.length ps); List.iter out_ty ps
  | Union ts -> out "U"; out_int (List.length ts); List.iter out_ty ts
  | Annot (t, a) -> out "An"; out_ty t; out_int (List.length a); List.iter (fun i -> out_int (int_of_n i)) a
let out_token = function
  | TName i -> out ("n" ^ string_of_int (int_of_n i)) | TNone -> out "None" | TEllipsis -> out "..."
  | TInt z -> out ("i" ^ string_of_int (int_of_z z)) | TStr i -> out ("s" ^ string_of_int (int_of_n i))
  | TBool b -> out (if b then "T" else "F")
  | TLBr -> out "[" | TRBr -> out "]" | TLPar -> out "(" | TRPar -> out ")" | TComma -> out ","
  | TColon -> out ":" | TEq -> out "=" | TStar -> out "*" | TDStar -> out "**" | TSlash -> out "/"
  | TArrow -> out "->" | TNewline -> out "NL"
let out_tokens l = List.iter out_token l
let out_opt f = function None -> out "-" | Some x -> out "+"; f x
let out_param p =
  out_int (int_of_n p.p_name);
  out_int (match p.p_kind with PosOnly -> 0 | Regular -> 1 | KwOnly -> 2);
  out_int (if p.p_opt then 1 else 0);
  out_ty p.p_ty;
  out_opt out_ty p.p_mut
let out_sig s =
  out_int (List.length s.s_params); List.iter out_param s.s_params;
  out_opt (fun (nm, t) -> out_int (int_of_n nm); out_ty t) s.s_star;
  out_opt (fun (nm, t) -> out_int (int_of_n nm); out_ty t) s.s_sstar;
  out_ty s.s_ret
let out_bool b = out (if b then "1" else "0")
let bar () = out "|"

let () =
  try
    while true do
      let line = input_line stdin in
      words := Array.of_list (List.filter (fun s -> s <> "") (String.split_on_char ' ' line));
      pos := 0;
      Buffer.clear buf;
      (try
        (match next () with
         | "T" ->
           let ip = next_int () <> 0 in
           let cls = read_cls () in
           let env = read_env () in
           let t = read_ty () in
           let c = { in_param = ip; cls_name = cls } in
           let toks = print_ty c t in
           out_tokens toks; bar ();
           (match parse_ty env toks with None -> out "NONE" | Some t' -> out_ty t'); bar ();
           let nt = norm c t in
           out_ty nt; bar ();
           out_bool (wf env t); out_bool (stable c t); out_bool (eq_stable c t); out_bool (verify_ty nt); bar ();
           out_tokens (print_ty c nt); bar ();
           out_bool (ty_eq nt (unqual t))
         | "X" ->
           let env = read_env () in
           let toks = read_tokens () in
           (match parse_ty env toks with None -> out "NONE" | Some t' -> out_ty t')
         | "S" ->
           let cls = read_cls () in
           let env = read_env () in
           let s = read_sig () in
           let c = { in_param = false; cls_name = cls } in
           let toks = print_sig c s in
           out_tokens toks; bar ();
           (match parse_sig env [] toks with None -> out "NONE" | Some s' -> out_sig s'); bar ();
           let ns = norm_sig c s in
           out_sig ns; bar ();
           out_tokens (print_sig c ns); bar ();
           out_bool (wf_sig env [] c s); out_bool (stable_sig c s)
         | "Y" ->
           let env = read_env () in
           let toks = read_tokens () in
           (match parse_sig env [] toks with None -> out "NONE" | Some s' -> out_sig s')
         | w -> failwith ("bad command " ^ w))
      with e -> Buffer.clear buf; Buffer.add_string buf ("ERROR " ^ Printexc.to_string e));
      print_endline (Buffer.contents buf)
    done
  with End_of_file -> ()
