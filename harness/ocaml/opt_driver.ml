(* Driver for the extracted C11 model.  One case per input line (s-expression):
     (case U (opts deps lossy abcs maxunion removemutable lookup) (hier (id sup ...) ...) <unit>)
     (case T (opts ...) (hier) <ty>)
   unit  = (unit (consts K...) (classes C...) (funcs D...))
   K     = (K name ty)            C = (C id (bases b...) (methods D...) (consts K...))
   D     = (D name kind S...)     S = (S (params P...) P|- P|- ty (exc ty...))
   P     = (P name ty kind opt ty|-)
   ty    = nID | cID | A | Z | Ln | (U ty...) | (G b ty...) | (T b ty...) | (F b ty...)    b = nID | cID
   Output: the optimised unit / type in the same syntax, or ERR (model returned None); for units a tab and
   S/N: whether the result is in normal form (Spec.stable_unit). *)
open Opt_model

type sx = Atom of string | L of sx list

let parse (s : string) : sx =
  let n = String.length s in
  let pos = ref 0 in
  let rec skip () = if !pos < n && (s.[!pos] = ' ' || s.[!pos] = '\t') then (incr pos; skip ()) in
  let rec item () =
    skip ();
    if !pos >= n then failwith "eof"
    else if s.[!pos] = '(' then begin
      incr pos;
      let acc = ref [] in
      let fin = ref false in
      while not !fin do
        skip ();
        if !pos >= n then failwith "unclosed"
        else if s.[!pos] = ')' then (incr pos; fin := true)
        else acc := item () :: !acc
      done;
      L (List.rev !acc)
    end else begin
      let st = !pos in
      while !pos < n && s.[!pos] <> ' ' && s.[!pos] <> '(' && s.[!pos] <> ')' do incr pos done;
      Atom (String.sub s st (!pos - st))
    end in
  item ()

let rec nat_of_int n = if n <= 0 then O else S (nat_of_int (n - 1))
let rec int_of_nat = function O -> 0 | S n -> 1 + int_of_nat n
let num a = match a with Atom x -> int_of_string x | _ -> failwith "num"
let natx a = nat_of_int (num a)
let boolx a = num a <> 0

let base = function
  | Atom x when String.length x > 1 && x.[0] = 'n' -> (KNamed, nat_of_int (int_of_string (String.sub x 1 (String.length x - 1))))
  | Atom x when String.length x > 1 && x.[0] = 'c' -> (KClass, nat_of_int (int_of_string (String.sub x 1 (String.length x - 1))))
  | _ -> failwith "base"

let rec ty = function
  | Atom "A" -> TAny
  | Atom "Z" -> TNothing
  | Atom x when x.[0] = 'L' -> TLit (nat_of_int (int_of_string (String.sub x 1 (String.length x - 1))))
  | Atom _ as a -> let (k, c) = base a in TName (k, c)
  | L (Atom "U" :: ts) -> TUnion (List.map ty ts)
  | L (Atom "G" :: b :: ts) -> let (k, c) = base b in TGen (k, c, List.map ty ts)
  | L (Atom "T" :: b :: ts) -> let (k, c) = base b in TTup (k, c, List.map ty ts)
  | L (Atom "F" :: b :: ts) -> let (k, c) = base b in TCall (k, c, List.map ty ts)
  | L (Atom "V" :: n :: sc :: hb :: ts) -> TVar (natx n, natx sc, boolx hb, List.map ty ts)
  | _ -> failwith "ty"

let oty = function Atom "-" -> None | x -> Some (ty x)
let param = function
  | L [Atom "P"; nm; t; kd; op; mu] ->
    { p_name = natx nm; p_ty = ty t; p_kind = natx kd; p_opt = boolx op; p_mut = oty mu }
  | _ -> failwith "param"
let oparam = function Atom "-" -> None | x -> Some (param x)
let sg = function
  | L [Atom "S"; L (Atom "params" :: ps); st; ss; rt; L (Atom "exc" :: ex)] ->
    { s_params = List.map param ps; s_star = oparam st; s_starstar = oparam ss; s_ret = ty rt;
      s_exc = List.map ty ex; s_template = [] }
  | L [Atom "S"; L (Atom "params" :: ps); st; ss; rt; L (Atom "exc" :: ex); L (Atom "tmpl" :: tm)] ->
    { s_params = List.map param ps; s_star = oparam st; s_starstar = oparam ss; s_ret = ty rt;
      s_exc = List.map ty ex; s_template = List.map ty tm }
  | _ -> failwith "sig"
let func = function
  | L (Atom "D" :: nm :: kd :: sigs) -> { f_name = natx nm; f_kind = natx kd; f_sigs = List.map sg sigs }
  | _ -> failwith "func"
let const = function
  | L [Atom "K"; nm; t] -> { k_name = natx nm; k_ty = ty t }
  | _ -> failwith "const"
let cls = function
  | L [Atom "C"; id; L (Atom "bases" :: bs); L (Atom "methods" :: ms); L (Atom "consts" :: cs)] ->
    { cl_name = natx id; cl_bases = List.map base bs; cl_methods = List.map func ms;
      cl_consts = List.map const cs; cl_template = [] }
  | L [Atom "C"; id; L (Atom "bases" :: bs); L (Atom "methods" :: ms); L (Atom "consts" :: cs); L (Atom "tmpl" :: tm)] ->
    { cl_name = natx id; cl_bases = List.map base bs; cl_methods = List.map func ms;
      cl_consts = List.map const cs; cl_template = List.map ty tm }
  | _ -> failwith "class"
let unit_ = function
  | L [Atom "unit"; L (Atom "consts" :: cs); L (Atom "classes" :: cl); L (Atom "funcs" :: fs)] ->
    { u_consts = List.map const cs; u_classes = List.map cls cl; u_funcs = List.map func fs }
  | _ -> failwith "unit"
let opts = function
  | L [Atom "opts"; d; l; a; m; r; k] ->
    { o_deps = boolx d; o_lossy = boolx l; o_use_abcs = boolx a; o_max_union = natx m;
      o_remove_mutable = boolx r; o_can_do_lookup = boolx k }
  | _ -> failwith "opts"
let hier = function
  | L (Atom "hier" :: es) ->
    List.map (function L (id :: sups) -> (natx id, List.map natx sups) | _ -> failwith "hier entry") es
  | _ -> failwith "hier"

(* printing *)
let pbase (k, c) = (match k with KNamed -> "n" | KClass -> "c") ^ string_of_int (int_of_nat c)
let rec pty b t =
  let lst tag hd ts =
    Buffer.add_string b ("(" ^ tag); (match hd with Some h -> Buffer.add_string b (" " ^ h) | None -> ());
    List.iter (fun x -> Buffer.add_char b ' '; pty b x) ts; Buffer.add_char b ')' in
  match t with
  | TName (k, c) -> Buffer.add_string b (pbase (k, c))
  | TAny -> Buffer.add_char b 'A'
  | TNothing -> Buffer.add_char b 'Z'
  | TLit n -> Buffer.add_string b ("L" ^ string_of_int (int_of_nat n))
  | TUnion ts -> lst "U" None ts
  | TGen (k, c, ts) -> lst "G" (Some (pbase (k, c))) ts
  | TTup (k, c, ts) -> lst "T" (Some (pbase (k, c))) ts
  | TCall (k, c, ts) -> lst "F" (Some (pbase (k, c))) ts
  | TVar (n, sc, hb, ts) ->
    lst "V" (Some (string_of_int (int_of_nat n) ^ " " ^ string_of_int (int_of_nat sc) ^ " " ^ (if hb then "1" else "0"))) ts
let poty b = function None -> Buffer.add_char b '-' | Some t -> pty b t
let pparam b p =
  Buffer.add_string b ("(P " ^ string_of_int (int_of_nat p.p_name) ^ " "); pty b p.p_ty;
  Buffer.add_string b (" " ^ string_of_int (int_of_nat p.p_kind) ^ " " ^ (if p.p_opt then "1" else "0") ^ " ");
  poty b p.p_mut; Buffer.add_char b ')'
let poparam b = function None -> Buffer.add_char b '-' | Some p -> pparam b p
let psig b s =
  Buffer.add_string b "(S (params"; List.iter (fun p -> Buffer.add_char b ' '; pparam b p) s.s_params;
  Buffer.add_string b ") "; poparam b s.s_star; Buffer.add_char b ' '; poparam b s.s_starstar;
  Buffer.add_char b ' '; pty b s.s_ret; Buffer.add_string b " (exc";
  List.iter (fun t -> Buffer.add_char b ' '; pty b t) s.s_exc; Buffer.add_string b ")";
  if s.s_template <> [] then begin
    Buffer.add_string b " (tmpl"; List.iter (fun t -> Buffer.add_char b ' '; pty b t) s.s_template; Buffer.add_string b ")" end;
  Buffer.add_string b ")"
let pfunc b f =
  Buffer.add_string b ("(D " ^ string_of_int (int_of_nat f.f_name) ^ " " ^ string_of_int (int_of_nat f.f_kind));
  List.iter (fun s -> Buffer.add_char b ' '; psig b s) f.f_sigs; Buffer.add_char b ')'
let pconst b c = Buffer.add_string b ("(K " ^ string_of_int (int_of_nat c.k_name) ^ " "); pty b c.k_ty; Buffer.add_char b ')'
let pcls b c =
  Buffer.add_string b ("(C " ^ string_of_int (int_of_nat c.cl_name) ^ " (bases");
  List.iter (fun x -> Buffer.add_string b (" " ^ pbase x)) c.cl_bases; Buffer.add_string b ") (methods";
  List.iter (fun f -> Buffer.add_char b ' '; pfunc b f) c.cl_methods; Buffer.add_string b ") (consts";
  List.iter (fun k -> Buffer.add_char b ' '; pconst b k) c.cl_consts; Buffer.add_string b ")";
  if c.cl_template <> [] then begin
    Buffer.add_string b " (tmpl"; List.iter (fun t -> Buffer.add_char b ' '; pty b t) c.cl_template; Buffer.add_string b ")" end;
  Buffer.add_string b ")"
let punit b u =
  Buffer.add_string b "(unit (consts"; List.iter (fun k -> Buffer.add_char b ' '; pconst b k) u.u_consts;
  Buffer.add_string b ") (classes"; List.iter (fun c -> Buffer.add_char b ' '; pcls b c) u.u_classes;
  Buffer.add_string b ") (funcs"; List.iter (fun f -> Buffer.add_char b ' '; pfunc b f) u.u_funcs;
  Buffer.add_string b "))"

let () =
  try
    while true do
      let line = input_line stdin in
      let b = Buffer.create 1024 in
      (match parse line with
       | L [Atom "case"; Atom "U"; o; h; u] ->
         let oo = opts o and hh = hier h in
         (match opt oo hh (unit_ u) with
          | Some r ->
            punit b r;
            (* is the result in optimiser normal form (Spec.stable_unit)?  monitored by the check *)
            let forced = oo.o_deps && oo.o_can_do_lookup in
            let st = stable_unit KClass oo hh r || ((not forced) && stable_unit KNamed oo hh r) in
            Buffer.add_string b (if st then "\tS" else "\tN");
            (* second_run_stable: every enabled step on its own leaves the result alone (Opt/SecondRun.v) *)
            Buffer.add_string b (if second_run_stable oo hh r then "\tR" else "\tX")
          | None -> Buffer.add_string b "ERR")
       | L [Atom "case"; Atom "T"; o; _; t] ->
         (match opt_ty (opts o) (ty t) with Some r -> pty b r | None -> Buffer.add_string b "ERR")
       | _ -> failwith "bad case");
      print_endline (Buffer.contents b)
    done
  with End_of_file -> ()
