(* Driver for the extracted C19 model.  One case per input line, space-separated integers after a tag:
   P nmods {path target name kind full key ext}* nreq {f}* ngroups {ng {idx}* nd {idx}*}*
       -> "ERR" | "OK f,f,..#step;step;.."   step = out|act|input|deps|impname:first|imports|final|module
   G nmods {mod}* nfiles {modidx stub}* nnodes {nn {fidx}* ndeps {nd {fidx}*}*}*
       -> groups "p.t.n.k,..|p.t.n.k,..;.."
   E c*            -> escaped codes
   L mode c*       -> mode 1 = path, 0 = value: "FAIL" | toks "#" rest
   R esc {n c*}(out action input) ndeps {n c*}* {n c*}(imports module) -> codes of render
   B c*            -> parse_build: "FAIL" | outs/rule/ins/implicit/bindings "#" rest
   Strings below are length-prefixed code-point lists {n c*}; lists of strings are count-prefixed.
   W nitems {k v}*          -> write_imports: codes
   I {content}              -> read_from_file: "ERR" | k=v;k=v (codes, ',' separated)
   F {devnull} {content}    -> build_from_file (abspath = identity): "ERR" | "NONE" | items "#" unused
   O which {s} [{s2}]       -> 0 splitext "a|b", 1 dirname, 2 basename, 3 join2
   K nexe {w}* nflags {k v}* nbin {w}*   -> command_words: words separated by ';'
   U {action} nwords {w}*   -> render_rule: codes
   V {text}                 -> parse_rule: "FAIL" | name/bindings "#" rest
   X {cmdvalue} {in} {out} {imports} {module}  -> lex_value(cmdvalue ^ "\n") evaluated for the edge: "FAIL" | codes
   Q {s}                    -> shell_escape ninja_shell_safe: codes
   S nenv {name val}* {cmd} -> sh_words: "DECLINE" | words separated by ';' ("-" for the empty word)
   N which ...              -> 0 path_to_module_name {f}; 1 infer_module {f} npp {p}*; 2 module_to_output_path {target} {name};
                               3 resolved_file_to_module {full} {short} {modname}; 4 loader_path {name}; 5 loader_init_path {name} *)
open Plan_model
let rec pos_of_int n = if n = 1 then XH else if n land 1 = 0 then XO (pos_of_int (n lsr 1)) else XI (pos_of_int (n lsr 1))
let n_of_int n = if n = 0 then N0 else Npos (pos_of_int n)
let rec int_of_pos = function XH -> 1 | XO p -> 2 * int_of_pos p | XI p -> 2 * int_of_pos p + 1
let int_of_n = function N0 -> 0 | Npos p -> int_of_pos p
let kind_of_int = function 0 -> Local | 1 -> Direct | 2 -> System | _ -> Builtin
let int_of_kind = function Local -> 0 | Direct -> 1 | System -> 2 | Builtin -> 3
let path_s = function PDefault -> "D" | PPyi (k, f) -> Printf.sprintf "%d.%d" (int_of_n k) (if f then 1 else 0)
let act_s = function CHECK -> "check" | INFER -> "infer" | GENERATE_DEFAULT -> "default"
let imports_s im = String.concat " " (List.map (fun (k, p) -> Printf.sprintf "%d=%s" (int_of_n k) (path_s p)) im)
let codes_s l = String.concat " " (List.map (fun c -> string_of_int (int_of_n c)) l)
let tok_s = function TLit c -> "l" ^ string_of_int (int_of_n c)
                   | TVar v -> "v" ^ String.concat "." (List.map (fun c -> string_of_int (int_of_n c)) v)
let toks_s ts = String.concat " " (List.map tok_s ts)
let () =
  try
    while true do
      let line = input_line stdin in
      let toks = Array.of_list (List.filter (fun s -> s <> "") (String.split_on_char ' ' line)) in
      let i = ref 1 in
      let next () = let v = int_of_string toks.(!i) in incr i; v in
      let read_mods () =
        let nm = next () in
        Array.init nm (fun _ ->
          let p = next () in let t = next () in let n = next () in let k = next () in
          let f = next () in let key = next () in let e = next () in
          { m_path = n_of_int p; m_target = n_of_int t; m_name = n_of_int n; m_kind = kind_of_int k;
            m_full = n_of_int f; m_key = n_of_int key; m_ext = (e <> 0) }) in
      let rest_codes () = let l = ref [] in
        while !i < Array.length toks do l := n_of_int (next ()) :: !l done; List.rev !l in
      (match toks.(0) with
       | "P" ->
         let mods = read_mods () in
         let nreq = next () in
         let req = List.init nreq (fun _ -> n_of_int (next ())) in
         let ng = next () in
         let ss = List.init ng (fun _ ->
           let n1 = next () in let g = List.init n1 (fun _ -> mods.(next ())) in
           let n2 = next () in let d = List.init n2 (fun _ -> mods.(next ())) in (g, d)) in
         (match setup_build req ss with
          | None -> print_endline "ERR"
          | Some s ->
            let fs = List.sort_uniq compare (List.map int_of_n s.files) in
            let step_s t =
              let (nm, fst) = t.s_impfile in
              let final = match store_get t.s_impfile s.store with Some im -> imports_s im | None -> "?" in
              String.concat "|" [ path_s t.s_out; act_s t.s_action; string_of_int (int_of_n t.s_input);
                String.concat " " (List.map path_s t.s_deps);
                Printf.sprintf "%d:%d" (int_of_n nm) (if fst then 1 else 0);
                imports_s t.s_imports; final; string_of_int (int_of_n t.s_module) ] in
            print_endline ("OK " ^ String.concat "," (List.map string_of_int fs) ^ "#" ^
                           String.concat ";" (List.map step_s s.plan)))
       | "G" ->
         let mods = read_mods () in
         let nf = next () in
         let fls = Array.init nf (fun j -> let mi = next () in let st = next () in
                     { g_id = n_of_int j; g_stub = (st <> 0); g_mod = mods.(mi) }) in
         let nn = next () in
         let nodes = List.init nn (fun _ ->
           let k = next () in let node = List.init k (fun _ -> fls.(next ())) in
           let nd = next () in
           let deps = List.init nd (fun _ -> let k2 = next () in List.init k2 (fun _ -> fls.(next ()))) in
           (node, deps)) in
         let ss = deps_from_import_graph nodes in
         let ms m = Printf.sprintf "%d.%d.%d.%d" (int_of_n m.m_path) (int_of_n m.m_target) (int_of_n m.m_name) (int_of_kind m.m_kind) in
         print_endline (String.concat ";" (List.map (fun (g, d) ->
           String.concat "," (List.map ms g) ^ "|" ^ String.concat "," (List.map ms d)) ss))
       | "E" -> print_endline (codes_s (escape (rest_codes ())))
       | "L" ->
         let m = next () in
         let s = rest_codes () in
         (match (if m = 1 then lex_path s else lex_value s) with
          | LFail -> print_endline "FAIL"
          | LDone (ts, rest) -> print_endline (toks_s ts ^ "#" ^ codes_s rest))
       | "R" ->
         let esc = next () <> 0 in
         let rd () = let k = next () in List.init k (fun _ -> n_of_int (next ())) in
         let o = rd () in let a = rd () in let inp = rd () in
         let nd = next () in let ds = List.init nd (fun _ -> rd ()) in
         let im = rd () in let md = rd () in
         print_endline (codes_s (render esc { t_out = o; t_action = a; t_input = inp; t_deps = ds;
                                              t_imports = im; t_module = md }))
       | "B" ->
         let s = rest_codes () in
         (match parse_build s with
          | None -> print_endline "FAIL"
          | Some (p, rest) ->
            let pl l = String.concat "," (List.map toks_s l) in
            print_endline (String.concat "/" [ pl p.p_outs; codes_s p.p_rule; pl p.p_ins; pl p.p_implicit;
              String.concat "," (List.map (fun (n, v) -> codes_s n ^ "=" ^ toks_s v) p.p_bind) ] ^ "#" ^ codes_s rest))
       | "W" | "I" | "F" | "O" | "K" | "U" | "V" | "X" | "Q" | "S" | "N" ->
         let rd () = let k = next () in List.init k (fun _ -> n_of_int (next ())) in
         let rdl () = let k = next () in List.init k (fun _ -> rd ()) in
         let rdp () = let k = next () in List.init k (fun _ -> let a = rd () in let b = rd () in (a, b)) in
         let cs l = if l = [] then "-" else String.concat "." (List.map (fun c -> string_of_int (int_of_n c)) l) in
         let items_s its = String.concat ";" (List.map (fun (k, v) -> cs k ^ "=" ^ cs v) its) in
         let rec seq a b = match a, b with [], [] -> true | x :: a', y :: b' -> int_of_n x = int_of_n y && seq a' b' | _ -> false in
         (match toks.(0) with
          | "W" -> print_endline (codes_s (write_imports (rdp ())))
          | "I" -> (match read_from_file (rd ()) with None -> print_endline "ERR" | Some its -> print_endline ("OK " ^ items_s its))
          | "F" -> let dn = rd () in
            (match build_from_file (fun x -> x) dn (rd ()) with
             | None -> print_endline "ERR"
             | Some None -> print_endline "NONE"
             | Some (Some (its, unused)) -> print_endline ("OK " ^ items_s its ^ "#" ^ String.concat ";" (List.map cs unused)))
          | "O" -> let w = next () in let a = rd () in
            (match w with
             | 0 -> let (x, y) = splitext a in print_endline (cs x ^ "|" ^ cs y)
             | 1 -> print_endline (cs (dirname a))
             | 2 -> print_endline (cs (basename a))
             | _ -> print_endline (cs (join2 a (rd ()))))
          | "K" -> let exe = rdl () in let fl = rdp () in let bf = rdl () in
            print_endline (String.concat ";" (List.map cs (command_words exe fl bf)))
          | "U" -> let a = rd () in print_endline (codes_s (render_rule a (rdl ())))
          | "V" -> (match parse_rule (rd ()) with
             | None -> print_endline "FAIL"
             | Some ((name, binds), rest) ->
               print_endline (codes_s name ^ "/" ^ String.concat "," (List.map (fun (n, v) -> codes_s n ^ "=" ^ toks_s v) binds) ^ "#" ^ codes_s rest))
          | "X" -> let cmd = rd () in let i = rd () in let o = rd () in let im = rd () in let md = rd () in
            (match lex_value (cmd @ [n_of_int 10]) with
             | LFail -> print_endline "FAIL"
             | LDone (ts, _) ->
               print_endline ("OK " ^ codes_s (edge_command ts { t_out = o; t_action = []; t_input = i; t_deps = []; t_imports = im; t_module = md })))
          | "Q" -> print_endline ("OK " ^ codes_s (shell_escape ninja_shell_safe (rd ())))
          | "S" -> let env = rdp () in let cmd = rd () in
            let lookup v = (try List.assoc v (List.map (fun (a, b) -> (List.map int_of_n a, b)) env) with Not_found -> []) in
            (match sh_words (fun v -> lookup (List.map int_of_n v)) cmd with
             | None -> print_endline "DECLINE"
             | Some ws -> print_endline ("OK " ^ String.concat ";" (List.map cs ws)))
          | _ -> let w = next () in
            (match w with
             | 0 -> (match path_to_module_name (rd ()) with None -> print_endline "NONE" | Some n -> print_endline ("OK " ^ cs n))
             | 1 -> let f = rd () in let m = infer_module f (rdl ()) in
               print_endline (cs m.cm_path ^ "|" ^ cs m.cm_target ^ "|" ^ (match m.cm_name with None -> "NONE" | Some n -> "OK " ^ cs n))
             | 2 -> let t = rd () in print_endline ("OK " ^ cs (module_to_output_path t (rd ())))
             | 3 -> let f = rd () in let sp = rd () in let ((p, t), n) = resolved_file_to_module f sp (rd ()) in
               print_endline (cs p ^ "|" ^ cs t ^ "|" ^ cs n)
             | 4 -> print_endline ("OK " ^ cs (loader_path (rd ())))
             | _ -> print_endline ("OK " ^ cs (loader_init_path (rd ())))))
       | t -> failwith ("bad tag " ^ t))
    done
  with End_of_file -> ()
