(* Driver for the extracted C10 model.  One case per input line, all tokens are integers after the kind:
     T <ll>            class table H: prints  mros_c H | mros_py false H | mros_py true H |
                                               get_bases_in_mro (all but last) (last)
     M <l> <ll>        singleton elements, sequence list: prints merge_py_gen (mem . sing) seqs
     L <ll> <ll> c n   table, attrs, class, name: prints lookup_c | lookup_py false | lookup_py true
     S <ll> <ll> k c cur n   table, attrs, k = 0 instance of c / 1 class object c, calling class, name:
                       prints super_c | super_py false | super_py true
     I <ll> <ll> <ll> <inits> c n   table, attrs, hooks, inits (count, then per class: kind <l>), class, name:
                       prints read_inst_c | read_inst_py false | read_inst_py true   (H hook c / I c / C c / -)
     G <gt>            Generic table (count, then per class: count, then class tag pairs): prints
                       gmros_c | gproject (gmros_py) | gmros_c_py_reading | same_reading_table | gmros_py (class.tag entries)
   <l>  = len x1 .. xlen      <ll> = count <l> ... <l>
   results:  res = "0 x.." (Ok) | "1" (Reject) | "2" (OutOfFuel) | "3" (Crash)
             table = "0" | "1 i" | "2 i"  followed by " ; mro" per created class *)
open Mro_model
let rec nat_of_int n = if n <= 0 then O else S (nat_of_int (n - 1))
let rec int_of_nat = function O -> 0 | S n -> 1 + int_of_nat n
let toks = ref [||]
let pos = ref 0
let next () = let v = int_of_string !toks.(!pos) in incr pos; v
let rd_l () = let n = next () in List.init n (fun _ -> nat_of_int (next ()))
let rd_ll () = let n = next () in List.init n (fun _ -> rd_l ())
let s_l l = String.concat " " (List.map (fun x -> string_of_int (int_of_nat x)) l)
let s_res = function
  | Ok l -> String.concat " " ("0" :: List.map (fun x -> string_of_int (int_of_nat x)) l)
  | Reject -> "1" | OutOfFuel -> "2" | Crash -> "3"
let s_tab r =
  let hd, m = match r with
    | TableOk m -> "0", m
    | TableErr (m, i) -> "1 " ^ string_of_int (int_of_nat i), m
    | TableBad (m, i) -> "2 " ^ string_of_int (int_of_nat i), m in
  String.concat " ; " (hd :: List.map s_l m)
let s_opt = function None -> "-" | Some c -> string_of_int (int_of_nat c)
let rec split_last = function
  | [] -> [], []
  | [x] -> [], x
  | x :: t -> let a, b = split_last t in x :: a, b
let () =
  try
    while true do
      let line = input_line stdin in
      toks := Array.of_list (List.filter (fun s -> s <> "") (String.split_on_char ' ' line));
      pos := 1;
      (match !toks.(0) with
       | "T" ->
         let h = rd_ll () in
         let pre, last = split_last h in
         print_endline (String.concat " | " [s_tab (mros_c h); s_tab (mros_py false h); s_tab (mros_py true h);
                                             s_res (get_bases_in_mro pre last)])
       | "M" ->
         let sing = rd_l () in
         let seqs = rd_ll () in
         print_endline (s_res (merge_py_gen (fun x -> mem x sing) seqs))
       | "L" ->
         let h = rd_ll () in
         let attrs = rd_ll () in
         let c = nat_of_int (next ()) in
         let n = nat_of_int (next ()) in
         print_endline (String.concat " | " [s_opt (lookup_c h attrs c n); s_opt (lookup_py false h attrs c n);
                                             s_opt (lookup_py true h attrs c n)])
       | "S" ->
         let h = rd_ll () in
         let attrs = rd_ll () in
         let k = next () in
         let c = nat_of_int (next ()) in
         let cur = nat_of_int (next ()) in
         let n = nat_of_int (next ()) in
         let o = if k = 0 then SInst c else SCls c in
         print_endline (String.concat " | " [s_opt (super_c h attrs o cur n); s_opt (super_py false h attrs o cur n);
                                             s_opt (super_py true h attrs o cur n)])
       | "I" ->
         let h = rd_ll () in
         let attrs = rd_ll () in
         let hooks = rd_ll () in
         let ni = next () in
         let inits = List.init ni (fun _ -> let k = nat_of_int (next ()) in let l = rd_l () in (k, l)) in
         let c = nat_of_int (next ()) in
         let n = nat_of_int (next ()) in
         let s_a = function
           | AHook (hk, c) -> "H " ^ string_of_int (int_of_nat hk) ^ " " ^ string_of_int (int_of_nat c)
           | AInst c -> "I " ^ string_of_int (int_of_nat c)
           | ACls c -> "C " ^ string_of_int (int_of_nat c)
           | AMissing -> "-" in
         print_endline (String.concat " | " [s_a (read_inst_c h attrs hooks inits c n);
                                             s_a (read_inst_py false h attrs hooks inits c n);
                                             s_a (read_inst_py true h attrs hooks inits c n)])
       | "G" ->
         let ng = next () in
         let g = List.init ng (fun _ -> let k = next () in
                                List.init k (fun _ -> let c = nat_of_int (next ()) in let t = nat_of_int (next ()) in (c, t))) in
         let s_e (c, t) = string_of_int (int_of_nat c) ^ "." ^ string_of_int (int_of_nat t) in
         let raw = match gmros_py g with
           | GOk m | GErr (m, _) | GBad (m, _) -> String.concat " ; " (List.map (fun l -> String.concat " " (List.map s_e l)) m) in
         print_endline (String.concat " | " [s_tab (gmros_c g); s_tab (gproject (gmros_py g)); s_tab (gmros_c_py_reading g);
                                             (if same_reading_table g then "1" else "0"); raw])
       | t -> failwith ("bad kind " ^ t))
    done
  with End_of_file -> ()
