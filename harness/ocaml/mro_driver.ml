(* Driver for the extracted C10 model.  One case per input line, all tokens are integers after the kind:
     T <ll>            class table H: prints  mros_c H | mros_py false H | mros_py true H |
                                               get_bases_in_mro (all but last) (last)
     M <l> <ll>        singleton elements, sequence list: prints merge_py_gen (mem . sing) seqs
     L <ll> <ll> c n   table, attrs, class, name: prints lookup_c | lookup_py false | lookup_py true
   <l>  = len x1 .. xlen      <ll> = count <l> ... <l>
   results:  res = "0 x.." (Ok) | "1" (Reject) | "2" (OutOfFuel) | "3" (Crash)
             table = "0" | "1 i" | "2 i"  followed by " ; mro" per created class *)
open Mro_model
let rec nat_of_int n = if n <= 0 then O else S (nat_of_int (n - 1))
let rec int_of_nat = function O -> 0 | S n -> 1 + int_of_nat n
let toks = ref [||]
let pos = ref 0
let next () = let v = int_of_string !toks.(!pos) in incr pos; v
let rd_l () = let n = next () in List.init n (fun _ -> nat_of_int (next ()))
let rd_ll () = let n = next () in List.init n (fun _ -> rd_l ())
let s_l l = String.concat " " (List.map (fun x -> string_of_int (int_of_nat x)) l)
let s_res = function
  | Ok l -> String.concat " " ("0" :: List.map (fun x -> string_of_int (int_of_nat x)) l)
  | Reject -> "1" | OutOfFuel -> "2" | Crash -> "3"
let s_tab r =
  let hd, m = match r with
    | TableOk m -> "0", m
    | TableErr (m, i) -> "1 " ^ string_of_int (int_of_nat i), m
    | TableBad (m, i) -> "2 " ^ string_of_int (int_of_nat i), m in
  String.concat " ; " (hd :: List.map s_l m)
let s_opt = function None -> "-" | Some c -> string_of_int (int_of_nat c)
let rec split_last = function
  | [] -> [], []
  | [x] -> [], x
  | x :: t -> let a, b = split_last t in x :: a, b
let () =
  try
    while true do
      let line = input_line stdin in
      toks := Array.of_list (List.filter (fun s -> s <> "") (String.split_on_char ' ' line));
      pos := 1;
      (match !toks.(0) with
       | "T" ->
         let h = rd_ll () in
         let pre, last = split_last h in
         print_endline (String.concat " | " [s_tab (mros_c h); s_tab (mros_py false h); s_tab (mros_py true h);
                                             s_res (get_bases_in_mro pre last)])
       | "M" ->
         let sing = rd_l () in
         let seqs = rd_ll () in
         print_endline (s_res (merge_py_gen (fun x -> mem x sing) seqs))
       | "L" ->
         let h = rd_ll () in
         let attrs = rd_ll () in
         let c = nat_of_int (next ()) in
         let n = nat_of_int (next ()) in
         print_endline (String.concat " | " [s_opt (lookup_c h attrs c n); s_opt (lookup_py false h attrs c n);
                                             s_opt (lookup_py true h attrs c n)])
       | t -> failwith ("bad kind " ^ t))
    done
  with End_of_file -> ()
