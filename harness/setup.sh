#!/bin/bash
# MANIFEST.setup_cmd: offline build of everything the checks need, from files on disk only.
set -e
here="$(cd "$(dirname "$0")" && pwd)"
export PYTHONPATH="/repo:$here" PYTHONHASHSEED=0 PYTHONDONTWRITEBYTECODE=1
exec /venv/bin/python -u "$here/setup.py"
