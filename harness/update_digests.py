#!/usr/bin/env python3
"""Records the digests of the anchored source of every property as validated (run by the maintainer of /verif after
every change to /repo's HEAD, e.g. a fix: commit; never at check time).  usage: /venv/bin/python harness/update_digests.py"""
import json, os, sys
os.environ.pop("VERIF_REPO", None)
sys.path.insert(0, os.path.dirname(os.path.abspath(__file__)))
import common
out = {"_repo_head": os.popen("git -C /repo rev-parse --short HEAD").read().strip()}
for i in range(1, 21):
  pid = "C%02d" % i
  out[pid] = common.source_digests(pid, "/repo")
json.dump(out, open(os.path.join(common.VERIF, "harness", "digests.json"), "w"), indent=1, sort_keys=True)
print("recorded", {k: len(v) for k, v in out.items() if k != "_repo_head"})
