"""Driver: harness/check <Cnn> [--tier quick|thorough] [--replay file]."""
import argparse
import importlib
import json
import os
import re
import subprocess
import sys
import time
import traceback

import common


def escalate(res, pid, drift):
  """Drift sentinel: the anchored source differs from what the models were validated against.  Not a verdict;
  the quick tier explores more: extra passes of the same check under other seeds (sub-processes), stopping at the
  first pass that finds a violation.  Their obligations, violations and counts are merged into this run."""
  n_extra = int(os.environ.get("VERIF_ESCALATION_PASSES", "2"))
  info = {"changed_files": drift, "extra_passes": []}
  res.extra["drift_sentinel"] = info
  wrapper = os.path.join(common.VERIF, "harness", "check")
  for k in range(1, n_extra + 1):
    if any(v["found_input"] for v in res.violations):
      break
    env = dict(os.environ, VERIF_SEED=str(res.seed + 7919 * k), VERIF_ESCALATION_PASS=str(k))
    t0 = time.time()
    p = subprocess.run([wrapper, pid, "--tier", "quick"], env=env, capture_output=True, text=True)
    out = p.stdout + p.stderr
    rec = {"pass": k, "seed": env["VERIF_SEED"], "exit": p.returncode, "wall_s": round(time.time() - t0, 1)}
    try:
      ev = json.load(open(os.path.join(common.BUILD, "evidence_pass%d" % k, pid + ".json")))
      cov = ev["coverage"]
      res.evaluations += cov.get("evaluations", 0)
      rec["evaluations"] = cov.get("evaluations", 0)
      for o in cov.get("obligation_list", []):
        if not o["ok"]:
          res.obligation("pass%d:%s" % (k, o["name"]), False, o.get("detail", ""))
    except Exception as e:  # the extra pass left no evidence: it is itself an undischarged obligation
      res.obligation("pass%d:evidence" % k, False, "%s; output tail: %s" % (e, out[-1500:]))
    for m in re.finditer(r"^KNOWN-FINDING: property=\S+ (.*)$", out, re.M):
      rest = m.group(1)
      fps = [fp for fp in res.known if rest.startswith(fp + ": ")]
      if fps:
        fp = max(fps, key=len)
        res.known_hits.setdefault(fp, rest[len(fp) + 2:])
    for m in re.finditer(r"^VIOLATION property=\S+ replay=(\S+)( no-failing-input-found)?$", out, re.M):
      path, nofound = m.group(1), bool(m.group(2))
      if nofound:
        continue  # merged through the failed obligations above
      try:
        d = json.load(open(path))
      except Exception:  # pylint: disable=broad-except
        d = {}
      res.violations.append({"fingerprint": d.get("fingerprint", "pass%d" % k), "what": d.get("what", ""),
                             "replay": path, "found_input": True})
    info["extra_passes"].append(rec)


def main():
  ap = argparse.ArgumentParser()
  ap.add_argument("pid")
  ap.add_argument("--tier", default=os.environ.get("VERIF_TIER", "quick"), choices=["quick", "thorough"])
  ap.add_argument("--replay", default=None)
  args = ap.parse_args()
  pid = args.pid.upper()
  seed = int(os.environ.get("VERIF_SEED", "20260923"))
  sys.path.insert(0, os.path.join(common.VERIF, "harness", "props"))
  res = common.Result(pid, args.tier, seed)
  try:
    mod = importlib.import_module(pid.lower())
    if args.replay:
      return mod.replay(res, args.replay)
    drift = None
    if args.tier == "quick" and not os.environ.get("VERIF_ESCALATION_PASS") and os.environ.get("VERIF_NO_ESCALATE") != "1":
      drift = common.source_drift(pid)
    level = mod.run(res) or "proof"
    if drift:
      common.log("[%s] drift sentinel: anchored source changed (%s); running extra passes" % (pid, ", ".join(drift[:5])))
      escalate(res, pid, drift)
    elif drift is not None:
      res.extra["drift_sentinel"] = {"changed_files": [], "extra_passes": []}
  except common.BuildError as e:
    res.obligation("build", False, str(e))
    level = "proof"
  except Exception:  # a crashing check must not pass silently
    res.obligation("check-internal-error", False, traceback.format_exc())
    level = "proof"
  return res.finish(level=level)


if __name__ == "__main__":
  sys.exit(main())
