"""Driver: harness/check <Cnn> [--tier quick|thorough] [--replay file]."""
import argparse
import importlib
import os
import sys
import traceback

import common


def main():
  ap = argparse.ArgumentParser()
  ap.add_argument("pid")
  ap.add_argument("--tier", default=os.environ.get("VERIF_TIER", "quick"), choices=["quick", "thorough"])
  ap.add_argument("--replay", default=None)
  args = ap.parse_args()
  pid = args.pid.upper()
  seed = int(os.environ.get("VERIF_SEED", "20260923"))
  sys.path.insert(0, os.path.join(common.VERIF, "harness", "props"))
  res = common.Result(pid, args.tier, seed)
  try:
    mod = importlib.import_module(pid.lower())
    if args.replay:
      return mod.replay(res, args.replay)
    level = mod.run(res) or "proof"
  except common.BuildError as e:
    res.obligation("build", False, str(e))
    level = "proof"
  except Exception:  # a crashing check must not pass silently
    res.obligation("check-internal-error", False, traceback.format_exc())
    level = "proof"
  return res.finish(level=level)


if __name__ == "__main__":
  sys.exit(main())
