"""Shared machinery for the /verif checks (see DESIGN.md section 2).

Everything here runs under /venv/bin/python with PYTHONPATH=/repo:/verif/harness and a fixed
PYTHONHASHSEED (the `check` wrapper sets them).  Nothing is ever written into /repo.
"""
from __future__ import annotations

import contextlib
import fcntl
import glob
import hashlib
import json
import os
import random
import re
import shutil
import subprocess
import sys
import time

VERIF = os.path.dirname(os.path.dirname(os.path.abspath(__file__)))
REPO = os.environ.get("VERIF_REPO", "/repo")
BUILD = os.path.join(VERIF, "_build")
COQ = os.path.join(VERIF, "coq")
# runs against a scratch tree (seeded changes) must not overwrite the committed evidence of /repo
EVIDENCE = os.path.join(VERIF, "evidence") if os.path.realpath(REPO) == "/repo" else os.path.join(BUILD, "evidence_scratch")
CORPUS = os.path.join(VERIF, "corpus")
REPLAY = os.path.join(BUILD, "replay")
# extra passes of the drift sentinel (check.py) run as sub-processes and must not overwrite the main pass's files
_PASS = os.environ.get("VERIF_ESCALATION_PASS")
if _PASS:
  EVIDENCE = os.path.join(BUILD, "evidence_pass" + _PASS)
  REPLAY = os.path.join(BUILD, "replay", "pass" + _PASS)
PY = "/venv/bin/python"
NCPU = os.cpu_count() or 4

FORBIDDEN = re.compile(
    r"\b(Admitted|admit|Axiom|Axioms|Parameter|Parameters|Conjecture|Conjectures|"
    r"Admit\s+Obligations|bypass_check|native_compute)\b|Unset\s+Guard|Unset\s+Positivity|"
    r"Unset\s+Universe\s+Checking|type-in-type|impredicative-set")


def log(*a):
  print(*a, flush=True)


def sha(*chunks: bytes) -> str:
  h = hashlib.sha256()
  for c in chunks:
    h.update(c)
  return h.hexdigest()[:16]


@contextlib.contextmanager
def flock(name):
  os.makedirs(BUILD, exist_ok=True)
  f = open(os.path.join(BUILD, name + ".lock"), "w")
  fcntl.flock(f, fcntl.LOCK_EX)
  try:
    yield
  finally:
    fcntl.flock(f, fcntl.LOCK_UN)
    f.close()


# ---------------------------------------------------------------------------------------
# cfg.so: built out of tree from /repo/pytype/typegraph/*.cc, keyed by a hash of the sources

CFG_SOURCES = ["cfg", "cfg_logging", "pylogging", "reachable", "solver", "typegraph"]


def cfg_dir() -> str:
  tg = os.path.join(REPO, "pytype", "typegraph")
  chunks = []
  for f in sorted(glob.glob(os.path.join(tg, "*.cc")) + glob.glob(os.path.join(tg, "*.h"))):
    chunks.append(os.path.basename(f).encode())
    chunks.append(open(f, "rb").read())
  return os.path.join(BUILD, "cfg", sha(*chunks))


def build_cfg() -> str:
  """Returns the directory containing cfg.so for the current /repo sources (builds if absent)."""
  d = cfg_dir()
  so = os.path.join(d, "cfg.so")
  if os.path.exists(so):
    return d
  with flock("cfg"):
    if os.path.exists(so):
      return d
    os.makedirs(d, exist_ok=True)
    tg = os.path.join(REPO, "pytype", "typegraph")
    inc_py = subprocess.check_output(
        [PY, "-c", "import sysconfig;print(sysconfig.get_paths()['include'])"], text=True).strip()
    inc_pb = subprocess.check_output(
        [PY, "-c", "import pybind11;print(pybind11.get_include())"], text=True).strip()
    t0 = time.time()
    objs = []
    procs = []
    for s in CFG_SOURCES:
      o = os.path.join(d, s + ".o")
      objs.append(o)
      procs.append(subprocess.Popen(
          ["g++", "-O1", "-std=c++17", "-fPIC", "-c", "-I" + inc_py, "-I" + inc_pb, "-I" + tg,
           os.path.join(tg, s + ".cc"), "-o", o], stdout=subprocess.PIPE, stderr=subprocess.STDOUT))
    for p in procs:
      out, _ = p.communicate()
      if p.returncode != 0:
        raise BuildError("cfg.so compile failed:\n" + out.decode(errors="replace")[-4000:])
    tmp = so + ".tmp"
    r = subprocess.run(["g++", "-shared", "-o", tmp] + objs, capture_output=True, text=True)
    if r.returncode != 0:
      raise BuildError("cfg.so link failed:\n" + r.stderr[-4000:])
    os.replace(tmp, so)
    for o in objs:
      os.unlink(o)
    log(f"[cfg] built {so} in {time.time()-t0:.1f}s")
    # keep at most 6 old builds
    olds = sorted(glob.glob(os.path.join(BUILD, "cfg", "*")), key=os.path.getmtime)
    for o in olds[:-6]:
      shutil.rmtree(o, ignore_errors=True)
  return d


class BuildError(Exception):
  pass


def bootstrap_pytype():
  """Make `import pytype...` work in *this* process, including the C++ typegraph extension."""
  d = build_cfg()
  if REPO not in sys.path:
    sys.path.insert(0, REPO)
  import pytype.typegraph  # pylint: disable=import-outside-toplevel
  if d not in pytype.typegraph.__path__:
    pytype.typegraph.__path__.append(d)
  return d


def impl_env(hashseed="0"):
  env = dict(os.environ)
  env["PYTHONPATH"] = REPO + os.pathsep + os.path.join(VERIF, "harness")
  env["PYTHONHASHSEED"] = str(hashseed)
  env["VERIF_CFG_DIR"] = build_cfg()
  env["GOOGLE_PYTYPE_VERIF"] = "1"
  return env


# ---------------------------------------------------------------------------------------
# Coq

def coq_files():
  out = []
  for root, _, files in os.walk(COQ):
    for f in files:
      if f.endswith(".v"):
        out.append(os.path.relpath(os.path.join(root, f), COQ))
  return sorted(out)


def write_if_changed(path, text):
  os.makedirs(os.path.dirname(path), exist_ok=True)
  if os.path.exists(path) and open(path).read() == text:
    return False
  with open(path, "w") as f:
    f.write(text)
  return True


def coq_make(targets, timeout=1500):
  """Full .vo build (never -vos) of the given targets' closure.  Returns (ok, log)."""
  with flock("coq"):
    files = coq_files()
    proj = "-Q . PV\n-arg -w -arg -notation-overridden,-deprecated-hint-without-locality," \
           "-deprecated-instance-without-locality,-ambiguous-paths,-future-coercion-class-field\n" \
           + "\n".join(files) + "\n"
    changed = write_if_changed(os.path.join(COQ, "_CoqProject"), proj)
    mk = os.path.join(COQ, "Makefile")
    if changed or not os.path.exists(mk):
      r = subprocess.run(["coq_makefile", "-f", "_CoqProject", "-o", "Makefile"], cwd=COQ,
                         capture_output=True, text=True)
      if r.returncode != 0:
        return False, r.stdout + r.stderr
    cmd = ["timeout", str(timeout), "make", "-j", str(NCPU)] + list(targets)
    r = subprocess.run(cmd, cwd=COQ, capture_output=True, text=True)
    return r.returncode == 0, r.stdout + r.stderr


def coqc_file(path, timeout=600, cwd=None):
  """Compile one file against the PV library; returns (ok, stdout+stderr)."""
  r = subprocess.run(["timeout", str(timeout), "coqc", "-Q", COQ, "PV", "-w",
                      "-notation-overridden,-deprecated-hint-without-locality", path],
                     capture_output=True, text=True, cwd=cwd)
  return r.returncode == 0, r.stdout + r.stderr


def coq_closure(vfile):
  """All project .v files that `vfile` (relative to coq/) transitively depends on, itself included."""
  seen = set()
  todo = [vfile]
  avail = set(coq_files())
  while todo:
    f = todo.pop()
    if f in seen or f not in avail:
      continue
    seen.add(f)
    txt = strip_coq_comments(open(os.path.join(COQ, f)).read())
    for m in re.finditer(r"From\s+PV\s+Require\s+(?:Import\s+|Export\s+)?([\w.\s]+?)\.(?:\s|$)", txt):
      for name in m.group(1).split():
        todo.append(name.replace(".", "/") + ".v")
    for m in re.finditer(r"\bPV\.([\w.]+)", txt):
      todo.append(m.group(1).rstrip(".").replace(".", "/") + ".v")
  return sorted(seen)


def forbidden_scan(files):
  """Scan (comments stripped) for constructs the brief forbids.  Returns list of (file, line, text)."""
  bad = []
  for f in files:
    txt = open(os.path.join(COQ, f)).read()
    txt = strip_coq_comments(txt)
    for i, line in enumerate(txt.split("\n"), 1):
      if FORBIDDEN.search(line):
        bad.append((f, i, line.strip()))
      if re.match(r"\s*(Variable|Variables|Hypothesis|Hypotheses|Context)\b", line):
        # only allowed inside a Section; checked coarsely: the file must open a Section before it
        before = "\n".join(txt.split("\n")[:i])
        if before.count("Section ") <= before.count("\nEnd "):
          bad.append((f, i, line.strip()))
  return bad


def strip_coq_comments(txt):
  out = []
  depth = 0
  i = 0
  n = len(txt)
  while i < n:
    if txt.startswith("(*", i):
      depth += 1
      i += 2
    elif txt.startswith("*)", i) and depth:
      depth -= 1
      i += 2
    else:
      if depth == 0:
        out.append(txt[i])
      elif txt[i] == "\n":
        out.append("\n")
      i += 1
  return "".join(out)


def props_assumptions(pid):
  """(Re)compile Props/<pid>.v and parse its `Print Assumptions` output.

  Returns (ok, theorems: list of {name, closed, axioms}, log)."""
  path = os.path.join(COQ, "Props", pid + ".v")
  with flock("coq"):
    ok, out = coqc_file(path, cwd=COQ)
  thms = re.findall(r"^\s*(?:Theorem|Corollary)\s+(\w+)", strip_coq_comments(open(path).read()), re.M)
  pa = re.findall(r"Print\s+Assumptions\s+(\w+)", open(path).read())
  blocks = []
  cur = None
  for line in out.split("\n"):
    if line.startswith("Closed under the global context"):
      blocks.append({"closed": True, "axioms": []})
      cur = None
    elif line.startswith("Axioms:"):
      cur = {"closed": False, "axioms": []}
      blocks.append(cur)
    elif cur is not None and line.strip():
      m = re.match(r"^(\S+)\s*:", line)
      if m and not line.startswith(" "):
        cur["axioms"].append(m.group(1))
  res = []
  for i, name in enumerate(pa):
    b = blocks[i] if i < len(blocks) else {"closed": False, "axioms": ["<no Print Assumptions output>"]}
    res.append({"name": name, **b})
  missing = [t for t in thms if t not in pa]
  return ok and not missing and len(blocks) == len(pa), res, out + ("\nmissing Print Assumptions: %s" % missing if missing else "")


ALLOWED_AXIOMS = {
    # standard-library axioms the brief allows, if they ever show up they are named in evidence
    "functional_extensionality_dep", "FunctionalExtensionality.functional_extensionality_dep",
    "Eqdep.Eq_rect_eq.eq_rect_eq", "Classical_Prop.classic", "ProofIrrelevance.proof_irrelevance",
    "JMeq.JMeq_eq",
}


def run_cases_v(name, body, timeout=900):
  """Compiles one cases file; returns (ok, output)."""
  return run_cases_parallel([(name, body)], timeout=timeout)[name]


def run_cases_parallel(named_bodies, timeout=900, subdir=None):
  """named_bodies: list of (name, body).  Compiles up to NCPU/2 at a time.  Returns {name: (ok, out)}.
  Output goes to files (a PIPE would deadlock beyond 64 KB); each process of each property uses its own
  directory so that concurrent runs do not collide."""
  d = os.path.join(BUILD, "cases", subdir or ("p%d" % os.getpid()))
  os.makedirs(d, exist_ok=True)
  results = {}
  pending = list(named_bodies)
  running = {}
  maxpar = max(2, NCPU // 2)
  while pending or running:
    while pending and len(running) < maxpar:
      name, body = pending.pop(0)
      path = os.path.join(d, name + ".v")
      with open(path, "w") as f:
        f.write(body)
      outf = open(os.path.join(d, name + ".out"), "w")
      running[name] = (subprocess.Popen(
          ["timeout", str(timeout), "coqc", "-noglob", "-Q", COQ, "PV", path],
          stdout=outf, stderr=subprocess.STDOUT, cwd=d), outf)
    done = [n for n, (p, _) in running.items() if p.poll() is not None]
    if not done:
      time.sleep(0.05)
      continue
    for n in done:
      p, outf = running.pop(n)
      outf.close()
      results[n] = (p.returncode == 0, open(os.path.join(d, n + ".out")).read())
  shutil.rmtree(d, ignore_errors=True)
  return results


def parse_coq_eval(out):
  """Returns the list of terms printed by successive `Eval ... in` commands, whitespace-normalised
  and with the trailing `: type` removed."""
  res = []
  for chunk in re.split(r"^\s*= ", out, flags=re.M)[1:]:
    # cut at the last top-level "\n     : "
    m = re.search(r"\n\s*: ", chunk)
    term = chunk[:m.start()] if m else chunk
    res.append(re.sub(r"\s+", " ", term).strip())
  return res


# ---------------------------------------------------------------------------------------
# OCaml extraction runner

def build_extracted(name, extract_v, driver_ml, modules):
  """Compiles coq/<extract_v> (which writes <modules>.ml[i] into the cwd) and links it with the
  driver.  Returns the native executable.  Rebuilt whenever the model, its closure or the driver changed."""
  d = os.path.join(BUILD, "ocaml", name)
  os.makedirs(d, exist_ok=True)
  drv = open(driver_ml, "rb").read()
  deps = b"".join(open(os.path.join(COQ, f), "rb").read() for f in coq_closure(extract_v))
  exe = os.path.join(d, "run_" + sha(drv, deps))
  if os.path.exists(exe):
    return exe
  with flock("ocaml_" + name):
    if os.path.exists(exe):
      return exe
    for f in glob.glob(os.path.join(d, "*")):
      if os.path.isfile(f):
        os.unlink(f)
    ok, out = coq_make([extract_v[:-2] + ".vo" for extract_v in coq_closure(extract_v) if not extract_v.startswith("Extract/")])
    if not ok:
      raise BuildError("building the closure of %s failed:\n%s" % (extract_v, out[-3000:]))
    shutil.copy(os.path.join(COQ, extract_v), os.path.join(d, "extract.v"))
    r = subprocess.run(["timeout", "600", "coqc", "-Q", COQ, "PV", "extract.v"],
                       cwd=d, capture_output=True, text=True)
    if r.returncode != 0:
      raise BuildError("extraction failed: " + r.stdout + r.stderr)
    shutil.copy(driver_ml, os.path.join(d, "driver.ml"))
    mls = []
    for m in modules:
      if os.path.exists(os.path.join(d, m + ".mli")):
        mls.append(m + ".mli")
      mls.append(m + ".ml")
    r = subprocess.run(["ocamlfind", "ocamlopt", "-w", "-a", "-o", exe] + mls + ["driver.ml"],
                       cwd=d, capture_output=True, text=True)
    if r.returncode != 0:
      raise BuildError("ocaml build failed: " + r.stdout + r.stderr)
  return exe


# ---------------------------------------------------------------------------------------
# Known findings, violations, evidence

def known_findings(pid):
  path = os.path.join(VERIF, "known_findings.json")
  if not os.path.exists(path):
    return []
  data = json.load(open(path))
  return [e for e in data.get("entries", []) if e.get("property") == pid and e.get("kind") == "finding"]


class Result:
  """Accumulates what one run of one property's check established."""

  def __init__(self, pid, tier, seed):
    self.pid = pid
    self.tier = tier
    self.seed = seed
    self.t0 = time.time()
    self.obligations = []      # (name, ok, detail)
    self.evaluations = 0
    self.nontrivial = set()
    self.samples = []
    self.violations = []       # dict(fingerprint, what, replay, found_input)
    self.known_hits = {}       # fingerprint -> what
    self.notes = {}
    self.assumptions = []
    self.trusted_base = []
    self.rule = ""
    self.extra = {}
    self.known = {e["fingerprint"]: e for e in known_findings(pid)}

  # -- obligations (theorems, closed boolean obligations, correspondence legs)
  def obligation(self, name, ok, detail=""):
    self.obligations.append((name, bool(ok), detail))
    if not ok:
      log(f"[{self.pid}] OBLIGATION FAILED: {name}: {detail[:2000]}")
    return ok

  def count(self, key=None, n=1):
    self.evaluations += n
    if key is not None:
      self.nontrivial.add(key)

  def sample(self, s, cap=6):
    if len(self.samples) < cap:
      self.samples.append(s)

  def violation(self, fingerprint, what, replay_obj, found_input=True):
    """Reports a violation unless `fingerprint` is a listed known finding."""
    if fingerprint in self.known:
      if fingerprint not in self.known_hits:
        self.known_hits[fingerprint] = self.known[fingerprint].get("what", what)
      return False
    os.makedirs(REPLAY, exist_ok=True)
    n = len(self.violations)
    path = os.path.join(REPLAY, f"{self.pid}-{n}.json")
    with open(path, "w") as f:
      json.dump({"property": self.pid, "fingerprint": fingerprint, "what": what,
                 "found_failing_input": found_input, "replay": replay_obj,
                 "rerun": f"cd /verif && harness/check {self.pid} --replay {path}"}, f, indent=1, default=str)
    self.violations.append({"fingerprint": fingerprint, "what": what, "replay": path,
                            "found_input": found_input})
    return True

  def finish(self, level="proof", checker_cmd=""):
    failed = [o for o in self.obligations if not o[1]]
    # A failed obligation with no concrete failing input is still a violation (property no longer shown).
    if failed and not any(v["found_input"] for v in self.violations):
      os.makedirs(REPLAY, exist_ok=True)
      path = os.path.join(REPLAY, f"{self.pid}-obligation.json")
      with open(path, "w") as f:
        json.dump({"property": self.pid, "no_longer_checks": [
            {"obligation": n, "detail": d[:6000]} for n, _, d in failed],
            "rerun": f"cd /verif && harness/check {self.pid} --tier {self.tier}"}, f, indent=1)
      self.violations.append({"fingerprint": "obligation", "what": "; ".join(o[0] for o in failed),
                              "replay": path, "found_input": False})
    for fp, what in sorted(self.known_hits.items()):
      print(f"KNOWN-FINDING: property={self.pid} {fp}: {what}", flush=True)
    for v in self.violations:
      tail = "" if v["found_input"] else " no-failing-input-found"
      print(f"VIOLATION property={self.pid} replay={v['replay']}{tail}", flush=True)
    cov = {
        "obligations": len(self.obligations),
        "discharged": len(self.obligations) - len(failed),
        "checker_cmd": checker_cmd or f"cd /verif/coq && make Props/{self.pid}.vo && coqc -Q . PV Props/{self.pid}.v",
        "trusted_base": self.trusted_base,
        "evaluations": self.evaluations,
        "distinct_nontrivial": len(self.nontrivial),
        "rule": self.rule,
        "samples": self.samples or ["<none>"],
        "obligation_list": [{"name": n, "ok": ok, "detail": d[:300]} for n, ok, d in self.obligations],
        "known_findings_reproduced": sorted(self.known_hits),
    }
    cov.update(self.extra)
    ev = {
        "property_id": self.pid, "tier": self.tier, "seed": self.seed, "level": level,
        "coverage": cov, "assumptions": self.assumptions, "wall_s": round(time.time() - self.t0, 2),
        "violations": len(self.violations),
    }
    os.makedirs(EVIDENCE, exist_ok=True)
    with open(os.path.join(EVIDENCE, self.pid + ".json"), "w") as f:
      json.dump(ev, f, indent=1, default=str)
      f.write("\n")
    log(f"[{self.pid}] tier={self.tier} obligations={cov['discharged']}/{cov['obligations']} "
        f"evaluations={self.evaluations} distinct_nontrivial={len(self.nontrivial)} "
        f"known={len(self.known_hits)} violations={len(self.violations)} wall={ev['wall_s']}s")
    return 1 if self.violations else 0


def coq_obligations(res: Result, pid, extra_targets=()):
  """Standard Coq leg: build the closure of Props/<pid>.v, scan it for forbidden constructs, collect
  Print Assumptions for every property theorem.  Each theorem is one obligation."""
  target = f"Props/{pid}.vo"
  ok, out = coq_make([target] + list(extra_targets))
  res.obligation(f"coq-build:{target}", ok, out[-3000:] if not ok else "")
  closure = coq_closure(f"Props/{pid}.v")
  bad = forbidden_scan(closure)
  res.obligation("no-forbidden-constructs", not bad, json.dumps(bad[:10]))
  res.extra["coq_files"] = closure
  if not ok:
    return False
  ok2, thms, out2 = props_assumptions(pid)
  res.obligation(f"print-assumptions:{pid}", ok2, out2[-2000:] if not ok2 else "")
  axioms = set()
  for t in thms:
    good = t["closed"] or all(a in ALLOWED_AXIOMS for a in t["axioms"])
    res.obligation("theorem:" + t["name"], good,
                   "closed" if t["closed"] else "axioms: " + ",".join(t["axioms"]))
    axioms.update(t["axioms"])
  res.extra["theorems"] = thms
  res.extra["axioms_reported"] = sorted(axioms)
  res.trusted_base += [
      "Coq 8.16.1 kernel (coqc, full .vo build; vm_compute used for closed computations; no native_compute)",
      "axioms per Print Assumptions: " + (", ".join(sorted(axioms)) if axioms else "none (closed under the global context)"),
  ]
  return ok and ok2


def rng(seed, *salt):
  return random.Random(f"{seed}:" + ":".join(map(str, salt)))


# ---------------------------------------------------------------------------------------
# Drift sentinel (DESIGN 2.2): a digest of the source each property is anchored in, compared with the digest the
# models were last validated against (harness/digests.json, committed; written only by harness/update_digests.py).
# A changed digest is NEVER a verdict: it only makes a quick run explore more (check.py runs extra passes with
# other seeds), so that a small edit to modelled code gets a deeper differential even in the quick tier.

def _norm_digest(path):
  data = open(path, "rb").read()
  if path.endswith(".py"):
    import ast  # pylint: disable=import-outside-toplevel
    try:
      tree = ast.parse(data)
      for n in ast.walk(tree):   # docstrings do not count
        body = getattr(n, "body", None)
        if isinstance(body, list) and body and isinstance(body[0], ast.Expr) and \
           isinstance(getattr(body[0], "value", None), ast.Constant) and isinstance(body[0].value.value, str):
          body[0].value.value = ""
      return sha(ast.dump(tree).encode())
    except SyntaxError:
      return sha(data)
  txt = data.decode("utf-8", "replace")
  if path.endswith((".cc", ".h")):
    txt = re.sub(r"/\*.*?\*/", "", txt, flags=re.S)
    txt = re.sub(r"//[^\n]*", "", txt)
  elif path.endswith((".pytd", ".pyi")):
    txt = re.sub(r"(?m)^\s*#[^\n]*$", "", txt)
  return sha(re.sub(r"\s+", " ", txt).encode())


def anchored_files(pid):
  for l in open(os.path.join(VERIF, "properties.jsonl")):
    p = json.loads(l)
    if p["id"] == pid:
      return p["anchors"]["files"]
  return []


def source_digests(pid, repo=None):
  repo = repo or REPO
  out = {}
  for rel in anchored_files(pid):
    full = os.path.join(repo, rel)
    if os.path.isdir(full):
      for root, _, files in sorted(os.walk(full)):
        for f in sorted(files):
          if f.endswith((".py", ".cc", ".h", ".pytd", ".pyi")) and not f.endswith("_test.py"):
            fp = os.path.join(root, f)
            out[os.path.relpath(fp, repo)] = _norm_digest(fp)
    elif os.path.exists(full):
      out[rel] = _norm_digest(full)
    else:
      out[rel] = "missing"
  return out


def source_drift(pid):
  """Files anchored by the property whose normalised digest differs from the validated one ([] = no drift;
  None = no baseline recorded)."""
  path = os.path.join(VERIF, "harness", "digests.json")
  if not os.path.exists(path):
    return None
  base = json.load(open(path)).get(pid)
  if base is None:
    return None
  cur = source_digests(pid)
  return sorted(f for f in set(base) | set(cur) if base.get(f) != cur.get(f))
