#!/usr/bin/env python3
"""Writes /verif/MANIFEST.json from the table below (single source of truth for the interface)."""
import json
import os

VERIF = os.path.dirname(os.path.dirname(os.path.abspath(__file__)))

# property -> {technique, text, note, ref}: kept in harness/claimed.json
CLAIMED = {k: (v["technique"], v["text"], v["note"], v["ref"])
           for k, v in json.load(open(os.path.join(VERIF, "harness", "claimed.json"))).items()}

PENDING_REASON = ("not yet built in this development (design in DESIGN.md §4); no check is registered, so nothing "
                  "is claimed for it")


def main():
  props = [json.loads(l)["id"] for l in open(os.path.join(VERIF, "properties.jsonl"))]
  checks = []
  for pid in props:
    if pid not in CLAIMED:
      continue
    tech, text, note, ref = CLAIMED[pid]
    checks.append({
        "property_id": pid,
        "quick_cmd": f"harness/check {pid} --tier quick",
        "thorough_cmd": f"harness/check {pid} --tier thorough",
        "evidence_file": f"/verif/evidence/{pid}.json",
        "replay_cmd_template": f"harness/check {pid} --replay {{path}}",
        "engine": "coq-proof+correspondence",
        "level_claimed": {"category": "proof", "text": text, "design_ref": ref},
        "level_note": note,
        "technique": tech,
    })
  na_path = os.path.join(VERIF, "harness", "not_applicable.json")
  na_over = json.load(open(na_path)) if os.path.exists(na_path) else {}
  manifest = {
      "version": 1,
      "setup_cmd": "harness/setup.sh",
      "hooks": {
          "guard": "GOOGLE_PYTYPE_VERIF",
          "enable": "no source hooks are needed: cfg.so is built out of tree from /repo/pytype/typegraph/*.cc by "
                    "harness/common.py and every observation point is a public Python API; the checks export "
                    "GOOGLE_PYTYPE_VERIF=1 for uniformity",
          "baseline_off_cmd": "cd /repo && /venv/bin/python -m pytest -ra -q -p no:cacheprovider --timeout=900 "
                              "--continue-on-collection-errors",
          "source_commits": [],
          "add_only": True,
      },
      "engines": [{
          "name": "coq-proof+correspondence",
          "path": "/verif/harness/check",
          "serves_properties": [c["property_id"] for c in checks],
          "kind_free_text": "Coq 8.16.1 theorems over executable Gallina models (coq/), tied to /repo on every run by "
                            "regenerated tables (coq/Generated) and/or a differential run of the model (vm_compute or "
                            "extracted OCaml) against the real implementation",
      }],
      "checks": checks,
      "notes": "See DESIGN.md. known_findings.json lists genuine defects (never written at run time).",
      "not_applicable": [{"property_id": p, "reason": na_over.get(p, PENDING_REASON)}
                         for p in props if p not in CLAIMED],
  }
  with open(os.path.join(VERIF, "MANIFEST.json"), "w") as f:
    json.dump(manifest, f, indent=1)
    f.write("\n")


if __name__ == "__main__":
  main()
