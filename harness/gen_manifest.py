#!/usr/bin/env python3
"""Writes /verif/MANIFEST.json from the table below (single source of truth for the interface)."""
import json
import os

VERIF = os.path.dirname(os.path.dirname(os.path.abspath(__file__)))

# property -> (technique, level text, level note, design ref)
CLAIMED = {
    "C09": (
        "Coq proof (induction over histories, bit-matrix refinement to reflexive-transitive closure) + "
        "extracted-model differential against cfg.so",
        "Theorem reach_correct (coq/Props/C09.v): for every well-formed history of NewCFGNode/ConnectTo of any "
        "length and any number of 64-bit buckets, is_reachable a b = true <-> a ->* b in the inserted edges; "
        "rows_wf rules out out-of-range reads. The Gallina model mirrors reachable.cc/typegraph.cc line by line "
        "and is tied to the current source by running the extracted model and the real cfg.Program (rebuilt from "
        "/repo) on the same histories, every answer compared, with a BFS oracle for the concrete replay.",
        "Trusted: Coq kernel; ExtrOcamlBasic extraction + 30-line OCaml driver; g++/STL; the harness generator "
        "and differ. Modelled rather than verified: signed 1l<<63 read as unsigned bit.",
        "DESIGN.md §4 C09"),
}

CLAIMED["C08"] = (
    "Coq proof (cache-coherence invariant over histories, table of invalidating primitives regenerated from the "
    "C++ source) + graph/invalidation correspondence + replica differential against cfg.so",
    "Theorems history_independent / repeat_stable (coq/Props/C08.v): for every history of API operations and "
    "queries and every solver memo obeying the memo laws, each query returns what a fresh solver on the current "
    "graph returns, provided every graph-changing primitive drops the solver - a closed boolean over the "
    "invalidation table regenerated from typegraph.cc/.h on every run (repo_table_safe, vm_compute). The model's "
    "graph and invalidation flags are compared with the real cfg.Program on generated histories (snapshots through "
    "the public API, invalidation observed via the solver-metrics counter) and at every query a replica rebuilt "
    "from scratch is asked the same question (the property's own oracle, yields the replay). PARTIAL: the memo "
    "laws are proved for a whole-query cache in front of any solver reading the solver-visible graph; for the real "
    "sub-state memo (provisional entries on cyclic graphs) they are assumed and exercised by the replica "
    "differential only.",
    "Trusted: Coq kernel; regex/brace-matching scan of the C++ source (fail-closed); harness generator, API-op to "
    "primitive decomposition (validated by snapshot comparison), g++/STL. Not modelled: MAX_VAR_SIZE collapse, "
    "pointer-hash collisions in the solver's state set.",
    "DESIGN.md §4 C08")

PENDING_REASON = ("not yet built in this development (design in DESIGN.md §4); no check is registered, so nothing "
                  "is claimed for it")


def main():
  props = [json.loads(l)["id"] for l in open(os.path.join(VERIF, "properties.jsonl"))]
  checks = []
  for pid in props:
    if pid not in CLAIMED:
      continue
    tech, text, note, ref = CLAIMED[pid]
    checks.append({
        "property_id": pid,
        "quick_cmd": f"harness/check {pid} --tier quick",
        "thorough_cmd": f"harness/check {pid} --tier thorough",
        "evidence_file": f"/verif/evidence/{pid}.json",
        "replay_cmd_template": f"harness/check {pid} --replay {{path}}",
        "engine": "coq-proof+correspondence",
        "level_claimed": {"category": "proof", "text": text, "design_ref": ref},
        "level_note": note,
        "technique": tech,
    })
  na_path = os.path.join(VERIF, "harness", "not_applicable.json")
  na_over = json.load(open(na_path)) if os.path.exists(na_path) else {}
  manifest = {
      "version": 1,
      "setup_cmd": "harness/setup.sh",
      "hooks": {
          "guard": "GOOGLE_PYTYPE_VERIF",
          "enable": "no source hooks are needed: cfg.so is built out of tree from /repo/pytype/typegraph/*.cc by "
                    "harness/common.py and every observation point is a public Python API; the checks export "
                    "GOOGLE_PYTYPE_VERIF=1 for uniformity",
          "baseline_off_cmd": "cd /repo && /venv/bin/python -m pytest -ra -q -p no:cacheprovider --timeout=900 "
                              "--continue-on-collection-errors",
          "source_commits": [],
          "add_only": True,
      },
      "engines": [{
          "name": "coq-proof+correspondence",
          "path": "/verif/harness/check",
          "serves_properties": [c["property_id"] for c in checks],
          "kind_free_text": "Coq 8.16.1 theorems over executable Gallina models (coq/), tied to /repo on every run by "
                            "regenerated tables (coq/Generated) and/or a differential run of the model (vm_compute or "
                            "extracted OCaml) against the real implementation",
      }],
      "checks": checks,
      "notes": "See DESIGN.md. known_findings.json lists genuine defects (never written at run time).",
      "not_applicable": [{"property_id": p, "reason": na_over.get(p, PENDING_REASON)}
                         for p in props if p not in CLAIMED],
  }
  with open(os.path.join(VERIF, "MANIFEST.json"), "w") as f:
    json.dump(manifest, f, indent=1)
    f.write("\n")


if __name__ == "__main__":
  main()
