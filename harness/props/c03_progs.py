"""C03 — generator of Python programs whose statements span several lines in many shapes (multi-line and
nested calls, containers, comprehensions, with/if/for headers, decorators, multi-line signatures, implicit
returns, try/except, classes, lambdas, subscripts, comparisons) and whose sub-expressions provoke pytype
errors of several classes.  No stdlib imports except typing (typeshed is absent in the sandbox)."""

PRELUDE = '''from typing import Any
def f_int(x: int) -> int: return x
def two(a, b): return a
def rng(n): return [1, 2]
class CM:
  def __enter__(self): return self
  def __exit__(self, *a): return None
def cm(a, b): return CM()
def deco(a): return lambda f: f
class Obj:
  def m(self, a): return self
obj = Obj(); lst = [1, 2]
'''

# (expression, error class it provokes or None)
ATOMS = [
    ('f_int("s")', "wrong-arg-types"),
    ("f_int()", "missing-parameter"),
    ("f_int(1, 2)", "wrong-arg-count"),
    ("f_int(1, zz=2)", "wrong-keyword-args"),
    ("(1).foo", "attribute-error"),
    ("undefined_nm", "name-error"),
    ('(1 + "a")', "unsupported-operands"),
    ("lst()", "not-callable"),
    ("lst.nope", "attribute-error"),
    ("f_int(1)", None),
    ("1", None),
    ("obj", None),
]
BAD_ATOMS = [a for a in ATOMS if a[1]]


def atom(r, p_bad=0.6):
  a = r.choice(BAD_ATOMS) if r.random() < p_bad else r.choice(ATOMS)
  e = a[0]
  k = r.random()
  if k < 0.15 and e.endswith(")") and "(" in e and not e.startswith("("):
    # split the call itself over two lines
    i = e.index("(")
    return e[:i + 1] + "\n    " + e[i + 1:]
  return e


def ind(text, n):
  pad = " " * n
  return "\n".join(pad + l if l else l for l in text.split("\n"))


class Gen:
  def __init__(self, r):
    self.r = r
    self.n = 0

  def name(self, p="v"):
    self.n += 1
    return f"{p}{self.n}"

  def simple(self, in_func):
    r = self.r
    A, B, C = atom(r), atom(r), atom(r)
    v = self.name()
    forms = [
        f"{v} = {A}",
        f"{v} = ({A},\n     {B})",
        f"{v} = [{A},\n     {B},\n     {C}]",
        f"{v} = two({A},\n        two({B},\n            {C}))",
        f'{v} = {{"a": {A},\n     "b": {B}}}',
        f"{v} = [{A}\n     for i in\n     rng({B})]",
        f"two({A},\n    {B})",
        f"{v}: int = two({A},\n             {B})",
        f'{v}: int = (\n    "s")',
        f"{v} = (lambda q:\n    {A})",
        f"{v} = (obj.m({A})\n     .m({B}))",
        f"{v} = lst[\n    {A}]",
        f"{v} = ({A} <\n     {B})",
        f"{v} = two(\n    {A},\n    {B}\n)",
        f"{v} = {A}; {self.name()} = {B}",
        f"assert two({A},\n           {B})",
        f"del lst[\n    {A}]",
        f'{v} = f"{{two(1, 2)}}" + str(\n    {A})',
    ]
    if in_func:
      forms += [f"return two({A},\n           {B})", f"return {A}", f'return (\n    "s")']
    return r.choice(forms)

  def block(self, depth, in_func, n=None):
    r = self.r
    n = n or r.randint(1, 3)
    return "\n".join(self.stmt(depth, in_func) for _ in range(n))

  def stmt(self, depth, in_func):
    r = self.r
    if depth <= 0 or r.random() < 0.5:
      return self.simple(in_func)
    A, B = atom(r), atom(r)
    k = r.randrange(8)
    body = ind(self.block(depth - 1, in_func), 2)
    if k == 0:
      return f"with cm({A},\n        {B}) as {self.name('w')}:\n{body}"
    if k == 1:
      els = ind(self.block(depth - 1, in_func, 1), 2)
      return f"if two({A},\n       {B}):\n{body}\nelse:\n{els}"
    if k == 2:
      return f"for {self.name('i')} in rng(\n    {A}):\n{body}"
    if k == 3:
      h = ind(self.block(depth - 1, in_func, 1), 2)
      return f"try:\n{body}\nexcept (ValueError,\n        TypeError):\n{h}"
    if k == 4:
      return f"while two({A},\n          {B}):\n{body}\n  break"
    if k == 5:
      return self.funcdef(depth - 1)
    if k == 6:
      return self.classdef(depth - 1)
    return f"with cm({A}, 1) as {self.name('w')}, cm(\n    {B}, 2) as {self.name('w')}:\n{body}"

  def funcdef(self, depth):
    r = self.r
    f = self.name("fn")
    A, B, C = atom(r), atom(r), atom(r)
    decos = r.choice(["", "", f"@deco({A})\n", f"@deco({A})\n@deco(\n    {B})\n", f"@deco(two({A},\n          {B}))\n"])
    ret = r.choice([" -> int", " -> int", " -> str", ""])
    sig = r.choice([f"def {f}(a, b=1){ret}:", f"def {f}(a,\n        b={C}){ret}:", f"def {f}(\n    a,\n    b=1\n){ret}:",
                    f"def {f}(a: int,\n        b: str = 1){ret}:"])
    body = self.block(depth, True)
    style = r.randrange(4)
    if style == 0:       # explicit final return
      body += "\nreturn 1"
    elif style == 1:     # implicit return after a conditional explicit one
      body = "if a:\n  return 1\n" + body
    elif style == 2:     # return inside with: block_returns
      body = f"with cm(1, 2) as {self.name('w')}:\n  if a:\n    return 1\n" + body
    return decos + sig + "\n" + ind(body, 2)

  def classdef(self, depth):
    r = self.r
    c = self.name("K")
    A = atom(r)
    decos = r.choice(["", "", f"@deco({A})\n"])
    hdr = r.choice([f"class {c}:", f"class {c}(Obj):", f"class {c}(Obj,\n         metaclass=type):"])
    body = [self.simple(False)]
    for _ in range(r.randint(0, 2)):
      body.append(self.funcdef(depth).replace("(a", "(self, a", 1))
    return decos + hdr + "\n" + ind("\n".join(body), 2)

  def module(self, size):
    parts = [PRELUDE.rstrip("\n")]
    for _ in range(size):
      parts.append(self.stmt(2, False))
    return "\n".join(parts) + "\n"


def gen_program(r, size=None):
  g = Gen(r)
  return g.module(size or r.randint(1, 4))


# ----------------------------------------------------------------------------------------------------
# directive placements (text edits)

def append_to_line(src, line, text):
  """Append `text` (a comment) to 1-based `line`."""
  ls = src.split("\n")
  ls[line - 1] = ls[line - 1] + "  " + text
  return "\n".join(ls)


def insert_line_before(src, line, text):
  """Insert a stand-alone comment line before 1-based `line` (same indentation as that line)."""
  ls = src.split("\n")
  if line - 1 < len(ls):
    tgt = ls[line - 1]
    pad = tgt[:len(tgt) - len(tgt.lstrip())]
  else:
    pad = ""
  ls.insert(line - 1, pad + text)
  return "\n".join(ls)


def appendable_lines(src):
  """1-based lines to which a trailing comment can be appended without changing the token stream other than
  by that comment: not inside a multi-line string, not ending in a backslash, not blank."""
  import io, tokenize
  bad = set()
  try:
    for tok in tokenize.generate_tokens(io.StringIO(src).readline):
      if tok.type == tokenize.STRING or tok.type == getattr(tokenize, "FSTRING_MIDDLE", -1):
        if tok.start[0] != tok.end[0]:
          bad.update(range(tok.start[0], tok.end[0]))   # all but the last line of the string
  except (tokenize.TokenError, IndentationError):
    return []
  out = []
  for i, l in enumerate(src.split("\n"), 1):
    if not l.strip() or l.strip().startswith("#") or l.rstrip().endswith("\\") or i in bad:
      continue   # blank, comment-only (a directive there would be stand-alone), continuation, inside a string
    out.append(i)
  return out


# ----------------------------------------------------------------------------------------------------
# One small self-contained program per error class that pytype can report without stdlib imports
# (typeshed is absent: `enum`, `abc`, `collections`, `typing` as a module object are not importable; `from typing
# import X` is).  Several of them are reported on a line that is NOT the current opcode's line (explicit `line=`
# in the error log, fake stacks, def-line annotations): incomplete-match, redundant-/invalid-function-type-comment,
# ignored-type-comment, signature-mismatch, invalid-annotation, bad-yield-annotation, override-error.
# Each entry: name -> source.  "|ML" variants spread the statement over several lines.

SPECIALS = {
    "incomplete-match": 'from typing import Literal\ndef mfn(x: Literal["a", "b", "c"]):\n  match x:\n    case "a":\n      return 1\n    case "b":\n      return 2\n',
    "incomplete-match|fallthrough": 'from typing import Literal\ndef mfn(x: Literal["a", "b", "c"]):\n  match x:\n    case "a":\n      y = 1\n    case "b":\n      y = 2\n  print(y)\n',
    "incomplete-match|ML": 'from typing import Literal\ndef mfn(x: Literal["a", "b", "c"]):\n  match (x\n         ):\n    case ("a" |\n          "b"):\n      return 1\n',
    "incomplete-match|nested": 'from typing import Literal\ndef mn(x: Literal["a", "b"], c):\n  if c:\n    match x:\n      case "a":\n        return 1\n  return 2\n',
    "redundant-match": 'from typing import Literal\ndef mfn(x: Literal["a", "b"]):\n  match x:\n    case "a":\n      return 1\n    case "a":\n      return 3\n    case "b":\n      return 2\n',
    "match-error": 'class Pt:\n  __match_args__ = ("x",)\n  def __init__(self, x): self.x = x\ndef mfn(p: Pt):\n  match p:\n    case Pt(1, 2):\n      return 1\n    case Pt(1,\n            3):\n      return 2\n',
    "redundant-function-type-comment": 'def rf(x: int) -> int:  # a comment\n  # type: (int) -> int\n  return x\n',
    "invalid-function-type-comment": 'def rf(x):\n  # type: (int, int) -> int\n  return x\ndef rg(x,\n       y):\n  # type: (abc -> int\n  return x\n',
    "ignored-type-comment": 'x = 1\n# type: int\ny = 2\ndef two(a, b): return a\nz = two(1,  # type: int\n        2)\n',
    "invalid-annotation": 'def ia(x: 1): pass\nv: list[int, int] = []\ndef ib(x: int,\n       y: 2) -> 3:\n  pass\n',
    "invalid-annotation|typevar": 'from typing import TypeVar\nT = TypeVar("T")\ndef ut() -> T: pass\nxx: T = 1\n',
    "bad-unpacking": 'a, b = (1, 2, 3)\nc, d = (1,\n        2, 3)\n',
    "not-writable": 'class Sl:\n  __slots__ = ("a",)\ns = Sl()\ns.zz = 1\n',
    "invalid-typevar": 'from typing import TypeVar\nT = TypeVar("S")\nU = TypeVar(\n    "V")\n',
    "duplicate-keyword-argument": 'def two(a, b): return a\nq = two(1, 2, a=3)\nr = two(1, 2,\n        a=3)\n',
    "base-class-error": 'class Kb(1): pass\nclass Kc(object,\n         2): pass\n',
    "mro-error": 'class A: pass\nclass B(A): pass\nclass C(A, B): pass\n',
    "bad-slots": 'class Bs:\n  __slots__ = (1,)\n',
    "final-error": 'from typing import Final\nfx: Final = 1\nfx = 2\n',
    "typed-dict": 'from typing import TypedDict\nclass TD(TypedDict):\n  a: int\ntd = TD(a="s")\ntd2: TD = {"b": 1}\n',
    "signature-mismatch": 'class A:\n  def f(self, x): return x\nclass B(A):\n  def f(self): return 1\nclass C(A):\n  def f(self,\n        x, y): return 1\n',
    "bad-yield-annotation": 'def gy() -> int:\n  yield 1\ndef gz(a,\n       b) -> int:\n  yield 1\n',
    "container-type-mismatch": 'l: list[int] = []\nl.append("s")\nl.append(\n    "t")\n',
    "reveal-type": 'def two(a, b): return a\nx = 1\nreveal_type(x)\nassert_type(x, str)\nreveal_type(two(1,\n                2))\nassert_type(two(1,\n                2), str)\n',
    "invalid-super-call": 'def sf():\n  return super().foo\n',
    "override-error": 'from typing import override\nclass A:\n  def f(self): pass\nclass B(A):\n  @override\n  def g(self): pass\n',
    "bad-function-defaults": 'def bd(a): pass\nbd.__defaults__ = 1\n',
    "bad-return-type": 'def two(a, b): return a\ndef br() -> int:\n  return two("s",\n             1)\ndef bs(c) -> int:\n  if c:\n    return "s"\n  return 1\n',
    "annotation-type-mismatch": 'def ad(x: int = "s",\n       y: str = 1): pass\nclass Ca:\n  x: int = "s"\nv: int = (\n    "s")\n',
    "missing-parameter|super": 'class Wi:\n  def __init__(self, a): pass\nclass Wj(Wi):\n  def __init__(self):\n    super().__init__()\n',
    "wrong-arg-types|namedtuple": 'from typing import NamedTuple\nclass N2(NamedTuple):\n  a: int\nn = N2("s")\nm = N2(\n    "s")\n',
    "wrong-arg-types|callable": 'from typing import Callable, Protocol\ndef cb(f: Callable[[int], str]): pass\ncb(lambda: 1)\nclass Pr(Protocol):\n  def f(self) -> int: ...\ndef up(p: Pr): pass\nup(1)\nq = isinstance(1, 2)\n',
    "wrong-arg-count|builtin": 'q = (1).bit_length(2)\nr = (1).bit_length(\n    2)\n',
    "attribute-error|protocols": 'with 1 as w:\n  pass\nfor i in 1:\n  pass\ndk = {"a": 1}\nq = dk["a"].nope\n',
    "attribute-error|optional": 'def na(c):\n  x = None\n  if c:\n    x = 1\n  return x.real\nclass Cm:\n  def m(self) -> str:\n    return self.nope\n',
    "wrong-keyword-args|star": 'def sa(a): pass\nsa(*[1, 2], **{"z": 1})\nsa(1,\n   z=2)\n',
    "name-error|late": 'def gl():\n  return later_name\ndef gm(x: int,\n       y: "Undefined1") -> "Undefined2":\n  return x\n',
    "duplicate-keyword-argument|attr": 'import attr\n@attr.s\nclass At:\n  x = attr.ib(default=1, factory=list)\n',
    "unsupported-operands|index": 'lst = [1]\nq = lst["a"]\nr = 1 + "a"\ns = (1 <\n     "a")\n',
}
